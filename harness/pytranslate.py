"""Python → Lean translator for a small imperative subset (the *translator tie*).

For a handful of pure functions of rtflite whose logic carries a property (the page-assignment loop, the
placement rule, the non-ASCII escaper, …) the Lean definition is **regenerated from the function's source on
every run**: `generate()` parses the function with `ast`, translates it statement by statement into a
state-passing Lean term and writes `lean/Generated/Py<Name>.lean`.  `lean/Props/C..py.lean` then proves that the
generated definition equals the hand-written model the property theorems are about, for all inputs.  A change of
the code inside the subset changes the generated definition and breaks that proof (or leaves it intact when the
change is an equivalent rewrite the proof script can see through); a change that leaves the subset makes the
function untranslatable, which is recorded (`status.json`) and leaves the correspondence check as the only tie.

Names.  The generated definition does not depend on the names of locals: state-record fields are `v0, v1, …` in the
order of the first binding of the local in the function body (comprehension accumulators included), loop variables
`x1, x2, …` in the order of the loops, match binders `b1, …`, temporaries `t1, …`; a local that is just another name of
an input path (`rows = meta_df.to_dicts()`, configured by the path, not by the name) is replaced by the input.
Parameters keep the names of the `TARGETS` configuration.  The source text and the original names go to the side file
`Generated/Py<Name>.source.txt`, never into the `.lean` file — so a pure renaming (and anything `ast` does not see:
comments, blank lines, parenthesisation; `x += e` is `x = x + e`) leaves `Py<Name>.lean` byte-identical and nothing is
rebuilt.  Bridge proofs refer to locals as `s.v0`, …; the side file says which is which.

Subset (everything else → `Untranslatable`):
  statements   x = e | x += e | x -= e | if/elif/else | for v in e | for i, v in enumerate(e) | continue (last
               statement of an `if` body directly inside a loop body) | return e (function level; a branch all of whose
               paths return makes what follows the else branch) | d[k] = e on a configured record list (an output
               column) | x = [] and x.append(e) / x.extend(E for v in xs) on a local list | return / x = [E for v in xs if c] and
               [y := E for v in xs] (list comprehension, one generator) | docstrings
               with `raises=True` also: raise F(msg) | try: … except E [as e]: raise F(msg) [from e] (last statement)
  expressions  int / bool / str constants, names, + - * // % (// and % by a positive literal), >> k, & (2^k - 1),
               and / or on booleans (value context), not, comparisons, `x is None`, `x is not None`,
               `a if c else b`, max, min, len, ord, list displays, f-strings of str / int pieces,
               `{...}.get(k, default)` on a dict display, configured attribute paths, record fields (`r["f"]`,
               `obj.f`), `isinstance(x, list)` decided by the static type of `x`, float constants and + - * on
               floats (as `Rat`), sum(list), None (where `T | None` is returned), int(e), a / k (k a non-zero number
               in the source), `D.keys()`, `obj.m(args)` on configured methods
               with `raises=True` also: a % b (b not a literal), a / b on floats, xs[i]
  conditions   (`if` / conditional-expression tests, operand of `not`): truthiness BY STATIC TYPE, `and` / `or` / `not`
               of conditions, narrowing of `Option` paths
  types        Int (Python int, unbounded), Bool, Str = List Nat (code points), Rat (Python float, EXACT), List T,
               Option T (a value that may be `None`), configured records (objects of configured classes), configured
               type parameters (`type_params`: values the function only moves around)

Python semantics relied on: ints are unbounded (Lean `Int`); `//` and `%` by a positive literal are floor division
and its remainder (= Lean's `/` and `%` on `Int` for a positive divisor); `x >> k` = ⌊x / 2^k⌋ and `x & (2^k-1)` =
x mod 2^k for every int; every variable is assigned before it is read on every path (checked), so the defaults of the
state record are never observed.

Truthiness.  In VALUE context `a and b` / `a or b` return one of their operands, so they are only accepted on
expressions typed Bool.  In CONDITION context only `bool(e)` matters, and it is determined by the static type of `e`:
`bool(b) = b` for a bool; `bool(i) = (i != 0)` for an int; `bool(s) = (len(s) > 0)` for a str / list / any sequence;
`bool(None) = False`; `bool(obj) = True` for an instance of a class that defines neither `__bool__` nor `__len__`
(configured record classes are imported and checked for that on every run, `classes=` in the configuration, together
with the declared type of every field the translation reads); an `Option T` is `None` or a `T`.  `bool(a and b) =
bool(a) and bool(b)`, `bool(a or b) = bool(a) or bool(b)`, `bool(not a) = not bool(a)`; `b` is evaluated only when
needed, which cannot be observed because every translated expression is total and free of effects — with ONE
exception, attribute access on `None`, excluded by narrowing:

Narrowing.  A *path* is an expression whose value cannot change during the call: a configured input path, a parameter
or loop variable (assignment to one is rejected), a field of a path.  A field `P.f` of a path `P : Option T` is only
translatable where `P` is known not to be `None`: in `b` of `P and b` / `P is not None and b` (→ `match P with | none
=> false | some v => …b[P := v]`), in the body of `if P:` / `if P is not None:`, in the `else` branch and — when the body
ends in `continue` / `return` — in the statements after `if not P:` / `if P is None:` (→ a `match` whose `some v` arm
is the narrowed branch).  `if P:` on a list path whose body reads `P[0]` becomes `match P with | [] => … | v :: _ => …`
with `P[0] := v` (no other subscript by a number is translated, so `IndexError` cannot arise).  Narrowing facts are
dropped at loop boundaries.

Exceptions (`raises=True`).  The function is translated into `Except Generated.Py.Exc`, statement sequences become
`do` blocks, loops `List.foldlM`.  An exception is its class only (`IndexError`, `KeyError`, `ZeroDivisionError`,
`ValueError`, `TypeError`, `AttributeError`: leaves of the hierarchy, so `except E` catches exactly `Exc.E`; messages,
`__cause__` and tracebacks are not modelled, and the arguments of a raised exception must be constants or f-strings
over translatable, non-raising expressions or the caught exception).  Operations that may raise are bound to
temporaries `let tN ← …` IN PYTHON'S EVALUATION ORDER (operands left to right, the container of a subscript before its
index, an inner subscript completely before the outer index) in front of the statement they occur in; one occurring
where evaluation is conditional (right operands of `and` / `or`, branches of a conditional expression) is rejected.
  `a % b`   ints: `ZeroDivisionError` for `b = 0`, otherwise the remainder of floor division (`Int.fmod`, sign of `b`)
  `a / b`   floats: `ZeroDivisionError` for `b = 0`, otherwise the quotient
  `xs[i]`   list: for `-len ≤ i < 0` the element `len + i`, outside `-len ≤ i < len` `IndexError`
  `try`     handlers are tried in order, an exception none of them names propagates, a normal result passes through
Without `raises=True` such operations are not translated at all.

Floats are translated as EXACT rationals (`Rat`): `+ - * /` and `sum` (which adds from the left, starting from the int
0) are the exact operations; rounding, overflow, `inf`, `nan` and the int/float distinction of a result are not
represented.  This is the float caveat of the trusted base (DESIGN §6) and is repeated in the header of every generated
file that uses it.

List comprehensions.  `[E for v in xs if c]` is the loop `lc = []; for v in xs: if c: lc.append(E)`; the loop variable
is local to the comprehension; a walrus `[y := E for …]` assigns the enclosing function's variable `y` (PEP 572) and
appends its new value.  `x = []` gets its element type from the first `append`.

More constructs.  `bool(e)` is the condition `e`.  A value-context `a and b` / `a or b` over non-bool operands returns
one of the operands; it is translated to its truthiness only, with the type `Truthy`, which no construct but a
condition accepts (a parameter may be declared `Truthy` too: "only `bool(arg)` is read").  `getattr(x, "f", d)` is `x.f`
for an object of a configured class that declares `f`, and `d` for `None` (NoneType has no such attribute).  A local
assigned `None` on one path and a `T` on another is an `Option T` (types are settled in a first pass).  `P[k] = v` on a
configured dict of a caller's object (`dict_outputs`) is recorded in a list of writes; with `implicit_return` a bare
`return` / falling off the end returns the configured view of the final state.  `calls=` maps a method call to another
translated function (`depends=`: that function must itself translate).  `fragment=(a, b)` translates the consecutive
top-level statements from the first one containing `a` up to, not including, the first later one containing `b`.

Still more.  A parameter the function assigns to is a local initialised with the argument.  Locals are narrowed like
paths (`if x is None: return …` makes `x` a `T` afterwards); what is known about a local is dropped when it is assigned,
after an `if` one of whose branches assigns it, and after a loop whose body assigns it.  `fn_params` / `calls` with the
raises flag / `dicts`: helper methods and dicts of the object enter as function parameters (`κ → Option ν` for a dict,
`D[k]` raises `KeyError`); `sorted(xs, key=lambda x: E)` computes all keys first, in order (the first failure is raised),
then sorts stably by key (insertion before the first element whose key is not smaller); `xs.index(v)` is the first
position or `ValueError`; a handler may `return`; `except E` also catches the configured subclasses of `E`
(`ColorValidationError ⊂ ValueError`, checked against the imported class).

Emitters.  `k in D` / `k not in D` on a configured dict; `sep.join(xs)` on a list of strings; `obj.m()` on an object
of a configured record class whose method `m` is itself a translated function (`methods=`: the object's fields are the
callee's arguments; `depends=` makes this function untranslatable when the callee is).

Rows and numbers.  `int(e)` is `e` for an int and truncation toward zero for a float (`Generated.Py.pyInt` on the
exact rational).  `a / b` is true division for ints as well (the result is a float, an exact `Rat` here; the float caveat
applies: CPython rounds the quotient of two ints correctly, which is exact for the magnitudes of twips and points); a
divisor that is a non-zero number IN THE SOURCE (an int / float literal, or an int constant of a configured class —
`consts=`: path → (module, class, attribute), read off the imported class when the file is generated and emitted as a
literal, so a change of the constant changes the generated definition) cannot raise and is not bound to a temporary.
A list display `[e, …]` has the type of its elements (all of one type), evaluated left to right.
`xs.extend(E for v in it [if c])` and `xs.extend([E for v in it [if c]])` are the loop `for v in it: xs.append(E)`
(`extend` consumes the items one by one; the list is a local, so a partly extended list is never observed when an item
raises).  `D.keys()` on a configured dict is a parameter (`dict_keys=`: the keys in insertion order, `List κ`).
`obj.m(a, k=b)`: a method call with explicit arguments — `methods=` gives the names and types of the method's
parameters after `self`; positional arguments fill them in order, keyword arguments by name, every parameter must be
given exactly once (defaults are not known to the translator), the receiver is evaluated first, then the arguments as
written; the receiver enters the callee as its fields (a translated callee) or whole (`fields` None: a helper that is a
parameter of the translation).  `records_import=` makes a record type an abbreviation of the callee's record type.

Text formats.  `sorted(set(s))` / `sorted(list(set(s)))` on a str `s` is translated AS A WHOLE (`set` alone has no
order): the distinct characters of `s` in increasing code-point order (`Generated.Py.pySortedSet`), a str to loop over.
A character (loop variable over a str) used as the key of a str-keyed dict is the one-character str.  An `if` whose
else-branch always leaves (`return` / `raise` on every path) while its body does not: the statements after the `if`
continue the body.

Pages.  A function-level `from M import N` is skipped when configured (`local_imports=`).  `x = S.join(E for …)` /
`return S.join(E for …)` (the whole right-hand side, S a constant): the items are produced first, in order, then joined.
`for a, b in zip(xs, ys)` runs over the pairs of the common prefix; with `strict=True` a `ValueError` follows the last
pair when the lengths differ (that is when `zip` finds one argument exhausted and the other not).  `x == v` / `x != v`
for `x : T | None` and `v : T`: `None` equals no `T`.

`isinstance(x, list)` is decided statically: `x : List _` is a Python `list` → True; an int, bool, str, `None`, or a
record object is not → False.  An `if` (or `if not`) on such a test is translated as its live branch only — the other
branch is dead for every input of the declared type and need not be typeable.  A union-typed input (`rtf_column_header`:
flat list or list of lists) is handled by translating the function once per alternative (two `TARGETS` entries).
"""
from __future__ import annotations

import ast
import json
import textwrap
from pathlib import Path

def repo_src() -> Path:
    """the source tree of the rtflite that the checks import (= /repo/src/rtflite unless PYTHONPATH points a run at a
    scratch copy, as tools/seedcheck.py does)"""
    import importlib.util

    spec = importlib.util.find_spec("rtflite")
    return Path(spec.origin).parent

OUT = Path(__file__).resolve().parent.parent / "lean" / "Generated"


class Untranslatable(Exception):
    pass


# ----------------------------------------------------------------------------------------- configuration

def _additional_rows(name: str, header_type: str, what: str) -> dict:
    """`calculate_additional_rows_per_page` reads four facts of the (per-section) document.  `rtf_column_header` has a
    union type — a flat list `[header | None, …]` or a nested list `[[header | None, …], …]` — and the function tells
    them apart with `isinstance(document.rtf_column_header[0], list)`; it is translated once per alternative, the
    `isinstance` being decided by the declared element type (DESIGN 4.1a)."""
    return dict(
        name=name, file="services/document_service.py", cls="RTFDocumentService",
        func="calculate_additional_rows_per_page",
        doc="RTFDocumentService.calculate_additional_rows_per_page: the rows reserved on every page, for a document "
            f"whose `rtf_column_header` is {what}.\n"
            "Inputs (the only things the function reads): `document.rtf_body.subline_by` (`Sequence[str] | None`),\n"
            "`document.rtf_column_header`, `document.rtf_footnote`, `document.rtf_source` (`None` or a component whose\n"
            "`text` is `Sequence[str] | None`; a `str` is a sequence of its characters, only its emptiness is read).",
        records={"Comp": [("text", "Option (List Str)")]},
        # the Python classes the record stands for: `text` must be declared `Sequence[str] | None` and instances must
        # be truthy (no `__bool__` / `__len__`) — checked against the imported classes on every run
        classes=[("rtflite.input", c, {"text": "collections.abc.Sequence[str] | None"})
                 for c in ("RTFColumnHeader", "RTFFootnote", "RTFSource")],
        params=[("subline_by", "Option (List Str)"), ("rtf_column_header", header_type),
                ("rtf_footnote", "Option Comp"), ("rtf_source", "Option Comp")],
        skip_params=["self", "document"],
        env={"document.rtf_body.subline_by": ("subline_by", "Option (List Str)"),
             "document.rtf_column_header": ("rtf_column_header", header_type),
             "document.rtf_footnote": ("rtf_footnote", "Option Comp"),
             "document.rtf_source": ("rtf_source", "Option Comp")},
        alias={}, outputs={}, returns={}, ret_type="Int",
    )


# the pydantic classes of `row.py` as records (declared field types are checked against the imported classes)
_BORDER_FIELDS = [("style", "Str"), ("width", "Int"), ("color", "Option Str")]
_BORDER_CLASS = ("rtflite.row", "Border", {"style": "<class 'str'>", "width": "<class 'int'>", "color": "str | None"})
_CELL_CLASS = ("rtflite.row", "Cell", {"text": "<class 'rtflite.row.TextContent'>", "width": "<class 'float'>",
                                       "vertical_justification": "str | None",
                                       "border_top": "rtflite.row.Border | None",
                                       "border_right": "rtflite.row.Border | None",
                                       "border_bottom": "rtflite.row.Border | None",
                                       "border_left": "rtflite.row.Border | None"})
_TEXT_FIELDS = [("text", "Str"), ("font", "Int"), ("size", "Rat"), ("format", "Option Str"), ("color", "Option Str"),
                ("background_color", "Option Str"), ("justification", "Str"), ("indent_first", "Int"),
                ("indent_left", "Int"), ("indent_right", "Int"), ("space", "Int"), ("space_before", "Int"),
                ("space_after", "Int"), ("convert", "Bool"), ("hyphenation", "Bool")]
_PY_ANN = {"Str": "<class 'str'>", "Int": "<class 'int'>", "Rat": "<class 'float'>", "Bool": "<class 'bool'>",
           "Option Str": "str | None"}
_TEXT_CLASS = ("rtflite.row", "TextContent", {f: _PY_ANN[t] for f, t in _TEXT_FIELDS})

# `RTFPage` declares width, height, margin as optional; its `__init__` fills them in (`_set_default`), and the page
# encoders are translated for such a page: a float width / height and a sequence of float margins
_PAGE_CLASS = ("rtflite.input", "RTFPage", {"width": "float | None", "height": "float | None",
                                            "margin": "collections.abc.Sequence[float] | None",
                                            "orientation": "str | None"})
_PAGE_DOMAIN = ("DOMAIN: `page_config` is a page after `RTFPage.__init__` (`_set_default` has replaced a `None` width,\n"
                "height or margin): `width`, `height` floats (EXACT rationals here), `margin` a sequence of floats.")

TARGETS = [
    dict(
        name="AssignPages", file="pagination/core.py", cls="PageBreakCalculator", func="_assign_pages",
        doc="PageBreakCalculator._assign_pages: the page number of every row",
        records={}, records_from={"Row": ("pagination/core.py", "RowMetadata")},   # fields read off the class
        params=[("nrow", "Int"), ("additional_rows_per_page", "Int"), ("new_page", "Bool"), ("rows", "List Row")],
        skip_params=["self", "meta_df"],
        # source expressions (ast.unparse form) that denote inputs
        env={"self.pagination.nrow": ("nrow", "Int"), "meta_df.height": ("(Int.ofNat rows.length)", "Int"),
             "meta_df.to_dicts()": ("rows", "List Row")},
        alias={"meta_df.to_dicts()"},           # `rows = meta_df.to_dicts()` binds a local name to an input
        outputs={"page": "Int"},                # row["page"] = e  → appended to the output column `page`
        returns={"meta_df": "([] : List Int)", "pl.DataFrame(meta_df.to_dicts())": "s.out_page"},
        ret_type="List Int",
    ),
    dict(
        name="ShouldShow", file="pagination/processor.py", cls="PageFeatureProcessor", func="_should_show_element",
        doc="PageFeatureProcessor._should_show_element: is a 'first' / 'last' / 'all' component shown on this page",
        records={},
        params=[("element_location", "Str"), ("is_first_page", "Bool"), ("is_last_page", "Bool")],
        skip_params=["self", "page"],
        env={"page.is_first_page": ("is_first_page", "Bool"), "page.is_last_page": ("is_last_page", "Bool")},
        alias={}, outputs={}, returns={}, ret_type="Bool",
    ),
    dict(
        name="ShouldShowRenderer", file="encoding/renderer.py", cls="PageRenderer", func="_should_show",
        doc="PageRenderer._should_show: the renderer's own copy of the placement rule",
        records={},
        params=[("location", "Str"), ("is_first_page", "Bool"), ("is_last_page", "Bool")],
        skip_params=["self", "page"],
        env={"page.is_first_page": ("is_first_page", "Bool"), "page.is_last_page": ("is_last_page", "Bool")},
        alias={}, outputs={}, returns={}, ret_type="Bool",
    ),
    dict(
        name="EscapeNonAscii", file="row.py", cls="TextContent", func="_escape_non_ascii",
        doc="TextContent._escape_non_ascii: 7-bit characters as they are, everything else as \\uc1\\uN* per UTF-16 unit",
        records={}, params=[("text", "Str")], skip_params=[], env={}, alias={}, outputs={}, returns={},
        ret_type="Str",
    ),
    dict(
        name="Iloc", file="attributes.py", cls="BroadcastValue", func="iloc", raises=True, type_params=["Elt"],
        doc="BroadcastValue.iloc: the binding rule of every cell attribute, `value[r % len(value)][c % len(value[0])]`.\n"
            "`self.value` is `None` or a Python list of Python lists (`_to_nested_list` has been applied by the\n"
            "field validator) of elements of any type `Elt`; the indices are ints (any sign).",
        records={}, params=[("value", "Option (List (List Elt))"), ("row_index", "Int"), ("column_index", "Int")],
        skip_params=["self"], env={"self.value": ("value", "Option (List (List Elt))")},
        alias={}, outputs={}, returns={}, ret_type="Option Elt",
    ),
    dict(
        name="ColWidths", file="row.py", cls="Utils", func="_col_widths", raises=True,
        doc="Utils._col_widths: relative widths → cumulative absolute widths (the right edge of every column).\n"
            "FLOATS ARE TRANSLATED AS EXACT RATIONALS (`Rat`): `+`, `*`, `/` and `sum` are the exact operations, so\n"
            "rounding, overflow, `inf` and `nan` are not represented (DESIGN §6: IEEE-754 arithmetic is modelled, not\n"
            "verified; the correspondence of C08 excludes and counts near-boundary cases).",
        records={}, params=[("rel_widths", "List Rat"), ("col_width", "Rat")], skip_params=[], env={},
        alias={}, outputs={}, returns={}, ret_type="List Rat",
    ),
    dict(
        name="FootnoteSourceBorders", file="pagination/processor.py", cls="PageFeatureProcessor",
        func="_apply_footnote_source_borders",
        doc="PageFeatureProcessor._apply_footnote_source_borders: which table-rendered component (source before\n"
            "footnote) receives the border that closes the table on this page.  `has_footnote` / `has_source` are\n"
            "whatever the caller computed with `and` (None, a str, a list, a bool): only their truthiness is read\n"
            "(type Truthy).  The effect, `page.component_borders[key] = border_style`, is returned as the list of\n"
            "writes in order.",
        records={"Foot": [("as_table", "Bool")]},
        classes=[("rtflite.input", c, {"as_table": "<class 'bool'>"}) for c in ("RTFFootnote", "RTFSource")],
        params=[("has_footnote", "Truthy"), ("has_source", "Truthy"), ("border_style", "Str"),
                ("rtf_footnote", "Option Foot"), ("rtf_source", "Option Foot")],
        skip_params=["self", "document", "page"],
        env={"document.rtf_footnote": ("rtf_footnote", "Option Foot"),
             "document.rtf_source": ("rtf_source", "Option Foot")},
        dict_outputs={"page.component_borders": ("component_borders", "Str", "Str")},
        implicit_return="s.out_component_borders", ret_type="List (Str × Str)",
        alias={}, outputs={}, returns={},
    ),
    dict(
        name="BorderDecision", file="pagination/processor.py", cls="PageFeatureProcessor",
        func="_apply_pagination_borders",
        # a FRAGMENT of the function: the statements that decide which style closes the table on this page and whether
        # a table-rendered footnote / source takes it (the rest of the function edits attribute matrices: deepcopy,
        # hasattr, BroadcastValue — outside the subset)
        fragment=("self._should_show_element(document.rtf_page.page_footnote", "self._apply_footnote_source_borders("),
        raises=True,
        doc="PageFeatureProcessor._apply_pagination_borders, from the statement that asks whether the footnote is shown\n"
            "on this page (`has_footnote_on_page = …`) up to, not including, the statement that applies the closing\n"
            "style (`if border_style: …`): is a footnote / source shown on this\n"
            "page as a table row, and which border style closes the page's table (`None`: none).  The fragment reads no\n"
            "local assigned before it; its result is the record of its locals (see the side file for their names).\n"
            "`self._should_show_element` is the translated `Generated.Py.ShouldShow.run`.",
        records={"Foot": [("text", "Option (List Str)"), ("as_table", "Bool")]},
        classes=[("rtflite.input", c, {"text": "collections.abc.Sequence[str] | None", "as_table": "<class 'bool'>"})
                 for c in ("RTFFootnote", "RTFSource")] +
                [("rtflite.input", "RTFBody", {"border_last": "list[list[str]]"}),
                 ("rtflite.input", "RTFPage", {"border_last": "str | None", "page_footnote": "<class 'str'>",
                                               "page_source": "<class 'str'>"})],
        params=[("is_first_page", "Bool"), ("is_last_page", "Bool"), ("rtf_footnote", "Option Foot"),
                ("rtf_source", "Option Foot"), ("page_footnote", "Str"), ("page_source", "Str"),
                ("body_border_last", "List (List Str)"), ("page_border_last", "Option Str")],
        skip_params=["self", "document", "page"],
        env={"page.is_first_page": ("is_first_page", "Bool"), "page.is_last_page": ("is_last_page", "Bool"),
             "document.rtf_footnote": ("rtf_footnote", "Option Foot"),
             "document.rtf_source": ("rtf_source", "Option Foot"),
             "document.rtf_page.page_footnote": ("page_footnote", "Str"),
             "document.rtf_page.page_source": ("page_source", "Str"),
             "document.rtf_body.border_last": ("body_border_last", "List (List Str)"),
             "document.rtf_page.border_last": ("page_border_last", "Option Str")},
        calls={"self._should_show_element": ("Generated.Py.ShouldShow.run",
                                             ["Str", ("page", ["is_first_page", "is_last_page"])], "Bool")},
        imports=["Generated.PyShouldShow"], depends=["ShouldShow"],
        implicit_return="s", ret_type="St", alias={}, outputs={}, returns={},
    ),
    dict(
        name="RtfColorIndex", file="services/color_service.py", cls="ColorService", func="get_rtf_color_index",
        raises=True,
        doc="ColorService.get_rtf_color_index: the index a colour reference resolves to — 0 for no colour / black, the\n"
            "master index without a colour list, otherwise the 1-based position in the dense table (the used colours\n"
            "without '' and 'black', validated, sorted stably by master index), 0 when the colour is not in it.\n"
            "Parameters that stand for the rest of the service: `name_to_type` (the dict `self._name_to_type` as a\n"
            "lookup), `get_color_index`, `validate_color_list` (the two helpers, which may raise\n"
            "`ColorValidationError`), `current_document_colors` (the value of the context variable during the call).",
        records={}, exceptions=[("rtflite.services.color_service", "ColorValidationError", "ValueError")],
        fn_params=[("name_to_type", "List Nat → Option Int"), ("get_color_index", "List Nat → Except Exc Int"),
                   ("validate_color_list", "List (List Nat) → Except Exc (List (List Nat))")],
        params=[("current_document_colors", "Option (List Str)"), ("color", "Str"),
                ("used_colors", "Option (List Str)")],
        skip_params=["self"],
        env={"self._current_document_colors": ("current_document_colors", "Option (List Str)")},
        calls={"self.get_color_index": ("get_color_index", ["Str"], "Int", True),
               "self.validate_color_list": ("validate_color_list", ["List Str"], "List Str", True)},
        dicts={"self._name_to_type": ("name_to_type", "Str", "Int")},
        alias={}, outputs={}, returns={}, ret_type="Int",
    ),
    dict(
        name="BorderAsRtf", file="row.py", cls="Border", func="_as_rtf", raises=True,
        doc="Border._as_rtf: the control words of one cell border — the style's code from `BORDER_CODES` (`ValueError`\n"
            "for an unknown style), `\\brdrwN`, and `\\brdrcfK` when a colour is set.  Parameters that stand for the\n"
            "surroundings: `border_codes` (the module dict `BORDER_CODES` as a lookup), `get_color_index`\n"
            "(`Utils._get_color_index`); `style`, `width`, `color` are the object's fields.",
        records={}, classes=[("rtflite.row", "Border", {"style": "<class 'str'>", "width": "<class 'int'>",
                                                         "color": "str | None"})],
        fn_params=[("border_codes", "List Nat → Option (List Nat)"),
                   ("get_color_index", "List Nat → Except Exc Int")],
        params=[("style", "Str"), ("width", "Int"), ("color", "Option Str")], skip_params=["self"],
        env={"self.style": ("style", "Str"), "self.width": ("width", "Int"), "self.color": ("color", "Option Str")},
        dicts={"BORDER_CODES": ("border_codes", "Str", "Str")},
        calls={"Utils._get_color_index": ("get_color_index", ["Str"], "Int", True)},
        alias={}, outputs={}, returns={}, ret_type="Str",
    ),
    dict(
        name="CellAsRtf", file="row.py", cls="Cell", func="_as_rtf", raises=True,
        doc="Cell._as_rtf: the definition of one table cell — the four borders that are set (left, top, right, bottom;\n"
            "each `Border._as_rtf`, the translated `Generated.Py.BorderAsRtf.run`), the vertical alignment code, `\\cellxN`.\n"
            "Parameters for the surroundings: `border_codes`, `get_color_index` (handed on to the borders),\n"
            "`vertical_alignment_codes` (the dict `VERTICAL_ALIGNMENT_CODES`), `inch_to_twip` (`Utils._inch_to_twip`,\n"
            "on the cell width, a float translated as exact `Rat`).",
        records={"Border": [("style", "Str"), ("width", "Int"), ("color", "Option Str")]},
        classes=[("rtflite.row", "Border", {"style": "<class 'str'>", "width": "<class 'int'>", "color": "str | None"}),
                 ("rtflite.row", "Cell", {"width": "<class 'float'>", "vertical_justification": "str | None",
                                          "border_top": "rtflite.row.Border | None",
                                          "border_right": "rtflite.row.Border | None",
                                          "border_bottom": "rtflite.row.Border | None",
                                          "border_left": "rtflite.row.Border | None"})],
        fn_params=[("border_codes", "List Nat → Option (List Nat)"),
                   ("get_color_index", "List Nat → Except Exc Int"),
                   ("vertical_alignment_codes", "List Nat → Option (List Nat)"),
                   ("inch_to_twip", "Rat → Int")],
        params=[("border_left", "Option Border"), ("border_top", "Option Border"), ("border_right", "Option Border"),
                ("border_bottom", "Option Border"), ("vertical_justification", "Option Str"), ("width", "Rat")],
        skip_params=["self"],
        env={"self.border_left": ("border_left", "Option Border"), "self.border_top": ("border_top", "Option Border"),
             "self.border_right": ("border_right", "Option Border"),
             "self.border_bottom": ("border_bottom", "Option Border"),
             "self.vertical_justification": ("vertical_justification", "Option Str"),
             "self.width": ("width", "Rat")},
        dicts={"VERTICAL_ALIGNMENT_CODES": ("vertical_alignment_codes", "Str", "Str")},
        calls={"Utils._inch_to_twip": ("inch_to_twip", ["Rat"], "Int")},
        methods={("Border", "_as_rtf"): ("Generated.Py.BorderAsRtf.run border_codes get_color_index",
                                         ["style", "width", "color"], "Str", True)},
        imports=["Generated.PyBorderAsRtf"], depends=["BorderAsRtf"],
        alias={}, outputs={}, returns={}, ret_type="Str",
    ),
    dict(
        name="RowAsRtf", file="row.py", cls="Row", func="_as_rtf", raises=True,
        doc="Row._as_rtf: the list of strings of one table row (the caller joins them with newlines) — the row header\n"
            "`\\trowd\\trgaphN\\trleft0` + the justification code (`ValueError` for an unknown justification), one\n"
            "string per cell definition (`Cell._as_rtf`, the translated `Generated.Py.CellAsRtf.run`), one string per\n"
            "cell content (`cell.text._as_rtf(method=\"cell\")`, the parameter `text_as_rtf`), `\\intbl\\row\\pard`.\n"
            "Parameters for the surroundings: those of `Cell._as_rtf`; `row_justification_codes` /\n"
            "`row_justification_keys` (the dict `ROW_JUSTIFICATION_CODES` as a lookup, and its keys in order — only the\n"
            "message of the `ValueError` reads them); `text_as_rtf` (`TextContent._as_rtf` with its `method` argument).\n"
            "`N = int(Utils._inch_to_twip(self.height) / 2)`: true division of an int (an EXACT rational here, the float\n"
            "caveat of DESIGN §6), then truncation toward zero (`Generated.Py.pyInt`).",
        records={"Border": _BORDER_FIELDS, "Text": _TEXT_FIELDS,
                 "Cell": [("text", "Text"), ("width", "Rat"), ("vertical_justification", "Option Str"),
                          ("border_top", "Option Border"), ("border_right", "Option Border"),
                          ("border_bottom", "Option Border"), ("border_left", "Option Border")]},
        records_import={"Border": "Generated.Py.CellAsRtf.Border"},
        classes=[_BORDER_CLASS, _CELL_CLASS, _TEXT_CLASS,
                 ("rtflite.row", "Row", {"row_cells": "collections.abc.Sequence[rtflite.row.Cell]",
                                         "justification": "<class 'str'>", "height": "<class 'float'>"})],
        fn_params=[("border_codes", "List Nat → Option (List Nat)"),
                   ("get_color_index", "List Nat → Except Exc Int"),
                   ("vertical_alignment_codes", "List Nat → Option (List Nat)"),
                   ("inch_to_twip", "Rat → Int"),
                   ("row_justification_codes", "List Nat → Option (List Nat)"),
                   ("row_justification_keys", "List (List Nat)"),
                   ("text_as_rtf", "Text → List Nat → Except Exc (List Nat)")],
        params=[("row_cells", "List Cell"), ("justification", "Str"), ("height", "Rat")], skip_params=["self"],
        env={"self.row_cells": ("row_cells", "List Cell"), "self.justification": ("justification", "Str"),
             "self.height": ("height", "Rat")},
        dicts={"ROW_JUSTIFICATION_CODES": ("row_justification_codes", "Str", "Str")},
        dict_keys={"ROW_JUSTIFICATION_CODES": "row_justification_keys"},
        calls={"Utils._inch_to_twip": ("inch_to_twip", ["Rat"], "Int")},
        methods={("Cell", "_as_rtf"): ("Generated.Py.CellAsRtf.run border_codes get_color_index "
                                       "vertical_alignment_codes inch_to_twip",
                                       ["border_left", "border_top", "border_right", "border_bottom",
                                        "vertical_justification", "width"], "Str", True),
                 ("Text", "_as_rtf"): ("text_as_rtf", None, "Str", True, [("method", "Str")])},
        imports=["Generated.PyCellAsRtf"], depends=["CellAsRtf"],
        alias={}, outputs={}, returns={}, ret_type="List Str",
    ),
    dict(
        name="ParagraphFormatting", file="row.py", cls="TextContent", func="_get_paragraph_formatting", raises=True,
        doc="TextContent._get_paragraph_formatting: the paragraph control words of one text — `\\hyphpar` /\n"
            "`\\hyphpar0`, `\\sbN`, `\\saN`, `\\slN\\slmult1` when `space != 1` (N = `int(space * LINE_SPACING_FACTOR)`),\n"
            "`\\fiN` `\\liN` `\\riN` (N = `Utils._inch_to_twip(indent / TWIPS_PER_INCH)`: true division of an int by the\n"
            "class constant, an EXACT rational here — the float caveat of DESIGN §6), the justification code\n"
            "(`ValueError` for an unknown justification).  Parameters for the surroundings: `inch_to_twip`,\n"
            "`text_justification_codes` / `text_justification_keys` (the dict `TEXT_JUSTIFICATION_CODES` as a lookup and\n"
            "its keys, read only by the message of the `ValueError`).  The two class constants are read off\n"
            "`rtflite.core.constants.RTFConstants` when this file is generated and appear as literals.",
        records={}, classes=[_TEXT_CLASS],
        fn_params=[("inch_to_twip", "Rat → Int"),
                   ("text_justification_codes", "List Nat → Option (List Nat)"),
                   ("text_justification_keys", "List (List Nat)")],
        params=[("hyphenation", "Bool"), ("space_before", "Int"), ("space_after", "Int"), ("space", "Int"),
                ("indent_first", "Int"), ("indent_left", "Int"), ("indent_right", "Int"), ("justification", "Str")],
        skip_params=["self"],
        env={"self." + f: (f, t) for f, t in _TEXT_FIELDS
             if f in ("hyphenation", "space_before", "space_after", "space", "indent_first", "indent_left",
                      "indent_right", "justification")},
        consts={"RTFConstants.LINE_SPACING_FACTOR": ("rtflite.core.constants", "RTFConstants", "LINE_SPACING_FACTOR"),
                "RTFConstants.TWIPS_PER_INCH": ("rtflite.core.constants", "RTFConstants", "TWIPS_PER_INCH")},
        dicts={"TEXT_JUSTIFICATION_CODES": ("text_justification_codes", "Str", "Str")},
        dict_keys={"TEXT_JUSTIFICATION_CODES": "text_justification_keys"},
        calls={"Utils._inch_to_twip": ("inch_to_twip", ["Rat"], "Int")},
        alias={}, outputs={}, returns={}, ret_type="Str",
    ),
    dict(
        name="TextFormatting", file="row.py", cls="TextContent", func="_get_text_formatting", raises=True,
        doc="TextContent._get_text_formatting: `\\fsN` (N = `RTFMeasurements.point_to_halfpoint(size)`), the OPENING of\n"
            "the text group `{\\fK` (K = `int(font - 1)`), `\\cfC` when a colour is set (a non-empty str), the three\n"
            "background words when a background colour is set, and the code of every DISTINCT format character in\n"
            "increasing code-point order (`sorted(list(set(self.format)))`; `ValueError` for a character without a\n"
            "code).  Parameters for the surroundings: `point_to_halfpoint`, `get_color_index`\n"
            "(`Utils._get_color_index`), `format_codes` / `format_keys` (the dict `FORMAT_CODES`).",
        records={}, classes=[_TEXT_CLASS],
        fn_params=[("point_to_halfpoint", "Rat → Int"), ("get_color_index", "List Nat → Except Exc Int"),
                   ("format_codes", "List Nat → Option (List Nat)"), ("format_keys", "List (List Nat)")],
        params=[("size", "Rat"), ("font", "Int"), ("color", "Option Str"), ("background_color", "Option Str"),
                ("format", "Option Str")],
        skip_params=["self"],
        env={"self." + f: (f, t) for f, t in _TEXT_FIELDS
             if f in ("size", "font", "color", "background_color", "format")},
        dicts={"FORMAT_CODES": ("format_codes", "Str", "Str")}, dict_keys={"FORMAT_CODES": "format_keys"},
        calls={"RTFMeasurements.point_to_halfpoint": ("point_to_halfpoint", ["Rat"], "Int"),
               "Utils._get_color_index": ("get_color_index", ["Str"], "Int", True)},
        alias={}, outputs={}, returns={}, ret_type="Str",
    ),
    dict(
        name="TextAsRtf", file="row.py", cls="TextContent", func="_as_rtf", raises=True,
        doc="TextContent._as_rtf: one text rendered by `method` — \"paragraph\" `{\\pard` para text-format ` ` text\n"
            "`}\\par}`, \"cell\" `\\pard` para text-format ` ` text `}\\cell`, \"plain\" text-format ` ` text `}`,\n"
            "\"paragraph_format\" / \"cell_format\" (paragraph formatting around the RAW `self.text`), anything else\n"
            "`ValueError`.  `self._convert_special_chars()` is evaluated first whatever the method is; it stays a\n"
            "parameter (`convert_special_chars`: its result on this object, or the exception it raises).\n"
            "`self._get_paragraph_formatting()` / `self._get_text_formatting()` are the translated\n"
            "`Generated.Py.ParagraphFormatting.run` / `Generated.Py.TextFormatting.run` on the object's fields, with\n"
            "their parameters handed on.",
        records={}, classes=[_TEXT_CLASS],
        fn_params=[("inch_to_twip", "Rat → Int"),
                   ("text_justification_codes", "List Nat → Option (List Nat)"),
                   ("text_justification_keys", "List (List Nat)"),
                   ("point_to_halfpoint", "Rat → Int"), ("get_color_index", "List Nat → Except Exc Int"),
                   ("format_codes", "List Nat → Option (List Nat)"), ("format_keys", "List (List Nat)"),
                   ("convert_special_chars", "Except Exc (List Nat)")],
        params=[(f, t) for f, t in _TEXT_FIELDS if f != "convert"] + [("method", "Str")],
        skip_params=["self"],
        env={"self." + f: (f, t) for f, t in _TEXT_FIELDS if f != "convert"},
        calls={"self._convert_special_chars": ("convert_special_chars", [], "Str", True),
               "self._get_paragraph_formatting": (
                   "Generated.Py.ParagraphFormatting.run inch_to_twip text_justification_codes "
                   "text_justification_keys hyphenation space_before space_after space indent_first indent_left "
                   "indent_right justification", [], "Str", True),
               "self._get_text_formatting": (
                   "Generated.Py.TextFormatting.run point_to_halfpoint get_color_index format_codes format_keys "
                   "size font color background_color format", [], "Str", True)},
        imports=["Generated.PyParagraphFormatting", "Generated.PyTextFormatting"],
        depends=["ParagraphFormatting", "TextFormatting"],
        alias={}, outputs={}, returns={}, ret_type="Str",
    ),
    dict(
        name="PageMargin", file="services/encoding_service.py", cls="RTFEncodingService", func="encode_page_margin",
        raises=True,
        doc="RTFEncodingService.encode_page_margin: `\\marglN\\margrN\\margtN\\margbN\\headeryN\\footeryN` + newline, N the\n"
            "twips of the six margins (`zip(…, strict=True)`: `ValueError` unless there are exactly six).\n" + _PAGE_DOMAIN,
        records={}, classes=[_PAGE_CLASS], local_imports={"Utils": ("row", 2)},
        fn_params=[("inch_to_twip", "Rat → Int")], params=[("margin", "List Rat")],
        skip_params=["self", "page_config"], env={"page_config.margin": ("margin", "List Rat")},
        calls={"Utils._inch_to_twip": ("inch_to_twip", ["Rat"], "Int")},
        alias={}, outputs={}, returns={}, ret_type="Str",
    ),
    dict(
        name="PageBreak", file="services/encoding_service.py", cls="RTFEncodingService", func="encode_page_break",
        raises=True,
        doc="RTFEncodingService.encode_page_break: `{\\pard\\fs2\\par}\\page{\\pard\\fs2\\par}`, newline, the paper size\n"
            "`\\paperwN\\paperhN`, two newlines, whatever the margin encoder handed in returns, newline.  The margin\n"
            "encoder is the parameter `page_margin_encode` (its result or exception; `generate_page_break` of\n"
            "`services/document_service.py` passes `lambda: encode_page_margin(document.rtf_page)`).\n" + _PAGE_DOMAIN,
        records={}, classes=[_PAGE_CLASS], local_imports={"Utils": ("row", 2)},
        fn_params=[("inch_to_twip", "Rat → Int"), ("page_margin_encode", "Except Exc (List Nat)")],
        params=[("width", "Rat"), ("height", "Rat")],
        skip_params=["self", "page_config", "page_margin_encode_func"],
        env={"page_config.width": ("width", "Rat"), "page_config.height": ("height", "Rat")},
        calls={"Utils._inch_to_twip": ("inch_to_twip", ["Rat"], "Int"),
               "page_margin_encode_func": ("page_margin_encode", [], "Str", True)},
        alias={}, outputs={}, returns={}, ret_type="Str",
    ),
    dict(
        name="PageSettings", file="rtf/syntax.py", cls="RTFSyntaxGenerator", func="generate_page_settings",
        raises=True,
        doc="RTFSyntaxGenerator.generate_page_settings: `\\paperwN\\paperhN`, `\\landscape ` for a landscape page, newline,\n"
            "the six margin words from `margin_twips[0]` … `[5]` (`IndexError` for fewer than six margins; more are\n"
            "ignored).  `orientation` is `str | None` as `RTFPage` declares it.",
        records={}, local_imports={"Utils": ("row", 2)},
        fn_params=[("inch_to_twip", "Rat → Int")],
        params=[("width", "Rat"), ("height", "Rat"), ("margins", "List Rat"), ("orientation", "Option Str")],
        skip_params=[], env={},
        calls={"Utils._inch_to_twip": ("inch_to_twip", ["Rat"], "Int")},
        alias={}, outputs={}, returns={}, ret_type="Str",
    ),
    dict(
        name="EncodePageSettings", file="services/encoding_service.py", cls="RTFEncodingService",
        func="encode_page_settings", raises=True,
        doc="RTFEncodingService.encode_page_settings: hands width, height, margin and orientation of the page to\n"
            "`self.syntax.generate_page_settings`, the translated `Generated.Py.PageSettings.run`.\n" + _PAGE_DOMAIN,
        records={}, classes=[_PAGE_CLASS],
        fn_params=[("inch_to_twip", "Rat → Int")],
        params=[("width", "Rat"), ("height", "Rat"), ("margin", "List Rat"), ("orientation", "Option Str")],
        skip_params=["self", "page_config"],
        env={"page_config.width": ("width", "Rat"), "page_config.height": ("height", "Rat"),
             "page_config.margin": ("margin", "List Rat"), "page_config.orientation": ("orientation", "Option Str")},
        calls={"self.syntax.generate_page_settings": ("Generated.Py.PageSettings.run inch_to_twip",
                                                      ["Rat", "Rat", "List Rat", "Option Str"], "Str", True)},
        imports=["Generated.PyPageSettings"], depends=["PageSettings"],
        alias={}, outputs={}, returns={}, ret_type="Str",
    ),
    _additional_rows("AdditionalRowsFlat", "List (Option Comp)", "a flat list `[header | None, …]`"),
    _additional_rows("AdditionalRowsNested", "List (List (Option Comp))",
                     "a nested list `[[header | None, …], …]` (one Python list per section)"),
]


# ----------------------------------------------------------------------------------------- translator

def lean_str(s: str) -> str:
    return "[" + ", ".join(str(ord(c)) for c in s) + "]"


DEFAULT = {"Int": "0", "Bool": "false", "Str": "[]", "List Int": "[]", "Char": "0", "Rat": "0", "Truthy": "false"}


class Fn:
    def __init__(self, cfg, node: ast.FunctionDef, seed_vars=None):
        self.cfg = cfg
        self.node = node
        # local name → type (state record fields).  `seed_vars`: the types found by a first pass, so that a variable
        # that holds `None` on one path and a `T` on another is an `Option T` from its first assignment on
        self.vars: dict[str, str] = {}
        self.bound: dict[str, tuple[str, str]] = {}   # loop variables / aliases → (lean term, type)
        self.params = dict(cfg["params"])
        self.fresh = 0
        self.loops: list[str] = []               # emitted loop-body definitions, innermost first
        self.loopvars: list[tuple[str, str]] = []     # enclosing loop variables (lean name, lean type)
        self.alias_src: dict[str, ast.AST] = {}      # local bound to an input path → the path's expression
        self.narrow: dict[str, tuple[str, str]] = {}  # source path → (lean term, type) known on the current path
        # `raises=True`: the function is translated into the exception monad `Except Generated.Py.Exc`; an operation
        # that may raise is bound to a temporary (`let tN ← …`) in evaluation order before the statement it occurs in
        self.M = bool(cfg.get("raises"))
        self.DO = " do" if self.M else ""
        self.pending: list[str] = []
        self.ntmp = 0
        for out, ty in cfg["outputs"].items():
            self.vars["out:" + out] = f"List {ty}"
        for _path, (out, kt, vt) in (cfg.get("dict_outputs") or {}).items():
            self.vars["out:" + out] = f"List ({kt} × {vt})"
        # a parameter the function assigns to is a local variable initialised with the argument
        pyargs = {a.arg for a in node.args.args}
        self.assigned_params = [p for p, _ in cfg["params"] if p in pyargs and p in stored_names(node.body)]
        for pname in self.assigned_params:
            self.vars[pname] = dict(cfg["params"])[pname]
        self.vars.update(seed_vars or {})

    # ---- expressions: returns (lean, type)
    def expr(self, e, defined) -> tuple[str, str]:
        src = ast.unparse(e)
        if src in self.narrow:
            return self.narrow[src]
        if src in self.cfg["env"]:
            return self.cfg["env"][src]
        if src in (self.cfg.get("consts") or {}):
            # an int constant of a configured class, read off the imported class when the file is generated
            return f"({self.const_value(src)} : Int)", "Int"
        if isinstance(e, ast.Constant):
            if isinstance(e.value, bool):
                return ("true" if e.value else "false"), "Bool"
            if isinstance(e.value, int):
                return f"({e.value} : Int)", "Int"
            if isinstance(e.value, str):
                return f"({lean_str(e.value)} : List Nat)", "Str"
            if isinstance(e.value, float) and e.value == e.value and abs(e.value) != float("inf"):
                num, den = e.value.as_integer_ratio()
                return (f"({num} : Rat)" if den == 1 else f"(({num} : Rat) / {den})"), "Rat"
            if e.value is None:
                return "none", "None"
            raise Untranslatable(f"constant {src}")
        if isinstance(e, ast.Name):
            if e.id in self.bound:
                return self.bound[e.id]
            if e.id in self.vars:
                if e.id not in defined and e.id not in self.assigned_params:
                    raise Untranslatable(f"variable {e.id} may be read before it is assigned")
                return f"s.{self.fld(e.id)}", self.vars[e.id]
            if e.id in self.params and e.id not in self.assigned_params:
                return e.id, self.params[e.id]
            raise Untranslatable(f"unknown name {e.id}")
        if isinstance(e, ast.BinOp):
            a, ta = self.expr(e.left, defined)
            if isinstance(e.op, ast.Mod) and ta == "Int" and not isinstance(e.right, ast.Constant):
                b, tb = self.expr(e.right, defined)
                if tb == "Int":          # `a % b`: ZeroDivisionError for b = 0, otherwise the remainder with b's sign
                    return self.tmp(f"Generated.Py.pyMod {a} {b}", src), "Int"
                raise Untranslatable(f"operator % on {ta}, {tb} in {src}")
            if isinstance(e.op, ast.Div):
                b, tb = self.expr(e.right, defined)
                if {ta, tb} <= {"Rat", "Int"}:
                    # true division (of floats, of ints: the result is a float in both cases — an exact `Rat` here):
                    # ZeroDivisionError for 0; a divisor that is a non-zero number in the source (a literal, or a
                    # configured class constant read at generation time) cannot raise and needs no temporary
                    if self.literal_number(e.right) not in (None, 0):
                        return f"({self.rat(a, ta)} / {self.rat(b, tb)})", "Rat"
                    if "Rat" in (ta, tb):
                        return self.tmp(f"Generated.Py.pyDiv {self.rat(a, ta)} {self.rat(b, tb)}", src), "Rat"
                raise Untranslatable(f"operator / on {ta}, {tb} in {src}")
            if isinstance(e.op, (ast.RShift, ast.BitAnd, ast.FloorDiv, ast.Mod)):
                if not (isinstance(e.right, ast.Constant) and isinstance(e.right.value, int) and ta == "Int"):
                    raise Untranslatable(f"operator in {src} needs an int literal on the right")
                k = e.right.value
                if isinstance(e.op, ast.RShift) and k >= 0:
                    return f"({a} / ({2 ** k} : Int))", "Int"
                if isinstance(e.op, ast.BitAnd) and k > 0 and (k + 1) & k == 0:
                    return f"({a} % ({k + 1} : Int))", "Int"
                if isinstance(e.op, ast.FloorDiv) and k > 0:
                    return f"({a} / ({k} : Int))", "Int"
                if isinstance(e.op, ast.Mod) and k > 0:
                    return f"({a} % ({k} : Int))", "Int"
                raise Untranslatable(f"operator in {src}")
            b, tb = self.expr(e.right, defined)
            if isinstance(e.op, (ast.Add, ast.Sub, ast.Mult)) and ta == tb == "Int":
                op = {ast.Add: "+", ast.Sub: "-", ast.Mult: "*"}[type(e.op)]
                return f"({a} {op} {b})", "Int"
            if isinstance(e.op, (ast.Add, ast.Sub, ast.Mult)) and {ta, tb} <= {"Rat", "Int"}:
                op = {ast.Add: "+", ast.Sub: "-", ast.Mult: "*"}[type(e.op)]
                return f"({self.rat(a, ta)} {op} {self.rat(b, tb)})", "Rat"
            if isinstance(e.op, ast.Add) and ta == tb and (ta == "Str" or ta.startswith("List ")):
                return f"({a} ++ {b})", ta
            if isinstance(e.op, ast.Add) and ta == "Str" and tb == "Char":
                return f"({a} ++ [{b}])", "Str"
            raise Untranslatable(f"binary operation {src} on {ta}, {tb}")
        if isinstance(e, ast.BoolOp):
            # value context: `a and b` / `a or b` return one of their operands, so they are only accepted when every
            # operand is a Bool (then the value is the conjunction / disjunction).  Condition context: `cond`.
            plain = self.plain_boolop(e, defined)
            if plain is not None:
                return plain, "Bool"
            # `a and b` / `a or b` over other values return one of the operands; only `bool(result)` =
            # `bool(a) and/or bool(b)` is kept, as a value of the type Truthy, which nothing but a condition accepts
            return self.cond(e, defined), "Truthy"
        if isinstance(e, ast.UnaryOp) and isinstance(e.op, ast.Not):
            return f"(!{self.cond(e.operand, defined)})", "Bool"
        if isinstance(e, ast.UnaryOp) and isinstance(e.op, ast.USub):
            a, ta = self.expr(e.operand, defined)
            if ta != "Int":
                raise Untranslatable(src)
            return f"(-{a})", "Int"
        if isinstance(e, ast.Compare):
            if len(e.ops) != 1:
                raise Untranslatable(f"chained comparison {src}")
            if isinstance(e.ops[0], (ast.In, ast.NotIn)) and \
                    ast.unparse(e.comparators[0]) in (self.cfg.get("dicts") or {}):
                # `k in D` / `k not in D` on a configured dict (a lookup function)
                lean_fn, kt, _vt = self.cfg["dicts"][ast.unparse(e.comparators[0])]
                k, tk = self.dict_key(*self.expr(e.left, defined))
                if tk != kt:
                    raise Untranslatable(f"{src}: key of type {tk}")
                return f"({lean_fn} {k}).{'isSome' if isinstance(e.ops[0], ast.In) else 'isNone'}", "Bool"
            a, ta = self.expr(e.left, defined)
            if isinstance(e.ops[0], (ast.Is, ast.IsNot)):
                rhs = e.comparators[0]
                if not (isinstance(rhs, ast.Constant) and rhs.value is None):
                    raise Untranslatable(f"identity test {src} against something other than None")
                if t_arg(ta, "Option") is not None:
                    return f"({a}).{'isNone' if isinstance(e.ops[0], ast.Is) else 'isSome'}", "Bool"
                if ta in ("Int", "Bool", "Str", "Char") or t_arg(ta, "List") is not None or ta in self.cfg["records"]:
                    return ("false" if isinstance(e.ops[0], ast.Is) else "true"), "Bool"
                raise Untranslatable(f"identity test {src} on {ta}")
            b, tb = self.expr(e.comparators[0], defined)
            ta, tb = ("Int" if t == "Char" else t for t in (ta, tb))
            if isinstance(e.ops[0], (ast.Eq, ast.NotEq)) and t_arg(ta, "Option") == tb and tb in ("Int", "Str", "Bool"):
                # `x == v` for x : T | None and v : T — `None == v` is False (None compares equal to None only)
                eq = f"(decide ({a} = some {b}))"
                return (eq if isinstance(e.ops[0], ast.Eq) else f"(!{eq})"), "Bool"
            if ta != tb:
                raise Untranslatable(f"comparison of {ta} with {tb} in {src}")
            ops = {ast.Lt: "<", ast.LtE: "≤", ast.Gt: ">", ast.GtE: "≥", ast.Eq: "=", ast.NotEq: "≠"}
            if type(e.ops[0]) not in ops or (ta not in ("Int", "Str", "Bool", "Rat")):
                raise Untranslatable(f"comparison {src}")
            if ta not in ("Int", "Rat") and type(e.ops[0]) not in (ast.Eq, ast.NotEq):
                raise Untranslatable(f"ordering on {ta} in {src}")
            return f"(decide ({a} {ops[type(e.ops[0])]} {b}))", "Bool"
        if isinstance(e, ast.IfExp) and isinstance(e.test, ast.Call) and isinstance(e.test.func, ast.Name) and \
                e.test.func.id == "isinstance":
            # decided by the static type: only the live alternative is translated
            return self.expr(e.body if self.static_isinstance(e.test, defined) else e.orelse, defined)
        if isinstance(e, ast.IfExp):
            c, tc = self.cond(e.test, defined), "Bool"
            a, ta = self.guarded(lambda: self.expr(e.body, defined), src)
            b, tb = self.guarded(lambda: self.expr(e.orelse, defined), src)
            if tc != "Bool" or ta != tb:
                raise Untranslatable(f"conditional expression {src}")
            return f"(if {c} then {a} else {b})", ta
        if isinstance(e, ast.List):
            parts = [self.expr(v, defined) for v in e.elts]        # evaluated left to right
            if not parts or any(t != parts[0][1] for _, t in parts) or \
                    not (parts[0][1] in ("Int", "Str", "Rat", "Bool") or parts[0][1] in self.cfg["records"]):
                raise Untranslatable(f"list display {src}")
            return "[" + ", ".join(p for p, _ in parts) + "]", t_app("List", parts[0][1])
        if isinstance(e, ast.JoinedStr):
            out = []
            for v in e.values:
                if isinstance(v, ast.Constant):
                    out.append(f"({lean_str(v.value)} : List Nat)")
                elif isinstance(v, ast.FormattedValue) and v.conversion == -1 and v.format_spec is None:
                    a, ta = self.expr(v.value, defined)
                    if ta == "Int":
                        out.append(f"(Generated.Py.strOfInt {a})")
                    elif ta == "Str":
                        out.append(a)
                    elif ta == "Char":
                        out.append(f"[{a}]")
                    else:
                        raise Untranslatable(f"f-string piece of type {ta} in {src}")
                else:
                    raise Untranslatable(f"f-string piece {ast.unparse(v)}")
            return "(" + " ++ ".join(out) + ")", "Str"
        if isinstance(e, ast.Call):
            f = e.func
            if isinstance(f, ast.Name) and f.id in ("max", "min") and len(e.args) == 2 and not e.keywords:
                a, ta = self.expr(e.args[0], defined)
                b, tb = self.expr(e.args[1], defined)
                if ta == tb == "Int":
                    return f"({f.id} {a} {b})", "Int"
            if isinstance(f, ast.Name) and f.id == "ord" and len(e.args) == 1:
                a, ta = self.expr(e.args[0], defined)
                if ta == "Char":
                    return f"(Int.ofNat {a})", "Int"
            if isinstance(f, ast.Name) and f.id == "len" and len(e.args) == 1:
                a, ta = self.expr(e.args[0], defined)
                if ta == "Str" or t_arg(ta, "List") is not None:
                    return f"(Int.ofNat {a}.length)", "Int"
            if isinstance(f, ast.Name) and f.id == "bool" and len(e.args) == 1 and not e.keywords:
                return self.cond(e.args[0], defined), "Bool"
            if isinstance(f, ast.Name) and f.id == "getattr" and len(e.args) == 3 and not e.keywords and \
                    isinstance(e.args[1], ast.Constant) and isinstance(e.args[1].value, str):
                # getattr(x, "f", d): the field when x is an object of a configured class that declares f (checked
                # against the class, `classes=`), d when x is None (NoneType has no such attribute)
                a, ta = self.expr(e.args[0], defined)
                d, td = self.guarded(lambda: self.expr(e.args[2], defined), src)
                rec = t_arg(ta, "Option") or ta
                fields = dict(self.cfg["records"].get(rec, []))
                name = e.args[1].value
                if name in fields and fields[name] == td:
                    if rec == ta:
                        return f"{a}.{name}", td
                    v = self.binder()
                    return f"(match {a} with | none => {d} | some {v} => {v}.{name})", td
                raise Untranslatable(f"{src}: {ta} has no configured field {name} of type {td}")
            if src_call := (self.cfg.get("calls") or {}).get(ast.unparse(f)):
                lean_fn, arg_specs, rty = src_call[:3]
                may_raise = len(src_call) > 3 and src_call[3]
                if len(arg_specs) != len(e.args) or e.keywords:
                    raise Untranslatable(f"call {src}: arguments changed")
                out = []
                for a_ast, spec in zip(e.args, arg_specs):
                    if isinstance(spec, tuple):             # an argument passed on as these terms (e.g. `page`)
                        if ast.unparse(a_ast) != spec[0]:
                            raise Untranslatable(f"call {src}: argument {ast.unparse(a_ast)}, expected {spec[0]}")
                        out += list(spec[1])
                    else:
                        a, ta = self.expr(a_ast, defined)
                        if ta != spec:
                            raise Untranslatable(f"call {src}: argument of type {ta}, expected {spec}")
                        out.append(a)
                if may_raise:        # a helper that may raise: bound like any raising operation
                    return self.tmp(f"{lean_fn} " + " ".join(out), src), rty
                return f"({lean_fn} " + " ".join(out) + ")", rty
            if isinstance(f, ast.Name) and f.id == "sorted" and len(e.args) == 1 and not e.keywords:
                # sorted(set(E)) / sorted(list(set(E))) on a str: the DISTINCT characters in increasing code-point
                # order (the order of a set, and of `list(set)`, is unspecified, but sorting distinct elements of a
                # total order has one result; one-character strings compare by code point)
                inner = e.args[0]
                if isinstance(inner, ast.Call) and isinstance(inner.func, ast.Name) and inner.func.id == "list" and \
                        len(inner.args) == 1 and not inner.keywords:
                    inner = inner.args[0]
                if isinstance(inner, ast.Call) and isinstance(inner.func, ast.Name) and inner.func.id == "set" and \
                        len(inner.args) == 1 and not inner.keywords:
                    a, ta = self.expr(inner.args[0], defined)
                    if ta == "Str":
                        return f"(Generated.Py.pySortedSet {a})", "Str"
                raise Untranslatable(f"{src}: only sorted(set(<str>)) / sorted(list(set(<str>))) is translated")
            if isinstance(f, ast.Name) and f.id == "sorted" and len(e.args) == 1 and len(e.keywords) == 1 and \
                    e.keywords[0].arg == "key" and isinstance(e.keywords[0].value, ast.Lambda) and \
                    len(e.keywords[0].value.args.args) == 1:
                # sorted(xs, key=lambda x: E): the keys of all elements are computed first, in order (any of them may
                # raise), then the list is sorted stably by key
                xs, txs = self.expr(e.args[0], defined)
                elt = t_arg(txs, "List")
                lam = e.keywords[0].value
                if elt is None:
                    raise Untranslatable(f"sorted over {txs}")
                self.nkey = getattr(self, "nkey", 0) + 1
                kv = f"k{self.nkey}"
                saved_bound, saved_pending = dict(self.bound), self.pending
                self.bound[lam.args.args[0].arg] = (kv, elt)
                self.pending = []
                try:
                    ev, et = self.expr(lam.body, defined)
                    binds = self.pending
                finally:
                    self.bound, self.pending = saved_bound, saved_pending
                if et != "Int":
                    raise Untranslatable(f"sort key of type {et} in {src}")
                body = "; ".join(binds + [f"pure {ev}"])
                return self.tmp(f"Generated.Py.pySortedByKey {xs} (fun {kv} => do {body})", src), txs
            if isinstance(f, ast.Attribute) and f.attr == "join" and len(e.args) == 1 and not e.keywords:
                sep, tsep = self.expr(f.value, defined)
                xs, txs = self.expr(e.args[0], defined)
                if tsep == "Str" and txs == "List Str":          # sep.join(xs)
                    return f"(Generated.Py.pyJoin {sep} {xs})", "Str"
                raise Untranslatable(f"{src} on {tsep}, {txs}")
            if isinstance(f, ast.Name) and f.id == "int" and len(e.args) == 1 and not e.keywords:
                a, ta = self.expr(e.args[0], defined)
                if ta == "Int":                      # int(i) of an int is i
                    return a, "Int"
                if ta == "Rat":                      # int(x) of a float: truncation toward zero
                    return f"(Generated.Py.pyInt {a})", "Int"
                raise Untranslatable(f"int() of a value of type {ta} in {src}")
            if isinstance(f, ast.Attribute) and f.attr == "keys" and not e.args and not e.keywords and \
                    ast.unparse(f.value) in (self.cfg.get("dict_keys") or {}):
                # D.keys() on a configured dict: its keys in insertion order (a parameter of the translation)
                kt = self.cfg["dicts"][ast.unparse(f.value)][1]
                return self.cfg["dict_keys"][ast.unparse(f.value)], t_app("List", kt)
            if isinstance(f, ast.Attribute) and (self.cfg.get("methods") or {}):
                # obj.m(args) on an object of a configured record class whose method m is itself translated (the
                # object's fields are the callee's first arguments) or stands as a parameter (`fields` None: the object
                # itself is the first argument).  Explicit arguments are matched to the declared parameter names of the
                # method (positional first, then keywords; all of them must be given) and are evaluated in the order
                # in which they are written, after the receiver
                n = len(self.pending)
                try:
                    recv, trecv = self.expr(f.value, defined)
                except Untranslatable:
                    del self.pending[n:]
                    recv, trecv = None, None
                spec = self.cfg["methods"].get((trecv, f.attr))
                if spec is not None:
                    lean_fn, fields, rty, may_raise = spec[:4]
                    formal = list(spec[4]) if len(spec) > 4 else []
                    if len(e.args) > len(formal) or any(k.arg is None for k in e.keywords):
                        raise Untranslatable(f"call {src}: arguments changed")
                    given = {}
                    for (pn, pt), a_ast in list(zip(formal, e.args)) + \
                            [((k.arg, dict(formal).get(k.arg)), k.value) for k in e.keywords]:
                        a, ta = self.expr(a_ast, defined)
                        if pn in given or pt is None or ta != pt:
                            raise Untranslatable(f"call {src}: argument {pn} of type {ta}")
                        given[pn] = a
                    if set(given) != {pn for pn, _ in formal}:
                        raise Untranslatable(f"call {src}: arguments changed")
                    call = f"{lean_fn} " + " ".join(([recv] if fields is None else [f"{recv}.{fl}" for fl in fields]) +
                                                   [given[pn] for pn, _ in formal])
                    return (self.tmp(call, src) if may_raise else f"({call})"), rty
            if isinstance(f, ast.Attribute) and f.attr == "index" and len(e.args) == 1 and not e.keywords:
                xs, txs = self.expr(f.value, defined)
                v, tv = self.expr(e.args[0], defined)
                if t_arg(txs, "List") == tv and tv in ("Str", "Int"):     # ValueError when absent
                    return self.tmp(f"Generated.Py.pyListIndex {xs} {v}", src), "Int"
                raise Untranslatable(f"{src} on {txs}")
            if isinstance(f, ast.Name) and f.id == "sum" and len(e.args) == 1 and not e.keywords:
                a, ta = self.expr(e.args[0], defined)
                if ta in ("List Rat", "List Int"):       # 0 + x0 + x1 + …, left to right
                    return f"(Generated.Py.sum{ta[5:]} {a})", ta[5:]
            if isinstance(f, ast.Name) and f.id == "isinstance" and len(e.args) == 2 and not e.keywords:
                return ("true" if self.static_isinstance(e, defined) else "false"), "Bool"
            if isinstance(f, ast.Attribute) and f.attr == "get" and isinstance(f.value, ast.Name) and len(e.args) == 2:
                # d.get(k, default) where d is a local bound to a dict display
                d = self.bound.get("dict:" + f.value.id)
                if d is not None:
                    return self.dict_get(d, e.args[0], e.args[1], defined)
            raise Untranslatable(f"call {src}")
        if isinstance(e, ast.Subscript) and isinstance(e.slice, ast.Constant) and isinstance(e.slice.value, str):
            a, ta = self.expr(e.value, defined)
            fields = dict(self.cfg["records"].get(ta, []))
            if e.slice.value in fields:
                return f"{a}.{e.slice.value}", fields[e.slice.value]
        if isinstance(e, ast.Subscript) and ast.unparse(e.value) in (self.cfg.get("dicts") or {}):
            # D[k] on a configured dict (a function parameter `k → Option v`): KeyError when absent
            lean_fn, kt, vt = self.cfg["dicts"][ast.unparse(e.value)]
            k, tk = self.dict_key(*self.expr(e.slice, defined))
            if tk != kt:
                raise Untranslatable(f"{src}: key of type {tk}")
            return self.tmp(f"Generated.Py.pyDictGet {lean_fn} {k}", src), vt
        if isinstance(e, ast.Subscript) and not isinstance(e.slice, (ast.Slice, ast.Tuple)):
            a, ta = self.expr(e.value, defined)         # Python evaluates the container first, then the index
            elt = t_arg(ta, "List")
            if elt is not None:
                i, ti = self.expr(e.slice, defined)
                if ti == "Int":      # IndexError outside -len ≤ i < len; a negative index counts from the end
                    return self.tmp(f"Generated.Py.pyIndex {a} {i}", src), elt
            raise Untranslatable(f"subscript {src} on {ta}")
        if isinstance(e, ast.Attribute):
            # field of a configured record (an object attribute); `None.attr` cannot arise: an Option must have been
            # narrowed (`x and x.attr`, `if x:`, `x is not None and …`) before a field is read
            a, ta = self.expr(e.value, defined)
            fields = dict(self.cfg["records"].get(ta, []))
            if e.attr in fields:
                return f"{a}.{e.attr}", fields[e.attr]
            raise Untranslatable(f"attribute {e.attr} of a value of type {ta} in {src}")
        raise Untranslatable(f"expression {src}")

    @staticmethod
    def dict_key(term: str, ty: str):
        """a character (an element of a str: a str of length one in Python) used as the key of a dict"""
        return (f"[{term}]", "Str") if ty == "Char" else (term, ty)

    def const_value(self, src: str) -> int:
        """the value of a configured class constant (`consts=`: source path → (module, class, attribute)), read off
        the imported class; it must be an int (not a bool)"""
        import importlib

        mod, cls, attr = self.cfg["consts"][src]
        try:
            v = getattr(getattr(importlib.import_module(mod), cls), attr)
        except Exception as e:  # noqa: BLE001
            raise Untranslatable(f"constant {src}: {type(e).__name__}: {e}") from e
        if type(v) is not int:
            raise Untranslatable(f"constant {src} is {v!r}, not an int")
        return v

    def literal_number(self, e):
        """the number an expression denotes in the source: an int / float literal (a minus sign in front of it
        included) or a configured class constant; None for anything else"""
        if isinstance(e, ast.Constant) and type(e.value) in (int, float):
            return e.value
        if isinstance(e, ast.UnaryOp) and isinstance(e.op, ast.USub):
            v = self.literal_number(e.operand)
            return None if v is None else -v
        if ast.unparse(e) in (self.cfg.get("consts") or {}):
            return self.const_value(ast.unparse(e))
        return None

    # ---- operations that may raise
    def tmp(self, monadic: str, src: str) -> str:
        if not self.M:
            raise Untranslatable(f"{src} may raise, and the function is not translated with exceptions (raises=True)")
        self.ntmp += 1
        t = f"t{self.ntmp}"
        self.pending.append(f"let {t} ← {monadic}")
        return t

    def guarded(self, thunk, src):
        """translate a conditionally evaluated sub-expression: it must not contain an operation that may raise (it
        would be hoisted in front of the condition that guards it)"""
        n = len(self.pending)
        r = thunk()
        if len(self.pending) != n:
            del self.pending[n:]
            raise Untranslatable(f"an operation that may raise in a conditionally evaluated position of {src}")
        return r

    def flush(self, ind: str) -> str:
        out = "".join(f"{ind}{l}\n" for l in self.pending)
        self.pending = []
        return out

    def fin(self, ind: str) -> str:
        return f"{ind}pure s" if self.M else f"{ind}s"

    def rat(self, term: str, ty: str) -> str:
        return term if ty == "Rat" else f"(({term} : Int) : Rat)"

    # ---- conditions (`if` tests, operands of `not`, tests of conditional expressions): Python truthiness BY TYPE
    def truthy(self, term: str, ty: str) -> str:
        """`bool(v)` for a value of the given static type: a bool is itself, an int is `≠ 0`, a str / list is
        `len > 0`, `None` is false, an instance of a configured record class (no `__bool__`, no `__len__`: checked
        against the imported class) is true"""
        if ty in ("Bool", "Truthy"):
            return term
        if ty == "None":
            return "false"
        if ty == "Int":
            return f"(decide ({term} ≠ (0 : Int)))"
        if ty == "Str" or t_arg(ty, "List") is not None:
            return f"(!({term}).isEmpty)"
        if ty in self.cfg["records"]:
            return "true"
        inner = t_arg(ty, "Option")
        if inner is not None:
            v = self.binder()
            return f"(match {term} with | none => false | some {v} => {self.truthy(v, inner)})"
        raise Untranslatable(f"truthiness of a value of type {ty}")

    def binder(self) -> str:
        self.nbind = getattr(self, "nbind", 0) + 1
        return f"b{self.nbind}"

    def fld(self, name: str) -> str:
        """the state-record field of a local variable: locals are alpha-renamed to `v0, v1, …` in the order of their
        first binding in the function body, so that renaming a local changes nothing in the generated definition
        (output columns keep their configured names; the original names are listed in `Py<Name>.source.txt`)"""
        if name.startswith("out:"):        # an output column (its key is not a Python identifier: no local can clash)
            return "out_" + name[4:]
        return "v" + str([k for k in self.vars if not k.startswith("out:")].index(name))

    def path_key(self, e):
        """`ast.unparse(e)` when `e` is a *path*: an expression whose value cannot change while the function runs
        (a configured input path, a parameter or loop variable, a field of a path, or something already narrowed)"""
        src = ast.unparse(e)
        if src in self.narrow or src in self.cfg["env"]:
            return src
        if isinstance(e, ast.Name) and (e.id in self.vars or e.id in self.bound or e.id in self.params):
            return src            # a local variable too: what is known about it is dropped when it is assigned
        if isinstance(e, ast.Attribute) and self.path_key(e.value) is not None:
            return src
        return None

    def option_test(self, e, defined):
        """`P` or `P is not None` for a path `P` of type `Option T` → (scrutinee, T, key, tests_truthiness)"""
        bare = e
        only_none = False
        if isinstance(e, ast.Compare) and len(e.ops) == 1 and isinstance(e.ops[0], ast.IsNot) and \
                isinstance(e.comparators[0], ast.Constant) and e.comparators[0].value is None:
            bare, only_none = e.left, True
        key = self.path_key(bare)
        if key is None:
            return None
        term, ty = self.expr(bare, defined)
        inner = t_arg(ty, "Option")
        if inner is None:
            return None
        return term, inner, key, not only_none

    def plain_boolop(self, e: ast.BoolOp, defined):
        """the conjunction / disjunction when every operand is a Bool (None otherwise)"""
        n = len(self.pending)
        try:
            parts = [self.expr(e.values[0], defined)] + \
                    [self.guarded(lambda v=v: self.expr(v, defined), ast.unparse(e)) for v in e.values[1:]]
        except Untranslatable:
            del self.pending[n:]
            return None
        if any(t != "Bool" for _, t in parts):
            del self.pending[n:]
            return None
        op = " && " if isinstance(e.op, ast.And) else " || "
        return "(" + op.join(p for p, _ in parts) + ")"

    def cond(self, e, defined) -> str:
        """a Bool term equal to `bool(e)`.  `a and b`: `bool(a and b) = bool(a) && bool(b)`, `b` is evaluated only
        when `a` is truthy, and inside `b` a path that `a` has shown to be not-None has its narrowed type."""
        if isinstance(e, ast.BoolOp) and isinstance(e.op, ast.And):
            if not any(self.option_test(v, defined) for v in e.values[:-1]):
                plain = self.plain_boolop(e, defined)     # all operands Bool: the plain conjunction
                if plain is not None:
                    return plain
            return self.cond_and(list(e.values), defined)
        if isinstance(e, ast.BoolOp) and isinstance(e.op, ast.Or):
            return "(" + " || ".join([self.cond(e.values[0], defined)] +
                                     [self.guarded(lambda v=v: self.cond(v, defined), ast.unparse(e))
                                      for v in e.values[1:]]) + ")"
        if isinstance(e, ast.UnaryOp) and isinstance(e.op, ast.Not):
            return f"(!{self.cond(e.operand, defined)})"
        v, t = self.expr(e, defined)
        return self.truthy(v, t)

    def cond_and(self, values, defined) -> str:
        first, rest = values[0], values[1:]
        if not rest:
            return self.cond(first, defined)
        ot = self.option_test(first, defined)
        if ot is None:
            c1 = self.cond(first, defined)
            return f"({c1} && {self.guarded(lambda: self.cond_and(rest, defined), 'and')})"
        term, inner, key, truthiness = ot
        v = self.binder()
        saved = dict(self.narrow)
        self.narrow[key] = (v, inner)
        try:
            r = self.guarded(lambda: self.cond_and(rest, defined), "and")
        finally:
            self.narrow = saved
        tv = self.truthy(v, inner) if truthiness else "true"
        body = r if tv == "true" else f"({tv} && {r})"
        return f"(match {term} with | none => false | some {v} => {body})"

    def static_isinstance(self, e: ast.Call, defined) -> bool:
        """`isinstance(x, list)` decided by the static type of `x` (`x` must be translatable, i.e. evaluating it
        cannot raise): a `List` is a Python list, nothing else is"""
        x, cls = e.args
        if not (isinstance(cls, ast.Name) and cls.id == "list"):
            raise Untranslatable(f"isinstance against {ast.unparse(cls)}")
        _, ty = self.expr(x, defined)
        while t_arg(ty, "Option") is not None:
            inner = t_arg(ty, "Option")
            if t_arg(inner, "List") is not None:
                raise Untranslatable(f"isinstance(…, list) on a value of type {ty} is not decided by its type")
            ty = inner
        if t_arg(ty, "List") is not None:
            return True
        if ty in ("Int", "Bool", "Str", "Char") or ty in self.cfg["records"]:
            return False
        raise Untranslatable(f"isinstance(…, list) on a value of type {ty}")

    def dict_get(self, d: ast.Dict, key, default, defined):
        k, tk = self.expr(key, defined)
        dflt, td = self.expr(default, defined)
        term = dflt
        for kk, vv in reversed(list(zip(d.keys, d.values))):
            kl, tkk = self.expr(kk, defined)
            vl, tv = self.expr(vv, defined)
            if tkk != tk or tv != td:
                raise Untranslatable("dict display with mixed key or value types")
            term = f"(if {k} = {kl} then {vl} else {term})"
        # a dict display keeps the LAST value of a repeated key; the chain above returns the FIRST match
        keys = [ast.unparse(x) for x in d.keys]
        if len(set(keys)) != len(keys):
            raise Untranslatable("dict display with a repeated key")
        return term, td

    def test(self, st: ast.If, defined) -> Test:
        e = st.test
        negated = False
        pos = e
        if isinstance(e, ast.UnaryOp) and isinstance(e.op, ast.Not):
            pos, negated = e.operand, True                       # `not P`
        elif isinstance(e, ast.Compare) and len(e.ops) == 1 and isinstance(e.ops[0], ast.Is):
            pos, negated = ast.Compare(left=e.left, ops=[ast.IsNot()], comparators=e.comparators), True   # `P is None`
        ot = self.option_test(pos, defined)
        if ot is not None:
            term, inner, key, truthiness = ot
            v = self.binder()
            tv = self.truthy(v, inner) if truthiness else "true"
            return Test("option", c=None if tv == "true" else tv, scrut=term, pat=f"some {v}",
                        narrow={key: (v, inner)}, negated=negated)
        key = self.path_key(e)
        if key is not None:
            term, ty = self.expr(e, defined)
            elt = t_arg(ty, "List")
            # `if P:` on a list path whose body reads `P[0]`: the head is bound by the match
            if elt is not None and any(key + "[0]" in ast.unparse(x) for x in st.body):
                v = self.binder()
                return Test("list", scrut=term, pat=f"{v} :: _", narrow={key + "[0]": (v, elt)})
        return Test("bool", c=self.cond(e, defined))

    def invalidate(self, names):
        """forget what is known about these locals (they are assigned)"""
        for k in list(self.narrow):
            if any(k == n or k.startswith(n + ".") or k.startswith(n + "[") for n in names):
                del self.narrow[k]

    def narrowed(self, test: Test, thunk, branch="then"):
        saved = dict(self.narrow)
        self.narrow.update(test.narrow if branch == "then" else test.narrow_else)
        try:
            return thunk()
        finally:
            self.narrow = saved

    # ---- statements.  `block` returns a Lean term of the function's *state* type with `s` free;
    # `defined` is the set of variables assigned on every path so far.  `k` is the continuation (python statements
    # that follow); `final` builds the term that closes the block (returns `s` inside loops).
    def declare(self, name, ty, v=None):
        """record the type of a local; a variable assigned `None` and values of type `T` is an `Option T`.
        → the value to store (wrapped in `some` where needed)"""
        old = self.vars.get(name)
        if old is None or old == ty:
            self.vars[name] = ty
            return v
        if old == "None" and ty != "None":
            self.vars[name] = ty if t_arg(ty, "Option") is not None else t_app("Option", ty)
            return v if t_arg(ty, "Option") is not None else f"(some {v})"
        if t_arg(old, "Option") is not None and ty == "None":
            return "none"
        if t_arg(old, "Option") == ty:
            return f"(some {v})"
        raise Untranslatable(f"variable {name} used at types {old} and {ty}")

    def block(self, stmts, defined: set, in_loop: bool, ind: str):
        """→ (term, defined_after, kind) with kind ∈ {fall, return}; at function level a `return` closes the term with
        a value of the return type, otherwise the term is the state."""
        if not stmts:
            return self.fin(ind), set(defined), "fall"
        st, rest = stmts[0], stmts[1:]
        if isinstance(st, ast.Expr) and isinstance(st.value, ast.Constant) and isinstance(st.value.value, str):
            return self.block(rest, defined, in_loop, ind)          # docstring
        if isinstance(st, ast.ImportFrom):
            # a function-level `from M import N`: accepted when configured (`local_imports=`: name → (module, level));
            # the names it binds are only used through configured `calls` / `dicts` paths (anything else is an unknown
            # name), and importing an rtflite module that is already loaded has no other effect
            ok = self.cfg.get("local_imports") or {}
            if all(a.asname is None and ok.get(a.name) == (st.module, st.level) for a in st.names):
                return self.block(rest, defined, in_loop, ind)
            raise Untranslatable(f"statement {ast.unparse(st)}")
        # ---- `x = S.join(E for … )` / `return S.join(E for …)` with a constant separator S (the whole right-hand
        # side): the items are produced first, in order, into a hidden local list, then joined
        if isinstance(st, (ast.Return, ast.Assign)) and isinstance(st.value, ast.Call) and \
                isinstance(st.value.func, ast.Attribute) and st.value.func.attr == "join" and \
                isinstance(st.value.func.value, ast.Constant) and len(st.value.args) == 1 and \
                not st.value.keywords and isinstance(st.value.args[0], (ast.GeneratorExp, ast.ListComp)):
            gen = st.value.args[0]
            self.fresh_join = getattr(self, "fresh_join", 0) + 1
            name = f"<join {self.fresh_join}>"
            first = ast.Assign(targets=[ast.Name(id=name, ctx=ast.Store())],
                               value=ast.ListComp(elt=gen.elt, generators=gen.generators), lineno=st.lineno)
            call = ast.Call(func=st.value.func, args=[ast.Name(id=name, ctx=ast.Load())], keywords=[])
            second = ast.Return(value=call) if isinstance(st, ast.Return) else \
                ast.Assign(targets=st.targets, value=call, lineno=st.lineno)
            return self.block([ast.fix_missing_locations(first), ast.fix_missing_locations(second)] + rest,
                              defined, in_loop, ind)
        # ---- list comprehension `[E for v in xs]` / `[x := E for v in xs]` (returned or assigned): the loop
        # `lc = []; for v in xs: (x = E;) lc.append(E or x)`.  The comprehension's loop variable is local to it (it is
        # a loop variable here too); a walrus target is a variable of the enclosing function (PEP 572).
        if isinstance(st, (ast.Return, ast.Assign)) and isinstance(st.value, ast.ListComp):
            lc = st.value
            g = lc.generators[0]
            if len(lc.generators) != 1 or g.is_async or isinstance(st, ast.Assign) and not (
                    len(st.targets) == 1 and isinstance(st.targets[0], ast.Name)):
                raise Untranslatable(f"comprehension {ast.unparse(lc)}")
            self.fresh_lc = getattr(self, "fresh_lc", 0) + 1
            name = f"<comprehension {self.fresh_lc}>" if isinstance(st, ast.Return) else st.targets[0].id
            pre, val = [], lc.elt
            if isinstance(val, ast.NamedExpr):
                pre, val = [ast.Assign(targets=[val.target], value=val.value, lineno=st.lineno)], val.target
            app = ast.Expr(ast.Call(func=ast.Attribute(value=ast.Name(id=name, ctx=ast.Load()), attr="append",
                                                       ctx=ast.Load()), args=[val], keywords=[]))
            inner = pre + [app]
            for cnd in reversed(g.ifs):
                inner = [ast.If(test=cnd, body=inner, orelse=[])]
            new = [ast.Assign(targets=[ast.Name(id=name, ctx=ast.Store())], value=ast.List(elts=[], ctx=ast.Load()),
                              lineno=st.lineno),
                   ast.For(target=g.target, iter=g.iter, body=inner, orelse=[], lineno=st.lineno)]
            if isinstance(st, ast.Return):
                new.append(ast.Return(value=ast.Name(id=name, ctx=ast.Load())))
            return self.block([ast.fix_missing_locations(x) for x in new] + rest, defined, in_loop, ind)
        # ---- `xs.extend(E for v in it [if c])` on a local list (a generator expression or a list comprehension as the
        # only argument): the loop `for v in it: [if c:] xs.append(E)` — `extend` takes the items one by one; when one
        # of them raises, the exception leaves the function and the partly extended local list is not observable
        if isinstance(st, ast.Expr) and isinstance(st.value, ast.Call) and isinstance(st.value.func, ast.Attribute) \
                and st.value.func.attr == "extend" and isinstance(st.value.func.value, ast.Name) \
                and len(st.value.args) == 1 and not st.value.keywords \
                and isinstance(st.value.args[0], (ast.GeneratorExp, ast.ListComp)):
            gen = st.value.args[0]
            g = gen.generators[0]
            if len(gen.generators) != 1 or g.is_async or isinstance(gen.elt, ast.NamedExpr):
                raise Untranslatable(f"generator {ast.unparse(gen)}")
            app = ast.Expr(ast.Call(func=ast.Attribute(value=st.value.func.value, attr="append", ctx=ast.Load()),
                                    args=[gen.elt], keywords=[]))
            inner = [app]
            for cnd in reversed(g.ifs):
                inner = [ast.If(test=cnd, body=inner, orelse=[])]
            loop = ast.For(target=g.target, iter=g.iter, body=inner, orelse=[], lineno=st.lineno)
            return self.block([ast.fix_missing_locations(loop)] + rest, defined, in_loop, ind)
        # ---- `xs.append(e)` on a local list
        if isinstance(st, ast.Expr) and isinstance(st.value, ast.Call) and isinstance(st.value.func, ast.Attribute) \
                and st.value.func.attr == "append" and isinstance(st.value.func.value, ast.Name) \
                and len(st.value.args) == 1 and not st.value.keywords:
            name = st.value.func.value.id
            self.invalidate({name})
            if name not in self.vars or name not in defined or t_arg(self.vars[name], "List") is None:
                raise Untranslatable(f"append to {name}, which is not a local list")
            v, ty = self.expr(st.value.args[0], defined)
            if self.vars[name] == "List ?":
                self.vars[name] = t_app("List", ty)
            if self.vars[name] != t_app("List", ty):
                raise Untranslatable(f"append of a {ty} to {name} : {self.vars[name]}")
            pre = self.flush(ind)
            term, d2, kind = self.block(rest, defined, in_loop, ind)
            return (f"{pre}{ind}let s := {{ s with {self.fld(name)} := s.{self.fld(name)} ++ [{v}] }}\n{term}",
                    d2, kind)
        if isinstance(st, ast.Assign) and len(st.targets) == 1:
            tgt = st.targets[0]
            src = ast.unparse(st.value)
            if isinstance(tgt, ast.Name) and isinstance(st.value, ast.Dict):
                self.bound["dict:" + tgt.id] = st.value
                return self.block(rest, defined, in_loop, ind)
            if isinstance(tgt, ast.Name) and src in self.cfg["alias"] and src in self.cfg["env"]:
                # `x = <input path>`: x is another name of the input (whatever x is called)
                self.bound[tgt.id] = self.cfg["env"][src]
                self.alias_src[tgt.id] = st.value
                return self.block(rest, defined, in_loop, ind)
            if isinstance(tgt, ast.Name):
                if tgt.id in self.bound:
                    raise Untranslatable(f"assignment to the loop variable {tgt.id}")
                self.invalidate({tgt.id})
                if isinstance(st.value, ast.List) and not st.value.elts:
                    v, ty = "[]", self.vars.get(tgt.id, "List ?")      # element type: fixed by the first `append`
                    if t_arg(ty, "List") is None:
                        raise Untranslatable(f"variable {tgt.id} used at types {ty} and list")
                    self.vars[tgt.id] = ty
                else:
                    v, ty = self.expr(st.value, defined)
                    v = self.declare(tgt.id, ty, v)
                pre = self.flush(ind)
                term, d2, kind = self.block(rest, defined | {tgt.id}, in_loop, ind)
                return f"{pre}{ind}let s := {{ s with {self.fld(tgt.id)} := {v} }}\n{term}", d2, kind
            if isinstance(tgt, ast.Subscript) and isinstance(tgt.slice, ast.Constant) and \
                    tgt.slice.value in self.cfg["outputs"] and in_loop:
                v, ty = self.expr(st.value, defined)
                if ty != self.cfg["outputs"][tgt.slice.value]:
                    raise Untranslatable(f"output column {tgt.slice.value} written at type {ty}")
                col = "out_" + tgt.slice.value
                pre = self.flush(ind)
                term, d2, kind = self.block(rest, defined, in_loop, ind)
                return f"{pre}{ind}let s := {{ s with {col} := s.{col} ++ [{v}] }}\n{term}", d2, kind
            if isinstance(tgt, ast.Subscript) and ast.unparse(tgt.value) in (self.cfg.get("dict_outputs") or {}):
                # `P[k] = v` on a configured dict of the caller's object: the write is recorded, in order
                out, kt, vt = self.cfg["dict_outputs"][ast.unparse(tgt.value)]
                k, tk = self.expr(tgt.slice, defined)
                v, tv = self.expr(st.value, defined)
                if (tk, tv) != (kt, vt):
                    raise Untranslatable(f"write {ast.unparse(st)} at types {tk}, {tv}")
                col = "out_" + out
                pre = self.flush(ind)
                term, d2, kind = self.block(rest, defined, in_loop, ind)
                return f"{pre}{ind}let s := {{ s with {col} := s.{col} ++ [({k}, {v})] }}\n{term}", d2, kind
            raise Untranslatable(f"assignment {ast.unparse(st)}")
        if isinstance(st, ast.AugAssign) and isinstance(st.target, ast.Name) and isinstance(st.op, (ast.Add, ast.Sub)):
            new = ast.Assign(targets=[st.target], value=ast.BinOp(left=ast.Name(id=st.target.id, ctx=ast.Load()),
                                                                   op=st.op, right=st.value), lineno=st.lineno)
            return self.block([new] + rest, defined, in_loop, ind)
        if isinstance(st, ast.If):
            body, orelse = list(st.body), list(st.orelse)
            t0, flip = st.test, False
            if isinstance(t0, ast.UnaryOp) and isinstance(t0.op, ast.Not):
                t0, flip = t0.operand, True
            if isinstance(t0, ast.Call) and isinstance(t0.func, ast.Name) and t0.func.id == "isinstance":
                # a test decided by the static type of its argument: only the branch that can run is translated (the
                # other one is dead for every input of the declared type and need not be typeable)
                live = body if self.static_isinstance(t0, defined) != flip else orelse
                return self.block(live + rest, defined, in_loop, ind)
            test = self.test(st, defined)
            pre = self.flush(ind)
            ends_continue = in_loop and body and isinstance(body[-1], ast.Continue)
            if ends_continue:
                a, _, _ = self.narrowed(test, lambda: self.block(body[:-1], defined, in_loop, ind + "    "))
                b, d2, kind = self.narrowed(test, lambda: self.block(orelse + rest, defined, in_loop, ind + "    "),
                                            "else")
                return pre + test.wrap(a, b, ind, self.DO), d2, kind
            if orelse and always_leaves(orelse) and not always_leaves(body):
                # every path through the ELSE branch returns / raises: what follows continues the body
                a, d2, kind = self.narrowed(test, lambda: self.block(body + rest, defined, in_loop, ind + "    "))
                b, _, kb = self.narrowed(test, lambda: self.block(orelse, defined, in_loop, ind + "    "), "else")
                if kb != "return" or (kind != "return" and not in_loop):
                    raise Untranslatable("a path reaches the end of the function without a return")
                return pre + test.wrap(a, b, ind, self.DO), d2, kind
            a, da, ka = self.narrowed(test, lambda: self.block(body, defined, in_loop, ind + "    "))
            if ka == "return":       # every path through the body returns / raises: what follows is the else branch
                b, d2, kind = self.narrowed(test, lambda: self.block(orelse + rest, defined, in_loop, ind + "    "),
                                            "else")
                if kind != "return" and not in_loop:
                    raise Untranslatable("a path reaches the end of the function without a return")
                return pre + test.wrap(a, b, ind, self.DO), d2, kind
            b, db, kb = self.narrowed(test, lambda: self.block(orelse, defined, in_loop, ind + "    "), "else")
            if ka != "fall" or kb != "fall":
                raise Untranslatable("return / continue in the middle of a branch")
            self.invalidate(stored_names(body + orelse))
            term, d2, kind = self.block(rest, da & db, in_loop, ind)
            return (f"{pre}{ind}let s {'←' if self.M else ':='}\n{test.wrap(a, b, ind + '  ', self.DO)}\n{term}",
                    d2, kind)
        if isinstance(st, ast.For) and not st.orelse:
            it = st.iter
            self.fresh += 1
            n = self.fresh
            x = f"x{n}"
            saved = dict(self.bound)
            after_loop = None
            if isinstance(it, ast.Call) and isinstance(it.func, ast.Name) and it.func.id == "enumerate" and \
                    len(it.args) == 1 and isinstance(st.target, ast.Tuple) and len(st.target.elts) == 2:
                xs, txs = self.expr(it.args[0], defined)
                elt = t_arg(txs, "List")
                if elt is None:
                    raise Untranslatable(f"enumerate over {txs}")
                i, v = (t.id for t in st.target.elts)
                self.bound[i] = (f"(Int.ofNat {x}.2)", "Int")
                self.bound[v] = (f"{x}.1", elt)
                xty = f"{lean_type(elt)} × Nat"
                xs = f"{xs}.zipIdx"
            elif isinstance(it, ast.Call) and isinstance(it.func, ast.Name) and it.func.id == "zip" and \
                    len(it.args) == 2 and isinstance(st.target, ast.Tuple) and len(st.target.elts) == 2 and \
                    all(isinstance(t, ast.Name) for t in st.target.elts) and \
                    all(k.arg == "strict" and isinstance(k.value, ast.Constant) and isinstance(k.value.value, bool)
                        for k in it.keywords) and len(it.keywords) <= 1:
                # for a, b in zip(xs, ys[, strict=True]): the pairs of the common prefix, in order; with strict=True a
                # ValueError AFTER the last pair when the lengths differ (raised when zip is asked for the next pair)
                xs1, t1 = self.expr(it.args[0], defined)
                xs2, t2 = self.expr(it.args[1], defined)
                e1, e2 = t_arg(t1, "List"), t_arg(t2, "List")
                if e1 is None or e2 is None:
                    raise Untranslatable(f"zip over {t1}, {t2}")
                zip_strict = bool(it.keywords and it.keywords[0].value.value)
                if zip_strict and not self.M:
                    raise Untranslatable("zip(strict=True) may raise, and the function is not translated with exceptions")
                a, b = (t.id for t in st.target.elts)
                self.bound[a] = (f"{x}.1", e1)
                self.bound[b] = (f"{x}.2", e2)
                xty = f"{t_paren(lean_type(e1))} × {t_paren(lean_type(e2))}"
                xs = f"({xs1}.zip {xs2})"
                if zip_strict:
                    after_loop = f"if {xs1}.length ≠ {xs2}.length then throw Exc.ValueError"
            elif isinstance(st.target, ast.Name):
                xs, txs = self.expr(it, defined)
                if txs == "Str":
                    elt = "Char"
                elif t_arg(txs, "List") is not None:
                    elt = t_arg(txs, "List")
                else:
                    raise Untranslatable(f"loop over {txs}")
                self.bound[st.target.id] = (x, elt)
                xty = lean_type(elt)
            else:
                raise Untranslatable(f"loop header {ast.unparse(st.target)} in {ast.unparse(it)}")
            pre = self.flush(ind)
            outer = list(self.loopvars)
            self.loopvars.append((x, xty))
            saved_narrow, self.narrow = self.narrow, {}     # match binders are not in scope of the loop definition
            body, dbody, kind = self.block(list(st.body), defined, True, "  ")
            self.narrow = saved_narrow
            self.loopvars.pop()
            if kind != "fall":
                raise Untranslatable("return inside a loop")
            self.bound = saved
            params = self.tparams() + " ".join(f"({p} : {lean_type(t)})" for p, t in self.cfg["params"])
            outer_decl = " ".join(f"({a} : {t})" for a, t in outer)
            sig = f"Except Exc {self.st_type()} := do" if self.M else f"{self.st_type()} :="
            self.loops.append(f"/-- body of loop {n} -/\n"
                              f"def loop{n} {params} {outer_decl} (s : {self.st_type()}) ({x} : {xty}) : {sig}\n{body}\n")
            args = " ".join([n for n, _ in self.cfg.get("fn_params") or []] + [p for p, _ in self.cfg["params"]] +
                            [a for a, _ in outer])
            # variables first assigned inside the loop are not definitely assigned after it
            self.invalidate(stored_names(st.body))
            term, d2, kind = self.block(rest, defined, in_loop, ind)
            if self.M:
                chk = f"{ind}{after_loop}\n" if after_loop else ""
                return f"{pre}{ind}let s ← {xs}.foldlM (loop{n} {args}) s\n{chk}{term}", d2, kind
            return f"{ind}let s := {xs}.foldl (loop{n} {args}) s\n{term}", d2, kind
        if isinstance(st, ast.Return) and not in_loop:
            if rest:
                raise Untranslatable("statements after return")
            src = ast.unparse(self.unalias(st.value)) if st.value is not None else "None"
            pure = "pure " if self.M else ""
            if src == "None" and self.cfg.get("implicit_return"):
                # a function whose result is its effect: `return` / `return None` / falling off the end hand back the
                # configured view of the final state
                return f"{ind}{pure}{self.cfg['implicit_return']}", defined, "return"
            if src in self.cfg["returns"]:
                return f"{ind}{pure}{self.cfg['returns'][src]}", defined, "return"
            v, ty = self.expr(st.value if st.value is not None else ast.Constant(value=None), defined)
            rt = self.cfg["ret_type"]
            if ty == "None" and t_arg(rt, "Option") is not None:
                v, ty = f"(none : {lean_type(rt)})", rt                    # `return None` where `T | None` is returned
            elif ty == t_arg(rt, "Option"):
                v, ty = f"(some {v})", rt
            if ty != rt:
                raise Untranslatable(f"return of type {ty}, expected {rt}")
            return f"{self.flush(ind)}{ind}{pure}{v}", defined, "return"
        if isinstance(st, ast.Raise) and self.M:
            if rest:
                raise Untranslatable("statements after raise")
            return f"{ind}throw Exc.{self.raised_class(st, defined)}", defined, "return"
        if isinstance(st, ast.Try) and self.M and not st.orelse and not st.finalbody and st.handlers:
            # try: BODY (every path returns or raises)  except E1 [as e]: raise F1(...) [from e] …  — as the last
            # statement.  Handlers are tried in order; only leaf classes of `Exc` are accepted, so "is an instance
            # of E" is "is E"; an exception no handler names propagates unchanged
            if rest:
                raise Untranslatable("statements after try")
            body, d2, kind = self.block(list(st.body), defined, in_loop, ind + "    ")
            if kind != "return":
                raise Untranslatable("a try body that can fall through")
            arms, seen = [], set()
            for h in st.handlers:
                if not (isinstance(h.type, ast.Name) and h.type.id in EXC_CLASSES):
                    raise Untranslatable(f"handler {ast.unparse(h.type) if h.type else 'bare except'}")
                if len(h.body) == 1 and isinstance(h.body[0], ast.Raise):
                    hb = f"throw Exc.{self.raised_class(h.body[0], defined, h.name)}"
                else:                 # a handler that returns (its body must not use the caught exception)
                    if h.name and any(isinstance(n, ast.Name) and n.id == h.name for x in h.body for n in ast.walk(x)):
                        raise Untranslatable(f"the handler of {h.type.id} uses the exception object")
                    hterm, _, hkind = self.block(list(h.body), defined, in_loop, ind + "    ")
                    if hkind != "return":
                        raise Untranslatable(f"a handler of {h.type.id} that can fall through")
                    hb = f"do\n{hterm}" if self.M else f"\n{hterm}"
                # `except E` catches E and its subclasses; an earlier handler wins
                for cls in [h.type.id] + EXC_SUBCLASSES.get(h.type.id, []):
                    if cls not in seen:
                        seen.add(cls)
                        arms.append(f"{ind}| .error Exc.{cls} => {hb}")
            rty = self.st_type() if in_loop else lean_type(self.cfg["ret_type"])
            return (f"{ind}(match (show Except Exc {t_paren(rty)} from do\n{body}) with\n" + "\n".join(arms) +
                    f"\n{ind}| r => r)"), d2, "return"
        raise Untranslatable(f"statement {ast.unparse(st).splitlines()[0]}")

    def unalias(self, e):
        """`e` with every local that is just another name of an input path replaced by that path"""
        al = self.alias_src

        class R(ast.NodeTransformer):
            def visit_Name(self, n):
                return al.get(n.id, n)

        import copy
        return R().visit(copy.deepcopy(e))

    def raised_class(self, st: ast.Raise, defined, exc_name=None) -> str:
        """`raise F(args) [from e]` → F; the arguments (a message) are not modelled but must be harmless: constants
        and f-strings over translatable expressions or the caught exception"""
        exc = st.exc
        if not (isinstance(exc, ast.Call) and isinstance(exc.func, ast.Name) and exc.func.id in EXC_CLASSES
                and not exc.keywords):
            raise Untranslatable(f"raise {ast.unparse(exc) if exc else ''}")
        if st.cause is not None and not (isinstance(st.cause, ast.Name) and st.cause.id == exc_name):
            raise Untranslatable(f"raise … from {ast.unparse(st.cause)}")
        for a in exc.args:
            pieces = a.values if isinstance(a, ast.JoinedStr) else [a]
            for p in pieces:
                if isinstance(p, ast.FormattedValue):
                    if p.format_spec is not None:
                        raise Untranslatable(f"format spec in {ast.unparse(a)}")
                    p = p.value
                if isinstance(p, ast.Constant) or (isinstance(p, ast.Name) and p.id == exc_name):
                    continue
                self.guarded(lambda p=p: self.expr(p, defined), ast.unparse(a))
        return exc.func.id

    def st_type(self) -> str:
        tp = self.cfg.get("type_params") or []
        return ("(St " + " ".join(tp) + ")") if tp else "St"

    def tparams(self) -> str:
        """type parameters and the parameters that stand for helper functions / dicts (`fn_params`, Lean types)"""
        tp = self.cfg.get("type_params") or []
        fp = "".join(f"({n} : {t}) " for n, t in self.cfg.get("fn_params") or [])
        return (("{" + " ".join(tp) + " : Type} ") if tp else "") + fp


class Test:
    """an `if` test: a Bool term, or a `match` on a path of type Option / List that narrows the path in the body"""

    def __init__(self, kind, c=None, scrut=None, pat=None, narrow=None, negated=False):
        self.kind, self.c, self.scrut, self.pat, self.negated = kind, c, scrut, pat, negated
        # facts known in the `then` branch / in the `else` branch (and, after a guard that leaves, in what follows)
        self.narrow, self.narrow_else = ({}, narrow or {}) if negated else (narrow or {}, {})

    def wrap(self, a: str, b: str, ind: str, do: str = "") -> str:
        """the Lean term `if test then a else b` (`a`, `b` already indented deeper than `ind`; `do` = " do" when the
        branches are statement sequences of the exception monad)"""
        if self.kind == "bool":
            return f"{ind}if {self.c} then{do}\n{a}\n{ind}else{do}\n{b}"
        if self.negated:             # `if P is None:` / `if not P:` — the roles of the branches are exchanged
            a, b = b, a
        if self.c is not None:       # Option whose content has a truthiness of its own
            a = (f"{ind}    if {self.c} then{do}\n{textwrap.indent(a, '    ')}\n{ind}    else{do}\n"
                 f"{textwrap.indent(b, '    ')}")
            return f"{ind}(match {self.scrut} with\n{ind}| none =>{do}\n{b}\n{ind}| {self.pat} =>\n{a})"
        empty = "none" if self.kind == "option" else "[]"
        return f"{ind}(match {self.scrut} with\n{ind}| {empty} =>{do}\n{b}\n{ind}| {self.pat} =>{do}\n{a})"


EXC_CLASSES = ("IndexError", "KeyError", "ZeroDivisionError", "ValueError", "TypeError", "AttributeError",
               "ColorValidationError")
# the only subclass relation among them (rtflite's own class; checked against the imported class, `exceptions=`)
EXC_SUBCLASSES = {"ValueError": ["ColorValidationError"]}


def always_leaves(stmts) -> bool:
    """syntactically: every path through the statements ends in `return` / `raise`"""
    if not stmts:
        return False
    last = stmts[-1]
    if isinstance(last, (ast.Return, ast.Raise)):
        return True
    return isinstance(last, ast.If) and always_leaves(last.body) and always_leaves(last.orelse)


def stored_names(stmts) -> set:
    """the names a list of statements may assign (assignment targets, walrus targets)"""
    out = set()
    for st in stmts:
        for n in ast.walk(st):
            if isinstance(n, ast.Name) and isinstance(n.ctx, ast.Store):
                out.add(n.id)
            if isinstance(n, ast.Call) and isinstance(n.func, ast.Attribute) and n.func.attr in ("append", "extend") \
                    and isinstance(n.func.value, ast.Name):
                out.add(n.func.value.id)
    return out


def t_paren(t: str) -> str:
    return f"({t})" if " " in t else t


def t_app(ctor: str, arg: str) -> str:
    return f"{ctor} {arg}" if " " not in arg else f"{ctor} ({arg})"


def _top_split(t: str, sep: str) -> list[str]:
    """split at the occurrences of `sep` that are not inside parentheses"""
    out, depth, cur, k = [], 0, "", 0
    while k < len(t):
        if t[k] == "(":
            depth += 1
        elif t[k] == ")":
            depth -= 1
        if depth == 0 and t.startswith(sep, k):
            out.append(cur)
            cur = ""
            k += len(sep)
            continue
        cur += t[k]
        k += 1
    return out + [cur]


def _strip_parens(t: str) -> str:
    t = t.strip()
    while t.startswith("("):
        depth = 0
        for k, ch in enumerate(t):
            depth += ch == "("
            depth -= ch == ")"
            if depth == 0:
                break
        if k != len(t) - 1:
            break
        t = t[1:-1].strip()
    return t


def t_arg(t: str, ctor: str):
    """the argument of the type application `ctor X` (None when `t` is not one): `X` is an atom or parenthesised"""
    if not t.startswith(ctor + " ") or len(_top_split(t, " × ")) != 1:
        return None
    inner = t[len(ctor) + 1:].strip()
    if len(_top_split(inner, " ")) != 1:
        return None
    return _strip_parens(inner)


def lean_type(t: str) -> str:
    t = _strip_parens(t)
    parts = _top_split(t, " × ")
    if len(parts) > 1:
        return " × ".join(t_paren(lean_type(x)) if " × " in _strip_parens(x) else _lt_arg(x) for x in parts)
    for ctor in ("List", "Option"):
        a = t_arg(t, ctor)
        if a is not None:
            return t_app(ctor, lean_type(a))
    return {"Str": "List Nat", "Char": "Nat", "Truthy": "Bool", "None": "Option Unit"}.get(t, t)


def _lt_arg(x: str) -> str:
    return lean_type(x)


def find_function(cfg) -> ast.FunctionDef:
    tree = ast.parse((repo_src() / cfg["file"]).read_text())
    for n in tree.body:
        if isinstance(n, ast.ClassDef) and n.name == cfg["cls"]:
            for m in n.body:
                if isinstance(m, ast.FunctionDef) and m.name == cfg["func"]:
                    return m
    raise Untranslatable(f"{cfg['cls']}.{cfg['func']} not found in {cfg['file']}")


def record_fields(file: str, cls: str):
    """int / bool fields of a pydantic model class, in declaration order"""
    tree = ast.parse((repo_src() / file).read_text())
    for n in tree.body:
        if isinstance(n, ast.ClassDef) and n.name == cls:
            out = []
            for m in n.body:
                if isinstance(m, ast.AnnAssign) and isinstance(m.target, ast.Name) and isinstance(m.annotation, ast.Name) \
                        and m.annotation.id in ("int", "bool"):
                    out.append((m.target.id, "Int" if m.annotation.id == "int" else "Bool"))
            if out:
                return out
    raise Untranslatable(f"class {cls} with int / bool fields not found in {file}")


def check_classes(cfg):
    """the configured record types against the imported classes: declared field types, default truthiness"""
    import importlib

    for mod, cls, base in cfg.get("exceptions", []):
        try:
            c = getattr(importlib.import_module(mod), cls)
            bases = [b.__name__ for b in c.__bases__]
        except Exception as e:  # noqa: BLE001
            raise Untranslatable(f"exception class {mod}.{cls}: {type(e).__name__}: {e}") from e
        if bases != [base] or cls not in EXC_SUBCLASSES.get(base, []):
            raise Untranslatable(f"exception class {mod}.{cls} derives from {bases}, the translation assumes {base}")

    for mod, cls, fields in cfg.get("classes", []):
        try:
            c = getattr(importlib.import_module(mod), cls)
            got = {f: str(c.model_fields[f].annotation) for f in fields}
        except Exception as e:  # noqa: BLE001
            raise Untranslatable(f"class {mod}.{cls}: {type(e).__name__}: {e}") from e
        if got != fields:
            raise Untranslatable(f"class {mod}.{cls} declares {got}, the translation assumes {fields}")
        if any(hasattr(c, m) for m in ("__bool__", "__len__")):
            raise Untranslatable(f"class {mod}.{cls} defines its own truthiness")


SIDE: dict[str, str] = {}      # name → text of the side file (source and variable names; not read by Lean)


def translate(cfg) -> str:
    cfg = dict(cfg, records=dict(cfg["records"]))
    check_classes(cfg)
    for rn, (file, cls) in (cfg.get("records_from") or {}).items():
        cfg["records"][rn] = record_fields(file, cls)
    node = find_function(cfg)
    got = [a.arg for a in node.args.args]
    want = cfg["skip_params"] + [p for p, _ in cfg["params"] if p in got]
    if sorted(got) != sorted(set(want)) or node.args.vararg or node.args.kwarg or node.args.kwonlyargs:
        raise Untranslatable(f"signature changed: {got}")
    stmts = list(node.body)
    shown = node
    if cfg.get("fragment"):
        # consecutive top-level statements of the function: from the first one whose source CONTAINS the first marker
        # up to, not including, the first later one that contains the second marker.  The markers name methods /
        # input paths (configuration), never locals, so renaming a local does not move the fragment.
        first, stop = cfg["fragment"]
        srcs = [ast.unparse(x) for x in stmts]
        i = next((k for k, t in enumerate(srcs) if first in t), None)
        j = next((k for k, t in enumerate(srcs) if i is not None and k > i and stop in t), None)
        if i is None or j is None:
            raise Untranslatable(f"fragment markers {first!r} … {stop!r} not found")
        stmts = stmts[i:j]
        shown = ast.Module(body=stmts, type_ignores=[])
    if cfg.get("implicit_return") and not (stmts and isinstance(stmts[-1], ast.Return)):
        stmts = stmts + [ast.Return(value=None)]           # falling off the end
    fn = Fn(cfg, node)
    fn.block(list(stmts), set(), False, "  ")
    seed = {k: v for k, v in fn.vars.items() if not k.startswith("out:")}
    fn = Fn(cfg, node, seed_vars=seed)            # second pass with the variable types of the first
    body, _, kind = fn.block(list(stmts), set(), False, "  ")
    if {k: v for k, v in fn.vars.items() if not k.startswith("out:")} != seed:
        raise Untranslatable("the types of the local variables do not settle")
    if kind != "return":
        raise Untranslatable("a path reaches the end of the function without a return")
    lines = [f"import Generated.PyPrelude"] + [f"import {m}" for m in cfg.get("imports", [])] + [
             "/-! GENERATED by harness/pytranslate.py from",
             f"`/repo/src/rtflite/{cfg['file']}` — `{cfg['cls']}.{cfg['func']}`.  Do not edit.",
             "",
             cfg["doc"],
             "",
             "Locals are alpha-renamed to `v0, v1, …` in the order of their first binding, loop variables to `x1, …`,",
             f"so this file does not depend on their names; the source translated and the original names are listed in",
             f"`Generated/Py{cfg['name']}.source.txt`.",
             "-/",
             "set_option linter.unusedVariables false",
             f"namespace Generated.Py.{cfg['name']}", ""]
    for rn, fields in cfg["records"].items():
        if rn in (cfg.get("records_import") or {}):      # the record type of a translated callee, shared with it
            lines += [f"abbrev {rn} := {cfg['records_import'][rn]}", ""]
            continue
        lines.append(f"structure {rn} where")
        lines += [f"  {f} : {lean_type(t)}" for f, t in fields]
        lines += ["  deriving Repr, Inhabited, DecidableEq", ""]
    lines.append("/-- the function's local variables (defaults are never read: definite assignment is checked) -/")
    tp = cfg.get("type_params") or []
    lines.append("structure St " + "".join(f"({t} : Type) " for t in tp) + "where")
    if not fn.vars:
        lines.append("  unit : Unit := ()")
    for v, t in fn.vars.items():
        lt = lean_type(t)
        lines.append(f"  {fn.fld(v)} : {lt} := {DEFAULT.get(t, 'none' if lt.startswith('Option') else '[]')}")
    lines += ["  deriving Inhabited" if tp else "  deriving Repr, Inhabited", ""]
    lines += fn.loops
    for v, t in fn.vars.items():
        if "?" in t:
            raise Untranslatable(f"the element type of the list {v} is never determined")
    params = fn.tparams() + " ".join(f"({p} : {lean_type(t)})" for p, t in cfg["params"])
    if fn.M:
        lines.append(f"def run {params} : Except Exc {t_paren(lean_type(cfg['ret_type']))} := do")
    else:
        lines.append(f"def run {params} : {lean_type(cfg['ret_type'])} :=")
    lines.append(f"  let s : {fn.st_type()} := {{}}")
    for pname in fn.assigned_params:
        lines.append(f"  let s := {{ s with {fn.fld(pname)} := {pname} }}")
    lines.append(body)
    lines += ["", f"end Generated.Py.{cfg['name']}", ""]
    names = "\n".join(f"  {fn.fld(v)} = {v} : {t}" for v, t in fn.vars.items() if not v.startswith("out:"))
    SIDE[cfg["name"]] = (f"{cfg['cls']}.{cfg['func']} ({cfg['file']}) as translated into Generated/Py{cfg['name']}.lean\n\n"
                         f"locals:\n{names or '  (none)'}\n\nsource:\n{textwrap.indent(ast.unparse(shown), '  ')}\n")
    return "\n".join(lines)


PRELUDE = '''import Model.Escape
/-! GENERATED by harness/pytranslate.py (fixed text): the few Python built-ins the translated functions use. -/
namespace Generated.Py

/-- `str(i)` / `f"{i}"` for an `int`, as code points (checked against Python by C10's correspondence) -/
def strOfInt (i : Int) : List Nat := Model.Escape.intRepr i

/-! ### exceptions (functions translated with `raises=True` live in `Except Exc`)

An exception is represented by its class only (messages, causes and tracebacks are not modelled); the classes are
leaves of Python's hierarchy, so `except E` catches exactly the value `Exc.E`. -/
inductive Exc | IndexError | KeyError | ZeroDivisionError | ValueError | TypeError | AttributeError
  | ColorValidationError   -- rtflite's own subclass of ValueError: `except ValueError` catches it too
  deriving DecidableEq, Repr, Inhabited

/-- `a % b` on ints: `ZeroDivisionError` for `b = 0`, otherwise the remainder of floor division (sign of `b`) -/
def pyMod (a b : Int) : Except Exc Int :=
  if b = 0 then .error .ZeroDivisionError else .ok (Int.fmod a b)

/-- `a / b` on floats, as exact rationals (the float caveat of DESIGN §6): `ZeroDivisionError` for `b = 0` -/
def pyDiv (a b : Rat) : Except Exc Rat :=
  if b = 0 then .error .ZeroDivisionError else .ok (a / b)

/-- `int(x)` of a float (an exact rational here): truncation toward zero -/
def pyInt (x : Rat) : Int := if 0 ≤ x then x.floor else -((-x).floor)

/-- insertion into a strictly increasing list of code points (an element already there is not inserted again) -/
def insertCp (c : Nat) : List Nat → List Nat
  | [] => [c]
  | d :: ds => if c < d then c :: d :: ds else if c = d then d :: ds else d :: insertCp c ds

/-- `sorted(set(s))` / `sorted(list(set(s)))` on a str: its distinct characters in increasing code-point order -/
def pySortedSet (s : List Nat) : List Nat := s.foldr insertCp []

/-- `xs[i]` on a list: `-len ≤ i < 0` counts from the end, outside `-len ≤ i < len` raises `IndexError` -/
def pyIndex {α : Type} (xs : List α) (i : Int) : Except Exc α :=
  let j := if i < 0 then i + Int.ofNat xs.length else i
  if j < 0 then .error .IndexError else
    match xs[j.toNat]? with
    | some x => .ok x
    | none => .error .IndexError

/-- `sum(xs)`: `0 + x₀ + x₁ + …` from the left (floats as exact rationals; the empty sum is the int `0`) -/
def sumRat (xs : List Rat) : Rat := xs.foldl (· + ·) 0

def sumInt (xs : List Int) : Int := xs.foldl (· + ·) 0

/-- `sep.join(xs)` on strings -/
def pyJoin (sep : List Nat) : List (List Nat) → List Nat
  | [] => []
  | [x] => x
  | x :: y :: rest => x ++ sep ++ pyJoin sep (y :: rest)

/-- `d[k]` on a dict given as a lookup function: `KeyError` when the key is absent -/
def pyDictGet {κ ν : Type} (d : κ → Option ν) (k : κ) : Except Exc ν :=
  match d k with
  | some v => .ok v
  | none => .error .KeyError

/-- `xs.index(v)`: the first position of `v`, `ValueError` when it does not occur -/
def pyListIndex {α : Type} [DecidableEq α] (xs : List α) (v : α) : Except Exc Int :=
  if xs.idxOf v < xs.length then .ok (Int.ofNat (xs.idxOf v)) else .error .ValueError

/-- insertion before the first element whose key is not smaller (the inserted element stood earlier: stable) -/
def insertByKey {α : Type} (x : α × Int) : List (α × Int) → List (α × Int)
  | [] => [x]
  | y :: ys => if x.2 ≤ y.2 then x :: y :: ys else y :: insertByKey x ys

def sortByKey {α : Type} : List (α × Int) → List (α × Int)
  | [] => []
  | x :: xs => insertByKey x (sortByKey xs)

/-- `sorted(xs, key=f)`: the keys are computed for all elements first, in order (the first failure is raised), then
the list is sorted stably by key (Python's sort is stable) -/
def pySortedByKey {α : Type} (xs : List α) (key : α → Except Exc Int) : Except Exc (List α) := do
  let ks ← xs.mapM key
  pure ((sortByKey (xs.zip ks)).map (·.1))

end Generated.Py
'''


def generate(out_dir: Path = OUT) -> dict:
    out_dir.mkdir(parents=True, exist_ok=True)
    (out_dir / "PyPrelude.lean").write_text(PRELUDE)
    status = {}
    for cfg in TARGETS:
        path = out_dir / f"Py{cfg['name']}.lean"
        try:
            for dep in cfg.get("depends", []):
                if not status.get(dep, {}).get("ok"):
                    raise Untranslatable(f"the function it calls ({dep}) is outside the translated subset")
            text = translate(cfg)
            status[cfg["name"]] = dict(ok=True, func=f"{cfg['cls']}.{cfg['func']}", file=cfg["file"])
        except Untranslatable as e:
            text = (f"/-! GENERATED by harness/pytranslate.py: `{cfg['cls']}.{cfg['func']}` is outside the translated "
                    f"subset:\n{e}\n-/\nnamespace Generated.Py.{cfg['name']}\ndef untranslatable : Bool := true\n"
                    f"end Generated.Py.{cfg['name']}\n")
            status[cfg["name"]] = dict(ok=False, func=f"{cfg['cls']}.{cfg['func']}", file=cfg["file"], why=str(e))
        if not path.exists() or path.read_text() != text:
            path.write_text(text)
        side = out_dir / f"Py{cfg['name']}.source.txt"
        stext = SIDE.pop(cfg["name"], f"{cfg['cls']}.{cfg['func']}: not translated\n")
        if not side.exists() or side.read_text() != stext:
            side.write_text(stext)
    (out_dir / "py_status.json").write_text(json.dumps(status, indent=1))
    return status


if __name__ == "__main__":
    print(json.dumps(generate(), indent=1))
