"""Shared generator / observer for the layout family (C02 C03 C05 C06 C07 C09 and C01's documents).

Everything that can appear in the output carries a sentinel so that blocks can be classified from the
real RTF without trusting rtflite's layout:
  data cell          r{i}c{j}            (i = original row, j = index among the data columns)
  data columns       COL{j}              page_by columns PB{l}, subline_by columns SL{l}
  page_by values     G{l}{name}          ('-----' = divider)
  subline_by values  SB{name}
  header texts       HD{k}c{j}           title TTL{k}; subline SUBLN; footnote FTNOTE; source SRCTXT
  page header/footer PGHDR / PGFTR
Documents with edge column NAMES (`edge_names`; '*', '^x$', '', …) carry the rows of names an auto-populated header
shows in info['name_headers'] (and the name → sentinel-role map in info['colnames']); `classify` recognises exactly
those rows as column headers, everything else as above.
"""
from __future__ import annotations

import re
from fractions import Fraction

from . import docgen, rtfread

_W = {}


def measure(text: str, font=1, size=9) -> float:
    from rtflite.strwidth import get_string_width

    k = (text, font, size)
    if k not in _W:
        _W[k] = get_string_width(text, font=font, font_size=size)
    return _W[k]


def band_text(rng, tag, k, cw, font=1, size=9):
    """text starting with tag whose width is well inside the k-line band of a column cw inches wide"""
    if k <= 1:
        return tag
    lo, hi = (k - 1 + 0.25) * cw, (k - 0.25) * cw
    words = ["lorem", "ipsum", "dolor", "sit", "amet", "elit", "sed", "do"]
    s = tag
    if rng.random() < 0.2:
        # wide glyphs without blanks: few characters, much width
        s += " "
        while measure(s, font, size) < lo:
            s += rng.choice("WMWM@%")
    while measure(s, font, size) < lo:
        s += " " + rng.choice(words)
    while measure(s, font, size) > hi and len(s) > len(tag):
        s = s[:-1].rstrip() or tag
    return s if lo <= measure(s, font, size) <= hi else tag


STRATEGIES = ["plain", "page_by", "page_by_np", "page_by_np_first", "subline", "subline_page_by"]


def gen_spec(rng, *, strategy=None, n=None, nrow=None, header_mode=None, footnote=None, source=None,
             placements=None, long_rows=True, dividers=False, levels=None, title=None, subline=None,
             page_headers=None, nulls=0.0, geometry=None, pageby_header=None, font=None, size=None, collide=False,
             numeric_keys=False, ndata=None, group_by=None, sublevels=1, subline_dividers=False):
    """Returns (spec, info). info carries what the oracles need (keys, displayed columns, …).

    Strategies `subline_page_by_np` / `subline_page_by_np_first` (not in STRATEGIES: drawn only on request) are
    subline_by + page_by with new_page=True and pageby_row 'column' / 'first_row'.
    `group_by` adds RTFBody(group_by=…) to the SAME body (None = no group_by):
      'key' / 'key2'  one / two extra displayed key columns COLG0 (COLG1) whose values GB… repeat in contiguous runs
                      (runs independent of the page_by / subline_by groups: they straddle group changes and page breaks)
      'data'          one or two of the data columns (every cell distinct: nothing is blanked)
      'page_by_col'   the page_by columns, where they stay in the table (new_page + pageby_row='column', no subline_by;
                      else = 'key')
    `sublevels` = number of subline_by columns; `subline_dividers` turns whole subline_by runs into '-----' groups."""
    strategy = strategy or rng.choice(STRATEGIES + ["plain"])
    n = rng.randint(0, 40) if n is None else n
    ndata = rng.randint(1, 4) if ndata is None else ndata
    page_by = subline_by = None
    if strategy.startswith("page_by"):
        nlev = levels or rng.choice([1, 1, 2, 3])
        page_by = [f"PB{l}" for l in range(nlev)]
    elif strategy == "subline":
        subline_by = ["SL0"]
    elif strategy in ("subline_page_by", "subline_page_by_np", "subline_page_by_np_first"):
        subline_by = ["SL0"]
        page_by = [f"PB{l}" for l in range(levels or rng.choice([1, 2]))]
    if subline_by and sublevels > 1:
        subline_by = [f"SL{l}" for l in range(sublevels)]
    new_page = strategy in ("page_by_np", "page_by_np_first", "subline_page_by_np", "subline_page_by_np_first")
    pageby_row = "first_row" if strategy.endswith("_np_first") else "column"
    nrow = nrow or rng.randint(2, 30)

    # hierarchical keys as runs
    keyvals = {}
    hier = (subline_by or []) + (page_by or [])
    outer = None
    for lvl, kc in enumerate(hier):
        # inner levels draw from a small alphabet so that equal inner values recur under different outer groups
        letters = "abcdefgh" if lvl == 0 else rng.choice(["ab", "abc", "abcdefgh"])
        alpha = [("SB" if kc.startswith("SL") else f"G{kc[2:]}") + x for x in letters]
        if outer is None:
            vals = docgen.run_keys(rng, n, alpha, 1, max(2, nrow))
        else:
            vals = []
            i = 0
            while i < n:
                j = i
                while j < n and outer[j] == outer[i]:
                    j += 1
                vals += docgen.run_keys(rng, j - i, alpha, 1, max(1, nrow // 2))
                i = j
        if ((dividers and kc.startswith("PB")) or (subline_dividers and kc.startswith("SL"))) and n:
            # turn some whole runs into divider groups
            i = 0
            while i < n:
                j = i
                while j < n and vals[j] == vals[i]:
                    j += 1
                if rng.random() < 0.25:
                    vals[i:j] = ["-----"] * (j - i)
                i = j
        keyvals[kc] = vals
        outer = vals if outer is None else [a + "|" + b for a, b in zip(outer, vals)]

    if collide and page_by and len(page_by) >= 2 and n >= 2:
        # two adjacent groups whose key tuples differ although their concatenations are equal:
        # ('G0z', 'G1yG1x') then ('G0zG1y', 'G1x') — still one value per level, contiguous, and level-tagged
        o, i1 = keyvals[page_by[0]], keyvals[page_by[1]]
        starts = [i for i in range(1, n) if o[i] != o[i - 1]]
        if starts:
            b = rng.choice(starts)
            lo = b - 1
            while lo > 0 and o[lo - 1] == o[b - 1] and i1[lo - 1] == i1[b - 1]:
                lo -= 1
            hi = b
            while hi + 1 < n and o[hi + 1] == o[b] and i1[hi + 1] == i1[b]:
                hi += 1
            a0, a1 = lo, hi + 1
            while a0 > 0 and o[a0 - 1] == o[b - 1]:
                a0 -= 1
            while a1 < n and o[a1] == o[b]:
                a1 += 1
            o[a0:b] = ["G0z"] * (b - a0)
            o[b:a1] = ["G0zG1y"] * (a1 - b)
            i1[lo:b] = ["G1yG1x"] * (b - lo)
            i1[b:hi + 1] = ["G1x"] * (hi + 1 - b)

    numeric = None
    if numeric_keys and page_by and n:
        # the outermost page_by column holds numbers or booleans whose first value is falsy (0, 0.0, False):
        # the heading shows str(value)
        kc = page_by[0]
        code = {}
        for v in keyvals[kc]:
            code.setdefault(v, len(code))
        if "-----" not in code:
            numeric = rng.choice(["int", "float", "bool"] if len(code) <= 2 else ["int", "float", "int0"])
            conv = {"int": lambda c: c, "int0": lambda c: c - 1, "float": lambda c: float(c), "bool": lambda c: c == 1}[numeric]
            keyvals[kc] = [conv(code[v]) for v in keyvals[kc]]

    datacols = [f"COL{j}" for j in range(ndata)]
    gb_cols, gb_vals, group_cols = [], {}, None
    if group_by == "page_by_col" and (subline_by or not (page_by and new_page and pageby_row == "column")):
        group_by = "key"       # (under subline_by the page_by values recur in later subline groups: refused by design)
    if group_by in ("key", "key2"):
        # contiguous runs of values that never recur (group_by refuses a value that comes back later); the inner
        # level restarts its alphabet under every outer value
        gb_cols = ["COLG0", "COLG1"][: 1 if group_by == "key" else 2]
        i, r = 0, 0
        gb_vals = {c: [] for c in gb_cols}
        while i < n:
            ln = min(n - i, rng.choice([1, 1, 2, 3, 4, max(2, nrow)]))
            gb_vals["COLG0"] += [f"GB{'abcdefgh'[r % 8]}{r}"] * ln
            if len(gb_cols) == 2:
                j, q = 0, 0
                while j < ln:
                    m = min(ln - j, rng.randint(1, 3))
                    gb_vals["COLG1"] += [f"GC{'xyz'[q % 3]}{q}"] * m
                    j += m
                    q += 1
            i += ln
            r += 1
        group_cols = list(gb_cols)
    elif group_by == "data":
        group_cols = datacols[: rng.randint(1, min(2, ndata))]
    elif group_by == "page_by_col":
        group_cols = page_by[: rng.randint(1, len(page_by))]
    all_cols = hier + gb_cols + datacols
    removed = set(subline_by or [])
    if page_by and (not new_page or pageby_row != "column"):
        removed |= set(page_by)
    displayed = [c for c in all_cols if c not in removed]

    landscape = geometry == "landscape"
    col_total = 8.5 if landscape else 6.25   # RTFPage defaults: width - 2.5 / width - 2.25
    page_kw = dict(nrow=nrow)
    if landscape:
        page_kw["orientation"] = "landscape"
    if isinstance(geometry, dict):
        page_kw.update(geometry)
        col_total = geometry.get("col_width", (geometry.get("width", 8.5) - 2.25))
    cw = col_total / len(displayed)

    rows, lines = [], []
    for i in range(n):
        row = [keyvals[kc][i] for kc in hier] + [gb_vals[c][i] for c in gb_cols]
        k = 1
        if long_rows:
            r = rng.random()
            k = 2 if r < 0.12 else 3 if r < 0.17 else 1
        jlong = rng.randrange(ndata)
        for j in range(ndata):
            tag = f"r{i}c{j}"
            if rng.random() < nulls:
                row.append(None)
            elif j == jlong and k > 1:
                row.append(band_text(rng, tag, k, cw, font or 1, size or 9))
            else:
                row.append(tag)
        rows.append(row)

    header_mode = header_mode or rng.choice(["default", "explicit", "explicit2", "none", "no_colheader"])
    body = {}
    if header_mode == "default":
        headers = "default"
    elif header_mode == "none":
        headers = []
    elif header_mode == "no_colheader":
        headers = "default"
        body["as_colheader"] = False
    elif header_mode == "explicit":
        headers = [dict(text=[f"HD0c{j}" for j in range(len(displayed))])]
    else:
        headers = [dict(text=["HD0c0"], col_rel_width=[1]), dict(text=[f"HD1c{j}" for j in range(len(displayed))])]
    if page_by:
        body.update(page_by=page_by, new_page=new_page, pageby_row=pageby_row)
    if subline_by:
        body["subline_by"] = subline_by
    if group_cols:
        body["group_by"] = group_cols
    ph = rng.random() < 0.5 if pageby_header is None else pageby_header
    body["pageby_header"] = ph
    if font is not None:
        body["text_font"] = font
    if size is not None:
        body["text_font_size"] = size

    def comp(kind, text):
        if kind is None:
            kind = rng.choice(["absent", "para", "table"])
        return kind, (None if kind == "absent" else dict(text=text, as_table=(kind == "table")))

    fk, fspec = comp(footnote, "FTNOTE")
    sk, sspec = comp(source, "SRCTXT")
    pt, pf, ps = placements or (rng.choice(["first", "last", "all"]), rng.choice(["first", "last", "all"]),
                                rng.choice(["first", "last", "all"]))
    page_kw.update(page_title=pt, page_footnote=pf, page_source=ps)
    has_title = rng.random() < 0.6 if title is None else title
    has_subl = rng.random() < 0.4 if subline is None else subline
    has_ph = rng.random() < 0.3 if page_headers is None else page_headers
    spec = dict(kind="table", df=dict(cols=all_cols, rows=rows), page=page_kw, headers=headers, body=body,
                title=dict(text=["TTL0", "TTL1"]) if has_title else None,
                subline=dict(text="SUBLN") if has_subl else None,
                footnote=fspec, source=sspec,
                page_header=dict(text="PGHDR") if has_ph else None,
                page_footer=dict(text="PGFTR") if has_ph else None)
    info = dict(numeric_keys=numeric, strategy=strategy, group_by=group_cols, group_kind=group_by, n=n, ndata=ndata, hier=hier, page_by=page_by, subline_by=subline_by,
                displayed=displayed, removed=sorted(removed), col_total=col_total, header_mode=header_mode,
                footnote=fk, source=sk, placements=[pt, pf, ps], new_page=new_page, pageby_row=pageby_row,
                pageby_header=ph, has_title=has_title, has_subline_txt=has_subl, nrow=nrow, font=font or 1,
                size=size or 9)
    return spec, info


# ----------------------------------------------------------------------------- edge group keys
# page_by / subline_by VALUES the sentinel scheme above never draws: the texts for which "is there a heading, and is
# it reserved?" is decided by a special case somewhere in the code (calculate_row_metadata skips '-----', the renderer
# skips None and — for the subline paragraph only — an empty joined text), and the texts that look like something
# else ('None', 'nan', numbers, booleans, the column's own name, a heading so long that it wraps).

EDGE_STR = {
    "empty": [""], "blank": [" ", "  "], "null": [None], "divider": ["-----"], "str-None": ["None"],
    "str-nan": ["nan", "NaN", "null", "NULL", "NA"], "str-num": ["0", "1.5", "-1", "007", "0.0"],
    "str-bool": ["True", "False"],
}
_EDGE_WEIGHTS = ["empty"] * 5 + ["blank"] * 3 + ["null"] * 3 + ["divider"] * 2 + ["str-None", "str-nan", "str-num",
                                                                                  "str-bool", "colname", "long"]


def edge_kind(v, kc):
    """the edge class of a group value (None = an ordinary tagged value)"""
    if v is None:
        return "null"
    if isinstance(v, bool):
        return "bool"
    if isinstance(v, int):
        return "int"
    if isinstance(v, float):
        return "float"
    if v == kc:
        return "colname"
    for kind, vals in EDGE_STR.items():
        if v in vals:
            return kind
    if " lorem" in v or " ipsum" in v or len(v) > 40:
        return "long"
    return None


def heading_cost(names, vals, total):
    """rows calculate_row_metadata adds at a group start: `" | ".join(f"{col}: {val}")` over the values whose str()
    is not the divider, measured at font 1 / 9 pt against the table width; 0 when that text is empty"""
    parts = [f"{c}: {v}" for c, v in zip(names, vals) if str(v) != "-----"]
    txt = " | ".join(parts)
    if not txt:
        return 0
    return max(1, int(measure(txt) / total) + 1)


def _edge_value(rng, kc, total, allow_long=True, avoid=()):
    """(kind, value) of the edge family for grouping column kc, with str(value) not in `avoid`"""
    for _ in range(20):
        kind = rng.choice(_EDGE_WEIGHTS)
        if kind == "colname":
            v = kc
        elif kind == "long":
            if not allow_long:
                continue
            tag = ("SB" if kc.startswith("SL") else f"G{kc[2:]}") + rng.choice("pqrs")
            # the heading text is 'KC: value' (joined with the other levels'): aim the VALUE at the middle of the
            # 2- or 3-line band of the table width, so that the joined text stays inside the band
            v = band_text(rng, tag, rng.choice([2, 2, 3]), total - measure(f"{kc}: ") / 2)
            if v == tag:
                continue
        else:
            v = rng.choice(EDGE_STR[kind])
        if str(v) not in avoid:
            return kind, v
    return "empty", ""


def _runs(rows, idx, upto):
    """maximal runs [a, b) of rows whose values in the key columns idx[0..upto] are equal (raw equality)"""
    out = []
    a = 0
    n = len(rows)
    while a < n:
        b = a + 1
        while b < n and all(rows[b][j] == rows[a][j] and type(rows[b][j]) is type(rows[a][j]) for j in idx[: upto + 1]):
            b += 1
        out.append((a, b))
        a = b
    return out


def edge_keys(rng, spec, info, p=0.35):
    """Rewrite group VALUES of a generated document with members of the edge family, at every level of
    subline_by / page_by and for first / middle / last groups alike: whole runs get '', ' ', null, '-----', 'None',
    'nan', numeric / boolean texts, the column's own name or a text long enough to wrap; one level may become a
    genuinely numeric / boolean column (Int64 / Float64 / Boolean, with null groups).  Groups stay contiguous.
    info['edge_keys'] switches laygen.classify to classification by elimination for headings."""
    cols = spec["df"]["cols"]
    rows = spec["df"]["rows"]
    hier = info["hier"]
    labels = info.setdefault("labels", [])
    info["edge_keys"] = {}
    if not hier or not rows:
        return
    idx = [cols.index(c) for c in hier]
    total = info["col_total"]
    long_level = rng.randrange(len(hier))           # at most one level carries wrapping values
    numeric_level = rng.randrange(len(hier)) if rng.random() < 0.25 else None
    for lvl, kc in enumerate(hier):
        runs = _runs(rows, idx, lvl)
        j = idx[lvl]
        if lvl == numeric_level and not any(rows[a][j] == "-----" for a, _ in runs):
            code = {}
            for a, _ in runs:
                code.setdefault(rows[a][j], len(code))
            kind = rng.choice(["int", "float", "bool"] if len(code) <= 2 else ["int", "float", "int0"])
            conv = {"int": lambda c: c, "int0": lambda c: c - 1, "float": lambda c: c / 2,
                    "bool": lambda c: c == 1}[kind]
            for a, b in runs:
                v = None if rng.random() < 0.15 else conv(code[rows[a][j]])
                for i in range(a, b):
                    rows[i][j] = v
            info["edge_keys"][kc] = "numeric:" + kind
            labels.append(f"edge-key-column:{kind}@{'subline' if kc.startswith('SL') else 'page_by'}")
            continue
        force = {0} if rng.random() < 0.5 else set()
        if rng.random() < 0.35:
            force.add(len(runs) - 1)
        prev = None
        for r, (a, b) in enumerate(runs):
            outer_same = r > 0 and all(rows[a][jj] == rows[a - 1][jj] for jj in idx[:lvl])
            if r in force or rng.random() < p:
                avoid = (str(prev),) if outer_same else ()
                kind, v = _edge_value(rng, kc, total, allow_long=(lvl == long_level), avoid=avoid)
                for i in range(a, b):
                    rows[i][j] = v
                pos = "first" if r == 0 else "last" if r == len(runs) - 1 else "middle"
                where = "subline" if kc.startswith("SL") else f"page_by-L{lvl - len(info['subline_by'] or [])}"
                labels.append(f"edge-key:{kind}@{where}")
                labels.append(f"edge-key-pos:{pos}")
                info["edge_keys"][kc] = "strings"
            prev = rows[a][j]
    labels.append("edge-keys-doc")
    info["labels"] = sorted(set(labels))


def aligned_keys(rng, spec, info, p_edge=0.5):
    """Rewrite the (single-level) page_by column — and the subline_by column of a subline + page_by document — so
    that NO group straddles a page under the row budget the code documents: every page starts at a group start and
    many pages are filled exactly (rows + one reserved row per heading = nrow − reserved components).  Such pages
    carry no continuation heading, so nothing but their own rows can explain an excess on them.  Half of the
    groups get a value of the edge family.  For new_page documents (every group starts a page) groups are sized
    around the page capacity instead.  Rows must be one line high (long_rows=False)."""
    cols = spec["df"]["cols"]
    rows = spec["df"]["rows"]
    n = len(rows)
    pb, sb = info["page_by"] or [], info["subline_by"] or []
    labels = info.setdefault("labels", [])
    info["edge_keys"] = {c: "strings" for c in pb + sb}
    if not pb or len(pb) != 1 or not n:
        return
    total = info["col_total"]
    h = spec["headers"]
    nh = 0 if h == "default" else sum(1 for x in h if x.get("text") is not None)
    additional = (1 if sb else 0) + nh + (info["footnote"] != "absent") + (info["source"] != "absent")
    avail = max(1, info["nrow"] - additional)
    kc = pb[0]
    jp = cols.index(kc)
    serial = [0]

    # one document in five: the page_by column is a genuinely numeric / boolean column (0, 0.0 and False included)
    numeric = rng.choice([[0, 1, 2, -1, 10], [0.0, 0.5, 1.0, 2.5], [False, True]]) if rng.random() < 0.2 else None
    if numeric:
        info["edge_keys"][kc] = "numeric:" + type(numeric[0]).__name__
        labels.append(f"edge-key-column:{type(numeric[0]).__name__}@page_by")

    def value(col, prev):
        if numeric and col == kc:
            pool = [v for v in numeric + ([None] if len(numeric) > 2 else []) if str(v) != str(prev)]
            v = rng.choice(pool)
            return edge_kind(v, col), v
        if rng.random() < p_edge:
            kind, v = _edge_value(rng, col, total, avoid=(str(prev),))
        else:
            serial[0] += 1
            kind, v = None, ("SB" if col.startswith("SL") else "G0") + "abcdefgh"[serial[0] % 8] + str(serial[0])
        return kind, v

    def fill(a, b, first_cost, prev):
        """tile rows [a, b) with page_by groups; `first_cost` rows are already used on the first page"""
        cur = first_cost
        i = a
        while i < b:
            kind, v = value(kc, prev)
            cost = heading_cost([kc], [v], total)
            if info["new_page"]:
                room = max(1, avail - cost)
                length = rng.choice([room, room, room + rng.randint(1, max(1, avail)), rng.randint(1, room)])
            else:
                room = avail - cur - cost
                if room < 1:                       # the heading and one row do not fit any more: the page ends here
                    cur = 0
                    room = max(1, avail - cost)
                length = room if rng.random() < 0.6 else rng.randint(1, room)
                cur += cost + length
                if cur >= avail:
                    cur = 0
            length = min(length, b - i)
            for r in range(i, i + length):
                rows[r][jp] = v
            if kind:
                pos = "first" if i == 0 else "last" if i + length >= n else "middle"
                labels.append(f"edge-key:{kind}@page_by-L0")
                labels.append(f"edge-key-pos:{pos}")
            prev = v
            i += length
        return prev

    if sb:
        js = cols.index(sb[0])
        i = 0
        prev_s = prev_p = object()
        while i < n:
            kind, sv = value(sb[0], prev_s)
            size = min(n - i, rng.randint(1, 3) * avail)
            for r in range(i, i + size):
                rows[r][js] = sv
            if kind:
                labels.append(f"edge-key:{kind}@subline")
            prev_p = fill(i, i + size, heading_cost(sb, [sv], total), prev_p)
            prev_s = sv
            i += size
    else:
        fill(0, n, 0, object())
    labels += ["edge-keys-doc", "edge-aligned-doc"]
    info["labels"] = sorted(set(labels))


# ----------------------------------------------------------------------------- edge column names
# Column NAMES the sentinel scheme above never draws (it uses COL{j} / PB{l} / SL{l} only): a frame column may be called
# anything, and what a table shows must not depend on it.  The family holds the names that some layer could read as
# something else than a plain name: polars selector syntax ('*' = every column, '^…$' = a regular expression over the
# names), names that are prefixes / extensions / regexes / case variants of OTHER names of the same frame, the empty
# string and blanks, non-ASCII, names equal to a cell value, to a group value or to an attribute / metadata-column
# name, numeric-looking and very long names, punctuation, conversion tokens.  `raw-rtf` names (with \ { }) are drawn
# only where no header shows the names (a header text is RTF-active like any text).

NAME_KINDS = {
    "selector-all": ["*", "^.*$", "^.+$", "^(.*)$", "^.*"],
    "selector-regex": ["^x$", "^$", "^COL.*$", "^PB.*$", "^SL0$", "^PB0|SL0$", "^[A-Z]+0$", "^r.*$", "^G0.$", "^COL[0-9]$",
                       "^S.COL0$", "^.$", "^..$"],
    "empty": [""],
    "blank": [" ", "  ", "   "],
    "non-ascii": ["é", "Größe", "列名", "αβγ", "naïve col", "ÿ", "€ amount", "😀", "Ünïcödé"],
    "attr-name": ["text_font", "page_by", "subline_by", "group_by", "col_rel_width", "text_convert", "page", "row_index",
                  "index", "nrow", "data_rows", "pageby_header", "literal", "columns", "df", "height", "width", "len",
                  "count", "__index__", "None", "value", "name", "text"],
    "numeric": ["0", "1", "-1", "1.5", "007", "1e3", "0.0", "True", "nan", "2", "10"],
    "punct": ["a b", "a,b", "a.b", "a:b", "a|b", "$", "`a`", 'col("a")', "#", "%", "a;b", "[0]", "(x)", "a'b", 'a"b',
              "?", "+", ".", "..", "a/b", "-", "--", "-----", "a=b", "@", "~", "!", "&", "a: b", "a | b"],
    "conv-token": ["a_b", "x^2", "a>=b", "<=", "^", "_", "^_", "ALT_SI", "p<=0.05"],
    "raw-rtf": ["^\\d+$", "a\\b", "{x}", "^a{2}$", "\\", "^\\w+$", "}", "\\par"],
}
_NAME_WEIGHTS = (["selector-all"] * 3 + ["selector-regex"] * 3 + ["regex-of-other"] * 4 + ["prefix-of-other"] * 2 +
                 ["extension-of-other"] * 2 + ["case-of-other"] * 2 + ["empty"] * 2 + ["blank"] * 2 + ["non-ascii"] * 2 +
                 ["cell-value"] * 2 + ["attr-name"] * 2 + ["numeric"] * 2 + ["long"] * 2 + ["punct"] * 2 +
                 ["conv-token"] * 1 + ["raw-rtf"] * 2)


def draw_name(rng, others, cell_values=(), raw_ok=False, long_max=300):
    """(kind, name) of the edge family for one column; `others` = the names of the other columns of the same frame
    (the relational kinds are built from them), `cell_values` = texts some OTHER column of the frame holds.
    The caller checks distinctness."""
    for _ in range(30):
        kind = rng.choice(_NAME_WEIGHTS)
        o = rng.choice(others) if others else None
        if kind == "raw-rtf" and not raw_ok:
            continue
        if kind == "regex-of-other":
            if not o:
                continue
            k = rng.randint(1, len(o))
            return kind, rng.choice(["^" + o + "$", "^" + o[:k] + ".*$", "^.*" + o[-k:] + "$", "^(" + o + ")$"])
        if kind == "prefix-of-other":
            if not o or len(o) < 2:
                continue
            return kind, o[: rng.randint(1, len(o) - 1)]
        if kind == "extension-of-other":
            if o is None:
                continue
            return kind, o + rng.choice(["0", " ", "x", "_", ".", "$"])
        if kind == "case-of-other":
            if not o or o.swapcase() == o:
                continue
            return kind, rng.choice([o.lower(), o.upper(), o.swapcase(), o.capitalize()])
        if kind == "cell-value":
            if not cell_values:
                continue
            return kind, rng.choice(list(cell_values))
        if kind == "long":
            m = rng.randint(60, long_max)
            s = rng.choice(["N" * m, ("long column name " * (m // 17 + 1))[:m].rstrip(), "^" + "x" * m + "$"])
            return kind, s
        return kind, rng.choice(NAME_KINDS[kind])
    return "punct", "a b"


def _hnorm(t: str) -> str:
    """a header text up to what text conversion does to it (^ _ dropped as super / subscript marks, >= <= replaced, a
    blank added after the replaced sign): conversion of header texts is none of the layout family's business"""
    return t.replace(">=", "≥").replace("<=", "≤").replace("^", "").replace("_", "").replace(" ", "")


def name_collides(kind: str, name: str, rows) -> bool:
    """a drawn column name that READS like a data cell of the frame once text conversion has dropped its `^` / `_` marks
    (`r16c0_` beside the cell `r16c0`): the row of names could then not be told from that data row in the output. Only
    the `cell-value` kind is meant to equal a cell (of another column; at most one per frame)."""
    if kind == "cell-value":
        return False
    h = _hnorm(name)
    return any(isinstance(v, str) and _hnorm(v) == h for r in rows for v in r)


def is_name_header(texts, name_headers) -> bool:
    """the row shows exactly the names of the displayed columns of (a section of) the document, in their order"""
    return any(len(texts) == len(h) and all(_hnorm(t) == _hnorm(c) for t, c in zip(texts, h)) for h in name_headers)


def edge_names(rng, spec, info, p=0.5, permute=False, fixed=None):
    """Rename columns of a generated single-section document with members of the name family — data columns and
    page_by / subline_by columns alike, one column up to all of them — consistently in the frame, in body.page_by /
    subline_by and in `info` (hier, page_by, subline_by, displayed, removed).  With `permute` the frame's columns
    (and every row) are put into a random order first, so that the key columns sit anywhere among the columns.
    info['colnames'] maps every new name to the sentinel name (role) it replaces; info['name_headers'] lists the
    rows of names an auto-populated column header shows (laygen.classify recognises exactly those as header rows —
    before anything else, since a name may look like a data tag or a group value).  Call it LAST (the other
    generators look at the sentinel names).  `fixed` = {sentinel name: new name} renames exactly those columns."""
    cols = spec["df"]["cols"]
    rows = spec["df"]["rows"]
    body = spec["body"]
    labels = info.setdefault("labels", [])
    if permute and len(cols) > 1:
        order = list(range(len(cols)))
        rng.shuffle(order)
        cols[:] = [cols[j] for j in order]
        for r in rows:
            r[:] = [r[j] for j in order]
        labels.append("names-permuted-cols")
    role = {c: ("subline" if c in (info["subline_by"] or []) else "page_by" if c in (info["page_by"] or []) else "data")
            for c in cols}
    removed = set(info["removed"])
    shown = info["header_mode"] == "default"          # the auto-populated header shows the displayed names
    chosen = [c for c in cols if rng.random() < p]
    if rng.random() < 0.25:
        chosen = list(cols)
    if not chosen:
        chosen = [rng.choice(cols)]
    mapping = dict(fixed or {})
    cell_named = False
    for c in ([] if fixed is not None else chosen):
        j = cols.index(c)
        current = [mapping.get(x, x) for x in cols if x != c]
        # a cell value of ANOTHER column (so that the header row of names can never be a data row)
        cells = [] if cell_named else sorted({str(r[jj]) for r in rows[:6] for jj in range(len(cols)) if jj != j and r[jj]
                                             is not None and isinstance(r[jj], str) and len(r[jj]) < 12})
        for _ in range(20):
            kind, name = draw_name(rng, current, cells, raw_ok=not shown,
                                   long_max=300 if role[c] == "data" else 120)
            if name not in current and name != c and not name_collides(kind, name, rows):
                break
        else:
            continue
        mapping[c] = name
        cell_named = cell_named or kind == "cell-value"
        where = role[c] + ("-removed" if c in removed else "")
        labels.append(f"name:{kind}@{where}")
        if kind in ("selector-all", "selector-regex", "regex-of-other") and c not in removed and removed:
            labels.append("names:selector-like-displayed-with-removal:" + info["strategy"])
    ren = lambda names: [mapping.get(c, c) for c in names] if names is not None else None   # noqa: E731
    cols[:] = ren(cols)
    for key in ("page_by", "subline_by"):
        if body.get(key) is not None:
            body[key] = ren(body[key])
        info[key] = ren(info[key])
    info["hier"] = ren(info["hier"])
    info["removed"] = sorted(ren(info["removed"]))
    info["displayed"] = [c for c in cols if c not in set(info["removed"])]
    info["colnames"] = {new: old for old, new in mapping.items()}
    info["name_headers"] = [list(info["displayed"])] if shown else []
    labels += ["names-doc", "names-renamed:%s" % ("all" if len(mapping) == len(cols) else "some"),
               "names-removal:%s" % ("yes" if removed else "no")]
    info["labels"] = sorted(set(labels))


def unname(case, name):
    """the same single-section case with the edge column name `name` put back to the sentinel name it replaced
    (None when that is not possible); used to simplify a failing document"""
    import copy

    info = case["info"]
    old = (info.get("colnames") or {}).get(name)
    cols = case["spec"]["df"]["cols"] if isinstance(case["spec"].get("df"), dict) else None
    if old is None or cols is None or old in cols or name not in cols:
        return None
    c = copy.deepcopy(case)
    spec, info = c["spec"], c["info"]
    ren = lambda names: [old if x == name else x for x in names] if names is not None else None   # noqa: E731
    spec["df"]["cols"] = ren(spec["df"]["cols"])
    for key in ("page_by", "subline_by"):
        if spec["body"].get(key) is not None:
            spec["body"][key] = ren(spec["body"][key])
        info[key] = ren(info[key])
    for key in ("hier", "displayed"):
        info[key] = ren(info[key])
    info["removed"] = sorted(ren(info["removed"]))
    del info["colnames"][name]
    info["name_headers"] = [ren(h) for h in info.get("name_headers") or []]
    return c


def attr_at(value, r, c, default):
    """body attribute value at table position (r, c): scalar | per-column list | matrix (cyclic broadcast)"""
    if value is None:
        return default
    if isinstance(value, dict):
        value = docgen.plain(value)      # spelling markers (tuple, array-likes): same binding, plain lists
    if not isinstance(value, list):
        return value
    if value and not isinstance(value[0], list):
        return value[c % len(value)]
    return value[r % len(value)][c % len(value[0])]


def displayed_rel(spec, info):
    """relative widths of the displayed columns: the body's col_rel_width (one entry per frame column, the removed
    columns' entries dropped — `prepare_dataframe_for_body_encoding`), else equal"""
    cols = spec["df"]["cols"]
    rel = (spec.get("body") or {}).get("col_rel_width")
    if not rel:
        return [1] * len(info["displayed"])
    if len(rel) == 1:
        rel = list(rel) * len(cols)
    return [rel[cols.index(c)] for c in info["displayed"]]


def ldoc_of(spec, info):
    """The Lean model's input (LDoc JSON) computed from the spec — mirrors `calculate_row_metadata`'s
    line estimate with the real get_string_width (font 1, size 9; str(None) == 'None')."""
    cols = spec["df"]["cols"]
    rows = spec["df"]["rows"]
    disp_idx = [cols.index(c) for c in info["displayed"]]
    nd = len(disp_idx)
    # cumulative widths as the code computes them (equal relative widths)
    total = info["col_total"]
    cum = []
    acc = 0.0
    rel = displayed_rel(spec, info)          # [1] * nd unless the body gives col_rel_width
    rel_sum = sum(rel)
    for k in range(nd):
        acc = acc + (rel[k] * total / rel_sum)
        cum.append(acc)
    widths = [cum[k] - (cum[k - 1] if k else 0) for k in range(nd)]
    pb = info["page_by"] or []
    sb = info["subline_by"] or []
    out = []
    body = spec.get("body") or {}
    for ri, r in enumerate(rows):
        ln = 1
        for k, ci in enumerate(disp_idx):
            w = measure(docgen.cell_str(spec["df"], ci, r[ci]), attr_at(body.get("text_font"), ri, ci, 1),
                        attr_at(body.get("text_font_size"), ri, ci, 9))
            ln = max(ln, max(1, int(w / widths[k]) + 1))
        pk = [v if (v is None or isinstance(v, str)) else str(v) for v in (r[cols.index(c)] for c in pb)]
        sk = [v if (v is None or isinstance(v, str)) else str(v) for v in (r[cols.index(c)] for c in sb)]

        def hrows(names, vals):
            parts = [f"{c}: {v}" for c, v in zip(names, vals) if str(v) != "-----"]
            txt = " | ".join(parts)
            if not txt:
                return 0
            return max(1, int(measure(txt) / sum(widths)) + 1)
        out.append(dict(lines=ln, pkey=pk, skey=sk, pb=hrows(pb, pk) or 1, sb=hrows(sb, sk) or 1))
    h = spec["headers"]
    if h == "default":
        headers = [False]
    else:
        headers = [x.get("text") is not None for x in h]
    return dict(
        nrow=info["nrow"], rows=out, hasPageBy=bool(pb), hasSubline=bool(sb), newPage=bool(info["new_page"]),
        pagebyColumn=info["pageby_row"] == "column", pagebyHeader=bool(info["pageby_header"]), headers=headers,
        asColheader=bool(spec["body"].get("as_colheader", True)), hasTitle=bool(info["has_title"]),
        hasSublineTxt=bool(info["has_subline_txt"]), footnote=info["footnote"], source=info["source"],
        pageTitle=info["placements"][0], pageFootnote=info["placements"][1], pageSource=info["placements"][2])


# ----------------------------------------------------------------------------- observation

_DATA = re.compile(r"^\s*r(\d+)c(\d+)")
_HD = re.compile(r"^HD(\d+)c(\d+)")
_GV = re.compile(r"^G(\d+)[a-z]")
_NUMKEY = re.compile(r"^(-?\d+(\.\d+)?|True|False)$")


def classify(doc: rtfread.Doc, info):
    """pages → list of observed blocks (same JSON shape as the Lean driver's) + per-block raw object"""
    pages = []
    raw = []
    nlev = len(info["page_by"] or [])
    # edge group values (laygen.edge_keys / aligned_keys) carry no sentinel: headings are then recognised by elimination
    # — every data row, explicit header, footnote and source of such a document IS tagged
    edge = bool(info.get("edge_keys"))
    spanning = bool(info.get("page_by")) and (not info.get("new_page") or info.get("pageby_row") != "column")
    name_headers = info.get("name_headers")      # rows of column names an auto-populated header shows (edge names)
    for pno, page in enumerate(doc.pages):
        blocks = [["brk"]] if pno > 0 else []
        rblocks = [None] if pno > 0 else []
        for b in page.blocks:
            if b.kind in ("para", "loose"):
                t = rtfread.para_text(b)
                if not t.strip():
                    if edge and info.get("subline_by") and t != "":
                        blocks.append(["sublineHeading", t])      # a subline_by heading of blanks is still a paragraph
                        rblocks.append(b)
                    continue
                if t.startswith("TTL"):
                    blocks.append(["title"])
                elif t.startswith("SUBLN"):
                    blocks.append(["subline"])
                elif t.startswith("FTNOTE"):
                    blocks.append(["footnote", False])
                elif t.startswith("SRCTXT"):
                    blocks.append(["source", False])
                elif t.startswith("SB") or t.startswith("None"):
                    blocks.append(["sublineHeading", t])
                elif edge and info.get("subline_by") and not t.startswith("PG"):
                    blocks.append(["sublineHeading", t])
                else:
                    blocks.append(["unknown-para", t[:40]])
                rblocks.append(b)
            elif b.kind == "row":
                texts = [rtfread.para_text(c) for c in b.cells]
                role = None
                if name_headers and is_name_header(texts, name_headers):
                    # documents with edge column names (laygen.edge_names): the row of the displayed columns' names
                    role = ["colHeader", 0]
                for t in (texts if role is None else ()):
                    m = _DATA.match(t)
                    if m:
                        role = ["data", int(m.group(1))]
                        break
                if role is None:
                    t0 = texts[0] if texts else ""
                    m = _HD.match(t0)
                    if m:
                        role = ["colHeader", int(m.group(1))]
                    elif t0.startswith("FTNOTE"):
                        role = ["footnote", True]
                    elif t0.startswith("SRCTXT"):
                        role = ["source", True]
                    elif edge and spanning and len(texts) == 1 and not t0.startswith("COL"):
                        # a one-cell row that is no data row, header, footnote or source: a spanning row, whatever
                        # it shows (nothing, blanks, 'None', a number, the column's name); level −1 = not decidable
                        m = _GV.match(t0)
                        role = ["heading", int(m.group(1)) if m else -1, t0]
                    elif len(texts) == 1 and _GV.match(t0):
                        role = ["heading", int(_GV.match(t0).group(1)), t0]
                    elif len(texts) == 1 and info.get("numeric_keys") and _NUMKEY.match(t0):
                        role = ["heading", 0, t0]      # numeric / boolean values of the outermost page_by column
                    elif t0.startswith("COL") or t0.startswith("PB") or t0.startswith("SL"):
                        role = ["colHeader", 0]
                    elif all(t == "" for t in texts) or all((t == "" or t == "-----" or _GV.match(t) or t.startswith("SB"))
                                                            for t in texts):
                        role = ["data-untagged"]
                    else:
                        role = ["unknown-row", texts[:3]]
                blocks.append(role)
                rblocks.append(b)
            elif b.kind == "pict":
                blocks.append(["pict"])
                rblocks.append(b)
        pages.append(blocks)
        raw.append(rblocks)
    return pages, raw


def observe(spec, info):
    """encode with the real rtflite and classify. Returns dict(status, pages, raw?, doc?)"""
    st = docgen.encode(spec)
    if st[0] != "ok":
        return dict(status=st[0], exc=st[1], msg=st[2])
    try:
        doc = rtfread.read(st[1])
    except rtfread.RtfError as e:
        return dict(status="unreadable", msg=str(e))
    pages, raw = classify(doc, info)
    return dict(status="ok", pages=pages, _raw=raw, _doc=doc, _rtf=st[1])
