"""Whole-encoder byte correspondence for the two remaining encoding paths of `unified_encoder.py`:

  * multi-section documents (`df` / `rtf_body` lists)  versus `Model/EncodeMulti.lean`  (driver op `encode_multi`)
  * figure-only documents (`df is None`)               versus `Model/EncodeFigure.lean` (driver op `encode_figure`)

`serialize_multi(doc)` / `serialize_figure(doc)` turn the post-construction state of a real `RTFDocument` into the
model's JSON input (same value encodings as `encodecorr.serialize`; figure files enter with their suffix and bytes).
`run(res, tier)` generates documents for both paths, encodes each with the real rtflite and with the model and compares
the two strings byte for byte; documents with a value within 2^-30 of a rounding boundary that differ are counted
(`near`) and not compared.

    python -m harness.encodecorr2 N SEED [SHOW [DUMP.json]]     # N documents per path, agreement statistics
"""
from __future__ import annotations

import contextlib
import copy
import io
import json
import shutil
import sys
import tempfile
from pathlib import Path

from . import common, docgen, laygen
from . import encodecorr as ec

PATHS = ("multi", "figure")          # the two anchored paths
EXTRA_PATHS = ("nested1",)           # one frame under a nested header list (assigned after construction)


# ----------------------------------------------------------------------------- serialisation

def ser_body(b) -> dict:
    return dict(attrs=ec.ser_attrs(b, ec.ATTR_TABLE), col_rel_width=ec.ser_widths(b.col_rel_width),
                as_colheader=bool(b.as_colheader), group_by=ec.ser_names(b.group_by), page_by=ec.ser_names(b.page_by),
                subline_by=ec.ser_names(b.subline_by), new_page=bool(b.new_page), pageby_header=bool(b.pageby_header),
                pageby_row=b.pageby_row)


def ser_page(pg) -> dict:
    return dict(width=ec.rat(pg.width), height=ec.rat(pg.height), margin=[ec.rat(m) for m in pg.margin],
                nrow=int(pg.nrow), landscape=pg.orientation == "landscape", border_first=pg.border_first or "",
                border_last=pg.border_last or "", col_width=ec.rat(pg.col_width), page_title=pg.page_title,
                page_footnote=pg.page_footnote, page_source=pg.page_source)


def ser_shared(doc) -> dict:
    return dict(page=ser_page(doc.rtf_page), page_header=ec.ser_text_comp(doc.rtf_page_header),
                page_footer=ec.ser_text_comp(doc.rtf_page_footer), title=ec.ser_text_comp(doc.rtf_title),
                subline=ec.ser_text_comp(doc.rtf_subline), footnote=ec.ser_foot(doc.rtf_footnote),
                source=ec.ser_foot(doc.rtf_source))


def ser_frame(df) -> dict:
    return dict(cols=[ec.cps(c) for c in df.columns],
                rows=[[None if v is None else ec.cps(str(v)) for v in row] for row in df.rows()])


def serialize_multi(doc) -> dict:
    """post-construction state of a multi-section table document (no widths)"""
    if not isinstance(doc.df, list) or not isinstance(doc.rtf_body, list):
        raise TypeError("multi-section documents only")
    hs = doc.rtf_column_header
    if hs is None:
        hs = []
    if not isinstance(hs, list):
        raise TypeError("rtf_column_header is not a list")
    nested = len(hs) > 0 and isinstance(hs[0], list)      # is_nested_header_list
    sections = []
    for i, (df, b) in enumerate(zip(doc.df, doc.rtf_body)):
        sec = ser_frame(df)
        sec["body"] = ser_body(b)
        if nested:
            entry = hs[i]
            if not isinstance(entry, list):
                raise TypeError("nested header entry is not a list")
            sec["headers"] = [ec.ser_header(h) for h in entry]
        sections.append(sec)
    out = dict(sections=sections, nested=nested, headers=[] if nested else [ec.ser_header(h) for h in hs])
    out.update(ser_shared(doc))
    return out


def serialize_figure(doc) -> dict:
    """post-construction state of a figure-only document; the figure files are read here"""
    if doc.df is not None:
        raise TypeError("figure-only documents only")
    fig = doc.rtf_figure
    paths = [] if fig is None or not fig.figures else fig.figures
    if isinstance(paths, (str, Path)):
        paths = [paths]

    def dims(v):
        return [ec.rat(x) for x in (v if isinstance(v, (list, tuple)) else [v])]
    b = doc.rtf_body
    if isinstance(b, (list, tuple)):
        raise TypeError("figure document with a body list")
    hs = doc.rtf_column_header or []
    if any(isinstance(h, (list, tuple)) for h in hs):
        raise TypeError("figure document with nested headers")
    out = dict(figs=[dict(suffix=Path(p).suffix, bytes=list(Path(p).read_bytes())) for p in paths],
               fig_width=dims(fig.fig_width) if fig is not None else [],
               fig_height=dims(fig.fig_height) if fig is not None else [],
               fig_align=fig.fig_align if fig is not None else "center",
               body=None if b is None else dict(attrs=ec.ser_attrs(b, ec.ATTR_TABLE)),
               headers=[ec.ser_header(h) for h in hs])
    out.update(ser_shared(doc))
    return out


def serialize_nested1(doc) -> dict:
    """a single-section document whose `rtf_column_header` is a nested list: (flat state, nested headers)"""
    hs = doc.rtf_column_header
    if not (isinstance(hs, list) and hs and all(isinstance(e, list) for e in hs)):
        raise TypeError("nested header list expected")
    state = ec.serialize(doc.model_copy(update={"rtf_column_header": []}))
    return state, [[ec.ser_header(h) for h in e] for e in hs]


def encode_real(doc, path):
    """(request, ('ok', text) | ('error', ExcClass, message)); the state is taken BEFORE the encode"""
    table: dict = {}
    if path == "multi":
        state = serialize_multi(doc)
    elif path == "nested1":
        state, nested = serialize_nested1(doc)
    else:
        state = serialize_figure(doc)
    try:
        with ec.recording_widths(table), contextlib.redirect_stdout(io.StringIO()):
            out = ("ok", doc.rtf_encode())
    except Exception as e:  # noqa: BLE001
        out = ("error", docgen.classify_exc(e), str(e)[:200])
    if path == "multi":
        widths = [[ec.cps(t), f, s, w] for (t, f, s), w in table.items()]
        req = dict(op="encode_multi", doc=state, widths=widths, check=True)
    elif path == "nested1":
        widths = [[ec.cps(t), f, s, w] for (t, f, s), w in table.items()]
        req = dict(op="encode_nested1", doc=state, nested_headers=nested, widths=widths, check=True)
    else:
        req = dict(op="encode_figure", doc=state, check=True)
    return req, out


# ----------------------------------------------------------------------------- generation: multi-section

SECTION_STRATEGIES = ["plain", "plain", "plain", "plain", "page_by", "page_by", "page_by_np", "page_by_np",
                      "page_by_np_first", "subline", "subline_page_by"]
EXTRA_COLORS = ["tomato", "steelblue", "gray7", "ivory2", "plum", "darkgreen", "khaki", "sienna"]


def _nested_entry(rng, h):
    """one section's entry of a nested `rtf_column_header` from a laygen header spec"""
    if h == "default":
        return rng.choice([[{}], [{}], [None], [dict(text_format="b")]])
    if not h:
        return rng.choice([[None], [None], []])
    out = list(h)
    if rng.random() < 0.15:
        out.insert(rng.randrange(len(out) + 1), None)
    return out


def gen_multi2(rng, k: int, vary: bool = False, shapes: bool = False):
    """sections from the single-section generators (plain / page_by / new_page / subline_by / group_by, decorated
    attributes), headers nested / flat / default / empty, shared title / subline / footnote / source / page.
    `vary`: the header-variation class — every section's explicit header rows come from `encodecorr.vary_headers`
    (any number of cells from 1 to the section's original column count + 1, widths inherited / per original column /
    per displayed column / per cell), sections prefer the strategies that take columns out of the table, the header
    list is nested (one entry per section) or flat (the first section's).
    `shapes`: the data-shape class (`harness/datashapes.py`) — group_by over columns that are untyped-null / typed-null /
    null but one value at some level, and whole data / page_by / subline_by columns rewritten in those shapes (and
    as Object columns) after the section is complete; sections long enough for several pages"""
    from . import datashapes
    from .props import c02, c06, c09

    if vary:
        nsec = rng.choice([1, 2, 2, 3, 3, 4])
        mode = rng.choice(["nested", "nested", "nested", "flat"])
    elif shapes:
        nsec = rng.choice([1, 2, 2, 3, 4])
        mode = rng.choice(["nested", "nested", "flat", "default"])
    elif k % 10 == 9:
        spec, info = c02.gen_multi(rng)
        info = dict(gen="c02.gen_multi", mode="nested", strategies=["plain"] * len(spec["df"]))
        return spec, info
    if k % 50 == 7 and not vary and not shapes:
        # no section at all: the preamble followed by an empty body
        spec = dict(kind="multi", df=[], body=[], headers=[], page=dict(nrow=rng.randint(3, 30)),
                    title=dict(text=["TTL0"]) if rng.random() < 0.5 else None,
                    page_header={} if rng.random() < 0.5 else None,
                    footnote=dict(text="FTNOTE", text_color=rng.choice(EXTRA_COLORS)) if rng.random() < 0.5 else None)
        return spec, dict(gen="multi2", mode="empty", strategies=[], nsec=0)
    if not vary and not shapes:
        nsec = rng.choice([1, 2, 2, 2, 3, 3, 4])
        mode = rng.choice(["nested", "nested", "nested", "flat", "flat", "default", "empty"])
    geo = c06.rand_geometry(rng)
    nrow = rng.choice([rng.randint(3, 12), rng.randint(8, 40)])
    secs = []
    for s in range(nsec):
        strategy = rng.choice(ec.HV_STRATEGIES + ["plain", "plain"] if vary else SECTION_STRATEGIES)
        r = rng.random()
        n = 0 if r < 0.06 else rng.randint(1, 6) if r < 0.4 else rng.randint(4, 22)
        sspec, sinfo = laygen.gen_spec(rng, strategy=strategy, n=n, nrow=nrow, dividers=(rng.random() < 0.25),
                                       geometry=geo or None, page_headers=(rng.random() < 0.4),
                                       nulls=rng.choice([0.0, 0.0, 0.1]),
                                       levels=None if strategy == "plain" else rng.choice([None, 1, 2]))
        if strategy != "plain" and rng.random() < 0.3:
            c09.permute_columns(rng, sspec, sinfo)
        if rng.random() < 0.3:
            c02.mutate_cells(rng, sspec, sinfo, convert_off=False)
        if shapes and rng.random() < 0.6:
            datashapes.add_group_by(rng, sspec, sinfo)
        elif not shapes and rng.random() < 0.2:
            ec.add_group_by(rng, sspec, sinfo)
        if vary:
            if rng.random() < 0.4:
                sspec["body"]["col_rel_width"] = [rng.choice([1, 2, 1.5, 3, 0.7]) for _ in sspec["df"]["cols"]]
            ec.vary_headers(rng, sspec, sinfo)
        if rng.random() < (0.4 if vary else 0.75):
            ec.decorate(rng, sspec, sinfo, rich=rng.random() < 0.5)
        if vary:
            ec.label_headers(sspec, sinfo)
        if shapes:
            sinfo["data_shapes"] = sinfo.get("data_shapes", []) + datashapes.reshape(
                rng, sspec["df"], sspec["body"], group_by=False, must=not sinfo.get("data_shapes"))
        # a colour that only this section's body / header uses (the colour table is the whole document's)
        if rng.random() < 0.35:
            sspec["body"][rng.choice(["text_color", "text_background_color", "border_color_top", "border_color_left",
                                      "border_color_first", "border_color_last"])] = rng.choice(EXTRA_COLORS)
        hs = sspec["headers"]
        if isinstance(hs, list) and hs and rng.random() < 0.3:
            for h in hs:
                if h is not None and rng.random() < 0.6:
                    h[rng.choice(["text_color", "text_background_color"])] = rng.choice(EXTRA_COLORS)
        secs.append((sspec, sinfo, strategy))
    base = secs[0][0]
    page = dict(base["page"])
    page["nrow"] = nrow
    if rng.random() < 0.5:
        page["border_first"] = rng.choice(ec.STYLES)
    if rng.random() < 0.5:
        page["border_last"] = rng.choice(ec.STYLES)
    pt, pf, ps = (rng.choice(["first", "last", "all"]) for _ in range(3))
    page.update(page_title=pt, page_footnote=pf, page_source=ps)
    if mode == "nested":
        headers = [_nested_entry(rng, sp["headers"]) for sp, _, _ in secs]
    elif mode == "flat":
        h0 = base["headers"]
        headers = h0 if isinstance(h0, list) and h0 else [dict(text_format=rng.choice(["", "b"]))]
    elif mode == "empty":
        headers = []
    else:
        headers = "default"
    spec = dict(kind="multi", df=[sp["df"] for sp, _, _ in secs], body=[sp["body"] for sp, _, _ in secs],
                headers=headers, page=page)
    src = rng.choice(secs)[0] if rng.random() < 0.3 else base
    for key in ("title", "subline", "footnote", "source", "page_header", "page_footer"):
        spec[key] = src.get(key)
    for key, text in (("title", ["TTL0"]), ("subline", "SUBLN"), ("footnote", "FTNOTE"), ("source", "SRCTXT")):
        if spec.get(key) is None and rng.random() < 0.35:
            spec[key] = dict(text=text)
            if key in ("footnote", "source") and rng.random() < 0.5:
                spec[key]["as_table"] = rng.random() < 0.5
    for key in ("title", "subline", "footnote", "source", "page_header", "page_footer"):
        c = spec.get(key)
        if c is not None and rng.random() < 0.25:
            c[rng.choice(["text_color", "text_background_color"])] = rng.choice(EXTRA_COLORS + c09.COLORS)
    info = dict(gen="multi2", mode=mode, strategies=[st for _, _, st in secs], nsec=nsec,
                placements=[pt, pf, ps], new_page=[bool(sp["body"].get("new_page")) for sp, _, _ in secs])
    if shapes:
        info.update(gen="multi2+shapes", data_shapes=[x for _, si, _ in secs for x in si.get("data_shapes", [])])
    if vary:
        # the rows that are rendered: every section's own entry of a nested list, the first section's in a flat list
        used = secs if mode == "nested" else secs[:1]
        info.update(gen="multi2+headers", header_mode="varied",
                    header_rows=[r for _, si, _ in used for r in si.get("header_rows", [])],
                    n_removed=max(si.get("n_removed", 0) for _, si, _ in used))
    return spec, info


# ----------------------------------------------------------------------------- generation: shared component objects

def _resync_shared(spec):
    """the per-section specs of sections that are given one object are one spec (docgen "share" demands it)"""
    sh = spec.get("share") or {}
    for what in ("body", "headers"):
        idx = sh.get(what)
        if idx is not None and isinstance(spec.get(what), list):
            for i, j in enumerate(idx):
                if j != i:
                    spec[what][i] = spec[what][j]


def gen_multi_shared2(rng, k: int):
    """the shared-component class: lists of sections in which one RTFBody object (and one header entry) is given for
    two or more sections (docgen "share") while every section has its own frame.  Even k: the sentinel documents of
    `c02.gen_multi_shared` (key columns anywhere, per section).  Odd k: a document of `gen_multi2` (every strategy,
    group_by, decorated per-column / per-cell attributes, typed cells) in which one or two sections are followed —
    directly or at the end of the list — by a section with the SAME body object and a frame of the same shape whose
    columns are in another order (attributes bind by position, page_by / subline_by / group_by by name)."""
    from .props import c02

    if k % 2 == 0:
        spec, info = c02.gen_multi_shared(rng)
        mode = "nested" if isinstance(spec["headers"], list) else "default"
        return spec, dict(info, gen="c02.gen_multi_shared", mode=mode, strategies=["shared"] * len(spec["df"]))
    spec, info = gen_multi2(rng, 0)
    while not spec["df"]:
        spec, info = gen_multi2(rng, 0)
    nested = isinstance(spec["headers"], list) and bool(spec["headers"]) and isinstance(spec["headers"][0], list)
    token = list(range(len(spec["df"])))                 # which object a section is given
    for _ in range(rng.choice([1, 1, 2])):
        i = rng.randrange(len(spec["df"]))
        fr = copy.deepcopy(spec["df"][i])
        order = list(range(len(fr["cols"])))
        if rng.random() < 0.85:
            rng.shuffle(order)
        fr["cols"] = [fr["cols"][j] for j in order]
        fr["rows"] = [[r[j] for j in order] for r in fr["rows"]]
        body = spec["body"][i]
        if "col_rel_width" not in body and rng.random() < 0.7:
            # one entry per frame column: the document keeps the caller's object (otherwise it stores a copy per section)
            body["col_rel_width"] = [rng.choice([1, 1, 2, 1.5]) for _ in fr["cols"]]
        pos = rng.choice([i + 1, len(spec["df"])])
        spec["df"].insert(pos, fr)
        spec["body"].insert(pos, body)
        token.insert(pos, token[i])
        if nested:
            spec["headers"].insert(pos, spec["headers"][i])
        info["strategies"].insert(pos, info["strategies"][i])
        info["new_page"].insert(pos, info["new_page"][i])
    first = {}
    share = [first.setdefault(t, i) for i, t in enumerate(token)]
    spec["share"] = dict(body=share, headers=list(share) if nested else None)
    info.update(gen="multi2+shared", nsec=len(spec["df"]), labels=docgen.share_labels(spec))
    return spec, info


# ----------------------------------------------------------------------------- generation: figure-only

def _text_attrs(rng, c, k=1):
    from .props import c09

    if rng.random() < 0.3:
        c["text_format"] = rng.choice(["b", "i", "bi", ["b", ""][:max(1, k)]])
    if rng.random() < 0.3:
        c["text_color"] = rng.choice(c09.COLORS + EXTRA_COLORS + ["", "black"])
    if rng.random() < 0.2:
        c["text_background_color"] = rng.choice(c09.COLORS + EXTRA_COLORS)
    if rng.random() < 0.2:
        c["text_font_size"] = rng.choice([8, 9.5, 10.75, 12, 14.5])
    if rng.random() < 0.2:
        c["text_justification"] = rng.choice(["l", "c", "r", "j"])
    if rng.random() < 0.15:
        c["text_font"] = rng.randint(1, 10)
    if rng.random() < 0.15:
        c["text_convert"] = rng.random() < 0.5
    if rng.random() < 0.15:
        c["text_space"] = rng.choice([1, 2])
    if rng.random() < 0.15:
        c["text_indent_left"] = rng.choice([0, 300])
    if rng.random() < 0.1:
        c["text_hyphenation"] = False


TXT = ["", " é", " \\alpha", " x_1", " a>=b", " {b}", " 100%", " ±", " \\pagenumber"]


def gen_figure2(rng, k: int):
    from .props import c06, c16

    if k % 10 == 9:
        spec, info = c06.gen_figure(rng)
        return spec, dict(gen="c06.gen_figure", nfig=info["nfig"])
    case = c16.gen_doc(rng, "quick" if rng.random() < 0.8 else "thorough", k)
    spec = case["spec"]
    fig = spec["figure"]
    n = len(fig["files"])
    page = dict(spec.get("page") or {})
    page.pop("orientation", None)
    page.update(c06.rand_geometry(rng))
    if rng.random() < 0.15:
        page["col_width"] = rng.choice([5.0, 6.5, 7.25, 4.8])
    spec["page"] = page
    # texts and attributes
    t = spec.get("title")
    if t is not None and t.get("text"):
        if rng.random() < 0.5:
            kk = rng.choice([1, 2, 3])
            t["text"] = [f"TITLE {i}" + rng.choice(TXT) for i in range(kk)]
        _text_attrs(rng, t, len(t["text"]) if isinstance(t["text"], list) else 1)
    elif rng.random() < 0.1:
        spec["title"] = dict(text=rng.choice([[], ""]))
    s = spec.get("subline")
    if s is not None:
        if rng.random() < 0.4:
            s["text"] = ["SUBLINE a" + rng.choice(TXT), "SUBLINE b"]
        _text_attrs(rng, s)
    elif rng.random() < 0.08:
        spec["subline"] = {}
    for key, tag in (("footnote", "FOOTNOTE"), ("source", "SOURCE")):
        c = spec.get(key)
        if c is None:
            continue
        if rng.random() < 0.4:
            c["text"] = [tag + rng.choice(TXT), "second é", "a<=b"][:rng.choice([1, 2, 3])]
        _text_attrs(rng, c)
        if rng.random() < 0.04:
            c["text"] = rng.choice(["", []])
        if key == "source":
            c["as_table"] = False
    for key, tag in (("page_header", "PGHDR"), ("page_footer", "PGFTR")):
        r = rng.random()
        if r < 0.25:
            spec[key] = dict(text=rng.choice([tag, [tag + " x", "Page \\pagenumber of \\totalpage"], tag + " é"]))
            _text_attrs(rng, spec[key])
        elif r < 0.35:
            spec[key] = {}
    if rng.random() < 0.02:
        # a suffix outside the extension table whose MIME type is not an accepted one either: ValueError at encode time
        f = rng.choice(fig["files"])
        f["name"] = f["name"].rsplit(".", 1)[0] + rng.choice([".gif", ".bmp", ".tiff"])
    post = []
    r = rng.random()
    if r < 0.05:
        post.append(["rtf_title", None])
    elif r < 0.10:
        if spec.get("source") is not None:
            post.append(["rtf_source.as_table", True])
    elif r < 0.14:
        if spec.get("footnote") is not None:
            post.append(["rtf_footnote.as_table", True])
    elif r < 0.155:
        post.append(["rtf_figure." + rng.choice(["fig_width", "fig_height"]), []])
    elif r < 0.17:
        post.append(["rtf_figure.figures", rng.choice([None, []])])
    elif r < 0.19:
        post.append(["rtf_figure.fig_align", rng.choice(["justify", ""])])
    elif r < 0.21:
        post.append(["rtf_body", None])
    elif r < 0.24:
        post.append(["rtf_body.text_color", rng.choice([EXTRA_COLORS[0], [EXTRA_COLORS[1], "red"]])])
    elif r < 0.26:
        post.append(["rtf_figure.fig_width", rng.choice([2.5, 3.3])])       # a scalar again
    for path, _ in post:
        # a table-style component whose text is the empty LIST prints the list's repr ("[]"): a state no constructor
        # produces and no table path reaches (they test `.text` first); keep the empty STRING only
        key = path.split(".")[0][4:]
        if path.endswith(".as_table") and spec.get(key, {}).get("text") == []:
            spec[key]["text"] = ""
    if post:
        spec["_post"] = post
    info = dict(gen="figure2", nfig=n, fmts=case["fmts"], post=[p[0] for p in post])
    return spec, info


def gen_nested1(rng, k: int, vary: bool = False):
    """a single-section document of `encodecorr.gen_doc`; `_nest` asks the worker to re-chunk its header list"""
    spec, info = ec.gen_doc(rng, rng.choice([2, 2, 3, 1] if vary else [1, 1, 2, 3]), k, vary=vary)
    spec["_nest"] = rng.getrandbits(32)
    out = dict(gen="nested1+headers" if vary else "nested1", strategy=info.get("strategy"))
    if vary:
        out.update({kk: info[kk] for kk in ("header_mode", "header_rows", "n_removed") if kk in info})
    return spec, out


def nest_headers(doc, seed: int):
    """assign `rtf_column_header := [[h…], [None], [], …]`, a random partition of the constructed flat list"""
    import random

    rng = random.Random(seed)
    flat = list(doc.rtf_column_header or [])
    chunks, cur = [], []
    for h in flat:
        cur.append(h)
        if rng.random() < 0.5:
            chunks.append(cur)
            cur = []
    if cur:
        chunks.append(cur)
    for _ in range(rng.choice([0, 0, 1, 2])):
        chunks.insert(rng.randrange(len(chunks) + 1), rng.choice([[None], [], [None, None]]))
    for c in chunks:
        if c and rng.random() < 0.15:
            c.insert(rng.randrange(len(c) + 1), None)
    if not chunks:
        chunks = [[]]
    doc.rtf_column_header = chunks


def apply_post(doc, post):
    """post-construction assignments `[dotted.path, value]` (no validation: plain attribute writes)"""
    for path, value in post or []:
        obj = doc
        parts = path.split(".")
        for p in parts[:-1]:
            obj = getattr(obj, p)
        setattr(obj, parts[-1], value)


GEN = {"multi": gen_multi2, "figure": gen_figure2, "nested1": gen_nested1}


# ----------------------------------------------------------------------------- correspondence

def _worker(args):
    seed, path, k, fixed, *rest = args
    wd = None
    try:
        if fixed is not None:
            spec, info = fixed["spec"], fixed.get("info", {})
        elif rest and rest[0] == "shared":
            # the shared-component class (one RTFBody / header entry for several sections): its own random stream
            spec, info = gen_multi_shared2(common.sub_rng(seed, "encodecorr2", "shared", path, k), k)
        elif rest and rest[0] == "shapes":
            # the data-shape class (`harness/datashapes.py`): its own random stream
            spec, info = GEN[path](common.sub_rng(seed, "encodecorr2", "shapes", path, k), k, shapes=True)
        elif rest and rest[0]:
            # the header-variation class: its own random stream, the paths' streams stay as they were
            spec, info = GEN[path](common.sub_rng(seed, "encodecorr2", "headers", path, k), k, vary=True)
        else:
            spec, info = GEN[path](common.sub_rng(seed, "encodecorr2", path, k), k)
        if fixed is None and len(rest) > 1 and rest[1] == "args":
            # the argument-spelling class (`encodecorr.respell`): every container-typed constructor argument in another
            # container the constructors accept — per section and per argument for the bodies' column-name arguments.
            # The header CONTAINERS stay lists (the serialisers of this module read the constructed lists; the
            # container step is Model/HeaderInput.lean, C06)
            ec.respell(common.sub_rng(seed, "encodecorr2", "argspelling", path, k, str(rest[0])), spec, info,
                       drop=("sections", "headers", "headers.inner"))
        if fixed is None and len(rest) > 1 and rest[1] == "zerow":
            # the zero-width-column class (`harness/zerowidth.py`), per section
            from . import zerowidth

            zerowidth.apply(common.sub_rng(seed, "encodecorr2", "zerowidth", path, k, str(rest[0])), spec, info)
        if fixed is None:
            ec.draw_unserialized(seed, spec, info, "encodecorr2", path, k, *map(str, rest))
            _resync_shared(spec)
        out = dict(spec=spec, info=info, path=path)
        try:
            bspec = {kk: v for kk, v in spec.items() if kk not in ("_post", "_nest")}
            if path == "figure":
                wd = tempfile.mkdtemp(prefix="rtfv_enc2_")
            with contextlib.redirect_stdout(io.StringIO()):
                doc = docgen.build(copy.deepcopy(bspec), wd)
                apply_post(doc, spec.get("_post"))
                if path == "nested1":
                    nest_headers(doc, spec["_nest"])
        except Exception as e:  # noqa: BLE001
            out.update(status="construct-error", exc=docgen.classify_exc(e), msg=str(e)[:200])
            return out
        req, real = encode_real(doc, path)
        out.update(status=real[0], req=req)
        if real[0] == "ok":
            out["real"] = real[1]
        else:
            out["exc"], out["msg"] = real[1], real[2]
        return out
    except Exception:  # noqa: BLE001
        import traceback

        return dict(machinery=traceback.format_exc()[-1500:])
    finally:
        if wd is not None:
            shutil.rmtree(wd, ignore_errors=True)


def generate_and_compare(seed: int, n_per_path: int, paths=PATHS, fixed=None, headers: int = 0, shapes: int = 0,
                         shared: int = 0, argspelled: int = 0, zerowidth: int = 0):
    """`headers` = number of additional documents of the header-variation class per table path (multi, nested1);
    `shapes` = number of additional documents of the data-shape class on the multi-section path;
    `shared` = number of additional documents of the shared-component class on the multi-section path;
    `argspelled` = number of additional documents per path of the argument-spelling class, over the path's document
    classes in turn (plain stream / header variation / data shapes / shared components where the path has them)"""
    jobs = [(seed, p, k, None) for p in paths for k in range(n_per_path)]
    jobs += [(seed, p, k, None, True) for p in paths if p != "figure" for k in range(headers)]
    jobs += [(seed, p, k, None, "shapes") for p in paths if p == "multi" for k in range(shapes)]
    jobs += [(seed, p, k, None, "shared") for p in paths if p == "multi" for k in range(shared)]
    modes = {"multi": (False, True, "shapes", "shared"), "figure": (False,), "nested1": (False, True)}
    jobs += [(seed, p, k, None, modes[p][k % len(modes[p])], "args") for p in paths for k in range(argspelled)]
    # the zero-width-column class on the table paths: plain stream / header-variation class in turn
    jobs += [(seed, p, k, None, (False, True)[k % 2], "zerow") for p in paths if p != "figure" for k in range(zerowidth)]
    jobs += [(seed, f["path"], -1, f) for f in (fixed or [])]
    outs = common.pool_map(_worker, jobs, chunksize=8)
    for o in outs:
        if "machinery" in o:
            raise common.MachineryError("worker failed: " + o["machinery"])
    return ec.compare(outs)


def run(res, tier):
    """per-path byte agreement of the encoder models with the implementation; returns the list of outcomes"""
    n = 150 if tier == "quick" else 1200
    from . import datashapes

    from . import zerowidth

    outs = (generate_and_compare(res.seed, n, headers=n // 3, shapes=n // 3, argspelled=n // 3, zerowidth=n // 4) +
            generate_and_compare(res.seed, n // 3, paths=EXTRA_PATHS, headers=n // 6, argspelled=n // 6,
                                 zerowidth=n // 8))
    for o in outs:
        zerowidth.count(res, o["info"], f"zerowidth:encode2:{o['path']}:{o['verdict']}")
        ec.count_spelling(res, o["info"], f"spell:encode2:{o['path']}:{o['verdict']}")
        case = dict(level="encode-doc2", path=o["path"], spec=o["spec"], info=o["info"])
        res.count(f"encode2:{o['path']}:{o['verdict']}")
        ec.count_header_rows(res, o["info"], prefix="hdrcells2")
        datashapes.count(res, o["info"], prefix="datashape:encode2")
        if o["verdict"] in ("agree", "both-error"):
            res.corr_checked += 1
        elif o["verdict"] in ("near", "construct-error"):
            pass
        elif o["verdict"] == "real-error":
            # accepted at construction, the model returns a document, the encoder raises: C01's first clause fails here
            res.corr_checked += 1
            res.fail(case, f"rtf_encode() raises {o['exc']}: {o['msg'][:300]} — an accepted configuration must encode "
                           f"({o['path']} path; the encoder model returns a document for it)")
        else:
            res.corr_checked += 1
            res.disagree(case, f"encoder model vs rtf_encode() ({o['path']}): {o['why']}")
    return outs


def replay_case(case) -> int:
    """re-run one stored case of this module (level encode-doc2); 1 = the property fails on it"""
    outs = generate_and_compare(0, 0, paths=(), fixed=[dict(path=case["path"], spec=case["spec"], info=case.get("info", {}))])
    o = outs[0]
    print("verdict:", o["verdict"], "-", (o.get("why") or "")[:600])
    if o["verdict"] == "real-error":
        print("VIOLATION property=C01 replay=<given>")
        return 1
    if o["verdict"] in ("differ", "model-error", "error-kind"):
        print("encoder model and rtf_encode() differ on this input; no clause of C01 fails on it")
        print("VIOLATION property=C01 replay=<given> no-failing-input-found")
        return 1
    print("property holds on this input")
    return 0


def main(argv):
    n = int(argv[1]) if len(argv) > 1 else 200
    seed = int(argv[2]) if len(argv) > 2 else 0
    import time

    t0 = time.time()
    outs = (generate_and_compare(seed, n, headers=n // 3) +
            generate_and_compare(seed, n // 3, paths=EXTRA_PATHS, headers=n // 6))
    stats: dict = {}
    for o in outs:
        stats.setdefault(o["path"], {}).setdefault(o["verdict"], []).append(o)
    for p in PATHS + EXTRA_PATHS:
        if p not in stats:
            continue
        tot = sum(len(v) for v in stats[p].values())
        print(f"path {p}: {tot} documents")
        for v, lst in sorted(stats[p].items(), key=lambda kv: -len(kv[1])):
            print(f"   {v:16s} {len(lst):6d}  ({100.0 * len(lst) / tot:.2f} %)")
    bad = [o for o in outs if o["verdict"] in ("differ", "model-error", "real-error", "error-kind")]
    for o in bad[:int(argv[3]) if len(argv) > 3 else 5]:
        print("---", o["verdict"], o["path"], {k: v for k, v in o["info"].items() if k != "expect"})
        print("   ", o["why"][:900])
    if len(argv) > 4:
        with open(argv[4], "w") as f:
            json.dump([dict(path=o["path"], spec=o["spec"], info=o["info"], verdict=o["verdict"], why=o["why"])
                       for o in bad], f, default=str)
    okdocs = [o for o in outs if o["verdict"] == "agree" and not o["model"].get("empty")]
    print(f"agreeing documents whose model tree satisfies docOkFast: {sum(1 for o in okdocs if o['model'].get('docOk'))}"
          f" / {len(okdocs)}; Lean wellFormed of the model text: {sum(1 for o in okdocs if o['model'].get('wf'))}")
    nn = sum(1 for o in outs if o.get("model", {}).get("near", 0) > 0)
    print(f"documents with a value within 2^-30 of a rounding boundary: {nn} (of which differing: "
          f"{sum(1 for o in outs if o['verdict'] == 'near')})")
    errs: dict = {}
    for o in outs:
        if o["verdict"] in ("both-error", "construct-error"):
            errs.setdefault((o["path"], o["verdict"], o.get("exc")), []).append(o)
    for key, lst in sorted(errs.items(), key=lambda kv: -len(kv[1])):
        print(f"   {key}: {len(lst)}   e.g. {lst[0].get('msg', '')[:110]!r}")
    for p in PATHS + EXTRA_PATHS:
        ok = [o for o in outs if o["path"] == p and o.get("status") == "ok"]
        if ok:
            pages = [o["real"].count("\\page{") + 1 for o in ok]
            print(f"{p}: pages per document mean {sum(pages) / len(pages):.1f}, max {max(pages)}; "
                  f"mean size {sum(len(o['real']) for o in ok) // len(ok)} chars")
    print(f"wall {time.time() - t0:.1f}s")
    return 1 if bad else 0


if __name__ == "__main__":
    sys.exit(main(sys.argv))
