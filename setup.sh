#!/bin/bash
# Offline build of the verification framework from files on disk only.
set -e
cd "$(dirname "$0")"
/venv/bin/python -m harness.translate > /dev/null
cd lean
lake build Model Generated Proofs Props driver 2>&1 | grep -v "conda" | tail -5
test -x .lake/build/bin/driver
