import Driver.Paginate
import Driver.Util
