import Driver.Layout
import Driver.Paginate
import Driver.Util
import Driver.Widths
