import Driver.Util
import Driver.Paginate
