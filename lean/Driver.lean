import Driver.Borders
import Driver.Escape
import Driver.Layout
import Driver.Paginate
import Driver.Rtf
import Driver.Util
import Driver.Validate
import Driver.Widths
