import Driver.Util
import Model.Rtf
import Model.RtfDoc
namespace Driver
open Lean Model.Rtf

partial def asNode (j : Json) : R Node := do
  match ← asArr j with
  | [Json.str "cw", n, p, sp] => return Node.cw (← asStr n).toList (← asOpt asInt p) (← asBool sp)
  | [Json.str "sym", c] => match (← asStr c).toList with
    | [ch] => return Node.sym ch
    | _ => throw "sym: one char"
  | [Json.str "hex", a, b] => match (← asStr a).toList, (← asStr b).toList with
    | [x], [y] => return Node.hex x y
    | _, _ => throw "hex: two chars"
  | [Json.str "txt", s] => return Node.txt (← asStr s).toList
  | [Json.str "nl"] => return Node.nl
  | [Json.str "grp", body] => return Node.grp (← (← asArr body).mapM asNode)
  | _ => throw "node: bad shape"

/-- op `wf`: C01's well-formedness of a document string, decided by the Lean definitions -/
def opWf (j : Json) : R Json := do
  let s ← charsF j "rtf"
  let ok := wellFormed s
  let ntoks := match lex s with | some ts => ts.length | none => 0
  return Json.mkObj [("ok", Json.bool ok), ("report", Json.str (wfReport s)),
                     ("ntoks", Json.num (JsonNumber.fromNat ntoks))]

/-- op `print_nodes`: print a syntax tree with the model's printer -/
def opPrintNodes (j : Json) : R Json := do
  let ns ← listF asNode j "nodes"
  return Json.mkObj [("text", Json.str (String.ofList (printNodes ns)))]

def asCellG (j : Json) : R CellG := do
  match ← asArr j with
  | [d, x, c] => return { defn := ← asList asNode d, cellx := ← asInt x, content := ← asList asNode c }
  | _ => throw "cell: [defn, cellx, content]"

def asBlockG (j : Json) : R BlockG := do
  match ← asArr j with
  | [Json.str "plain", ns] => return BlockG.plain (← asList asNode ns)
  | [Json.str "row", h, cs, m] => return BlockG.row (← asList asNode h) (← asList asCellG cs) (← asList asNode m)
  | _ => throw "block: bad shape"

/-- op `c01_tree`: a real output parsed into the grammar by the harness → side condition + re-print -/
def opC01Tree (j : Json) : R Json := do
  let d : DocG := { head := ← listF asNode j "head", blocks := ← listF asBlockG j "blocks" }
  return Json.mkObj [("docOk", Json.bool (docOkFast d)), ("text", Json.str (String.ofList (printDoc d))),
    ("plainOk", Json.bool (plainNodes d.head && d.blocks.all blockOk)),
    ("adjOk", Json.bool (nodesOkFast [Node.grp (docNodes d)] none))]

namespace Rtf
def ops : List (String × (Json → R Json)) := [("wf", opWf), ("print_nodes", opPrintNodes), ("c01_tree", opC01Tree)]
end Rtf
end Driver
