import Driver.Util
import Model.Paginate
import Model.PaginateSpec
namespace Driver
open Lean Model.Paginate

def asRowMeta (j : Json) : R RowMeta := do
  match ← asArr j with
  | [t, g, s] => return { total := ← asNat t, grp := ← asBool g, sub := ← asBool s }
  | _ => throw "rowmeta: expected [total, grp, sub]"

/-- op `assign_pages`: model pages + oracle on observed pages (if given) -/
def opAssignPages (j : Json) : R Json := do
  let nrow ← natF j "nrow"
  let add ← natF j "add"
  let np ← boolF j "np"
  let rows ← listF asRowMeta j "rows"
  let model := assignPages nrow add np rows
  let mut out := [("pages", jNats model)]
  if let some o := optFld j "observed" then
    let obs ← asList asNat o
    let viol := checkBreaks nrow add np rows obs
    let budget := checkBudget (availRows nrow add) (rows.zip obs)
    out := out ++ [("viol", jList (fun (i, s) => Json.arr #[Json.num (JsonNumber.fromNat i), Json.str s]) viol),
                   ("over_budget", jNats budget)]
  return Json.mkObj out

/-- op `changes`: group-change flags of a key sequence (keys are lists of strings) -/
def opChanges (j : Json) : R Json := do
  let keys ← listF (asList asStr) j "keys"
  return Json.mkObj [("changes", jList (fun b => Json.bool b) (changes keys))]

def opLines (j : Json) : R Json := do
  let xs ← listF (asList asNat) j "items"
  let out ← xs.mapM fun x => match x with
    | [wn, wd, cn, cd] => pure (linesNeeded wn wd cn cd)
    | _ => throw "lines: expected [wn,wd,cn,cd]"
  return Json.mkObj [("lines", jNats out)]

namespace Paginate
def ops : List (String × (Json → R Json)) :=
  [("assign_pages", opAssignPages), ("changes", opChanges), ("lines", opLines)]
end Paginate

end Driver
