import Driver.Util
import Model.Convert
import Model.ConvertSpec
/-! JSON ops for C11: model of the conversion passes, the one-pass specification, the oracle. -/
namespace Driver
open Lean Model.Convert

def jEvent : Event → Json
  | .plain c => Json.arr #[Json.str "plain", Json.num (JsonNumber.fromNat c.toNat)]
  | .mapped c => Json.arr #[Json.str "mapped", Json.num (JsonNumber.fromNat c.toNat)]
  | .sup => Json.arr #[Json.str "sup"]
  | .sub => Json.arr #[Json.str "sub"]
  | .ge => Json.arr #[Json.str "ge"]
  | .le => Json.arr #[Json.str "le"]
  | .br => Json.arr #[Json.str "br"]
  | .pageNumber => Json.arr #[Json.str "pagenumber"]
  | .totalPage => Json.arr #[Json.str "totalpage"]
  | .pageField => Json.arr #[Json.str "pagefield"]
  | .verbatim w => Json.arr #[Json.str "verbatim", jChars w]

def jObs : Obs → Json
  | .ch c => Json.num (JsonNumber.fromNat c.toNat)
  | .sup => Json.str "sup"
  | .sub => Json.str "sub"
  | .br => Json.str "br"
  | .pageNumber => Json.str "pagenumber"
  | .totalPage => Json.str "totalpage"
  | .numPages => Json.str "numpages"

/-- op `c11_convert`: text `t` (code points), flag `conv`; optional `out` = what the implementation
produced (escapes undone by the harness).  Answers the model's output, the specification's events,
the side conditions, both renderings and — when `out` is given — the oracle verdicts on `out`. -/
def opConvert (j : Json) : R Json := do
  let t ← charsF j "t"
  let conv ← boolF j "conv"
  let model := convertCore conv t
  let mut res := [("model", jChars model)]
  if conv then
    let es := spec t
    let nat := render es
    let d15 := renderD15 es
    res := res ++ [("events", jList jEvent es), ("regular", Json.bool (regular t)), ("irregular", jNats (irregular t)), ("nocmp", Json.bool (noCmp es)),
                   ("natural", jChars nat), ("d15", jChars d15),
                   ("onepass", jChars (sim docRules t)),
                   ("passes", jChars (literalPasses charMapping t))]
    if let some o := optFld j "out" then
      let out ← asChars o
      res := res ++ [("holds_natural", Json.bool (out == nat)), ("holds_d15", Json.bool (out == d15)),
                     ("obs_equal", Json.bool (readObs out == readObs nat)),
                     ("obs_out", jList jObs (readObs out)), ("obs_spec", jList jObs (readObs nat))]
  else
    if let some o := optFld j "out" then
      let out ← asChars o
      res := res ++ [("holds_natural", Json.bool (out == t)), ("holds_d15", Json.bool (out == t)),
                     ("obs_equal", Json.bool (out == t))]
  return Json.mkObj res

def asFlagVal (j : Json) : R FlagVal := do
  match optFld j "flat", optFld j "tuple", optFld j "nested" with
  | some f, _, _ => return .flat (← asList asBool f)
  | _, some f, _ => return .tuple (← asList asBool f)
  | _, _, some n => return .nested (← asList (asList asBool) n)
  | _, _, _ => throw "flagval: expected {flat:[..]} | {tuple:[..]} | {nested:[[..]]}"

def compOfString : String → R Comp
  | "title" => pure .title | "subline" => pure .subline | "page_header" => pure .pageHeader
  | "page_footer" => pure .pageFooter | "header" => pure .colHeader | "body" => pure .body
  | "footnote" => pure .footnote | "source" => pure .source
  | s => throw s!"unknown component {s}"

def jFlagVal : FlagVal → Json
  | .flat xs => Json.mkObj [("flat", jList Json.bool xs)]
  | .tuple xs => Json.mkObj [("tuple", jList Json.bool xs)]
  | .nested m => Json.mkObj [("nested", jList (jList Json.bool) m)]

/-- op `c11_flag`: `val` (or `comp` for the constructor default), `r`, `c` → flag reaching the position -/
def opFlag (j : Json) : R Json := do
  let v ← match optFld j "val" with
    | some v => asFlagVal v
    | none => do let c ← compOfString (← strF j "comp"); pure (defaultFlag c)
  let r ← natF j "r"
  let c ← natF j "c"
  return Json.mkObj [("flag", jOpt Json.bool (flagAt v r c)), ("val", jFlagVal v)]

/-- op `c11_tables`: echo of the generated tables as the model sees them (cross-check of the translator) -/
def opTables (_ : Json) : R Json := do
  let sumCp := latexTable.foldl (fun acc kv => acc + kv.2) 0
  let sumLen := latexTable.foldl (fun acc kv => acc + kv.1.length) 0
  return Json.mkObj [("n_latex", Json.num (JsonNumber.fromNat latexTable.length)),
                     ("sum_cp", Json.num (JsonNumber.fromNat sumCp)),
                     ("sum_len", Json.num (JsonNumber.fromNat sumLen)),
                     ("char_mapping", jList (fun pr => Json.arr #[jChars pr.1, jChars pr.2]) charMapping),
                     ("doc_rules", jList (fun pr => Json.arr #[jChars pr.1, jChars pr.2]) docRules)]

namespace Convert
def ops : List (String × (Json → R Json)) :=
  [("c11_convert", opConvert), ("c11_flag", opFlag), ("c11_tables", opTables)]
end Convert

end Driver
