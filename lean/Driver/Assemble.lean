import Driver.Util
import Model.Assemble
namespace Driver
open Lean Model.Assemble

/-- split a text into lines, each keeping its "\n" (what `readlines()` does after newline translation) -/
def splitLinesAux : List Char → List Char → List Line → List Line
  | [], cur, acc => (if cur.isEmpty then acc else cur.reverse :: acc).reverse
  | c :: cs, cur, acc =>
    if c = '\n' then splitLinesAux cs [] ((c :: cur).reverse :: acc) else splitLinesAux cs (c :: cur) acc

def splitLines (cs : List Char) : List Line := splitLinesAux cs [] []

/-- lines are echoed as arrays of code points: the harness splits the driver's output with
`str.splitlines()`, which would also split at U+2028, U+0085, … inside a JSON string -/
def jLines (ls : File) : Json := jList jChars ls

def asFile (j : Json) : R File := asList asChars j

def jShaped (s : Shaped) : Json :=
  Json.mkObj [("pre", Json.num (JsonNumber.fromNat s.pre.length)),
              ("font", Json.num (JsonNumber.fromNat s.font.length)),
              ("mid", Json.num (JsonNumber.fromNat s.mid.length)),
              ("leftover", Json.bool (!(leftoverOf s.close).isEmpty)),
              ("mid_has_fcharset", Json.bool (s.mid.any hasFc)),
              ("head_balanced", Json.bool s.headBalanced)]

def allSome {α} : List (Option α) → Option (List α)
  | [] => some []
  | none :: _ => none
  | some a :: rest => (allSome rest).map (a :: ·)

/-- op `asm_lines`: model of the loop on given line lists (+ old helper, + spec, + oracle on observed text) -/
def opAsmLines (j : Json) : R Json := do
  let files ← listF asFile j "files"
  let model := assembleLines files
  let old := assembleLinesOld files
  let cuts := files.map decompose
  let shaped := files.map rtfliteShaped
  let spec : Option File := match allSome cuts with
    | some (s :: rest) => some (expected (s :: rest))
    | _ => none
  let echo := (optFld j "echo").isSome
  let jres (r : Except Err File) : Json := match r with
    | .ok ls => Json.mkObj [("ok", if echo then jLines ls else Json.null)]
    | .error _ => Json.mkObj [("error", Json.str "IndexError")]
  let mut out := [("model", jres model), ("old", jres old),
                  ("shaped", jList Json.bool shaped),
                  ("wf_inputs", jList Json.bool (files.map wellFormedDoc)),
                  ("cuts", jList (jOpt jShaped) cuts),
                  ("spec", if echo then jOpt jLines spec else Json.null)]
  if let some o := optFld j "observed" then
    let obs ← asChars o
    let obsLines := splitLines obs
    out := out ++ [("obs_wellformed", Json.bool (wellFormedDoc obsLines)),
                   ("obs_is_spec", jOpt (fun sp => Json.bool (sp.flatten == obs)) spec),
                   ("obs_is_model", Json.bool (match model with | .ok ls => ls.flatten == obs | .error _ => false)),
                   ("obs_is_old", Json.bool (match old with | .ok ls => ls.flatten == obs | .error _ => false))]
  return Json.mkObj out

/-- op `asm_call`: the call over a file system given as parallel lists `paths`, `contents` (null = missing) -/
def opAsmCall (j : Json) : R Json := do
  let paths ← listF asStr j "paths"
  let contents ← listF (asOpt asFile) j "contents"
  let table := paths.zip contents
  let fs : String → Option File := fun p => (table.lookup p).join
  let o := assembleRtf fs paths
  let res : Json := match o.result with
    | .returned => Json.mkObj [("kind", Json.str "returned")]
    | .fileNotFound m => Json.mkObj [("kind", Json.str "FileNotFoundError"), ("missing", jStrs m)]
    | .indexError => Json.mkObj [("kind", Json.str "IndexError")]
  let obs ← match optFld j "observed" with
    | some o => some <$> asChars o
    | none => pure none
  let same : Bool := match o.written, obs with
    | some ls, some t => ls.flatten == t
    | _, _ => false
  return Json.mkObj [("result", res), ("written_none", Json.bool o.written.isNone),
                     ("written_is_observed", Json.bool same),
                     ("written", if (optFld j "echo").isSome then jOpt (fun ls => jChars ls.flatten) o.written else Json.null)]

/-- op `asm_fs`: the call in a directory given as parallel lists `names`, `contents` (every file the harness put
there: the listed inputs under the argument strings handed to the real call, and all their neighbours), the
argument list `inputs` (names; a name without an entry is missing) and the output name `out`.  Optional `keys`
(parallel to `names`) and `out_key`: the identity of the file each name denotes (several names may denote one file:
other spellings, symbolic links, hard links — the output possibly the file of an input); without them every name is
its own file.  Answers how the call ends, whether the lines written equal `observed`, and which names read
differently afterwards. -/
def opAsmFs (j : Json) : R Json := do
  let names ← listF asStr j "names"
  let contents ← listF asFile j "contents"
  let inputs ← listF asStr j "inputs"
  let out ← asStr (← fld j "out")
  let keys ← match optFld j "keys" with
    | some _ => listF asStr j "keys"
    | none => pure names
  let outKey ← match optFld j "out_key" with
    | some k => asStr k
    | none => pure ((((names.zip keys).lookup out)).getD out)
  let table := (out, outKey) :: names.zip keys
  let d : Dir String String := ⟨fun p => (table.lookup p).getD p, keys.zip contents⟩
  let (o, after) := assembleInDir d inputs out
  let res : Json := match o.result with
    | .returned => Json.mkObj [("kind", Json.str "returned")]
    | .fileNotFound m => Json.mkObj [("kind", Json.str "FileNotFoundError"), ("missing", jStrs m)]
    | .indexError => Json.mkObj [("kind", Json.str "IndexError")]
  let obs ← match optFld j "observed" with
    | some o => some <$> asChars o
    | none => pure none
  let same : Bool := match o.written, obs with
    | some ls, some t => ls.flatten == t
    | _, _ => false
  let changed := (out :: names).eraseDups.filter (fun q => after.read q != d.read q)
  return Json.mkObj [("result", res), ("written_none", Json.bool o.written.isNone),
                     ("written_is_observed", Json.bool same), ("changed", jStrs changed)]

/-- op `asm_spaces`: all code points the model treats as Python white space -/
def opAsmSpaces (_ : Json) : R Json := do
  let mut acc : Array Nat := #[]
  for n in [0:0x110000] do
    if n.isValidChar then
      if isPySpace (Char.ofNat n) then acc := acc.push n
  return Json.mkObj [("spaces", jNats acc.toList)]

namespace Assemble
def ops : List (String × (Json → R Json)) :=
  [("asm_lines", opAsmLines), ("asm_call", opAsmCall), ("asm_fs", opAsmFs), ("asm_spaces", opAsmSpaces)]
end Assemble

end Driver
