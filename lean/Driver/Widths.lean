import Driver.Util
import Model.Widths
import Model.WidthsHist
/-! JSON ops for C08 (column widths).  Rationals travel as strings "num/den" (den > 0). -/
namespace Driver
open Lean Model.Widths Model.WidthsHist

def parseRat (s : String) : R Rat :=
  match s.splitOn "/" with
  | [n] => match n.toInt? with
    | some i => pure (i : Rat)
    | none => throw s!"rat: bad integer {s}"
  | [n, d] => match n.toInt?, d.toNat? with
    | some i, some k => if k = 0 then throw "rat: zero denominator" else pure ((i : Rat) / (k : Rat))
    | _, _ => throw s!"rat: bad fraction {s}"
  | _ => throw s!"rat: bad literal {s}"

def asRat (j : Json) : R Rat := do parseRat (← asStr j)
def ratF (j : Json) (k : String) : R Rat := do asRat (← fld j k)
def jRat (q : Rat) : Json := Json.str s!"{q.num}/{q.den}"
def jRats (qs : List Rat) : Json := jList jRat qs
def jBools (bs : List Bool) : Json := jList Json.bool bs
def optRats (j : Json) (k : String) : R (Option (List Rat)) :=
  match optFld j k with
  | none => pure none
  | some v => some <$> asList asRat v

def errName : Err → String
  | .indexError => "IndexError"
  | .zeroDivision => "ZeroDivisionError"

/-- op `c08_col_widths`: model of `_col_widths` + `inch_to_twip` on one vector -/
def opColWidths (j : Json) : R Json := do
  let w ← listF asRat j "w"
  let W ← ratF j "W"
  let eps ← ratF j "eps"
  let viol ← match optFld j "observed" with
    | some o => do
      let obs ← asList asInt o
      pure (jStrs (rowViol eps W w none Kind.data obs))
    | none => pure Json.null
  match colWidthsE w W with
  | .error e => return Json.mkObj [("error_kind", Json.str (errName e)), ("viol", viol)]
  | .ok cum =>
    return Json.mkObj [
      ("cum", jRats cum),
      ("twips", jInts (cum.map twip)),
      ("exact", jRats (exactPositions w W)),
      ("near", jBools (cum.map fun c => nearHalf eps (c * 1440))),
      ("tie", jBools (cum.map fun c => isTie (c * 1440))),
      ("twipW", jInts [twip W]),
      ("nearW", Json.bool (nearHalf eps (W * 1440))),
      ("viol", viol)]

def kindJson : Kind → Json
  | .header i inh => Json.arr #[Json.str "header", Json.num (JsonNumber.fromNat i), Json.bool inh]
  | .span => Json.arr #[Json.str "span"]
  | .data => Json.arr #[Json.str "data"]
  | .foot => Json.arr #[Json.str "foot"]
  | .source => Json.arr #[Json.str "source"]

def asKind (j : Json) : R Kind := do
  match ← asArr j with
  | [k] => match ← asStr k with
    | "span" => pure .span
    | "data" => pure .data
    | "foot" => pure .foot
    | "source" => pure .source
    | s => throw s!"kind: {s}"
  | [k, i, b] =>
    if (← asStr k) == "header" then return .header (← asNat i) (← asBool b) else throw "kind: header expected"
  | _ => throw "kind: bad shape"

def asHeader (j : Json) : R Header := do
  return { ncells := ← natF j "ncells", own := ← optRats j "own" }

def asObsRow (j : Json) : R (Kind × List Int) := do
  match ← asArr j with
  | [k, cx] => return (← asKind k, ← asList asInt cx)
  | _ => throw "observed row: expected [kind, cellx]"

/-- op `c08_section`: model rows of one table section (+ near-boundary flags) and, if `observed`
is given, the violated clauses of the Lean-defined oracle `checkRows` on the observed rows -/
def opSection (j : Json) : R Json := do
  let s : Section := {
    ncol := ← natF j "ncol", keep := ← listF asBool j "keep", userW := ← optRats j "userW",
    headers := ← listF asHeader j "headers", footW := ← optRats j "footW", srcW := ← optRats j "srcW",
    W := ← ratF j "W" }
  let eps ← ratF j "eps"
  let mut out : List (String × Json) := []
  match sectionRowsQ s with
  | .error e => out := out ++ [("model_error", Json.str (errName e))]
  | .ok rows =>
    out := out ++ [
      ("rows", jList (fun (k, r) => Json.arr #[kindJson k, jInts (r.map twip)]) rows),
      ("near", jList (fun (_, r) => jBools (r.map fun c => nearHalf eps (c * 1440))) rows),
      ("floors", jList (fun (_, r) => jInts (r.map fun c => (c * 1440).floor)) rows)]
  if let some o := optFld j "observed" then
    let obs ← asList asObsRow o
    let dispW ← listF asRat j "dispW"
    let viol := checkRows eps s.W dispW obs
    out := out ++ [("viol", jList (fun (i, c) => Json.arr #[Json.num (JsonNumber.fromNat i), Json.str c]) viol),
                   ("twipW", jInts [twip s.W])]
  return Json.mkObj out

/-- op `c08_construct`: a caller-owned body object used for documents with the given column counts -/
def opConstruct (j : Json) : R Json := do
  let obj ← optRats j "obj"
  let ns ← listF asNat j "ncols"
  let (ws, objEnd) := constructMany obj ns
  return Json.mkObj [("widths", jList jRats ws), ("obj_after", jOpt jRats objEnd)]

/-- op `c08_construct_sections`: the sections of one multi-section document; `objs` = `col_rel_width` of the distinct
body objects (null = not set), `secs` = `[[index of the section's body object, column count of its frame], …]` -/
def opConstructSections (j : Json) : R Json := do
  let objs ← listF (fun v => if v.isNull then pure none else some <$> asList asRat v) j "objs"
  let secs ← listF (fun v => do
    match ← asArr v with
    | [r, n] => return (← asNat r, ← asNat n)
    | _ => throw "section: expected [ref, ncol]") j "secs"
  let (ws, objsEnd) := constructSections objs secs
  return Json.mkObj [("widths", jList jRats ws), ("objs_after", jList (jOpt jRats) objsEnd)]

/-- op `c08_page_history`: one page object from its construction (`w0` = the col_width it resolves) through
`["set", w]` / `["other"]` / `["encode"]` → the configured table width at every encode -/
def opPageHistory (j : Json) : R Json := do
  let w0 ← ratF j "w0"
  let ops ← listF (fun v => do
    match ← asArr v with
    | [k] => match ← asStr k with
      | "other" => return PageOp.other
      | "encode" => return PageOp.encode
      | s => throw s!"page op: {s}"
    | [k, w] => match ← asStr k with
      | "set" => return PageOp.setWidth (← asRat w)
      | s => throw s!"page op: {s}"
    | _ => throw "page op: expected [kind] or [kind, width]") j "ops"
  return Json.mkObj [("at_encode", jRats (widthsAtEncodes w0 ops)), ("final", jRat (configuredWidth w0 ops)),
                     ("used", jRat (widthUsed (pageRun { colWidth := w0 } ops)))]

namespace Widths
def ops : List (String × (Json → R Json)) :=
  [("c08_col_widths", opColWidths), ("c08_section", opSection), ("c08_construct", opConstruct),
   ("c08_construct_sections", opConstructSections), ("c08_page_history", opPageHistory)]
end Widths

end Driver
