import Driver.Util
import Model.World
import Model.WorldSpec
import Model.Memo
import Model.WorldFiles
import Generated.Colors
namespace Driver
open Lean Model.World

namespace WorldImpl

def realTable : Table := Generated.colorTable.map (fun r => (r.name.toList, r.idx))
def realCodes : List (Str × String) := Generated.colorTable.map (fun r => (r.name.toList, r.code))

def jStr (s : Str) : Json := Json.str (String.ofList s)
def jNat (n : Nat) : Json := Json.num (JsonNumber.fromNat n)
def jInt (n : Int) : Json := Json.num (JsonNumber.fromInt n)

def asS (j : Json) : R Str := do return (← asStr j).toList
def asCell (j : Json) : R Cell := asOpt asS j

def asObj (j : Json) : R Obj := do
  let widths ← match optFld j "widths" with
    | none => pure none
    | some v => some <$> asList asInt v
  return { widths := widths
           colors := ← listF asS j "colors"
           used := ← listF asS j "used"
           groupBy := ← listF asS j "groupBy"
           pageBy := ← listF asS j "pageBy"
           sublineBy := ← listF asS j "sublineBy"
           newPage := ← boolF j "newPage"
           pagebyColumn := ← boolF j "pagebyColumn"
           rest := ← natF j "rest" }

def asFrame (j : Json) : R Frame := do
  return { cols := ← listF asS j "cols", rows := ← listF (asList asCell) j "rows" }

def asEntry {α} (f : Json → R α) (j : Json) : R (Nat × α) := do
  match ← asArr j with
  | [i, v] => return (← asNat i, ← f v)
  | _ => throw "entry: expected [id, value]"

def asKind (s : String) : R Kind :=
  match s with
  | "single" => pure .single
  | "multi" => pure .multi
  | "figure" => pure .figure
  | k => throw s!"kind {k}"

def asHeaderArg (j : Json) : R HeaderArg :=
  match j with
  | .str "default" => pure .default
  | _ =>
    match optFld j "flat", optFld j "nested" with
    | some v, _ => .flat <$> asList asNat v
    | _, some v => .nested <$> asList (asList (asOpt asNat)) v
    | _, _ => throw "headers: expected \"default\" | {flat} | {nested}"

def asPair (j : Json) : R (Nat × Nat) := do
  match ← asArr j with
  | [a, b] => return (← asNat a, ← asNat b)
  | _ => throw "pair"

def asCtor (j : Json) : R Ctor := do
  return { kind := ← asKind (← strF j "kind")
           secs := ← listF asPair j "secs"
           headers := ← asHeaderArg (← fld j "headers")
           others := ← listF asNat j "others" }

def asOp (j : Json) : R Op := do
  match ← strF j "op" with
  | "construct" => return .construct (← natF j "n") (← asCtor (← fld j "ctor"))
  | "encode" => return .encode (← natF j "n")
  | "twice" => return .encodeTwice (← natF j "n")
  | "drop" => return .drop (← natF j "n")
  | "lookup" => return .lookup (← asS (← fld j "c"))
  | "measure" => return .measure
  | o => throw s!"op {o}"

def jErr : Err → Json
  | .valueError => "ValueError"
  | .indexError => "IndexError"
  | .attributeError => "AttributeError"
  | .dangling => "dangling"
  | .domain => "domain"

def jStrategy : Strategy → Json
  | .default => "default"
  | .pageBy => "page_by"
  | .subline => "subline"
  | .custom n => Json.str s!"custom{n}"

def jWidths (w : List Width) : Json := jList jInt w

def jOutcome : Outcome → Json
  | .error e => Json.mkObj [("err", jErr e)]
  | .ok p => Json.mkObj [("ok", Json.mkObj [
      ("table", jList jStr p.table),
      ("codes", jList (fun c => Json.str ((aget c realCodes).getD "?")) p.table),
      ("indices", jList (fun (c, n) => Json.arr #[jStr c, jNat n]) p.indices),
      ("secs", jList (fun s => Json.mkObj [("strategy", jStrategy s.strategy), ("body", jWidths s.bodyWidths),
                                          ("headers", jList (jOpt jWidths) s.headerWidths),
                                          ("headings", jList jStr s.headings),
                                          ("sublines", jList jStr s.sublines)]) p.secs)])]

def jLookup : Lookup → Json
  | .idx n => jNat n
  | .invalid => Json.str "invalid"

def jOut : Out → Json
  | .constructed ok => Json.mkObj [("constructed", Json.bool ok)]
  | .encoded o => Json.mkObj [("encoded", jOutcome o)]
  | .twice a b => Json.mkObj [("twice", Json.arr #[jOutcome a, jOutcome b])]
  | .dropped => Json.str "dropped"
  | .looked l => Json.mkObj [("looked", jLookup l)]
  | .measured => Json.str "measured"
  | .noDoc => Json.str "noDoc"

def jClause : Clause → Json
  | .historyDependent => "history-dependent"
  | .encodeTwiceDiffers => "encode-twice-differs"
  | .frameModified => "frame-modified"
  | .interpreterDependent => "interpreter-dependent"

/-- op `c14_world`: run a history in the model (in a process that drew hash seed `seed`), then the target, and the
target in the fresh world with the same seed and with every seed of `ref_seeds` -/
def opWorld (j : Json) : R Json := do
  let heap ← listF (asEntry asObj) j "heap"
  let frames ← listF (asEntry asFrame) j "frames"
  let ops ← listF asOp j "ops"
  let target ← asCtor (← fld j "target")
  let seed ← match optFld j "seed" with
    | none => pure 0
    | some v => asNat v
  let refSeeds ← match optFld j "ref_seeds" with
    | none => pure []
    | some v => asList asNat v
  let w₀ := fresh heap frames seed
  let r := run realTable w₀ ops
  let t := encodeCtor realTable r.1 target
  let f := encodeCtor realTable w₀ target
  let doc := match construct r.1.heap r.1.frames target with
    | .ok d => Json.mkObj [
        ("bodies", jList (fun (s : FrameId × Comp) => jOpt jWidths ((s.2.get r.1.heap).bind (·.widths))) d.secs),
        ("headers", jList (fun c => jOpt jWidths ((Comp.get r.1.heap c).bind (·.widths))) (headerComps d.headers))]
    | .error e => Json.mkObj [("err", jErr e)]
  return Json.mkObj [
    ("outs", jList jOut r.2),
    ("ctx", jOpt (jList jStr) t.1.ctx),
    ("ctx_before_target", jOpt (jList jStr) r.1.ctx),
    ("registry", jList (fun (e : Str × Strategy) => jStr e.1) t.1.registry),
    ("heap_widths", jList (fun (e : ObjId × Obj) => Json.arr #[jNat e.1, jOpt jWidths e.2.widths, jNat e.2.rest]) t.1.heap),
    ("target_doc", doc),
    ("target", jOutcome t.2),
    ("fresh", jOutcome f.2),
    ("fresh_others", jList jOutcome (modelFreshOutcomes realTable w₀ refSeeds target)),
    ("violations", jList jClause (violations (modelObs realTable w₀ ops target)
      ++ seedViolations f.2 (modelFreshOutcomes realTable w₀ refSeeds target)))]

/-- op `c14_color_index`: `get_rtf_color_index` under a context -/
def opColorIndex (j : Json) : R Json := do
  let ctx ← match optFld j "ctx" with
    | none => pure none
    | some v => some <$> asList asS v
  let cs ← listF asS j "colors"
  return Json.mkObj [
    ("idx", jList (fun c => jLookup (rtfColorIndex realTable ctx c)) cs),
    ("util", jList (fun c => jNat (getColorIndex realTable ctx c)) cs),
    ("table", match ctx with
      | none => Json.null
      | some u => match colorTable realTable u with
        | none => Json.str "invalid"
        | some t => jList jStr t)]

def asObsOut (j : Json) : R ObsOut := do
  match optFld j "ok" with
  | some d => return .ok (← asS d)
  | none => return .raised (← asS (← fld j "cls")) (← asS (← fld j "msg"))

def asObsPair (j : Json) : R (ObsOut × ObsOut) := do
  match ← asArr j with
  | [a, b] => return (← asObsOut a, ← asObsOut b)
  | _ => throw "twice: expected [a, b]"

def asStrPair (j : Json) : R (Str × Str) := do
  match ← asArr j with
  | [a, b] => return (← asS a, ← asS b)
  | _ => throw "frames: expected [before, after]"

/-- op `c14_oracle`: the specification predicate on the implementation's observations -/
def opOracle (j : Json) : R Json := do
  let o : Obs ObsOut Str := {
    target := ← asObsOut (← fld j "target")
    fresh := ← asObsOut (← fld j "fresh")
    twice := ← listF asObsPair j "twice"
    frames := ← listF asStrPair j "frames" }
  -- the same constructor call + encode in fresh interpreters started with other hash seeds
  let others ← match optFld j "others" with
    | none => pure []
    | some v => asList asObsOut v
  return Json.mkObj [("violations", jList jClause (violations o ++ seedViolations o.fresh others))]

/-! ### histories with file-system events (`Model/WorldFiles.lean`) -/

def asPathRef (j : Json) : R PathRef :=
  match optFld j "abs", optFld j "rel" with
  | some d, _ => do return .abs (← asNat d) (← natF j "n")
  | _, some n => do return .rel (← asNat n)
  | _, _ => throw "path: expected {abs, n} | {rel}"

def asFsEv (j : Json) : R FsEv := do
  match ← strF j "ev" with
  | "write" => return .write (← natF j "d") (← natF j "n") (← natF j "c")
  | "delete" => return .delete (← natF j "d") (← natF j "n")
  | "rename" => return .rename (← natF j "d") (← natF j "n") (← natF j "d2") (← natF j "n2")
  | "chdir" => return .chdir (← natF j "d")
  | "touch" => return .touch (← natF j "d") (← natF j "n")
  | e => throw s!"fs event {e}"

def asFOp (j : Json) : R FOp := do
  match ← strF j "op" with
  | "ev" => return .ev (← asFsEv j)
  | _ => return .op (← asOp j)

def asFile (j : Json) : R ((Nat × Nat) × Content) := do
  match ← asArr j with
  | [d, n, c] => return ((← asNat d, ← asNat n), ← asNat c)
  | _ => throw "file: expected [dir, name, content]"

def asFs (j : Json) : R Fs := do
  return { cwd := ← natF j "cwd", files := ← listF asFile j "files" }

def jReads (r : List (Option Content)) : Json := jList (jOpt jNat) r

def jFs (fs : Fs) : Json := Json.mkObj [
  ("cwd", jNat fs.cwd),
  ("files", jList (fun (e : (Nat × Nat) × Content) => Json.arr #[jNat e.1.1, jNat e.1.2, jNat e.2]) fs.files)]

/-- op `c14_files`: a history of operations AND file-system events in the model of the code as it is (no store in
front of the file reads), the target after it, the target in a fresh process in the file system reached; what a store
keyed by the path as spelled / by the resolved path would have answered the target with (how sensitive the history
is to that class of change) -/
def opFiles (j : Json) : R Json := do
  let heap ← listF (asEntry asObj) j "heap"
  let frames ← listF (asEntry asFrame) j "frames"
  let ops ← listF asFOp j "ops"
  let target ← asCtor (← fld j "target")
  let seed ← match optFld j "seed" with
    | none => pure 0
    | some v => asNat v
  let fs₀ ← asFs (← fld j "fs")
  let figs ← listF (asEntry (asList asPathRef)) j "figs"
  let q : Paths := fun _ d =>
    if d.kind = .figure then d.others.flatMap (fun i => (aget i figs).getD []) else []
  let w₀ := fresh heap frames seed
  let after := runF noStore q realTable (freshF w₀ fs₀) ops
  let t := encodeCtorF noStore q realTable after target
  let f := encodeCtorF noStore q realTable (freshF w₀ (fs₀.run (eventsF ops))) target
  let tSpell := encodeCtorF spellingKey q realTable (runF spellingKey q realTable (freshF w₀ fs₀) ops) target
  let tRes := encodeCtorF resolvedKey q realTable (runF resolvedKey q realTable (freshF w₀ fs₀) ops) target
  return Json.mkObj [
    ("trace", jList (jList jReads) (traceF noStore q realTable (freshF w₀ fs₀) ops)),
    ("target", jReads t.2),
    ("fresh", jReads f.2),
    ("pure", Json.bool (decide (t = f))),
    ("final", jFs after.fs),
    ("files_changed", Json.bool ((eventsF ops).any (·.changesFiles))),
    ("target_spelling_keyed_store", jReads tSpell.2),
    ("target_resolved_keyed_store", jReads tRes.2)]

end WorldImpl

namespace World
def ops : List (String × (Json → R Json)) :=
  [("c14_world", WorldImpl.opWorld), ("c14_color_index", WorldImpl.opColorIndex), ("c14_oracle", WorldImpl.opOracle),
   ("c14_files", WorldImpl.opFiles)]
end World

end Driver
