import Driver.Util
import Driver.Widths
import Driver.Layout
import Model.Encode
import Std.Data.HashMap
/-!
JSON op `encode_doc`: the post-construction state of an `RTFDocument` (+ the measured string widths) → the string
`Model.Encode.encode` prints, or `{"error": kind}` when the model says that the encoder raises.

Encoding of Python values
  scalar      null | true/false | integer | {"f": "num/den"} (a float, exact) | "string"
  attribute   null | scalar | [scalar…] (flat list) | {"t": [scalar…]} (tuple) | [[scalar…]…] (nested list)
  free text   array of code points (or a JSON string)
  rational    "num/den" | "num" | integer
-/
namespace Driver
open Lean Model.Encode

def asRatE (j : Json) : R Rat :=
  match j with
  | .str s => parseRat s
  | _ => do return ((← asInt j : Int) : Rat)

def asValE (j : Json) : R Val :=
  match j with
  | .null => pure .null
  | .bool b => pure (.bool b)
  | .str s => pure (.str s)
  | .num _ => do return .int (← asInt j)
  | .obj _ => do return .float (← asRatE (← fld j "f"))
  | _ => throw "value: scalar expected"

def asAttrE (j : Json) : R Attr :=
  match j with
  | .arr xs =>
    match xs.toList with
    | [] => pure (.list [])
    | x :: rest =>
      match x with
      | .arr _ => do return .nested (← (x :: rest).mapM (asList asValE))
      | _ => do return .list (← (x :: rest).mapM asValE)
  | .obj _ =>
    match optFld j "t" with
    | some t => do return .tuple (← asList asValE t)
    | none => do return .scalar (← asValE j)
  | .null => pure .null
  | _ => do return .scalar (← asValE j)

def attrF (j : Json) (k : String) : R Attr :=
  match optFld j k with
  | some v => asAttrE v
  | none => pure .null

def asTextAttrsE (j : Json) : R (TextAttrsOf Attr) := do
  return { font := ← attrF j "text_font", format := ← attrF j "text_format", size := ← attrF j "text_font_size",
           color := ← attrF j "text_color", bg := ← attrF j "text_background_color",
           just := ← attrF j "text_justification", indFirst := ← attrF j "text_indent_first",
           indLeft := ← attrF j "text_indent_left", indRight := ← attrF j "text_indent_right",
           space := ← attrF j "text_space", spBefore := ← attrF j "text_space_before",
           spAfter := ← attrF j "text_space_after", hyph := ← attrF j "text_hyphenation",
           convert := ← attrF j "text_convert" }

def asTblAttrsE (j : Json) : R (TblAttrsOf Attr) := do
  return { toTextAttrsOf := ← asTextAttrsE j,
           bLeft := ← attrF j "border_left", bRight := ← attrF j "border_right", bTop := ← attrF j "border_top",
           bBottom := ← attrF j "border_bottom", bFirst := ← attrF j "border_first", bLast := ← attrF j "border_last",
           bcLeft := ← attrF j "border_color_left", bcRight := ← attrF j "border_color_right",
           bcTop := ← attrF j "border_color_top", bcBottom := ← attrF j "border_color_bottom",
           bcFirst := ← attrF j "border_color_first", bcLast := ← attrF j "border_color_last",
           bWidth := ← attrF j "border_width", cellHeight := ← attrF j "cell_height",
           cellJust := ← attrF j "cell_justification", cellVJust := ← attrF j "cell_vertical_justification",
           cellNrow := ← attrF j "cell_nrow" }

def optF {α} (f : Json → R α) (j : Json) (k : String) : R (Option α) :=
  match optFld j k with
  | some v => some <$> f v
  | none => pure none

def asTextCompE (j : Json) : R TextComp := do
  return { text := ← optF (asList asChars) j "text", attrs := ← asTextAttrsE (← fld j "attrs") }

def asHeaderE (j : Json) : R Header := do
  return { text := ← optF (asList asChars) j "text", colRelWidth := ← optF (asList asRatE) j "col_rel_width",
           attrs := ← asTblAttrsE (← fld j "attrs") }

def asFootE (j : Json) : R Foot := do
  return { text := ← optF asChars j "text", asTable := ← boolF j "as_table",
           colRelWidth := ← optF (asList asRatE) j "col_rel_width", attrs := ← asTblAttrsE (← fld j "attrs") }

def asBodyE (j : Json) : R Body := do
  return { attrs := ← asTblAttrsE (← fld j "attrs"), colRelWidth := ← optF (asList asRatE) j "col_rel_width",
           asColheader := ← boolF j "as_colheader", groupBy := ← optF (asList asChars) j "group_by",
           pageBy := ← optF (asList asChars) j "page_by", sublineBy := ← optF (asList asChars) j "subline_by",
           newPage := ← boolF j "new_page", pagebyHeader := ← boolF j "pageby_header",
           pagebyColumn := (← strF j "pageby_row") == "column" }

def asPageE (j : Json) : R Page := do
  return { width := ← asRatE (← fld j "width"), height := ← asRatE (← fld j "height"),
           margin := ← listF asRatE j "margin", nrow := ← natF j "nrow", landscape := ← boolF j "landscape",
           borderFirst := ← strF j "border_first", borderLast := ← strF j "border_last",
           colWidth := ← asRatE (← fld j "col_width"), pageTitle := ← asPlacement (← fld j "page_title"),
           pageFootnote := ← asPlacement (← fld j "page_footnote"), pageSource := ← asPlacement (← fld j "page_source") }

def asDocE (j : Json) : R Doc := do
  return { cols := ← listF asChars j "cols", rows := ← listF (asList (asOpt asChars)) j "rows",
           page := ← asPageE (← fld j "page"),
           pageHeader := ← optF asTextCompE j "page_header", pageFooter := ← optF asTextCompE j "page_footer",
           title := ← optF asTextCompE j "title", subline := ← optF asTextCompE j "subline",
           headers := ← listF (asOpt asHeaderE) j "headers", body := ← asBodyE (← fld j "body"),
           footnote := ← optF asFootE j "footnote", source := ← optF asFootE j "source" }

abbrev WKey := List Nat × Int × Int × Nat

def asWidthEntry (j : Json) : R (WKey × Rat) := do
  match ← asArr j with
  | [t, f, s, w] =>
    let size ← asRatE s
    return (((← asChars t).map Char.toNat, ← asInt f, size.num, size.den), ← asRatE w)
  | _ => throw "width entry: [text, font, size, width]"

def mkMeasure (entries : List (WKey × Rat)) : Measure :=
  let m : Std.HashMap WKey Rat := entries.foldl (fun m (k, v) => m.insert k v) {}
  fun t f s => m.get? (t.map Char.toNat, f, s.num, s.den)

/-- op `encode_doc` -/
def opEncodeDoc (j : Json) : R Json := do
  let d ← asDocE (← fld j "doc")
  let measure := mkMeasure (← listF asWidthEntry j "widths")
  match encodeWith measure d with
  | .error e => return Json.mkObj [("error", Json.str e)]
  | .ok (g, near) =>
    let text := Model.Rtf.printDoc g
    let extra := match optFld j "check" with
      | some (.bool true) => [("wf", Json.bool (Model.Rtf.wellFormed text)),
                              ("docOk", Json.bool (Model.Rtf.docOkFast g))]
      | _ => []
    return Json.mkObj ([("text", Json.str (String.ofList text)),
      ("near", Json.num (JsonNumber.fromNat (near + nearTwips d)))] ++ extra)

namespace Encode
def ops : List (String × (Json → R Json)) := [("encode_doc", opEncodeDoc)]
end Encode
end Driver
