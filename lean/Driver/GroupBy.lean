import Driver.Util
import Model.GroupBy
import Model.GroupBySpec
/-! JSON ops for C13: the model (`enhanceGroupBy`, `restorePageContext`, `postProcess`), the legacy
model (diagnostics only) and the oracle (`cellViolations`, `fillViolations`, `allLevelsContiguousB`). -/
namespace Driver
open Lean Model.GroupBy

namespace GroupByImpl

def asCell (j : Json) : R Cell :=
  match j with
  | .null => pure none
  | .str s => pure (some s.toList)
  | _ => throw "cell: expected string or null"

def asCol (j : Json) : R Col := asList asCell j

def asNamedCol (j : Json) : R (Str × Col) := do
  match ← asArr j with
  | [n, c] => return ((← asStr n).toList, ← asCol c)
  | _ => throw "column: expected [name, cells]"

def asFrame (j : Json) : R Frame := asList asNamedCol j

def jCell : Cell → Json
  | none => Json.null
  | some s => Json.str (String.ofList s)

def jCol (c : Col) : Json := jList jCell c
def jFrame (f : Frame) : Json := jList (fun p => Json.arr #[Json.str (String.ofList p.1), jCol p.2]) f
def jNat (n : Nat) : Json := Json.num (JsonNumber.fromNat n)

def jViol (v : Nat × Nat × String) : Json := Json.arr #[jNat v.1, jNat v.2.1, Json.str v.2.2]

/-- display texts of a column -/
def shown (c : Col) : List Str := c.map display

/-- oracle on one observed frame: group cells (display), other columns (exact), column names -/
def judgeFrame (df : Frame) (gb : List Str) (starts : List Nat) (obs : Frame) : List Json :=
  let gcols := gb.map (getCol df)
  let n := height df
  let cells := cellViolations gcols starts (gb.map (fun g => shown (getCol obs g))) n
  let others := (names df).filter (fun m => !gb.contains m && getCol obs m != getCol df m)
  (cells.map jViol) ++
  (others.map (fun m => Json.arr #[Json.str "column-not-in-group_by-changed", Json.str (String.ofList m)])) ++
  (if names obs = names df then [] else [Json.arr #[Json.str "column-names-changed"]])

/-- op `gb_unit`: `cols`, `gb`, `starts` (list of page-start lists) → model frames per start list;
with `observed` = {"error": cls} | {"frames": [...]}: the oracle's verdict on it -/
def opUnit (j : Json) : R Json := do
  let df ← asFrame (← fld j "cols")
  let gb := (← listF asStr j "gb").map String.toList
  let startss ← listF (asList asNat) j "starts"
  let gcols := gb.map (getCol df)
  let contigOk := allLevelsContiguousB gcols (height df)
  let trivial := gb.isEmpty || height df == 0
  let model := enhanceGroupBy df gb
  let legacy := Legacy.enhanceGroupBy df gb
  let mut out : List (String × Json) := [("spec_contiguous", Json.bool contigOk)]
  match model with
  | .error _ => out := out ++ [("model_error", Json.bool true)]
  | .ok s =>
    out := out ++ [("model_error", Json.bool false),
      ("frames", jList (fun st => jFrame (restorePageContext s df gb st)) startss)]
  match legacy with
  | .error _ => out := out ++ [("legacy_error", Json.bool true)]
  | .ok s =>
    out := out ++ [("legacy_error", Json.bool false),
      ("legacy_frames", jList (fun st => jFrame (restorePageContext s df gb st)) startss)]
  if let some o := optFld j "observed" then
    let mut viol : List Json := []
    if let some e := optFld o "error" then
      let cls ← asStr e
      if trivial then viol := [Json.arr #[Json.str "raised-without-grouping", Json.str cls]]
      else if contigOk then viol := [Json.arr #[Json.str "contiguous-keys-rejected", Json.str cls]]
      else if cls != "ValueError" then viol := [Json.arr #[Json.str "rejected-with-wrong-exception", Json.str cls]]
    else
      let frames ← listF asFrame o "frames"
      if !trivial && !contigOk then viol := [Json.arr #[Json.str "non-contiguous-keys-accepted"]]
      else
        for (st, f) in startss.zip frames do
          if trivial then
            if f != df then viol := viol ++ [Json.arr #[Json.str "frame-changed-without-grouping"]]
          else
            viol := viol ++ judgeFrame df gb st f
    out := out ++ [("viol", Json.arr viol.toArray)]
  return Json.mkObj out

/-- op `gb_pages`: observation level.  `cols` = the frame the group_by service sees (after removal of
page_by / subline_by columns), `gb`, `heights` = observed number of data rows per page, `observed` =
rendered texts of the group columns in row order (one list per level).
Returns the model's rendered texts per level, the page starts, and the oracle's violations. -/
def opPages (j : Json) : R Json := do
  let df ← asFrame (← fld j "cols")
  let gb := (← listF asStr j "gb").map String.toList
  let heights ← listF asNat j "heights"
  let gcols := gb.map (getCol df)
  let contigOk := allLevelsContiguousB gcols (height df)
  let starts := pageStarts heights
  let mut out : List (String × Json) :=
    [("spec_contiguous", Json.bool contigOk), ("starts", jNats starts)]
  match restored df gb heights with
  | .error _ => out := out ++ [("model_error", Json.bool true)]
  | .ok r =>
    out := out ++ [("model_error", Json.bool false),
      ("model_shown", jList (fun g => jStrs ((shown (getCol r g)).map String.ofList)) gb)]
  match postProcess df gb heights with
  | .error _ => pure ()
  | .ok pages =>
    out := out ++ [("model_pages", jList (fun pg =>
      jList (fun g => jStrs ((shown (getCol pg g)).map String.ofList)) gb) pages)]
  if let some o := optFld j "observed" then
    let obs := (← asList (asList asStr) o).map (fun l => l.map String.toList)
    let cells := cellViolations gcols starts obs (height df)
    let fills := fillViolations gcols heights obs
    out := out ++ [("viol_cells", jList jViol cells),
      ("viol_fill", jList (fun v => Json.arr #[jNat v.1, jNat v.2.1, jNat v.2.2]) fills)]
  return Json.mkObj out

end GroupByImpl

namespace GroupBy
def ops : List (String × (Json → R Json)) :=
  [("gb_unit", GroupByImpl.opUnit), ("gb_pages", GroupByImpl.opPages)]
end GroupBy

end Driver
