import Driver.Util
import Std.Data.HashMap
import Model.StrWidth
/-! JSON ops for C20: the L1 / L2 models, the full `get_string_width` model, and the oracle predicates
evaluated on the implementation's outputs. -/
namespace Driver
open Lean Model.StrWidth

def swAsRat (j : Json) : R Rat := do
  match ← asArr j with
  | [n, d] =>
    let n ← asInt n
    let d ← asNat d
    if d = 0 then throw "rat: zero denominator" else return mkRat n d
  | _ => throw "rat: expected [num, den]"
def swRatF (j : Json) (k : String) : R Rat := do swAsRat (← fld j k)
def swJRat (q : Rat) : Json := Json.arr #[Json.num (JsonNumber.fromInt q.num), Json.num (JsonNumber.fromNat q.den)]
def swJInt (n : Int) : Json := Json.num (JsonNumber.fromInt n)

def asText (j : Json) : R (List Char) := asChars j

/-- measured tables → `Metrics` (hash maps; absent entries are 0) -/
def metricsOfJson (j : Json) : R Metrics := do
  let a ← listF (asList asInt) j "A"
  let k ← listF (asList asInt) j "K"
  let mut am : Std.HashMap Nat Int := {}
  for e in a do
    match e with
    | [c, v] => am := am.insert c.toNat v
    | _ => throw "A: expected [cp, adv64]"
  let mut km : Std.HashMap (Nat × Nat) Int := {}
  for e in k do
    match e with
    | [x, y, v] => km := km.insert (x.toNat, y.toNat) v
    | _ => throw "K: expected [cp, cp, kern64]"
  return ⟨fun c => am.getD c.toNat 0, fun x y => km.getD (x.toNat, y.toNat) 0⟩

def envOf (j : Json) : Env :=
  match j.getObjValAs? String "env" with
  | .ok "basic" => basicEnv
  | _ => raqmEnv

/-- op `sw_l1`: L1 sum for measured tables; optionally the table hypotheses over an alphabet -/
def opSwL1 (j : Json) : R Json := do
  let m ← metricsOfJson j
  let e := envOf j
  let texts ← listF asText j "texts"
  let mut out := [("px64", jInts (texts.map (px64 m e)))]
  if let some al := optFld j "alpha" then
    let alpha := (← asList asNat al).map Char.ofNat
    let viol := tableViolations m alpha
    out := out ++ [("table_violations", jList (fun (p : Char × Char) => jNats [p.1.toNat, p.2.toNat]) (viol.take 20)),
                   ("n_table_violations", Json.num (JsonNumber.fromNat viol.length))]
  return Json.mkObj out

/-- op `sw_l2`: L2 model of one font file at 26.6 size `n` (or size `[num, den]`) -/
def opSwL2 (j : Json) : R Json := do
  let file ← strF j "file"
  let some f := fontByFile file | throw s!"no generated table for {file}"
  let n ← match optFld j "n" with
    | some n => asNat n
    | none => size26_6 <$> swRatF j "size"
  let e := envOf j
  let texts ← listF asText j "texts"
  let m := libMetrics f n
  let mut out := [("px64", jInts (texts.map (px64 m e))), ("units", jInts (texts.map (unitsRun f e))),
                  ("is_l2", Json.bool (isL2 f)), ("n", Json.num (JsonNumber.fromNat n))]
  if let some al := optFld j "alpha" then
    let alpha := (← asList asNat al).map Char.ofNat
    out := out ++ [("n_table_violations", Json.num (JsonNumber.fromNat (tableViolations m alpha).length))]
  return Json.mkObj out

def asFontArg (j : Json) : R FontArg :=
  match j with
  | .str s => pure (.name s)
  | _ => do return .num (← asInt j)

def jResult : Except Err Rat → Json
  | .ok w => Json.mkObj [("ok", swJRat w)]
  | .error .valueError => Json.mkObj [("err", Json.str "ValueError")]
  | .error .zeroDivisionError => Json.mkObj [("err", Json.str "ZeroDivisionError")]
  | .error .typeError => Json.mkObj [("err", Json.str "TypeError")]

/-- op `sw_model`: the full model `get_string_width` with the L2 measure, a batch of calls -/
def opSwModel (j : Json) : R Json := do
  let calls ← listF pure j "calls"
  let outs ← calls.mapM fun c => do
    let text ← asText (← fld c "text")
    let font ← asFontArg (← fld c "font")
    let size ← swRatF c "size"
    let unit ← strF c "unit"
    let dpi ← swRatF c "dpi"
    let path := match fontPath font with
      | .ok p => Json.str p
      | .error _ => Json.null
    let l2 := match fontPath font with
      | .ok p => (match fontByFile p with | some f => isL2 f | none => false)
      | .error _ => false
    return Json.mkObj [("res", jResult (getStringWidth measureModel text font size unit dpi)),
                       ("path", path), ("l2", Json.bool l2)]
  return Json.mkObj [("outs", Json.arr outs.toArray)]

/-! ### typed Python values (`Model.StrWidth.Val`)

JSON form `{"t": tag, "v": payload}`: `none`, `bool` (v: bool), `int` (v: int), `float` (v: [num, den]), `nan`,
`inf` (neg: bool), `str` / `npstr` (v: code points), `bytes`, `tuple` (v: [values]; hashable iff all elements are),
`list` / `dict` / `set` (→ `Val.list`), `ndarray`, `npint` (v: int), `npfloat` (v: [num, den]), `npbool`, `other`. -/
partial def asVal (j : Json) : R Val := do
  let t ← strF j "t"
  match t with
  | "none" => return .null
  | "bool" => return .bool (← boolF j "v")
  | "int" => return .int (← intF j "v")
  | "float" => return .float (← swRatF j "v")
  | "nan" => return .nan
  | "inf" => return .inf (← boolF j "neg")
  | "str" => return .str (String.ofList (← charsF j "v"))
  | "npstr" => return .npStr (String.ofList (← charsF j "v"))
  | "bytes" => return .bytes
  | "tuple" =>
    let vs ← listF asVal j "v"
    return .tuple (vs.all Val.hashable)
  | "list" | "dict" | "set" => return .list
  | "ndarray" => return .ndarray
  | "npint" => return .npInt (← intF j "v")
  | "npfloat" => return .npFloat (← swRatF j "v")
  | "npbool" => return .npBool (← boolF j "v")
  | "other" => return .other
  | _ => throw s!"val: unknown tag {t}"

def jArgClass : ArgClass → Json
  | .supported => "supported" | .lenient => "lenient" | .unsupported => "unsupported" | .free => "free"

def jExpect : Expect → Json
  | .valueError => "ValueError" | .width => "width" | .either => "either" | .free => "free"

def jStage : Stage Rat → Json
  | .ok w => Json.mkObj [("ok", swJRat w)]
  | .raises .valueError => Json.mkObj [("err", Json.str "ValueError")]
  | .raises .zeroDivisionError => Json.mkObj [("err", Json.str "ZeroDivisionError")]
  | .raises .typeError => Json.mkObj [("err", Json.str "TypeError")]
  | .unmodelled => Json.mkObj [("unmodelled", Json.bool true)]

/-- what the implementation did, as a `Stage`: `{"ok": [n, d]}`, `{"err": "ValueError" | "TypeError" |
"ZeroDivisionError"}`; anything else (another exception, a non-finite or non-real return value) is `{"other": …}`
and becomes `Stage.unmodelled`, which meets only `Expect.free` -/
def asObserved (j : Json) : R (Stage Rat) := do
  if let some w := optFld j "ok" then return .ok (← swAsRat w)
  if let some e := optFld j "err" then
    match ← asStr e with
    | "ValueError" => return .raises .valueError
    | "TypeError" => return .raises .typeError
    | "ZeroDivisionError" => return .raises .zeroDivisionError
    | _ => return .unmodelled
  return .unmodelled

/-- op `sw_vals`: the value-level model and the specification classes for a batch of calls over typed values;
with `obs` the Lean predicate `meets (expected …) obs` is evaluated on the implementation's outcome -/
def opSwVals (j : Json) : R Json := do
  let calls ← listF pure j "calls"
  let outs ← calls.mapM fun c => do
    let text ← asVal (← fld c "text")
    let font ← asVal (← fld c "font")
    let size ← asVal (← fld c "size")
    let unit ← asVal (← fld c "unit")
    let dpi ← asVal (← fld c "dpi")
    let ex := expected text font size unit dpi
    let l2 := match fontPathV font with
      | .ok p => (match fontByFile p with | some f => isL2 f | none => false)
      | .error _ => false
    let mut out := [("font_class", jArgClass (fontClass font)), ("unit_class", jArgClass (unitClass unit)),
      ("domain", Json.arr #[Json.bool (textInDomain text), Json.bool (sizeInDomain size), Json.bool (dpiInDomain dpi)]),
      ("expected", jExpect ex),
      ("model", jStage (getStringWidthV measureModel text font size unit dpi)), ("l2", Json.bool l2)]
    if let some o := optFld c "obs" then
      out := out ++ [("meets", Json.bool (meets ex (← asObserved o)))]
    return Json.mkObj out
  return Json.mkObj [("outs", Json.arr outs.toArray)]

/-- op `sw_spec`: the specification predicates on observed values -/
def opSwSpec (j : Json) : R Json := do
  let items ← listF pure j "items"
  let outs ← items.mapM fun it => do
    let k ← strF it "k"
    if k == "units" then
      return unitsOK (← swRatF it "tol") (← swRatF it "dpi") (← swRatF it "wpx") (← swRatF it "win") (← swRatF it "wmm")
    else if k == "scale" then
      return scaleOK (← swRatF it "s1") (← swRatF it "w1") (← swRatF it "s2") (← swRatF it "w2")
    else if k == "mono" then
      return monoOK (← natF it "len") (← swRatF it "adv") (← swRatF it "w")
    else if k == "chain" then
      return chainOK (← listF swAsRat it "ws")
    else throw s!"sw_spec: unknown kind {k}"
  return Json.mkObj [("ok", jList (fun b => Json.bool b) outs)]

/-- op `sw_tables`: echo of the generated font tables (cross-check of the translator) -/
def opSwTables (_ : Json) : R Json := do
  let fs := Generated.fonts.map fun f =>
    Json.mkObj [("file", Json.str f.file), ("upem", Json.num (JsonNumber.fromNat f.upem)),
      ("notdef", Json.num (JsonNumber.fromNat f.notdef)),
      ("glyphs", Json.num (JsonNumber.fromNat f.glyphs.length)),
      ("adv_sum", Json.num (JsonNumber.fromNat (f.glyphs.foldl (fun s g => s + g.2.2) 0))),
      ("kern", Json.num (JsonNumber.fromNat f.kern.length)),
      ("kern_sum", swJInt (f.kern.foldl (fun s e => s + e.2.2) 0)),
      ("is_l2", Json.bool (isL2 f)), ("ctx", jNats f.ctx), ("fixed", Json.bool f.fixedPitch)]
  return Json.mkObj [("fonts", Json.arr fs.toArray),
    ("alphabet", jList (fun (p : Nat × Nat) => jNats [p.1, p.2]) Generated.alphabet),
    ("number_to_name", jList (fun (p : Nat × String) => Json.arr #[Json.num (JsonNumber.fromNat p.1), Json.str p.2])
        Generated.fontNumberToName),
    ("paths", jList (fun (p : String × String) => Json.arr #[Json.str p.1, Json.str p.2]) Generated.fontPaths)]

namespace StrWidth
def ops : List (String × (Json → R Json)) :=
  [("sw_l1", opSwL1), ("sw_l2", opSwL2), ("sw_model", opSwModel), ("sw_vals", opSwVals), ("sw_spec", opSwSpec), ("sw_tables", opSwTables)]
end StrWidth

end Driver
