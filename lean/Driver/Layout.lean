import Driver.Util
import Model.Layout
namespace Driver
open Lean Model.Layout

def asPlacement (j : Json) : R Placement := do
  match ← asStr j with
  | "first" => pure .first
  | "last" => pure .last
  | "all" => pure .all
  | s => throw s!"placement {s}"

def asComp (j : Json) : R Comp := do
  match ← asStr j with
  | "absent" => pure .absent
  | "para" => pure .para
  | "table" => pure .table
  | s => throw s!"comp {s}"

def asKey (j : Json) : R (List (Option String)) := asList (asOpt asStr) j

def asLRow (j : Json) : R LRow := do
  return { lines := ← natF j "lines", pkey := ← asKey (← fld j "pkey"), skey := ← asKey (← fld j "skey"),
           pbRows := ← natF j "pb", sbRows := ← natF j "sb" }

def asLDoc (j : Json) : R LDoc := do
  return {
    nrow := ← natF j "nrow", rows := ← listF asLRow j "rows",
    hasPageBy := ← boolF j "hasPageBy", hasSubline := ← boolF j "hasSubline",
    newPage := ← boolF j "newPage", pagebyColumn := ← boolF j "pagebyColumn",
    pagebyHeader := ← boolF j "pagebyHeader", headers := ← listF asBool j "headers",
    asColheader := ← boolF j "asColheader", hasTitle := ← boolF j "hasTitle",
    hasSublineTxt := ← boolF j "hasSublineTxt",
    footnote := ← asComp (← fld j "footnote"), source := ← asComp (← fld j "source"),
    pageTitle := ← asPlacement (← fld j "pageTitle"),
    pageFootnote := ← asPlacement (← fld j "pageFootnote"),
    pageSource := ← asPlacement (← fld j "pageSource") }

def jBlock : Block → Json
  | .brk => Json.arr #[Json.str "brk"]
  | .title => Json.arr #[Json.str "title"]
  | .subline => Json.arr #[Json.str "subline"]
  | .sublineHeading t => Json.arr #[Json.str "sublineHeading", Json.str t]
  | .colHeader k => Json.arr #[Json.str "colHeader", Json.num (JsonNumber.fromNat k)]
  | .heading l t => Json.arr #[Json.str "heading", Json.num (JsonNumber.fromNat l), Json.str t]
  | .data i => Json.arr #[Json.str "data", Json.num (JsonNumber.fromNat i)]
  | .footnote b => Json.arr #[Json.str "footnote", Json.bool b]
  | .source b => Json.arr #[Json.str "source", Json.bool b]

def opLayout (j : Json) : R Json := do
  let d ← asLDoc (← fld j "doc")
  return Json.mkObj [
    ("pages", jList (jList jBlock) (layout d)),
    ("pageNums", jNats d.pageNums),
    ("additional", Json.num (JsonNumber.fromNat d.additional))]

namespace Layout
def ops : List (String × (Json → R Json)) := [("layout", opLayout)]
end Layout
end Driver
