import Driver.Util
import Driver.Encode
import Model.Encode
import Model.EncodeAccepted
/-!
JSON op `encode_total`: the hypotheses and the conclusion of `Props/C01total.lean` (`C01_encode_total`) evaluated on
one post-construction state (+ the measured string widths), in the encoding of `Driver/Encode.lean`:

  {"op": "encode_total", "doc": …, "widths": […]}  ↦
  {"accepted": b, "shapes": b, "measure_ok": b, "contiguous": b, "requests": n, "result": "ok" | <error kind>,
   "holds": b}

`holds` = the statement of the theorem on this input: not (accepted ∧ shapes ∧ measure_ok), or the model returns a
document, or it raises `ValueError` and the keys are not contiguous.  It is `true` on every input (that is the
theorem); the harness asserts it, so a driver / model that no longer satisfies the statement is seen at run time too.
-/
namespace Driver
open Lean Model.Encode Model.EncodeAccepted

def opEncodeTotal (j : Json) : R Json := do
  let d ← asDocE (← fld j "doc")
  let measure := mkMeasure (← listF asWidthEntry j "widths")
  let acc := accepted d
  let shp := shapesInQuantifier d
  let mok := measureOk measure d
  let contig := groupKeysContiguous d
  let res := match encode measure d with
    | .ok _ => "ok"
    | .error e => e
  let holds := !(acc && shp && mok) || res == "ok" || (res == "ValueError" && !contig)
  return Json.mkObj [("accepted", Json.bool acc), ("shapes", Json.bool shp), ("measure_ok", Json.bool mok),
    ("contiguous", Json.bool contig), ("requests", Json.num (JsonNumber.fromNat (requests d).length)),
    ("result", Json.str res), ("holds", Json.bool holds)]

namespace EncodeTotal
def ops : List (String × (Json → R Json)) := [("encode_total", opEncodeTotal)]
end EncodeTotal
end Driver
