import Driver.Util
import Driver.Encode
import Driver.EncodeMore
import Model.Encode
import Model.EncodeAccepted
import Model.EncodeAcceptedMore
/-!
JSON op `encode_total`: the hypotheses and the conclusion of `Props/C01total.lean` (`C01_encode_total`) evaluated on
one post-construction state (+ the measured string widths), in the encoding of `Driver/Encode.lean`:

  {"op": "encode_total", "doc": …, "widths": […]}  ↦
  {"accepted": b, "shapes": b, "measure_ok": b, "contiguous": b, "requests": n, "result": "ok" | <error kind>,
   "holds": b}

`holds` = the statement of the theorem on this input: not (accepted ∧ shapes ∧ measure_ok), or the model returns a
document and the keys are contiguous, or it raises `ValueError` and the keys are not contiguous (the refusal is decided
by the data alone: `C01_encode_refused_iff`, `C01_encodeM_refused_iff` of `Props/C01totalmore.lean`).  It is `true` on every input (that is the
theorem); the harness asserts it, so a driver / model that no longer satisfies the statement is seen at run time too.

Likewise for `Props/C01totalmore.lean`:

  {"op": "encode_total_multi", "doc": <as encode_multi>, "widths": […]}  ↦ the same object for `C01_encodeM_total`
     (`contiguous` = the keys of EVERY section are contiguous; + "sections": n,
      "section_shapes" / "section_contiguous": one Boolean per `temp_document`)
  {"op": "encode_total_figure", "doc": <as encode_figure>}  ↦
     {"accepted": b, "shapes": b, "result": "ok" | "empty" | <error kind>, "holds": b}  for `C01_encodeF_total`
     (`holds` = not (accepted ∧ shapes), or the model returns a document)
-/
namespace Driver
open Lean Model.Encode Model.EncodeAccepted

def opEncodeTotal (j : Json) : R Json := do
  let d ← asDocE (← fld j "doc")
  let measure := mkMeasure (← listF asWidthEntry j "widths")
  let acc := accepted d
  let shp := shapesInQuantifier d
  let mok := measureOk measure d
  let contig := groupKeysContiguous d
  let res := match encode measure d with
    | .ok _ => "ok"
    | .error e => e
  let holds := !(acc && shp && mok) || (res == "ok" && contig) || (res == "ValueError" && !contig)
  return Json.mkObj [("accepted", Json.bool acc), ("shapes", Json.bool shp), ("measure_ok", Json.bool mok),
    ("contiguous", Json.bool contig), ("requests", Json.num (JsonNumber.fromNat (requests d).length)),
    ("result", Json.str res), ("holds", Json.bool holds)]

def opEncodeTotalMulti (j : Json) : R Json := do
  let d ← asMDocE (← fld j "doc")
  let measure := mkMeasure (← listF asWidthEntry j "widths")
  let acc := Model.EncodeAcceptedMore.acceptedM d
  let shp := Model.EncodeAcceptedMore.shapesInQuantifierM d
  let mok := Model.EncodeAcceptedMore.measureOkM measure d
  let contig := Model.EncodeAcceptedMore.groupKeysContiguousM d
  let sds := Model.EncodeMulti.sectionDocs d
  let res := match Model.EncodeMulti.encodeM measure d with
    | .ok _ => "ok"
    | .error e => e
  let holds := !(acc && shp && mok) || (res == "ok" && contig) || (res == "ValueError" && !contig)
  return Json.mkObj [("accepted", Json.bool acc), ("shapes", Json.bool shp), ("measure_ok", Json.bool mok),
    ("contiguous", Json.bool contig),
    ("requests", Json.num (JsonNumber.fromNat (Model.EncodeAcceptedMore.requestsM d).length)),
    ("sections", Json.num (JsonNumber.fromNat sds.length)),
    ("section_accepted", Json.arr (sds.map fun sd => Json.bool (accepted sd)).toArray),
    ("section_shapes", Json.arr (sds.map fun sd => Json.bool (shapesInQuantifier sd)).toArray),
    ("section_contiguous", Json.arr (sds.map fun sd => Json.bool (groupKeysContiguous sd)).toArray),
    ("result", Json.str res), ("holds", Json.bool holds)]

def opEncodeTotalFigure (j : Json) : R Json := do
  let d ← asFDocE (← fld j "doc")
  let acc := Model.EncodeAcceptedMore.acceptedF d
  let shp := Model.EncodeAcceptedMore.shapesInQuantifierF d
  let res := match Model.EncodeFigure.encodeWithF d with
    | .ok (some _, _) => "ok"
    | .ok (none, _) => "empty"
    | .error e => e
  let holds := !(acc && shp) || res == "ok"
  return Json.mkObj [("accepted", Json.bool acc), ("shapes", Json.bool shp), ("result", Json.str res),
    ("holds", Json.bool holds)]

namespace EncodeTotal
def ops : List (String × (Json → R Json)) :=
  [("encode_total", opEncodeTotal), ("encode_total_multi", opEncodeTotalMulti),
   ("encode_total_figure", opEncodeTotalFigure)]
end EncodeTotal
end Driver
