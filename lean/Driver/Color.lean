import Driver.Util
import Model.Color
namespace Driver
open Lean Model.Color Generated

namespace ColorJ

def jNat (n : Nat) : Json := Json.num (JsonNumber.fromNat n)
def jRgb (c : Rgb) : Json := jNats [c.1, c.2.1, c.2.2]

def jErr : Err → Json
  | .invalidAt i n => Json.mkObj [("kind", Json.str "invalidAt"), ("index", jNat i), ("name", Json.str n)]
  | .invalidName n => Json.mkObj [("kind", Json.str "invalidName"), ("name", Json.str n)]
  | .badShape => Json.mkObj [("kind", Json.str "badShape")]
  | .fontTableShape => Json.mkObj [("kind", Json.str "fontTableShape")]

def jRow (row : ColorRow) : Json :=
  Json.mkObj [("name", Json.str row.name), ("idx", jNat row.idx), ("rgb", jRgb (rowRgb row)),
              ("seen", jOpt jRgb (seenRgb row))]

def asOptStrs (j : Json) (k : String) : R (Option (List String)) :=
  match optFld j k with
  | none => pure none
  | some v => some <$> asList asStr v

def asAttr (j : Json) : R Attr :=
  match j with
  | .null => pure Attr.none
  | _ =>
    match optFld j "nested" with
    | some m => Attr.nested <$> asList (asList asStr) m
    | none => do
      let xs ← listF asStr j "flat"
      let t := match optFld j "tuple" with
        | some (.bool b) => b
        | _ => false
      pure (Attr.flat t xs)

def asComp (j : Json) : R Comp := do
  let tc ← match optFld j "tc" with | some a => asAttr a | none => pure Attr.none
  let bg ← match optFld j "bg" with | some a => asAttr a | none => pure Attr.none
  let bc ← match optFld j "bc" with | some a => asList asAttr a | none => pure []
  pure { textColor := tc, bgColor := bg, borderColors := bc }

def asDoc (j : Json) : R Doc := do
  pure { bodies := ← listF asComp j "bodies", texts := ← listF asComp j "texts", headers := ← listF asComp j "headers" }

def asRgbOpt (j : Json) : R (Option Rgb) :=
  match j with
  | .null => pure none
  | _ => do
    match ← asList asNat j with
    | [r, g, b] => pure (some (r, g, b))
    | _ => throw "rgb: expected [r,g,b]"

def jIdxResult : Except Err Nat → Json
  | .ok i => jNat i
  | .error e => Json.mkObj [("err", jErr e)]

end ColorJ
open ColorJ

/-- op `c12_table`: `generate_rtf_color_table(used)`; `used` null = full table -/
def opC12Table (j : Json) : R Json := do
  let used ← asOptStrs j "used"
  let text := generateColorTable colorTable used
  let rows : Except Err (List ColorRow) := match used with
    | none => .ok (fullTableRows colorTable)
    | some u => if needsColorTable (some u) then tableRows colorTable u else .ok []
  return Json.mkObj [
    ("text", match text with | .ok s => Json.str s | .error _ => Json.null),
    ("err", match text with | .ok _ => Json.null | .error e => jErr e),
    ("rows", match rows with | .ok rs => jList jRow rs | .error _ => Json.null)]

/-- op `c12_index`: for every colour of `colors`: `get_rtf_color_index(c, used)` under context `ctx`, and
`Utils._get_color_index(c, used)` -/
def opC12Index (j : Json) : R Json := do
  let ctx ← asOptStrs j "ctx"
  let used ← asOptStrs j "used"
  let colors ← listF asStr j "colors"
  return Json.mkObj [
    ("rtf", jList (fun c => jIdxResult (rtfColorIndex colorTable ctx c used)) colors),
    ("utils", jNats (colors.map fun c => utilsColorIndex colorTable ctx c used))]

/-- op `c12_fonts`: emitted font table, its entries, and the reference printed for each requested font number -/
def opC12Fonts (j : Json) : R Json := do
  let req ← listF asNat j "fonts"
  let es := fontEntries fontTable
  return Json.mkObj [
    ("text", match fontTableText fontTable with | .ok s => Json.str s | .error _ => Json.null),
    ("entries", match es with
      | .ok es => jList (fun e => Json.arr #[jNat e.num, Json.str e.name, Json.str e.style, Json.str e.charset]) es
      | .error _ => Json.null),
    ("refs", jInts (req.map fun n => (textRefs colorTable none n none none).f)),
    ("names", jList (fun n => jOpt Json.str (fontNumberToName.lookup n)) req)]

/-- op `c12_doc`: the colour side of a constructed document: collected list (first-occurrence order), table rows and
text printed for enumeration `enum1` (default: the collected list), index printed for every query colour while the
context holds enumeration `enum2` -/
def opC12Doc (j : Json) : R Json := do
  let d ← asDoc (← fld j "doc")
  let queries ← listF asStr j "queries"
  let col := collect d
  let e1 := (← asOptStrs j "enum1").getD col
  let e2 := (← asOptStrs j "enum2").getD col
  let rows : Except Err (List ColorRow) := if needsColorTable (some e1) then tableRows colorTable e1 else .ok []
  let text := generateColorTable colorTable (some e1)
  let elems ← match optFld j "elements" with
    | none => pure []
    | some es => asList (fun e => do
        match ← asArr e with
        | [kind, k, r, c, font] =>
          let kind ← asStr kind
          let k ← asNat k
          let comps := if kind == "bodies" then d.bodies else if kind == "texts" then d.texts else d.headers
          match comps[k]? with
          | none => throw s!"element: no component {kind}[{k}]"
          | some comp =>
            let r ← asNat r
            let c ← asNat c
            let font ← asNat font
            let jv : Except Err (Option String) → Json := fun v => match v with
              | .ok (some s) => Json.str s
              | .ok none => Json.null
              | .error e => Json.mkObj [("err", jErr e)]
            let tc := comp.textColor.at r c
            let bg := comp.bgColor.at r c
            let refs := textRefs colorTable (some e2) font (tc.toOption.join) (bg.toOption.join)
            pure (Json.mkObj [("tc", jv tc), ("bg", jv bg), ("cf", jOpt jNat refs.cf), ("cb", jOpt jNat refs.cb),
                              ("f", Json.num (JsonNumber.fromInt refs.f))])
        | _ => throw "element: expected [kind, k, r, c, font]") es
  return Json.mkObj [
    ("elems", Json.arr elems.toArray),
    ("collected", jStrs col),
    ("rows", match rows with | .ok rs => jList jRow rs | .error _ => Json.null),
    ("text", match text with | .ok s => Json.str s | .error _ => Json.null),
    ("err", match text with | .ok _ => Json.null | .error e => jErr e),
    ("indices", jNats (queries.map fun c => utilsColorIndex colorTable (some e2) c none))]

/-- op `c12_at`: `BroadcastValue(value=attr).iloc(r, c)` for a list of positions -/
def opC12At (j : Json) : R Json := do
  let a ← asAttr (← fld j "attr")
  let ps ← listF (asList asNat) j "pos"
  let out ← ps.mapM fun p => match p with
    | [r, c] => pure (match a.at r c with
        | .ok (some v) => Json.str v
        | .ok none => Json.null
        | .error e => Json.mkObj [("err", jErr e)])
    | _ => throw "pos: expected [r,c]"
  return Json.mkObj [("values", Json.arr out.toArray)]

/-- op `c12_check` — the oracle: C12's decidable specification on the *parsed output* of the implementation.
`entries`: the colour table as read back (entry 0 = auto = null); `uses`: [index printed, colour requested];
`fonts`: font table as read back [N, name]; `font_uses`: [N printed, font number requested] -/
def opC12Check (j : Json) : R Json := do
  let hasTable ← boolF j "has_table"
  let entries ← listF asRgbOpt j "entries"
  let uses ← listF (fun u => do
      match ← asArr u with
      | [i, r] => pure ({ idx := ← asNat i, requested := ← asStr r } : ColorUse)
      | _ => throw "use: expected [idx, requested]") j "uses"
  let fonts ← listF (fun u => do
      match ← asArr u with
      | [n, s] => pure ((← asNat n), (← asStr s))
      | _ => throw "font: expected [n, name]") j "fonts"
  let fuses ← listF (fun u => do
      match ← asArr u with
      | [n, r] => pure ({ n := ← asNat n, requested := ← asNat r } : FontUse)
      | _ => throw "font use: expected [n, requested]") j "font_uses"
  let (bad, missing) := checkRefs colorTable hasTable entries uses
  let badFonts := (fuses.zipIdx.filter fun (u, _) => !(fontUseOk fontNumberToName fonts u)).map (·.2)
  return Json.mkObj [("bad", jNats bad), ("missing_table", Json.bool missing), ("bad_fonts", jNats badFonts)]

/-- op `c12_rgb`: `name_to_rgb` for a list of names (null for an unknown name) -/
def opC12Rgb (j : Json) : R Json := do
  let names ← listF asStr j "names"
  return Json.mkObj [("rgb", jList (fun n => jOpt jRgb (requestedRgb colorTable n)) names),
                     ("count", jNat colorTable.length)]

namespace Color
def ops : List (String × (Json → R Json)) :=
  [("c12_table", opC12Table), ("c12_index", opC12Index), ("c12_fonts", opC12Fonts), ("c12_doc", opC12Doc),
   ("c12_at", opC12At), ("c12_check", opC12Check), ("c12_rgb", opC12Rgb)]
end Color

end Driver
