import Driver.Util
import Driver.Rtf
import Model.Emit
namespace Driver
open Lean Model.Rtf Model.Emit

def asChars' (j : Json) : R (List Char) := do return (← asStr j).toList

def asTextFmt (j : Json) : R TextFmt := do
  return { hyph := ← boolF j "hyph", sb := ← intF j "sb", sa := ← intF j "sa",
           sl := ← asOpt asInt (← fld j "sl"), fi := ← intF j "fi", li := ← intF j "li", ri := ← intF j "ri",
           just := ← asChars' (← fld j "just"), halfPts := ← intF j "halfPts", fontIdx := ← intF j "fontIdx",
           color := ← asOpt asInt (← fld j "color"), bg := ← asOpt asInt (← fld j "bg"),
           formats := ← listF asChars' j "formats" }

def asBorderFmt (j : Json) : R BorderFmt := do
  return { style := ← asChars' (← fld j "style"), width := ← intF j "width",
           color := ← asOpt asInt (← fld j "color") }

def asCellFmt (j : Json) : R CellFmt := do
  return { left := ← asOpt asBorderFmt (← fld j "left"), top := ← asOpt asBorderFmt (← fld j "top"),
           right := ← asOpt asBorderFmt (← fld j "right"), bottom := ← asOpt asBorderFmt (← fld j "bottom"),
           valign := ← listF asChars' j "valign", cellx := ← intF j "cellx",
           text := ← asTextFmt (← fld j "text"), body := ← listF asNode j "body" }

def asRowFmt (j : Json) : R RowFmt := do
  return { gaph := ← intF j "gaph", just := ← asChars' (← fld j "just"), cells := ← listF asCellFmt j "cells" }

/-- op `emit_row`: the model's print of a row (with the trailing `\pard`) + its side conditions -/
def opEmitRow (j : Json) : R Json := do
  let r ← asRowFmt (← fld j "row")
  return Json.mkObj [("text", Json.str (String.ofList (printNodes (rowNodesFull r)))),
    ("rowOk", Json.bool (rowOk r && rowNoU r)), ("uForm", Json.bool (r.cells.all fun c => uForm c.body))]

/-- op `emit_para`: methods "paragraph" (one text) and "line" (several) -/
def opEmitPara (j : Json) : R Json := do
  let mode ← strF j "mode"
  if mode == "paragraph" then
    let t ← asTextFmt (← fld j "fmt")
    let body ← listF asNode j "body"
    return Json.mkObj [("text", Json.str (String.ofList (printNode (paragraph t body)))),
      ("ok", Json.bool (textFmtOk t && textOk body))]
  else
    let lines ← listF (fun x => do return (← asTextFmt (← fld x "fmt"), ← listF asNode x "body")) j "lines"
    match lines.getLast? with
    | none => throw "emit_para: no lines"
    | some (lt, _) =>
      return Json.mkObj [("text", Json.str (String.ofList (printNode (linesParagraph lt lines)))),
        ("ok", Json.bool (lines.all fun (t, b) => textFmtOk t && textOk b))]

namespace Emit
def ops : List (String × (Json → R Json)) := [("emit_row", opEmitRow), ("emit_para", opEmitPara)]
end Emit
end Driver
