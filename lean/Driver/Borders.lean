import Driver.Util
import Model.Borders
import Model.CellAttr
import Model.EncodeMulti
namespace Driver
open Lean Model.Broadcast Model.Borders Model.CellAttr

def asMatS (j : Json) : R (Mat String) := asList (asList asStr) j

def jMatS (m : Mat String) : Json := jList jStrs m

def opBorders (j : Json) : R Json := do
  let b : BorderIn := {
    isFirst := ← boolF j "isFirst", isLast := ← boolF j "isLast", start := ← natF j "start",
    height := ← natF j "height", width := ← natF j "width",
    top := ← asMatS (← fld j "top"), bottom := ← asMatS (← fld j "bottom"),
    bodyFirst := ← asMatS (← fld j "bodyFirst"), bodyTopOrig := ← asMatS (← fld j "bodyTopOrig"),
    bodyLast := ← asMatS (← fld j "bodyLast"), pageFirst := ← strF j "pageFirst",
    pageLast := ← strF j "pageLast", hasHeaders := ← boolF j "hasHeaders",
    fnTableHere := ← boolF j "fnTableHere", srcTableHere := ← boolF j "srcTableHere" }
  let o := applyBorders b
  -- the rows `_encode` reads: page rows 0..height-1, displayed columns 0..width-1
  let grid (m : Mat String) : Json :=
    jList (fun i => jList (fun c => jOpt Json.str (m.iloc i c)) (List.range b.width)) (List.range b.height)
  return Json.mkObj [("top", grid o.top), ("bottom", grid o.bottom),
    ("fnOverride", jOpt Json.str o.fnOverride), ("srcOverride", jOpt Json.str o.srcOverride)]

/-- attribute values are passed as strings (canonical JSON text of the Python value) -/
def opCellAttr (j : Json) : R Json := do
  let A ← asMatS (← fld j "attr")
  let rows ← natF j "rows"
  let cols ← natF j "cols"
  let removed ← listF asNat j "removed"
  let start ← natF j "start"
  let height ← natF j "height"
  let width := cols - (removed.eraseDups.filter (· < cols)).length
  let grid := (List.range height).map fun i => (List.range width).map fun c =>
    (cellAttr A rows cols removed start height i c, specAttr A cols removed start i c)
  return Json.mkObj [
    ("model", jList (jList (fun x => jOpt Json.str x.1)) grid),
    ("spec", jList (jList (fun x => jOpt Json.str x.2)) grid)]

/-- the page borders `_encode_multi_section` leaves to each of `n` sections: `(sectionDoc d n i s).page.borderFirst /
borderLast` for `i = 0 … n − 1` (they depend on `d.page`, `n` and `i` only) -/
def opSectionBorders (j : Json) : R Json := do
  let n ← natF j "n"
  let d : Model.EncodeMulti.MDoc :=
    { (default : Model.EncodeMulti.MDoc) with
      page := { (default : Model.Encode.Page) with borderFirst := ← strF j "pageFirst", borderLast := ← strF j "pageLast" } }
  return jList (fun i =>
    let sd := Model.EncodeMulti.sectionDoc d n i default
    Json.arr #[Json.str sd.page.borderFirst, Json.str sd.page.borderLast]) (List.range n)

namespace Borders
def ops : List (String × (Json → R Json)) :=
  [("borders", opBorders), ("cell_attr", opCellAttr), ("section_borders", opSectionBorders)]
end Borders
end Driver
