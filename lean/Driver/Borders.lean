import Driver.Util
import Driver.Widths
import Model.Borders
import Model.CellAttr
import Model.EncodeMulti
namespace Driver
open Lean Model.Broadcast Model.Borders Model.CellAttr

def asMatS (j : Json) : R (Mat String) := asList (asList asStr) j

def jMatS (m : Mat String) : Json := jList jStrs m

def opBorders (j : Json) : R Json := do
  let b : BorderIn := {
    isFirst := ← boolF j "isFirst", isLast := ← boolF j "isLast", start := ← natF j "start",
    height := ← natF j "height", width := ← natF j "width",
    top := ← asMatS (← fld j "top"), bottom := ← asMatS (← fld j "bottom"),
    bodyFirst := ← asMatS (← fld j "bodyFirst"), bodyTopOrig := ← asMatS (← fld j "bodyTopOrig"),
    bodyLast := ← asMatS (← fld j "bodyLast"), pageFirst := ← strF j "pageFirst",
    pageLast := ← strF j "pageLast", hasHeaders := ← boolF j "hasHeaders",
    fnTableHere := ← boolF j "fnTableHere", srcTableHere := ← boolF j "srcTableHere" }
  let o := applyBorders b
  -- the rows `_encode` reads: page rows 0..height-1, displayed columns 0..width-1
  let grid (m : Mat String) : Json :=
    jList (fun i => jList (fun c => jOpt Json.str (m.iloc i c)) (List.range b.width)) (List.range b.height)
  return Json.mkObj [("top", grid o.top), ("bottom", grid o.bottom),
    ("fnOverride", jOpt Json.str o.fnOverride), ("srcOverride", jOpt Json.str o.srcOverride)]

/-- attribute values are passed as strings (canonical JSON text of the Python value) -/
def opCellAttr (j : Json) : R Json := do
  let A ← asMatS (← fld j "attr")
  let rows ← natF j "rows"
  let cols ← natF j "cols"
  let removed ← listF asNat j "removed"
  let start ← natF j "start"
  let height ← natF j "height"
  let width := cols - (removed.eraseDups.filter (· < cols)).length
  let grid := (List.range height).map fun i => (List.range width).map fun c =>
    (cellAttr A rows cols removed start height i c, specAttr A cols removed start i c)
  return Json.mkObj [
    ("model", jList (jList (fun x => jOpt Json.str x.1)) grid),
    ("spec", jList (jList (fun x => jOpt Json.str x.2)) grid)]

/-- the page borders `_encode_multi_section` leaves to each of `n` sections: `(sectionDoc d n i s).page.borderFirst /
borderLast` for `i = 0 … n − 1` (they depend on `d.page`, `n` and `i` only) -/
def opSectionBorders (j : Json) : R Json := do
  let n ← natF j "n"
  let d : Model.EncodeMulti.MDoc :=
    { (default : Model.EncodeMulti.MDoc) with
      page := { (default : Model.Encode.Page) with borderFirst := ← strF j "pageFirst", borderLast := ← strF j "pageLast" } }
  return jList (fun i =>
    let sd := Model.EncodeMulti.sectionDoc d n i default
    Json.arr #[Json.str sd.page.borderFirst, Json.str sd.page.borderLast]) (List.range n)

/-- the NUMBER the encoder model emits for one numeric body attribute value: `resolveText` (`\fsN`, `\fiN` `\liN`
`\riN`, `\sbN` `\saN`, `\slN`), `resolveBorder` (`\brdrwN`), `gaphOf` (`\trgaphN`) of `Model.Encode` — the functions the
page cells of `C09enc_binding` are built with.  The value travels as an int or as the exact rational of the float.
`near`: the twip conversion of the value sits within 2^-30 of a rounding boundary, `tie`: exactly on it. -/
def opEmitNum (j : Json) : R Json := do
  let attr ← strF j "attr"
  let v : Model.Encode.Val ← match (← fld j "value") with
    | .str s => do pure (Model.Encode.Val.float (← parseRat s))
    | x => do pure (Model.Encode.Val.int (← asInt x))
  let k : Model.Encode.ColorCtx := { used := [], rows := .ok [] }
  let tv : Model.Encode.TextVals :=
    { font := .int 1, size := .float 9, format := .null, color := .null, bg := .null, just := .str "l",
      indFirst := .int 0, indLeft := .int 0, indRight := .int 0, space := .int 1, spBefore := .int 15,
      spAfter := .int 15, convert := .bool true, hyph := .bool true }
  let jInt (i : Int) : Json := Json.num (JsonNumber.fromInt i)
  let text (tv : Model.Encode.TextVals) (f : Model.Emit.TextFmt → Json) : R Json :=
    match Model.Encode.resolveText k tv with
    | .ok (t, _) => pure (Json.mkObj [("n", f t), ("near", Json.bool false), ("tie", Json.bool false)])
    | .error e => pure (Json.mkObj [("refused", Json.str e)])
  match attr with
  | "text_font" => text { tv with font := v } (fun t => jInt t.fontIdx)
  | "text_font_size" => text { tv with size := v } (fun t => jInt t.halfPts)
  | "text_indent_first" => text { tv with indFirst := v } (fun t => jInt t.fi)
  | "text_indent_left" => text { tv with indLeft := v } (fun t => jInt t.li)
  | "text_indent_right" => text { tv with indRight := v } (fun t => jInt t.ri)
  | "text_space" => text { tv with space := v } (fun t => jOpt jInt t.sl)
  | "text_space_before" => text { tv with spBefore := v } (fun t => jInt t.sb)
  | "text_space_after" => text { tv with spAfter := v } (fun t => jInt t.sa)
  | "border_width" =>
    match Model.Encode.resolveBorder k (.str "single") v .null with
    | .ok b => pure (Json.mkObj [("n", jInt b.width), ("near", Json.bool false), ("tie", Json.bool false)])
    | .error e => pure (Json.mkObj [("refused", Json.str e)])
  | "cell_height" =>
    match v.toRat with
    | .ok h => pure (Json.mkObj [("n", jInt (Model.Encode.gaphOf h)), ("twip", jInt (Model.Encode.twip h)),
        ("near", Json.bool (Model.Encode.nearTwip h)), ("tie", Json.bool (Model.Widths.isTie (h * 1440)))])
    | .error e => pure (Json.mkObj [("refused", Json.str e)])
  | a => throw s!"emit_num: unknown attribute {a}"

namespace Borders
def ops : List (String × (Json → R Json)) :=
  [("borders", opBorders), ("cell_attr", opCellAttr), ("section_borders", opSectionBorders), ("emit_num", opEmitNum)]
end Borders
end Driver
