import Driver.Util
import Model.Validate
import Model.ValidateSpec
import Model.ValidateHist
/-! JSON ops for C19: model verdict and specification verdict (oracle) of constructor calls. -/
namespace Driver
open Lean Model.Validate Model.ValidateSpec Model.ValidateHist

namespace ValidateJson

def asVal (j : Json) : R Val :=
  match j with
  | .null => pure .null
  | _ =>
    match optFld j "s", optFld j "i", optFld j "q", optFld j "b" with
    | some s, _, _, _ => return .str (← asStr s)
    | _, some i, _, _ => return .int (← asInt i)
    | _, _, some q, _ => do
        match ← asArr q with
        | [n, d] => return .rat (mkRat (← asInt n) (← asNat d))
        | _ => throw "val: q expects [num, den]"
    | _, _, _, some b => return .bool (← asBool b)
    | _, _, _, _ => throw "val: expected {s|i|q|b} or null"

def asRaw (j : Json) : R Raw := do
  let t ← strF j "t"
  match t with
  | "none" => return .none
  | "scalar" => return .scalar (← asVal (← fld j "v"))
  | "flat" => return .flat (← listF asVal j "v")
  | "tuple" => return .tuple (← listF asVal j "v")
  | "nested" => return .nested (← listF (asList asVal) j "v")
  | _ => throw s!"raw: unknown shape {t}"

def fieldNames : List (String × Field) :=
  [("text_font", .textFont), ("text_format", .textFormat), ("text_font_size", .textFontSize),
   ("text_color", .textColor), ("text_background_color", .textBackgroundColor),
   ("text_justification", .textJustification), ("col_rel_width", .colRelWidth),
   ("border_left", .borderLeft), ("border_right", .borderRight), ("border_top", .borderTop),
   ("border_bottom", .borderBottom), ("border_first", .borderFirst), ("border_last", .borderLast),
   ("border_color_left", .borderColorLeft), ("border_color_right", .borderColorRight),
   ("border_color_top", .borderColorTop), ("border_color_bottom", .borderColorBottom),
   ("border_color_first", .borderColorFirst), ("border_color_last", .borderColorLast),
   ("border_width", .borderWidth), ("cell_height", .cellHeight), ("cell_justification", .cellJustification),
   ("cell_vertical_justification", .cellVerticalJustification), ("cell_nrow", .cellNrow)]

def pageFieldNames : List (String × PageField) :=
  [("orientation", .orientation), ("width", .width), ("height", .height), ("margin", .margin),
   ("nrow", .nrow), ("border_first", .borderFirst), ("border_last", .borderLast), ("col_width", .colWidth),
   ("page_title", .pageTitle), ("page_footnote", .pageFootnote), ("page_source", .pageSource)]

def compNames : List (String × Comp) :=
  [("RTFBody", .body), ("RTFColumnHeader", .colHeader), ("RTFFootnote", .footnote), ("RTFSource", .source),
   ("RTFTitle", .title), ("RTFSubline", .subline), ("RTFPageHeader", .pageHeader),
   ("RTFPageFooter", .pageFooter)]

def lookupName {α} (tbl : List (String × α)) (what n : String) : R α :=
  match tbl.lookup n with
  | some a => pure a
  | none => throw s!"unknown {what} {n}"

def asKw {α} [DecidableEq α] (tbl : List (String × α)) (what : String) (j : Json) : R (α → Option Raw) := do
  let pairs ← (← asArr j).mapM fun p => do
    match ← asArr p with
    | [n, x] => return (← lookupName tbl what (← asStr n), ← asRaw x)
    | _ => throw "kw: expected [name, raw]"
  return fun f => (pairs.find? (fun p => p.1 = f)).map (·.2)

def errName : Err → String
  | .validationError => "ValidationError"
  | .valueError => "ValueError"
  | .fileNotFound => "FileNotFoundError"
  | .indexError => "IndexError"
  | .typeError => "TypeError"
  | .attributeError => "AttributeError"

def resName : Except Err Unit → String
  | .ok () => "ok"
  | .error e => errName e

def verdictName : Verdict → String
  | .reject => "reject"
  | .notFound => "notFound"
  | .rejectAny => "rejectAny"
  | .accept => "accept"
  | .free => "free"

def answer (m : Except Err Unit) (s : Verdict) : Json :=
  Json.mkObj [("model", Json.str (resName m)), ("spec", Json.str (verdictName s))]

/-- a key that is present, even with value `null` (= Python `None` passed explicitly) -/
def presentFld (j : Json) (k : String) : Option Json :=
  match j.getObjVal? k with
  | .ok v => some v
  | .error _ => none

def asExtra (j : Json) : R Extra := do
  let pr ← match presentFld j "pageby_row" with | some v => some <$> asVal v | none => pure none
  let at_ ← match presentFld j "as_table" with | some v => some <$> asVal v | none => pure none
  let np ← match optFld j "new_page" with | some v => asBool v | none => pure false
  let pb ← match optFld j "page_by" with | some v => asBool v | none => pure false
  return { pagebyRow := pr, newPage := np, pageBy := pb, asTable := at_ }

structure CompCase where
  comp : Comp
  kw : Field → Option Raw
  ex : Extra

def asCompCase (j : Json) : R CompCase := do
  let c ← lookupName compNames "component" (← strF j "comp")
  let kw ← asKw fieldNames "field" (← fld j "kw")
  let ex ← match optFld j "extra" with | some e => asExtra e | none => pure {}
  return ⟨c, kw, ex⟩

def asCols (j : Json) : R (List String) := asList asStr j

def asBodySpec (j : Json) : R BodySpec := do
  let g ← match optFld j "group_by" with | some v => some <$> asCols v | none => pure none
  let p ← match optFld j "page_by" with | some v => some <$> asCols v | none => pure none
  let s ← match optFld j "subline_by" with | some v => some <$> asCols v | none => pure none
  let np ← match optFld j "new_page" with | some v => asBool v | none => pure false
  let pc ← match optFld j "pageby_column" with | some v => asBool v | none => pure true
  return { groupBy := g, pageBy := p, sublineBy := s, newPage := np, pagebyColumn := pc }

/-- `df`: `{"single": cols, "rows": n}` or `{"multi": [cols, …], "rows": [n, …]}` (`rows` optional: 3 each) -/
def asDfData (j : Json) : R DfData := do
  match optFld j "df" with
  | none => pure DfData.none
  | some d =>
    match optFld d "single", optFld d "multi" with
    | some c, _ => do
      let n ← match optFld d "rows" with | some v => asNat v | none => pure 3
      return DfData.single { cols := ← asCols c, nrows := n }
    | _, some m => do
      let cs ← asList asCols m
      let ns ← match optFld d "rows" with | some v => asList asNat v | none => pure (cs.map fun _ => 3)
      if ns.length != cs.length then throw "df: rows must have one entry per section"
      return DfData.multi ((cs.zip ns).map fun p => { cols := p.1, nrows := p.2 })
    | _, _ => throw "df: expected single|multi"

/-- everything but `df` (which `validateDocData` / `specDocData` take from the frames) -/
def asDocArgs (j : Json) : R DocArgs := do
  let df := DfArg.none
  let body ← match optFld j "body" with
    | none => pure BodyArg.none
    | some b =>
      match optFld b "single", optFld b "multi" with
      | some s, _ => BodyArg.single <$> asBodySpec s
      | _, some m => BodyArg.multi <$> asList asBodySpec m
      | _, _ => throw "body: expected single|multi"
  let header ← match optFld j "header" with
    | none => pure (HeaderArg.flat 1)
    | some h =>
      match optFld h "flat", optFld h "nested" with
      | some n, _ => HeaderArg.flat <$> asNat n
      | _, some n => HeaderArg.nested <$> asNat n
      | _, _ => throw "header: expected flat|nested"
  let figure ← match optFld j "figure" with | some v => asBool v | none => pure false
  let fn ← match optFld j "footnote" with | some v => some <$> asBool v | none => pure none
  let src ← match optFld j "source" with | some v => some <$> asBool v | none => pure none
  return { df := df, body := body, header := header, figure := figure, footnote := fn, source := src }

end ValidateJson
open ValidateJson

/-- op `c19_comp`: a component constructor call -/
def opC19Comp (j : Json) : R Json := do
  let c ← asCompCase j
  return answer (constructComp c.comp c.kw c.ex) (specComp c.comp c.kw c.ex)

/-- op `c19_page`: `RTFPage(**kw)` -/
def opC19Page (j : Json) : R Json := do
  let kw ← asKw pageFieldNames "page field" (← fld j "kw")
  return answer (constructPage kw) (specPage kw)

def asFigArgs (j : Json) : R FigArgs := do
  let al ← match presentFld j "fig_align" with | some v => some <$> asVal v | none => pure none
  let po ← match presentFld j "fig_pos" with | some v => some <$> asVal v | none => pure none
  let w ← match optFld j "fig_width" with | some v => some <$> asRaw v | none => pure none
  let h ← match optFld j "fig_height" with | some v => some <$> asRaw v | none => pure none
  let fs ← match optFld j "figures" with | some v => some <$> asList asBool v | none => pure none
  return { figAlign := al, figPos := po, figWidth := w, figHeight := h, figures := fs }

/-- op `c19_figure`: `RTFFigure(...)` -/
def opC19Figure (j : Json) : R Json := do
  let a ← asFigArgs j
  return answer (constructFigure a) (specFigure a)

/-! ### histories: constructor calls with file-system events in between (`Model.ValidateHist`) -/

def c19AsPathRef (j : Json) : R PathRef := do
  match optFld j "abs" with
  | some d => return .abs (← asNat d) (← strF j "n")
  | none => return .rel (← strF j "rel")

def c19AsFigCall (j : Json) : R FigCall := do
  let a ← asFigArgs j
  let ps ← match optFld j "paths" with | some v => some <$> asList c19AsPathRef v | none => pure none
  return { figAlign := a.figAlign, figPos := a.figPos, figWidth := a.figWidth, figHeight := a.figHeight, paths := ps }

def c19AsEv (j : Json) : R Ev := do
  match ← strF j "ev" with
  | "create" => return .create (← natF j "d") (← strF j "n")
  | "delete" => return .delete (← natF j "d") (← strF j "n")
  | "rename" => return .rename (← natF j "d") (← strF j "n") (← natF j "d2") (← strF j "n2")
  | "chdir" => return .chdir (← natF j "d")
  | "call" => return .call (← c19AsFigCall j)
  | e => throw s!"hist: unknown event {e}"

def c19StName : PathSt → String
  | .missing => "missing"
  | .image => "image"
  | .other => "other"

/-- op `c19_hist`: a history of file-system events and `RTFFigure(...)` calls from an initial state; for every
call, in order: the model's outcome, the specification verdict and the status of every path, each in the state
reached by the events before that call -/
def opC19Hist (j : Json) : R Json := do
  let files ← listF (fun f => do
      match ← asArr f with
      | [d, n] => return ((← asNat d), (← asStr n))
      | _ => throw "hist: files expects [dir, name]") j "files"
  let fs : Fs := { cwd := (← natF j "cwd"), files := files }
  let evs ← listF c19AsEv j "steps"
  let ms := run fs evs
  let ss := runSpec fs evs
  let sts := runStatus fs evs
  let calls := (ms.zip (ss.zip sts)).map fun (m, s, st) =>
    Json.mkObj [("model", Json.str (resName m)), ("spec", Json.str (verdictName s)), ("status", jStrs (st.map c19StName))]
  let fin := evs.foldl step fs
  return Json.mkObj [("calls", Json.arr calls.toArray),
                     ("final", Json.mkObj [("cwd", Json.num (JsonNumber.fromNat fin.cwd)),
                       ("files", jList (fun (f : Nat × String) =>
                          Json.arr #[Json.num (JsonNumber.fromNat f.1), Json.str f.2]) fin.files)])]

/-- the specification verdict of a whole call sequence: the first component verdict that is not `accept`
decides, otherwise the document's own -/
def seqVerdict : List Verdict → Verdict → Verdict
  | [], d => d
  | .accept :: vs, d => seqVerdict vs d
  | v :: _, _ => v

/-- op `c19_doc`: the components named in `comps` are constructed first (in order), then `RTFDocument` -/
def opC19Doc (j : Json) : R Json := do
  let comps ← match optFld j "comps" with | some cs => asList asCompCase cs | none => pure []
  let a ← asDocArgs j
  let d ← asDfData j
  let rs := comps.map fun c => constructComp c.comp c.kw c.ex
  let vs := comps.map fun c => specComp c.comp c.kw c.ex
  let firstErr := rs.find? (fun r => match r with | .error _ => true | .ok _ => false)
  let (m, stage) := match firstErr with
    | some r => (r, "component")
    | none => (validateDocData d a, "document")
  let out := constructThenEncode m (fun _ => (Except.ok () : Except Err Unit))
  return Json.mkObj [("model", Json.str (resName out)), ("spec", Json.str (verdictName (seqVerdict vs (specDocData d a)))),
                     ("stage", Json.str stage)]

def jVal : Val → Json
  | .str s => Json.mkObj [("s", Json.str s)]
  | .int i => Json.mkObj [("i", Json.num (JsonNumber.fromInt i))]
  | .rat q => Json.mkObj [("q", Json.arr #[Json.num (JsonNumber.fromInt q.num), Json.num (JsonNumber.fromNat q.den)])]
  | .bool b => Json.mkObj [("b", Json.bool b)]
  | .null => Json.null

/-- op `c19_to_nested`: the shape normaliser `_to_nested_list` (unit level) -/
def opC19ToNested (j : Json) : R Json := do
  let x ← asRaw (← fld j "raw")
  match toNested x with
  | .error e => return Json.mkObj [("error_kind", Json.str (errName e))]
  | .ok .none => return Json.mkObj [("value", Json.null)]
  | .ok (.flat vs) => return Json.mkObj [("value", jList jVal vs)]
  | .ok (.nested rows) => return Json.mkObj [("value", jList (jList jVal) rows)]

/-- op `c19_tables`: what the model's value sets contain (cross-check of the translator) -/
def opC19Tables (_ : Json) : R Json :=
  return Json.mkObj [("border", jStrs borderKeys), ("format", jStrs formatKeys), ("text_just", jStrs textJustKeys),
                     ("row_just", jStrs rowJustKeys), ("vert", jStrs vertAlignKeys),
                     ("fonts", jInts fontNumbers), ("n_colors", Json.num (JsonNumber.fromNat colorNames.length))]

namespace Validate
def ops : List (String × (Json → R Json)) :=
  [("c19_comp", opC19Comp), ("c19_page", opC19Page), ("c19_figure", opC19Figure), ("c19_hist", opC19Hist), ("c19_doc", opC19Doc),
   ("c19_to_nested", opC19ToNested), ("c19_tables", opC19Tables)]
end Validate

end Driver
