import Lean.Data.Json
/-! JSON helpers for the line protocol. -/
namespace Driver
open Lean

abbrev R := Except String

def fld (j : Json) (k : String) : R Json := j.getObjVal? k
def optFld (j : Json) (k : String) : Option Json :=
  match j.getObjVal? k with
  | .ok .null => none
  | .ok v => some v
  | .error _ => none
def asNat (j : Json) : R Nat := j.getNat?
def asInt (j : Json) : R Int := j.getInt?
def asBool (j : Json) : R Bool := j.getBool?
def asStr (j : Json) : R String := j.getStr?
def asArr (j : Json) : R (List Json) := do return (← j.getArr?).toList
def asList {α} (f : Json → R α) (j : Json) : R (List α) := do (← asArr j).mapM f
def asOpt {α} (f : Json → R α) (j : Json) : R (Option α) :=
  match j with
  | .null => pure none
  | v => some <$> f v
/-- text: either a JSON string or an array of code points -/
def asChars (j : Json) : R (List Char) :=
  match j with
  | .str s => pure s.toList
  | _ => do return (← asList asNat j).map Char.ofNat
def natF (j : Json) (k : String) : R Nat := do asNat (← fld j k)
def intF (j : Json) (k : String) : R Int := do asInt (← fld j k)
def boolF (j : Json) (k : String) : R Bool := do asBool (← fld j k)
def strF (j : Json) (k : String) : R String := do asStr (← fld j k)
def charsF (j : Json) (k : String) : R (List Char) := do asChars (← fld j k)
def listF {α} (f : Json → R α) (j : Json) (k : String) : R (List α) := do asList f (← fld j k)

def jNats (xs : List Nat) : Json := Json.arr (xs.map (fun (n : Nat) => Json.num (JsonNumber.fromNat n))).toArray
def jInts (xs : List Int) : Json := Json.arr (xs.map (fun n => Json.num (JsonNumber.fromInt n))).toArray
def jStrs (xs : List String) : Json := Json.arr (xs.map Json.str).toArray
def jChars (cs : List Char) : Json := jNats (cs.map Char.toNat)
def jList {α} (f : α → Json) (xs : List α) : Json := Json.arr (xs.map f).toArray
def jOpt {α} (f : α → Json) : Option α → Json
  | none => Json.null
  | some a => f a

end Driver
