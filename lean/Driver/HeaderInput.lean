import Driver.Util
import Model.HeaderInput
namespace Driver
open Lean Model.HeaderInput

/-! op `header_input`: what `RTFDocument(…, rtf_column_header=arg)` leaves in the field and which header objects reach
the renderer's header loop per section (`Model.HeaderInput`).  A header is `[id, has own col_rel_width]`.

    arg  : null | {"single": h} | {"flat": "list"|"tuple", "rows": [h|null …]}
           | {"nested": "list"|"tuple", "secs": [{"box": "list"|"tuple", "rows": [h|null …]} …]}
    nsec : null (df a single frame) | n (df a list of n frames) -/

abbrev Hdr := Nat × Bool

def asBox (j : Json) : R Box := do
  match ← asStr j with
  | "list" => pure .list
  | "tuple" => pure .tuple
  | s => throw s!"box {s}"

def asHdr (j : Json) : R Hdr := do
  match ← asArr j with
  | [i, w] => return (← asNat i, ← asBool w)
  | _ => throw "header = [id, own widths]"

def asHVal (j : Json) : R (Val Hdr) := do
  match j with
  | .null => pure .none
  | _ =>
    match optFld j "single" with
    | some h => return .single (← asHdr h)
    | none =>
      match optFld j "flat" with
      | some b => return .flat (← asBox b) (← listF (asOpt asHdr) j "rows")
      | none =>
        let secs ← listF (fun s => do return ((← asBox (← fld s "box")), (← listF (asOpt asHdr) s "rows"))) j "secs"
        return .nested (← asBox (← fld j "nested")) secs

def jBox : Box → Json
  | .list => Json.str "list"
  | .tuple => Json.str "tuple"

def jHdr (h : Hdr) : Json := Json.arr #[Json.num (JsonNumber.fromNat h.1), Json.bool h.2]

def jHVal : Val Hdr → Json
  | .none => Json.null
  | .single h => Json.mkObj [("single", jHdr h)]
  | .flat b rows => Json.mkObj [("flat", jBox b), ("rows", jList (jOpt jHdr) rows)]
  | .nested b secs => Json.mkObj [("nested", jBox b),
      ("secs", jList (fun s => Json.mkObj [("box", jBox s.1), ("rows", jList (jOpt jHdr) s.2)]) secs)]

def jErr : Err → Json
  | .validation => Json.str "ValidationError"
  | .attribute => Json.str "AttributeError"
  | .value => Json.str "ValueError"

def opHeaderInput (j : Json) : R Json := do
  let arg ← asHVal (← fld j "arg")
  let nsec ← match optFld j "nsec" with
    | some n => some <$> asNat n
    | none => pure none
  let f : Hdr → Hdr := fun h => (h.1, true)
  match construct f nsec arg with
  | .error e => return Json.mkObj [("construct_error", jErr e)]
  | .ok v =>
    match renderedDoc nsec v with
    | .error e => return Json.mkObj [("post", jHVal v), ("encode_error", jErr e)]
    | .ok secs => return Json.mkObj [("post", jHVal v), ("rendered", jList (jList jHdr) secs)]

namespace HeaderInput
def ops : List (String × (Json → R Json)) := [("header_input", opHeaderInput)]
end HeaderInput
end Driver
