import Driver.Util
import Model.Escape
import Model.TextInput
/-! JSON ops for C10: the model of the escaper / UTF-8 writer / subline heading, and the reader-side
oracle `intact` evaluated on the *implementation's* bytes. Batched (one request carries many items). -/
namespace Driver
open Lean Model.Escape

namespace EscapeImpl

def hexDigit (c : Char) : Option Nat :=
  let n := c.toNat
  if 48 ≤ n ∧ n ≤ 57 then some (n - 48)
  else if 97 ≤ n ∧ n ≤ 102 then some (n - 87)
  else if 65 ≤ n ∧ n ≤ 70 then some (n - 55)
  else none

def unhexAux : List Char → List Nat → R (List Nat)
  | [], acc => pure acc.reverse
  | [_], _ => throw "hex: odd length"
  | a :: b :: r, acc =>
    match hexDigit a, hexDigit b with
    | some x, some y => unhexAux r ((x * 16 + y) :: acc)
    | _, _ => throw "hex: bad digit"

def unhex (s : String) : R (List Nat) := unhexAux s.toList []

def hexOf (bs : List Nat) : String :=
  let d (n : Nat) : Char := if n < 10 then Char.ofNat (48 + n) else Char.ofNat (87 + n)
  String.ofList (bs.flatMap fun b => [d (b / 16 % 16), d (b % 16)])

def errName : Err → String
  | .uNoParam => "u-without-number"
  | .uRange => "u-argument-outside-signed-16-bit"
  | .uInSkip => "u-while-fallback-due"
  | .loneSurrogate => "lone-surrogate"
  | .badSymbol => "bad-control-symbol"
  | .badHex => "bad-hex-escape"
  | .truncated => "truncated-control-sequence"
  | .unbalanced => "unbalanced-brace"

def jUEv (e : UEv) : Json :=
  Json.arr #[Json.num (JsonNumber.fromInt e.arg), Json.num (JsonNumber.fromNat e.uc),
             Json.num (JsonNumber.fromNat e.skipped)]

def jDecoded (d : Decoded) : Json :=
  Json.mkObj [("text", jNats d.text), ("us", jList jUEv d.us), ("words", Json.num (JsonNumber.fromNat d.words)),
              ("errs", jStrs (d.errs.map errName)), ("depth", Json.num (JsonNumber.fromNat d.depth))]

/-- why `intact orig d` is false (empty = it is true) -/
def whyNot (orig : List Nat) (d : Decoded) : List String :=
  (if d.text == orig then [] else ["text-differs"]) ++ d.errs.map errName ++
  (if d.us.all uOk then [] else ["u-escape-range-or-fallback"]) ++
  (if d.depth == 0 then [] else ["open-group"])

def asOptHex (j : Json) : R (Option (List Nat)) :=
  match j with
  | .null => pure none
  | .str s => some <$> unhex s
  | _ => throw "expected hex string or null"

def optHexJ : Option (List Nat) → Json
  | none => Json.null
  | some b => Json.str (hexOf b)

/-- op `esc_check`: `ts` texts (code points), `hex` the implementation's UTF-8 bytes (null = encode raised).
Answers: indices where model bytes ≠ implementation bytes; indices (in-domain texts only) where the
reader does not get the text back intact from the implementation's bytes; details for the first few. -/
def opEscCheck (j : Json) : R Json := do
  let ts ← listF (asList asNat) j "ts"
  let hs ← listF asOptHex j "hex"
  if ts.length != hs.length then throw "esc_check: length mismatch"
  let cap := 8
  let mut disagree : Array Nat := #[]
  let mut fail : Array Nat := #[]
  let mut details : Array Json := #[]
  let mut ndom := 0
  let mut i := 0
  for (t, h) in ts.zip hs do
    let model := utf8 (escape t)
    let dom := t.all inDomain
    if dom then ndom := ndom + 1
    let agree := model == h
    let (ok, why, dec) := match h with
      | some b =>
        let d := decode b
        if dom then (intact t d, whyNot t d, some d) else (true, [], some d)
      | none => if dom then (false, ["utf8-encode-raised"], none) else (true, [], none)
    if !agree then disagree := disagree.push i
    if !ok then fail := fail.push i
    if (!agree || !ok) && details.size < cap then
      details := details.push (Json.mkObj [("i", Json.num (JsonNumber.fromNat i)), ("t", jNats t), ("model", optHexJ model),
        ("impl", optHexJ h), ("why", jStrs why), ("decoded", jOpt jDecoded dec)])
    i := i + 1
  return Json.mkObj [("n", Json.num (JsonNumber.fromNat i)), ("in_domain", Json.num (JsonNumber.fromNat ndom)),
    ("disagree", jNats disagree.toList), ("fail", jNats fail.toList), ("details", Json.arr details)]

/-- op `esc_model`: model only — bytes, the reader's view of them, the oracle -/
def opEscModel (j : Json) : R Json := do
  let t ← listF asNat j "t"
  let model := utf8 (escape t)
  let d := model.map decode
  return Json.mkObj [("bytes", optHexJ model), ("decoded", jOpt jDecoded d),
    ("in_domain", Json.bool (t.all inDomain)),
    ("intact", Json.bool (match d with | some d => intact t d | none => false))]

/-- op `rtf_decode`: the Lean reader on given bytes -/
def opDecode (j : Json) : R Json := do
  let b ← unhex (← strF j "hex")
  return jDecoded (decode b)

/-- op `read_predict`: for each text, what the reader shows for the model's bytes (observation-level
projection of the model) -/
def opReadPredict (j : Json) : R Json := do
  let ts ← listF (asList asNat) j "ts"
  let out := ts.map fun t => match (utf8 (escape t)).map decode with
    | some d => if d.errs.isEmpty && d.us.all uOk && d.depth == 0 then jNats d.text else Json.null
    | none => Json.null
  return Json.mkObj [("texts", Json.arr out.toArray)]

def asVals (j : Json) : R (List (Option (List Nat))) := asList (asOpt (asList asNat)) j

/-- op `subline_check`: `vals` lists of group values (null = None), `hex` the implementation's heading -/
def opSublineCheck (j : Json) : R Json := do
  let vs ← listF asVals j "vals"
  let hs ← listF asOptHex j "hex"
  if vs.length != hs.length then throw "subline_check: length mismatch"
  let mut disagree : Array Nat := #[]
  let mut fail : Array Nat := #[]
  let mut details : Array Json := #[]
  let mut i := 0
  for (v, h) in vs.zip hs do
    let model := utf8 (sublineHeader v)
    let want := formatGroupHeader v
    let dom := want.all inDomain
    let agree := model == h
    let (ok, why, dec) := match h with
      | some b =>
        let d := decode b
        if dom then (intact want d, whyNot want d, some d) else (true, [], some d)
      | none => if dom then (false, ["utf8-encode-raised"], none) else (true, [], none)
    if !agree then disagree := disagree.push i
    if !ok then fail := fail.push i
    if (!agree || !ok) && details.size < 8 then
      details := details.push (Json.mkObj [("i", Json.num (JsonNumber.fromNat i)), ("want", jNats want), ("model", optHexJ model),
        ("impl", optHexJ h), ("why", jStrs why), ("decoded", jOpt jDecoded dec)])
    i := i + 1
  return Json.mkObj [("n", Json.num (JsonNumber.fromNat i)), ("disagree", jNats disagree.toList),
    ("fail", jNats fail.toList), ("details", Json.arr details)]

/-- the `text=` argument of a constructor: `{"one": [code points]}` or `{"many": [[code points] …]}` -/
def asTextArg (j : Json) : R (Model.TextInput.TextArg Nat) :=
  match optFld j "one" with
  | some s => do return .one (← asList asNat s)
  | none => do return .many (← listF (asList asNat) j "many")

/-- op `text_input`: the constructor step (`Model.TextInput`).  `foot` = true: `RTFFootnote` / `RTFSource` (`got` = the
code points of `.text` after construction, null = it is not a `str`); false: title / subline / page header / page
footer / column header (`got` = the lines of `.text`).  Answers the indices where the model's text differs. -/
def opTextInput (j : Json) : R Json := do
  let foot ← boolF j "foot"
  let args ← listF asTextArg j "args"
  let mut disagree : Array Nat := #[]
  let mut details : Array Json := #[]
  let mut i := 0
  if foot then
    let gots ← listF (asOpt (asList asNat)) j "got"
    if gots.length != args.length then throw "text_input: length mismatch"
    for (a, g) in args.zip gots do
      let m := Model.TextInput.footTextN a
      if g != some m then
        disagree := disagree.push i
        if details.size < 8 then
          details := details.push (Json.mkObj [("i", Json.num (JsonNumber.fromNat i)), ("model", jNats m)])
      i := i + 1
  else
    let gots ← listF (asOpt (asList (asList asNat))) j "got"
    if gots.length != args.length then throw "text_input: length mismatch"
    for (a, g) in args.zip gots do
      let m := a.lines
      if g != some m then
        disagree := disagree.push i
        if details.size < 8 then
          details := details.push (Json.mkObj [("i", Json.num (JsonNumber.fromNat i)), ("model", jList jNats m)])
      i := i + 1
  return Json.mkObj [("n", Json.num (JsonNumber.fromNat i)), ("disagree", jNats disagree.toList),
    ("details", Json.arr details)]

end EscapeImpl

namespace Escape
def ops : List (String × (Json → R Json)) :=
  [("esc_check", EscapeImpl.opEscCheck), ("esc_model", EscapeImpl.opEscModel), ("rtf_decode", EscapeImpl.opDecode),
   ("read_predict", EscapeImpl.opReadPredict), ("subline_check", EscapeImpl.opSublineCheck), ("text_input", EscapeImpl.opTextInput)]
end Escape

end Driver
