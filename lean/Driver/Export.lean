import Driver.Util
import Model.Export
import Model.ExportSpec
/-! JSON ops for C18: run the export model, compare with the observed real file system, and
evaluate the Lean-defined oracle `violations` on the real before/after snapshots. -/
namespace Driver
open Lean Model.Export

def asName (j : Json) : R Model.Export.Name := do return (← asStr j).toList
def asPath (j : Json) : R Path := asList asName j

/-- `[path, "d"]` or `[path, "f", bytes]` -/
def asEntry (j : Json) : R (Path × Node) := do
  match ← asArr j with
  | [p, _] => return (← asPath p, Node.dir)
  | [p, _, b] => return (← asPath p, Node.file (← asStr b).toList)
  | _ => throw "fs entry: expected [path, kind] or [path, kind, bytes]"

def asFs (j : Json) : R Fs := asList asEntry j

def jPath (p : Path) : Json := jStrs (p.map String.ofList)

def asBeh (s : String) : R Beh :=
  match s with
  | "failBefore" => pure .failBefore
  | "failAfter" => pure .failAfter
  | "retList" => pure .retList
  | "retOther" => pure .retOther
  | "retMissing" => pure .retMissing
  | "okPlain" => pure .okPlain
  | "okRes" => pure .okRes
  | _ => throw s!"unknown converter behaviour {s}"

def exportErrName : Err → String
  | .injected => "injected"
  | .encode => "encode"
  | .converter => "converter"
  | .typeError => "typeError"
  | .os => "os"

def effName : Eff → String
  | .mkdir => "mkdir" | .print => "print" | .resolve => "resolve" | .mkdtemp => "mkdtemp"
  | .encode => "encode" | .writeRtf => "writeRtf" | .convert => "convert" | .typecheck => "typecheck"
  | .commit => "commit" | .writeTarget => "writeTarget"

def resName (r : Except Err Unit) : String :=
  match r with
  | .ok _ => "ok"
  | .error e => exportErrName e

/-- contents of the stub's resource folder, relative to it (must match `Model.Export.stub`) -/
def stubResContent : List (Path × Node) :=
  [(["r.txt".toList], .file "resource".toList), (["sub".toList], .dir),
   (["sub".toList, "s.txt".toList], .file "nested".toList)]

def asObs (j : Json) (before after : Fs) (dir : Path) (tname : Model.Export.Name) (tmpRoot : Path) : R Obs := do
  let raised ← boolF j "raised"
  let mustRaise ← boolF j "mustRaise"
  let expected ← match optFld j "expected" with
    | some e => do pure (some (← asStr e).toList)
    | none => pure none
  let rn ← match optFld j "resName" with
    | some e => do pure (some (← asName e))
    | none => pure none
  let rc ← match optFld j "resContent" with
    | some e => asFs e
    | none => pure []
  return { before, after, dir, tname, tmpRoot, raised, mustRaise, expected, resName := rn, resContent := rc }

def opExport (j : Json) : R Json := do
  let fn ← strF j "fn"
  let before ← asFs (← fld j "before")
  let dir ← asPath (← fld j "dir")
  let tname ← asName (← fld j "tname")
  let tmpRoot ← asPath (← fld j "tmpRoot")
  let k ← match optFld j "k" with
    | some v => asNat v
    | none => pure 1000
  let enc : Except Err Bytes ← match optFld j "enc" with
    | some e => do pure (.ok (← asStr e).toList)
    | none => pure (.error .encode)
  -- run the model
  -- names as data: the model derives the RTF's name from the target's name, the stub derives its output's
  -- name from the RTF's name (nothing about intermediate names is taken from the harness)
  let rtfName := rtfNameOf tname
  let (res, st, mexp, mmust, mres, mout) ← (do
    if fn == "rtf" then
      let r := writeRtf k dir tname enc before
      let exp := match enc with | .ok b => some b | .error _ => none
      let must := match enc with | .ok _ => false | .error _ => true
      pure (r.1, r.2, exp, must, (none : Option Model.Export.Name), (none : Option Model.Export.Name))
    else
      let cj ← fld j "conv"
      let mode ← strF cj "mode"
      let html := fn == "html"
      let tA ← asName (← fld j "tA")
      let tB ← asName (← fld j "tB")
      if mode == "lookup_fail" then
        let P : Params := { dir, tname, tmpRoot, tA, tB, rtfName, enc, explicitConv := false,
                            conv := .error .os, html }
        let r := writeConv k P before
        pure (r.1, r.2, none, true, none, none)
      else if mode == "proc" then
        -- the real `LibreOfficeConverter` over the harness's fake `soffice`: the process run is data
        -- (exit status + entries written), the verdict on it is the model's `procVerdict`
        let fmt := (← strF cj "fmt").toList
        let exit ← natF cj "exit"
        let outS ← strF cj "out"
        let ok : OutKind ← match outS with
          | "none" => pure OutKind.none
          | "full" => pure OutKind.full
          | "trunc" => do pure (OutKind.trunc (← natF cj "n"))
          | "empty" => pure OutKind.empty
          | "part" => pure OutKind.part
          | "sub" => pure OutKind.sub
          | _ => throw s!"unknown output kind {outS}"
        let sp : FakeSpec := { exit, out := ok, res := ← boolF cj "res", extra := ← boolF cj "extra" }
        let outName := convName fmt [rtfName]
        let explicit ← boolF cj "explicit"
        let P : Params := { dir, tname, tmpRoot, tA, tB, rtfName, enc, explicitConv := explicit,
                            conv := .ok (procConverter (fakeProc sp fmt) fmt), html }
        let r := writeConv k P before
        -- expectations stated from the run's outcome alone (not from the model's verdict function):
        -- a non-zero exit status is a failed conversion whatever was written
        let produced : Option (Bytes → Bytes) := match ok with
          | .full => some (stubBytes fmt)
          | .trunc n => some (fun b => (stubBytes fmt b).take n)
          | .empty => some (fun _ => [])
          | _ => none
        let succeeded := exit == 0 && produced.isSome
        let exp := match enc, produced with
          | .ok b, some f => if exit == 0 then some (f b) else none
          | _, _ => none
        let must := (match enc with | .ok _ => false | .error _ => true) || !succeeded
        let rn := if html && sp.res && succeeded then some (outName ++ filesSuffix) else none
        pure (r.1, r.2, exp, must, rn, some outName)
      else
        let beh ← asBeh (← strF cj "beh")
        let fmt := (← strF cj "fmt").toList
        let outName := convName fmt [rtfName]
        let explicit ← boolF cj "explicit"
        let P : Params := { dir, tname, tmpRoot, tA, tB, rtfName, enc, explicitConv := explicit,
                            conv := .ok (stubN beh fmt), html }
        let r := writeConv k P before
        let okBeh := beh == .okPlain || beh == .okRes
        let exp := match enc with
          | .ok b => if okBeh then some (stubBytes fmt b) else none
          | .error _ => none
        let must := (match enc with | .ok _ => false | .error _ => true)
          || beh == .failBefore || beh == .failAfter || beh == .retList || beh == .retOther
        let rn := if html && beh == .okRes then some (outName ++ filesSuffix) else none
        pure (r.1, r.2, exp, must, rn, some outName))
  let raisedM := !isOk res
  let targetIsDir := fget before (dir ++ [tname]) == some .dir
  -- the resource folder's destination is the target itself (a target called `<x>.html_files`): the two
  -- outputs cannot both be "at the requested path"; excluded by hypothesis in `C18_conv_success`
  let resIsTarget := mres == some tname
  let mobs : Obs := { before, after := st.fs, dir, tname, tmpRoot, raised := raisedM, mustRaise := mmust,
                      expected := if targetIsDir || resIsTarget then none else mexp,
                      resName := if targetIsDir then none else mres, resContent := stubResContent }
  let mut out := [("model_result", Json.str (resName res)),
                  ("model_trace", jStrs (st.trace.map effName)),
                  ("model_temps", Json.num (JsonNumber.fromNat st.temps.length)),
                  ("model_viol", jStrs (violations mobs)),
                  ("model_rtf_name", Json.str (String.ofList rtfName)),
                  ("model_out_name", match mout with | some n => Json.str (String.ofList n) | none => Json.null),
                  ("model_res_name", match mres with | some n => Json.str (String.ofList n) | none => Json.null),
                  ("before_wf", Json.bool (wfB before)),
                  ("model_wf", Json.bool (wfB st.fs))]
  if let some a := optFld j "after" then
    let after ← asFs a
    out := out ++ [("diff", jList jPath (fsDiff st.fs after).eraseDups)]
    if let some o := optFld j "obs" then
      let obs ← asObs o before after dir tname tmpRoot
      out := out ++ [("viol", jStrs (violations obs))]
  return Json.mkObj out

/-- names as data: stem of a name, the RTF name the export derives from it, the converted file's name and the
resource folder's name (compared with `pathlib` / the stub converter on random names) -/
def opExportNames (j : Json) : R Json := do
  let tname ← asName (← fld j "tname")
  let fmt := (← strF j "fmt").toList
  let rtf := rtfNameOf tname
  let out := convName fmt [rtf]
  return Json.mkObj [("stem", Json.str (String.ofList (stem tname))),
                     ("rtf", Json.str (String.ofList rtf)),
                     ("out", Json.str (String.ofList out)),
                     ("res", Json.str (String.ofList (resourcesOf [out]).getLast!))]

namespace Export
def ops : List (String × (Json → R Json)) := [("export", opExport), ("export_names", opExportNames)]
end Export

end Driver
