import Driver.Util
import Model.Interleave
namespace Driver
open Lean Model.Interleave

/-- event: ["reg",n,c] | ["get",n] | ["set",[c…]] | ["lookup",c] | ["clear"] | ["emit",v] | ["fetch",[c…],c] -/
def asEv (j : Json) : R Ev := do
  match ← asArr j with
  | [Json.str "reg", n, c] => return .register (← asNat n) (← asNat c)
  | [Json.str "get", n] => return .getStrategy (← asNat n)
  | [Json.str "set", p] => return .setCtx (← asList asNat p)
  | [Json.str "lookup", c] => return .lookup (← asNat c)
  | [Json.str "clear"] => return .clearCtx
  | [Json.str "emit", v] => return .emit (← asNat v)
  | [Json.str "fetch", p, c] => return .fetch (← asList asNat p) (← asNat c)
  | _ => throw "event: expected [kind, args…]"

/-- recorded result: ["idx",n] | ["strat",c|null] | ["val",v] -/
def asOut (j : Json) : R Out := do
  match ← asArr j with
  | [Json.str "idx", n] => return .idx (← asNat n)
  | [Json.str "strat", c] => return .strat (← asOpt asNat c)
  | [Json.str "val", v] => return .val (← asNat v)
  | _ => throw "out: expected [kind, value]"

def jOut : Out → Json
  | .idx n => Json.arr #[Json.str "idx", Json.num (JsonNumber.fromNat n)]
  | .strat c => Json.arr #[Json.str "strat", jOpt (fun (n : Nat) => Json.num (JsonNumber.fromNat n)) c]
  | .val v => Json.arr #[Json.str "val", Json.num (JsonNumber.fromNat v)]

def asPair (j : Json) : R (Nat × Nat) := do
  match ← asArr j with
  | [a, b] => return (← asNat a, ← asNat b)
  | _ => throw "pair: expected [a,b]"

def parseMode (s : String) : R CtxMode :=
  if s == "local" then pure .Local else if s == "global" then pure .Global else throw s!"mode {s}"

/-- op `c15_replay`.
input : progs (events each thread executed, in its own order), schedule (thread id of every
        shared-state event in the global order it was executed), canon [[name,cls]…] (default
        cls = name), reg0, optional observed / observed_solo (per thread: results the real run
        recorded concurrently / alone), finished (per thread).
output: for both colour-cell modes the per-thread outputs of the model under that schedule,
        the model's solo outputs, well-formedness of each program, and
        spec_ok  = Lean-evaluated `notInterfered observed_solo finished observed` per thread
                   (the property on the implementation's own data),
        agree    = observed == model(Local) per thread, agree_global likewise for Global. -/
def opReplay (j : Json) : R Json := do
  let progs ← listF (asList asEv) j "progs"
  let sched ← listF asNat j "schedule"
  let canonL ← match optFld j "canon" with
    | some c => asList asPair c
    | none => pure []
  let canon : Nat → Nat := fun n => (regGet canonL n).getD n
  let reg0 ← match optFld j "reg0" with
    | some c => asList asPair c
    | none => pure []
  let n := progs.length
  let idxs := List.range n
  let σL := run .Local sched (init reg0 progs)
  let σG := run .Global sched (init reg0 progs)
  let outsL := idxs.map (outOf σL)
  let outsG := idxs.map (outOf σG)
  let soloL := progs.map (solo .Local [])
  let soloG := progs.map (solo .Global [])
  let wf := progs.map (wfB canon)
  let jOuts (xs : List (List Out)) : Json := jList (jList jOut) xs
  let mut out := [("local", jOuts outsL), ("global", jOuts outsG), ("solo_local", jOuts soloL),
                  ("solo_global", jOuts soloG), ("wf", jList Json.bool wf),
                  ("model_local_ok", jList Json.bool
                     ((outsL.zip (soloL.zip progs)).zip idxs |>.map fun ((o, (s, p)), i) =>
                        notInterfered s (decide (p.length ≤ sched.count i)) o)),
                  ("model_global_ok", jList Json.bool
                     ((outsG.zip (soloG.zip progs)).zip idxs |>.map fun ((o, (s, p)), i) =>
                        notInterfered s (decide (p.length ≤ sched.count i)) o))]
  if let some ob := optFld j "observed" then
    let observed ← asList (asList asOut) ob
    let observedSolo ← listF (asList asOut) j "observed_solo"
    let finished ← listF asBool j "finished"
    if observed.length != n || observedSolo.length != n || finished.length != n then
      throw "c15_replay: observed/observed_solo/finished must have one entry per thread"
    let spec := (observed.zip (observedSolo.zip finished)).map fun (o, (s, f)) => notInterfered s f o
    out := out ++ [("spec_ok", jList Json.bool spec),
                   ("agree", jList Json.bool ((observed.zip outsL).map fun (a, b) => a == b)),
                   ("agree_global", jList Json.bool ((observed.zip outsG).map fun (a, b) => a == b)),
                   ("agree_solo", jList Json.bool ((observedSolo.zip soloL).map fun (a, b) => a == b))]
  return Json.mkObj out

/-- op `c15_color_index`: unit level, `get_rtf_color_index` as a function of the context -/
def opColorIndex (j : Json) : R Json := do
  let items ← listF (fun x => do
      let ctx ← match optFld x "ctx" with
        | some c => some <$> asList asNat c
        | none => pure none
      let c ← natF x "c"
      pure (colorIndex ctx c)) j "items"
  return Json.mkObj [("idx", jNats items)]

namespace Interleave
def ops : List (String × (Json → R Json)) :=
  [("c15_replay", opReplay), ("c15_color_index", opColorIndex)]
end Interleave

end Driver
