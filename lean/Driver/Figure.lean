import Driver.Util
import Model.Figure
import Model.FigureSpec
/-! JSON ops for C16: the model of the figure path and the oracle (spec predicates) evaluated on
the implementation's read-back output. -/
namespace Driver
open Lean Model.Figure

private def jStr (cs : List Char) : Json := Json.str (String.ofList cs)
private def jNat (n : Nat) : Json := Json.num (JsonNumber.fromNat n)

private def jDims : Option (Nat × Nat) → Json
  | none => Json.null
  | some (w, h) => jNats [w, h]

private def asSize (j : Json) : R Size := do
  match ← asArr j with
  | [n, d] => return { num := ← asNat n, den := ← asNat d }
  | _ => throw "size: expected [num, den]"

private def asPair (j : Json) : R (Nat × Nat) := do
  match ← asArr j with
  | [a, b] => return (← asNat a, ← asNat b)
  | _ => throw "pair: expected [a, b]"

private def asFmt (s : String) : R Fmt :=
  if s == "png" then pure .png else if s == "jpeg" then pure .jpeg
  else if s == "emf" then pure .emf else throw s!"unknown format {s}"

private def fmtName : Fmt → String
  | .png => "png" | .jpeg => "jpeg" | .emf => "emf"

private def asPlacement (s : String) : R Placement :=
  if s == "first" then pure .first else if s == "last" then pure .last
  else if s == "all" then pure .all else throw s!"unknown placement {s}"

/-- op `fig_hex`: model of `_binary_to_hex`; `unhex` of the observed string when given -/
def opFigHex (j : Json) : R Json := do
  let bs ← listF asNat j "bytes"
  let mut out := [("hex", jStr (hexLines bs))]
  if let some o := optFld j "observed" then
    let s ← asChars o
    out := out ++ [("decoded", jOpt jNats (unhex s))]
  return Json.mkObj out

/-- op `fig_dims`: model of `_get_image_dimensions` for a format -/
def opFigDims (j : Json) : R Json := do
  let bs ← listF asNat j "bytes"
  let f ← asFmt (← strF j "fmt")
  let fuelOut := match f with
    | .jpeg => decide (10 ≤ bs.length ∧ jpegScan bs.length (bs.drop 2) = .outOfFuel)
    | _ => false
  return Json.mkObj [("dims", jDims (imageDims f bs)), ("fuel_out", Json.bool fuelOut)]

/-- op `fig_getdim`: model of `_get_dimension` on a list of numbers -/
def opFigGetDim (j : Json) : R Json := do
  let ds ← listF asNat j "dims"
  let i ← natF j "index"
  return Json.mkObj [("value", jOpt jNat (getDim ds i))]

/-- op `fig_fmt`: model of the suffix table + the blip keyword the spec demands -/
def opFigFmt (j : Json) : R Json := do
  -- either the suffix itself, or a path ("name") whose suffix the model derives (`suffixOfName ∘ baseName`)
  let s ← match optFld j "name" with
    | some n => do pure (suffixOfName (baseName (← asChars n)))
    | none => charsF j "suffix"
  return Json.mkObj [
    ("suffix", jStr s),
    ("fmt", jOpt (fun f => Json.str (fmtName f)) (fmtOfSuffix s)),
    ("blip", jOpt jStr ((fmtOfSuffix s).map blipWord)),
    ("want_blip", jOpt jStr (wantBlip s))]

/-- op `fig_goal`: exact truncation, boundary flag and the oracle on an observed value -/
def opFigGoal (j : Json) : R Json := do
  let s ← asSize (← fld j "size")
  let k ← natF j "k"
  let mut out := [("value", jNat (truncMul s k)), ("near_below", Json.bool (nearBelow s k))]
  if let some o := optFld j "observed" then
    let g ← asNat o
    out := out ++ [("ok", Json.bool (goalOk s k g)), ("ok_tol", Json.bool (goalOkTol s k g))]
  return Json.mkObj out

private def asObsPict (j : Json) : R ObsPict := do
  return { blip := ← charsF j "blip", picw := ← natF j "picw", pich := ← natF j "pich",
           wgoal := ← natF j "wgoal", hgoal := ← natF j "hgoal", payload := ← charsF j "payload" }

private def asTag (s : String) : R Tag :=
  if s == "title" then pure .title else if s == "subline" then pure .subline
  else if s == "pict" then pure .pict else if s == "footnote" then pure .footnote
  else if s == "source" then pure .source else throw s!"unknown tag {s}"

private def tagName : Tag → String
  | .title => "title" | .subline => "subline" | .pict => "pict" | .footnote => "footnote"
  | .source => "source"

private def asObsPage (j : Json) : R ObsPage := do
  return { tags := ← listF (fun t => do asTag (← asStr t)) j "tags",
           picts := ← listF asObsPict j "picts" }

private def jObsPict (p : ObsPict) : Json :=
  Json.mkObj [("blip", jStr p.blip), ("picw", jNat p.picw), ("pich", jNat p.pich),
              ("wgoal", jNat p.wgoal), ("hgoal", jNat p.hgoal), ("payload", jStr p.payload)]

private def jObsPage (p : ObsPage) : Json :=
  Json.mkObj [("tags", jStrs (p.tags.map tagName)), ("picts", jList jObsPict p.picts)]

/-- op `fig_doc`: model of the whole figure document (as observed by a reader) and the oracle
`violations` on the implementation's observed pages -/
def opFigDoc (j : Json) : R Json := do
  let figsJ ← asArr (← fld j "figs")
  let figs ← figsJ.mapM fun f => do
    let sfx ← match optFld f "name" with
      | some n => do pure (suffixOfName (baseName (← asChars n)))
      | none => charsF f "suffix"
    let bs ← listF asNat f "bytes"
    let tr ← match optFld f "truth" with
      | none => pure none
      | some t => some <$> asPair t
    pure (sfx, bs, tr)
  let ws ← listF asSize j "widths"
  let hs ← listF asSize j "heights"
  let c ← fld j "cfg"
  let cfg : Cfg := {
    pageTitle := ← asPlacement (← strF c "page_title"),
    pageFootnote := ← asPlacement (← strF c "page_footnote"),
    pageSource := ← asPlacement (← strF c "page_source"),
    hasTitle := ← boolF c "has_title", hasSubline := ← boolF c "has_subline",
    hasFootnote := ← boolF c "has_footnote", hasSource := ← boolF c "has_source" }
  let doc : FigDoc := { figs := figs.map (fun (s, b, _) => { suffix := s, bytes := b }),
                        widths := ws, heights := hs, cfg := cfg }
  let (status, pages) := match encodeDoc doc with
    | .empty => ("empty", [])
    | .unknownSuffix => ("unknown_suffix", [])
    | .indexError => ("index_error", [])
    | .ok ps => ("ok", observe ps)
  let wants := wantsFrom ws hs 0 (figs.map (fun (s, b, t) => ({ suffix := s, bytes := b }, t)))
  let near := wants.map fun w =>
    Json.arr #[Json.bool (nearBelow w.w 1440), Json.bool (nearBelow w.h 1440),
               Json.bool (nearBelow w.w 96), Json.bool (nearBelow w.h 96)]
  let mut out := [("status", Json.str status), ("pages", jList jObsPage pages),
                  ("near", Json.arr near.toArray),
                  ("self_ok", Json.bool (docOk cfg wants pages))]
  if let some o := optFld j "observed" then
    let obs ← asList asObsPage o
    let v := violations cfg wants obs
    out := out ++ [("viol", jList (fun (i, s) => Json.arr #[jNat i, Json.str s]) v),
                   ("doc_ok", Json.bool (docOk cfg wants obs))]
  return Json.mkObj out

namespace Figure
def ops : List (String × (Json → R Json)) :=
  [("fig_hex", opFigHex), ("fig_dims", opFigDims), ("fig_getdim", opFigGetDim),
   ("fig_fmt", opFigFmt), ("fig_goal", opFigGoal), ("fig_doc", opFigDoc)]
end Figure

end Driver
