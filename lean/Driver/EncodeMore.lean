import Driver.Util
import Driver.Encode
import Model.EncodeMulti
import Model.EncodeFigure
/-!
JSON ops `encode_multi`, `encode_figure` (and `encode_nested1`: one frame under a nested header list): the post-construction state of a multi-section / figure-only
`RTFDocument` → the string `Model.EncodeMulti.encodeM` / `Model.EncodeFigure.encodeWithF` prints, or `{"error": kind}`
when the model says that the encoder raises.  Value encodings as in `Driver/Encode.lean`.

  encode_multi   {"doc": {"sections": [{"cols", "rows", "body", "headers"}…], "nested": bool, "headers": […],
                          "page", "page_header", "page_footer", "title", "subline", "footnote", "source"},
                  "widths": [[text, font, size, width]…]}
  encode_figure  {"doc": {"figs": [{"suffix": str, "bytes": [0..255…]}…], "fig_width": [rat…], "fig_height": [rat…],
                          "fig_align": str, "page", …text components…, "body": {"attrs"} | null, "headers": […]}}
-/
namespace Driver
open Lean Model.Encode Model.EncodeMulti Model.EncodeFigure

def asSectionE (j : Json) : R Section := do
  return { cols := ← listF asChars j "cols", rows := ← listF (asList (asOpt asChars)) j "rows",
           body := ← asBodyE (← fld j "body"),
           headers := ← match optFld j "headers" with
             | some h => asList (asOpt asHeaderE) h
             | none => pure [] }

def asMDocE (j : Json) : R MDoc := do
  return { sections := ← listF asSectionE j "sections", nested := ← boolF j "nested",
           flatHeaders := ← listF (asOpt asHeaderE) j "headers", page := ← asPageE (← fld j "page"),
           pageHeader := ← optF asTextCompE j "page_header", pageFooter := ← optF asTextCompE j "page_footer",
           title := ← optF asTextCompE j "title", subline := ← optF asTextCompE j "subline",
           footnote := ← optF asFootE j "footnote", source := ← optF asFootE j "source" }

def asFigFileE (j : Json) : R FigFile := do
  return { suffix := ← charsF j "suffix", bytes := ← listF asNat j "bytes" }

def asFDocE (j : Json) : R FDoc := do
  return { figs := ← listF asFigFileE j "figs", widths := ← listF asRatE j "fig_width",
           heights := ← listF asRatE j "fig_height", align := ← strF j "fig_align", page := ← asPageE (← fld j "page"),
           pageHeader := ← optF asTextCompE j "page_header", pageFooter := ← optF asTextCompE j "page_footer",
           title := ← optF asTextCompE j "title", subline := ← optF asTextCompE j "subline",
           footnote := ← optF asFootE j "footnote", source := ← optF asFootE j "source",
           body := ← optF (fun b => do asTblAttrsE (← fld b "attrs")) j "body",
           headers := ← listF (asOpt asHeaderE) j "headers" }

def checkExtra (j : Json) (g : Model.Rtf.DocG) (text : List Char) : List (String × Json) :=
  match optFld j "check" with
  | some (.bool true) => [("wf", Json.bool (Model.Rtf.wellFormed text)), ("docOk", Json.bool (Model.Rtf.docOkFast g))]
  | _ => []

/-- op `encode_multi` -/
def opEncodeMulti (j : Json) : R Json := do
  let d ← asMDocE (← fld j "doc")
  let measure := mkMeasure (← listF asWidthEntry j "widths")
  match encodeWithM measure d with
  | .error e => return Json.mkObj [("error", Json.str e)]
  | .ok (g, near) =>
    let text := Model.Rtf.printDoc g
    return Json.mkObj ([("text", Json.str (String.ofList text)),
      ("near", Json.num (JsonNumber.fromNat (near + nearTwipsM d)))] ++ checkExtra j g text)

/-- op `encode_figure` -/
def opEncodeFigure (j : Json) : R Json := do
  let d ← asFDocE (← fld j "doc")
  match encodeWithF d with
  | .error e => return Json.mkObj [("error", Json.str e)]
  | .ok (none, _) => return Json.mkObj [("text", Json.str ""), ("near", Json.num 0), ("empty", Json.bool true)]
  | .ok (some g, near) =>
    let text := Model.Rtf.printDoc g
    return Json.mkObj ([("text", Json.str (String.ofList text)),
      ("near", Json.num (JsonNumber.fromNat (near + nearTwipsF d)))] ++ checkExtra j g text)

/-- op `encode_nested1`: a single-section state (`doc`, its `headers` ignored) under `nested_headers` -/
def opEncodeNested1 (j : Json) : R Json := do
  let d ← asDocE (← fld j "doc")
  let hs ← listF (asList (asOpt asHeaderE)) j "nested_headers"
  let measure := mkMeasure (← listF asWidthEntry j "widths")
  match encodeWithNested1 measure d hs with
  | .error e => return Json.mkObj [("error", Json.str e)]
  | .ok (g, near) =>
    let text := Model.Rtf.printDoc g
    return Json.mkObj ([("text", Json.str (String.ofList text)),
      ("near", Json.num (JsonNumber.fromNat (near + nearTwips { d with headers := hs.flatten })))] ++
      checkExtra j g text)

namespace EncodeMore
def ops : List (String × (Json → R Json)) :=
  [("encode_multi", opEncodeMulti), ("encode_figure", opEncodeFigure), ("encode_nested1", opEncodeNested1)]
end EncodeMore
end Driver
