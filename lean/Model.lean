import Model.Layout
import Model.Paginate
import Model.PaginateSpec
import Model.Widths
