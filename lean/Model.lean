import Model.Broadcast
import Model.Escape
import Model.Layout
import Model.Paginate
import Model.PaginateSpec
import Model.Validate
import Model.ValidateSpec
import Model.Widths
