import Model.Paginate
import Model.PaginateSpec
