import Proofs.LayoutRoles
import Proofs.Paginate
