import Proofs.Escape
import Proofs.Layout
import Proofs.LayoutHeadings
import Proofs.LayoutRoles
import Proofs.Paginate
import Proofs.Validate
import Proofs.Widths
