import Proofs.Paginate
