import Proofs.Layout
import Proofs.LayoutRoles
import Proofs.Paginate
