import Model.EncodeFigure
import Model.EncodeDomainMore
import Proofs.ConvNodes
import Proofs.Encode
import Proofs.EncodeTables
import Proofs.EncodeDoc
import Proofs.EncodeMulti
/-!
Helper lemmas for `Props/C01encmore.lean`, figure-only path: the picture group (hexadecimal payload read back by
`lexNodes`), the pieces of one loop iteration, the preamble, hence `docOk` of the document `encodeWithF` returns.
-/
namespace Proofs.EncodeFigure
open Model.Rtf Model.Emit Model.Encode Model.EncodeDomain Model.EncodeMulti Model.EncodeFigure Model.EncodeDomainMore
open Generated Proofs.Emit Proofs.ConvNodes Proofs.Encode Proofs.EncodeTables Proofs.EncodeDoc

/-! ### postconditions in the `Except` monad -/

def Post {ε α : Type} (P : α → Prop) (x : Except ε α) : Prop := ∀ a, x = .ok a → P a

theorem post_pure {ε α : Type} {P : α → Prop} {a : α} (h : P a) : Post (ε := ε) P (pure a) := by
  intro b hb; cases pure_ok hb; exact h

theorem post_throw {ε α : Type} {P : α → Prop} {e : ε} : Post P (throw e : Except ε α) :=
  fun _ hb => (throw_ok hb).elim

theorem post_bind {ε α β : Type} {P : β → Prop} {Q : α → Prop} {x : Except ε α} {f : α → Except ε β}
    (hx : Post Q x) (hf : ∀ a, Q a → Post P (f a)) : Post P (x >>= f) := by
  intro b hb
  obtain ⟨a, ha, hfa⟩ := bind_ok hb
  exact hf a (hx a ha) b hfa

theorem post_map {ε α β : Type} {P : β → Prop} {x : Except ε α} {g : α → β} (hx : Post (fun a => P (g a)) x) :
    Post P (g <$> x) := by
  intro b hb
  obtain ⟨a, ha, rfl⟩ := map_ok hb
  exact hx a ha

/-! ### the picture data -/

/-- 7-bit characters other than `\ { }` CR -/
def okc (c : Char) : Bool := plainC c && decide (c.toNat < 128)

theorem okc_hexDigit (n : Nat) : okc (Model.Figure.hexDigit n) = true := by
  unfold Model.Figure.hexDigit
  split <;> decide

theorem mem_joinNl : ∀ (ls : List (List Char)) (c : Char), c ∈ Model.Figure.joinNl ls → c = '\n' ∨ ∃ l ∈ ls, c ∈ l
  | [], c, h => by simp [Model.Figure.joinNl] at h
  | [l], c, h => Or.inr ⟨l, by simp, by simpa [Model.Figure.joinNl] using h⟩
  | l :: m :: rest, c, h => by
    have h' : c ∈ l ++ '\n' :: Model.Figure.joinNl (m :: rest) := h
    rcases List.mem_append.mp h' with h1 | h1
    · exact Or.inr ⟨l, by simp, h1⟩
    · rcases List.mem_cons.mp h1 with h2 | h2
      · exact Or.inl h2
      · rcases mem_joinNl (m :: rest) c h2 with h3 | ⟨x, hx, hc⟩
        · exact Or.inl h3
        · exact Or.inr ⟨x, List.mem_cons_of_mem _ hx, hc⟩

theorem mem_chunksAux (n : Nat) : ∀ (fuel : Nat) (s l : List Char), l ∈ Model.Figure.chunksAux n fuel s → ∀ c ∈ l, c ∈ s
  | 0, _, _, h => by simp [Model.Figure.chunksAux] at h
  | fuel + 1, s, l, h => by
    simp only [Model.Figure.chunksAux] at h
    split at h
    · cases h
    · rcases List.mem_cons.mp h with rfl | h'
      · exact fun c hc => List.mem_of_mem_take hc
      · exact fun c hc => List.mem_of_mem_drop (mem_chunksAux n fuel _ l h' c hc)

theorem okc_hexLines (bs : List Nat) : ∀ c ∈ Model.Figure.hexLines bs, okc c = true := by
  intro c hc
  unfold Model.Figure.hexLines at hc
  rcases mem_joinNl _ c hc with rfl | ⟨l, hl, hcl⟩
  · decide
  · have := mem_chunksAux _ _ _ l hl c hcl
    simp only [Model.Figure.hexString, List.mem_flatMap] at this
    obtain ⟨b, _, hb⟩ := this
    simp only [Model.Figure.hexByte, List.mem_cons, List.not_mem_nil, or_false] at hb
    rcases hb with rfl | rfl <;> exact okc_hexDigit _

theorem escStr_ascii : ∀ (s : List Char), (∀ c ∈ s, c.toNat < 128) → escStr s = s
  | [], _ => rfl
  | c :: t, h => by
    rw [escStr_cons, escStr_ascii t (fun x hx => h x (by simp [hx])), escStr_single]
    have hc := h c (by simp)
    simp [Model.Escape.escapeCp, hc]

/-- a text of 7-bit characters other than `\ { }` CR is a valid text hole as it stands -/
theorem hole_okc (s : List Char) (h : ∀ c ∈ s, okc c = true) : HoleOk (textNodes s) := by
  have h1 : s.all plainC = true := by
    rw [List.all_eq_true]; intro c hc
    have := h c hc; simp only [okc, Bool.and_eq_true] at this; exact this.1
  have h2 : ∀ c ∈ s, c.toNat < 128 := by
    intro c hc
    have := h c hc; simp only [okc, Bool.and_eq_true, decide_eq_true_eq] at this; exact this.2
  have := hole_raw s (rawOk_of_plain s h1)
  rw [escStr_ascii s h2] at this
  exact this

theorem pictOf_payload (fmt : Model.Figure.Fmt) (bytes : List Nat) (w h : Rat) :
    (pictOf fmt bytes w h).payload = Model.Figure.hexLines bytes := by
  unfold pictOf
  dsimp only
  split <;> rfl

theorem good_alignWord (a : String) : goodWord (alignWord a).toList = true := by
  unfold alignWord
  split
  · decide
  · split <;> decide

theorem good_blipWord (f : Model.Figure.Fmt) : goodWord (Model.Figure.blipWord f) = true := by
  cases f <;> decide

theorem pictNodes_ok (align : String) (p : Model.Figure.Pict) (hp : HoleOk (textNodes p.payload)) :
    NG (pictNodes align p) := by
  unfold pictNodes
  refine ng_cons (ng_cw _ _ _ (good_alignWord align)) ?_
  have hb := good_blipWord p.fmt
  have hws : NG [cw0 "pict", Node.cw (Model.Figure.blipWord p.fmt) none false, cwi "picw" p.picw, cwi "pich" p.pich,
      cwi "picwgoal" p.wgoal, Node.cw "pichgoal".toList (some p.hgoal) true] :=
    ng_cons (ng_cw0 _ (by decide)) (ng_cons (ng_cw _ _ _ hb) (ng_cons (ng_cwi _ _ (by decide))
      (ng_cons (ng_cwi _ _ (by decide)) (ng_cons (ng_cwi _ _ (by decide)) (ng_cw _ _ _ (by decide))))))
  refine ⟨?_, ?_, ?_⟩
  · simp only [plainNodes, plainNode, Bool.and_true]
    rw [plainNodes_append, hws.1, hp.1]; rfl
  · simp only [List.all_cons, List.all_nil, Bool.and_true, frameNode]
    rw [nodesOk_append, hp.2.1, Bool.and_true]
    have hn : nameOk (Model.Figure.blipWord p.fmt) = true := by
      simp only [goodWord, wordOk, Bool.and_eq_true] at hb; exact hb.1.1
    have e1 : nameOk "pict".toList = true := by decide
    have e2 : nameOk "picw".toList = true := by decide
    have e3 : nameOk "pich".toList = true := by decide
    have e4 : nameOk "picwgoal".toList = true := by decide
    have e5 : nameOk "pichgoal".toList = true := by decide
    have b0 : badAfter none '\\' = false := by decide
    have b1 : ∀ k : Int, badAfter (some k) '\\' = false := by intro k; simp only [badAfter]; decide
    have e6 : ∀ a, nodesOk [] a = true := by intro a; simp [nodesOk]
    simp only [cw0, cwi, nodesOk_cons, nextChar_cw, nodeOk, hn, e1, e2, e3, e4, e5, b0, b1, e6, Bool.not_false,
      Bool.or_true, Bool.true_or, Bool.and_self]
  · apply uNeutral_grp
    exact uNeutral_append _ _ hws.2.2 hp.2.2

/-! ### footnote / source rendered paragraph-style (no width clause needed) -/

theorem footTxtOk_spec {f : Foot} (h : footTxtOk (some f) = true) :
    ∀ b ∈ convFlags f.attrs.convert, txtOk b (f.text.getD []) = true := by
  intro b hb
  simp only [footTxtOk, txtOkAttr, List.all_eq_true] at h
  exact h b hb

theorem renderFoot_para_ok {k : ColorCtx} {d : Doc} {f : Foot} {override : Option String} {es : List Elem}
    (h : renderFoot k d f override = .ok es) (hat : f.asTable = false) (hd : footTxtOk (some f) = true) :
    ∀ e ∈ es, ElemOk e := by
  have htxt := footTxtOk_spec hd
  unfold renderFoot at h
  peel h as A hA
  dsimp only at h
  have hF : FlagsIn (footAttrs A override).convert (convFlags f.attrs.convert) := by
    rw [footAttrs_convert]; exact flagsIn_of_toNested (tblAttrs_mapM_convert hA)
  simp only [hat, Bool.not_false, if_true] at h
  peel h as ps hps
  cases pure_ok h
  intro e he
  obtain ⟨n, hn, rfl⟩ := List.mem_map.mp he
  apply elemOk_of_ng
  refine encodeTextParas_ok (a := (footAttrs A override).toTextAttrsOf) hps hF ?_ n hn
  intro t ht b hb
  split at ht
  · cases ht
  · simp only [List.mem_cons, List.not_mem_nil, or_false] at ht
    subst ht
    exact htxt b hb

theorem elemOk_flatten : ∀ (es : List Elem), (∀ e ∈ es, ElemOk e) → ElemOk es.flatten
  | [], _ => elemOk_nil
  | e :: es, h => by
    rw [List.flatten_cons]
    exact elemOk_append (h e (by simp)) (elemOk_flatten es (fun x hx => h x (by simp [hx])))

/-! ### one loop iteration -/

theorem figurePieces_ok {k : ColorCtx} {d : FDoc} {title : List Elem} {num i : Nat} {fmt : Model.Figure.Fmt}
    {bytes : List Nat} (hd : inDomainFig d = true) (htitle : ∀ e ∈ title, ElemOk e) :
    Post (fun r => ElemOk r.1) (figurePieces k d title num i fmt bytes) := by
  simp only [inDomainFig, Bool.and_eq_true] at hd
  obtain ⟨⟨⟨⟨⟨_, hsub⟩, _⟩, _⟩, hfn⟩, hsrc⟩ := hd
  unfold figurePieces
  extract_lets isFirst isLast titleHere t jp1
  have ht : ElemOk t := by
    simp only [t]
    split
    · exact elemOk_append (elemOk_flatten _ htitle) (elemOk_of_ng ng_nl)
    · exact elemOk_nil
  have hjp1 : ∀ s, ElemOk s → Post (fun r => ElemOk r.1) (jp1 s) := by
    intro s hs
    simp -zeta only [jp1]
    extract_lets jp2
    have hjp2 : ∀ w, Post (fun r => ElemOk r.1) (jp2 w) := by
      intro w
      simp -zeta only [jp2]
      extract_lets jp3
      have hjp3 : ∀ h, Post (fun r => ElemOk r.1) (jp3 h) := by
        intro h
        simp -zeta only [jp3]
        extract_lets p pic jp4
        have hpic : ElemOk pic := by
          simp only [pic]
          have hp : HoleOk (textNodes p.payload) := by
            simp only [p, pictOf_payload]
            exact hole_okc _ (okc_hexLines bytes)
          exact elemOk_append (a := [BlockG.plain (pictNodes d.align p)]) (elemOk_of_ng (pictNodes_ok _ _ hp))
            (elemOk_of_ng (ng_cw _ _ _ (by decide)))
        have hjp4 : ∀ fn, ElemOk fn → Post (fun r => ElemOk r.1) (jp4 fn) := by
          intro fn hfnE
          simp -zeta only [jp4]
          extract_lets jp5
          have hjp5 : ∀ src, ElemOk src → Post (fun r => ElemOk r.1) (jp5 src) := by
            intro src hsrcE
            simp -zeta only [jp5]
            extract_lets jp6
            have hjp6 : ∀ brk, ElemOk brk → Post (fun r => ElemOk r.1) (jp6 brk) := by
              intro brk hbrk
              simp only [jp6]
              apply post_pure
              exact elemOk_append (elemOk_append (elemOk_append (elemOk_append (elemOk_append ht hs) hpic) hfnE) hsrcE)
                hbrk
            clear_value jp6
            split
            · exact post_bind (post_pure (P := fun b => b = [])  rfl) (fun a ha => by subst ha; exact hjp6 _ elemOk_nil)
            · refine post_bind (Q := fun ns => NG ns) (fun ns hns => pageBreak_ok hns) (fun ns hns => ?_)
              exact post_bind (post_pure (P := fun b => b = [BlockG.plain ns]) rfl)
                (fun a ha => by subst ha; exact hjp6 _ (elemOk_of_ng hns))
          clear_value jp5
          split
          · next f hf =>
            split
            · refine post_bind (Q := ElemOk) ?_ hjp5
              apply post_map
              intro es hes
              have hso : sourceOkF d.page.colWidth (some f) = true := by rw [← hf]; exact hsrc
              simp only [sourceOkF] at hso
              split at hso
              · simp only [Bool.and_eq_true, decide_eq_true_eq] at hso
                exact joinElems_ok _ (renderFoot_ok hes hso.2 hso.1)
              · next hat => exact joinElems_ok _ (renderFoot_para_ok hes (by simpa using hat) hso)
            · exact post_bind (post_pure (P := fun b => b = []) rfl) (fun a ha => by subst ha; exact hjp5 _ elemOk_nil)
          · exact post_bind (post_pure (P := fun b => b = []) rfl) (fun a ha => by subst ha; exact hjp5 _ elemOk_nil)
        clear_value jp4
        split
        · next f hf =>
          split
          · refine post_bind (Q := ElemOk) ?_ hjp4
            apply post_map
            intro es hes
            have hfo : footTxtOk (some f) = true := by rw [← hf]; exact hfn
            exact joinElems_ok _ (renderFoot_para_ok hes rfl hfo)
          · exact post_bind (post_pure (P := fun b => b = []) rfl) (fun a ha => by subst ha; exact hjp4 _ elemOk_nil)
        · exact post_bind (post_pure (P := fun b => b = []) rfl) (fun a ha => by subst ha; exact hjp4 _ elemOk_nil)
      clear_value jp3
      split
      · exact post_bind (post_pure (P := fun _ => True) trivial) (fun a _ => hjp3 a)
      · exact post_bind post_throw (Q := fun _ => False) (fun a ha => ha.elim)
    clear_value jp2
    split
    · exact post_bind (post_pure (P := fun _ => True) trivial) (fun a _ => hjp2 a)
    · exact post_bind post_throw (Q := fun _ => False) (fun a ha => ha.elim)
  clear_value jp1
  split
  · refine post_bind (Q := ElemOk) ?_ hjp1
    apply post_map
    intro es hes
    exact elemOk_flatten _ (textElem_ok hes hsub)
  · exact post_bind (post_pure (P := fun b => b = []) rfl) (fun a ha => by subst ha; exact hjp1 _ elemOk_nil)

/-! ### the document -/

theorem preambleF_ok {k : ColorCtx} {d : FDoc} {head : List Node} (h : preambleF k d = .ok head)
    (hph : textCompOk d.pageHeader = true) (hpf : textCompOk d.pageFooter = true) : NG head := by
  unfold preambleF at h
  dsimp only at h
  simp only [pure_bind, throw_bind'] at h
  split at h
  · next fontTbl hfont =>
    split at h
    · next colorTbl hcolor =>
      peel h as hdr hhdr
      peel h as ftr hftr
      peel h as ps hps
      cases pure_ok h
      have h1 : NG [cw0 "ansi", Node.nl, cwi "deff" 0, cwi "deflang" 1033] :=
        ng_cons (ng_cw0 _ (by decide)) (ng_cons ng_nl (ng_cons (ng_cwi _ _ (by decide)) (ng_cwi _ _ (by decide))))
      exact ng_append (ng_append (ng_append (ng_append (ng_append (ng_append h1 (fontTbl_ng _ hfont))
        (colorTbl_ng _ _ hcolor)) ng_nl) (pageHF_ok hhdr (by decide) hph)) (pageHF_ok hftr (by decide) hpf))
        (pageSettings_ok hps)
    · cases h
  · cases h

theorem elemOk_flatMap_fst : ∀ (pieces : List (List BlockG × Nat)), (∀ pc ∈ pieces, ElemOk pc.1) →
    ElemOk (pieces.flatMap (·.1))
  | [], _ => elemOk_nil
  | pc :: rest, h => by
    rw [List.flatMap_cons]
    exact elemOk_append (h pc (by simp)) (elemOk_flatMap_fst rest (fun x hx => h x (by simp [hx])))

theorem encodeWithF_docOk {d : FDoc} {g : DocG} {n : Nat} (h : encodeWithF d = .ok (some g, n))
    (hd : inDomainFig d = true) : docOk g = true := by
  have hd' := hd
  simp only [inDomainFig, Bool.and_eq_true] at hd'
  obtain ⟨⟨⟨⟨⟨htitle, _⟩, hph⟩, hpf⟩, _⟩, _⟩ := hd'
  unfold encodeWithF at h
  dsimp only at h
  split at h
  · cases pure_ok h
  · peel h as files hfiles
    peel h as title htitleE
    peel h as head hhead
    peel h as pieces hpieces
    cases pure_ok h
    apply docOk_of_parts _ _ (preambleF_ok hhead hph hpf)
    refine elemOk_append ?_ (elemOk_of_ng (ng_nls 2))
    have hall : ∀ pc ∈ pieces, ElemOk pc.1 := by
      intro pc hpc
      obtain ⟨fi, _, hf⟩ := mapM_mem hpieces pc hpc
      exact figurePieces_ok hd (textElem_ok htitleE htitle) pc hf
    exact elemOk_flatMap_fst pieces hall

/-- the string the figure-only encoder returns is well-formed as soon as there is a figure -/
theorem encodeTextF_docOk {d : FDoc} {s : List Char} (h : encodeTextF d = .ok s) (hd : inDomainFig d = true)
    (hne : d.figs ≠ []) : ∃ g, s = printDoc g ∧ docOk g = true := by
  unfold encodeTextF at h
  peel h as x hx
  split at h
  · next g hg =>
    cases pure_ok h
    exact ⟨g, rfl, encodeWithF_docOk (n := x.2) (by rw [← hg]; exact hx) hd⟩
  · next hnone =>
    exfalso
    unfold encodeWithF at hx
    dsimp only at hx
    split at hx
    · next he => exact hne (List.isEmpty_iff.mp he)
    · peel hx as files hfiles
      peel hx as title htitleE
      peel hx as head hhead
      peel hx as pieces hpieces
      cases pure_ok hx
      cases hnone

end Proofs.EncodeFigure
