import Model.Encode
import Model.Color
import Proofs.Color
import Proofs.ColorTable
import Proofs.ColorTableCodes
import Proofs.Encode
import Proofs.EncodeAttrs
import Proofs.EncodeLift
import Proofs.LexPrint
/-!
Helper lemmas for `Props/C12enc.lean`: the colour context of the whole-encoder model (`mkColorCtx`, `ColorCtx.index`)
in terms of `Model.Color`; the colour / font references `resolveText` and `resolveBorder` produce; which attribute
values were collected into the context; the head of the document.
-/
namespace Proofs.EncodeColor
open Model.Encode Model.Broadcast Model.Emit Model.Rtf Model.Color Proofs.Encode Proofs.EncodeAttrs Proofs.Color
open Generated

/-! ## the colour context -/

/-- the colours `collect_document_colors` found, in the model's enumeration order -/
def usedColors (d : Model.Encode.Doc) : List String := collect (colorDoc d)

theorem mkColorCtx_used (d : Model.Encode.Doc) : (mkColorCtx d).used = usedColors d := rfl

theorem mkColorCtx_rows (d : Model.Encode.Doc) : (mkColorCtx d).rows = tableRows colorTable (usedColors d) := rfl

/-- the index the encoder prints for a colour name is `Utils._get_color_index` with the context holding the colours
collected from the whole document -/
theorem index_eq_utils (d : Model.Encode.Doc) (c : String) :
    (mkColorCtx d).index c = (utilsColorIndex colorTable (some (usedColors d)) c none : Nat) := by
  unfold ColorCtx.index utilsColorIndex rtfColorIndex
  rw [mkColorCtx_used, mkColorCtx_rows]
  cases hs : significant c with
  | false => simp
  | true =>
    simp only [Bool.not_true, Bool.false_eq_true, if_false]
    cases he : (filtered (usedColors d)).isEmpty with
    | true => simp
    | false =>
      simp only [Bool.false_eq_true, if_false]
      cases tableRows colorTable (usedColors d) <;> rfl

theorem usedColors_nodup (d : Model.Encode.Doc) : (usedColors d).Nodup := nodup_dedup _

/-! ## what `resolveText` / `resolveBorder` make of a colour value -/

/-- the reference printed for an attribute value: nothing for `None` and `""`, the context's index otherwise -/
def colorRefV (k : ColorCtx) : Val → Option Int
  | .str c => if c != "" then some (k.index c) else none
  | _ => none

/-- the colour name an attribute value requests (`none`: no colour word is printed) -/
def requested : Val → Option String
  | .str c => if c != "" then some c else none
  | _ => none

theorem requested_some {v : Val} {s : String} (h : requested v = some s) : v = .str s ∧ s ≠ "" := by
  cases v <;> simp only [requested] at h <;> try cases h
  split at h
  · next hne => cases h; exact ⟨rfl, by simpa using hne⟩
  · cases h

theorem colorRefV_eq (k : ColorCtx) (v : Val) : colorRefV k v = (requested v).map k.index := by
  cases v <;> simp only [colorRefV, requested, Option.map_none]
  split <;> rfl

/-- `colorIdx` of `resolveText` -/
def refOfOpt (k : ColorCtx) (o : Option String) : Option Int :=
  match o with
  | some c => if c != "" then some (k.index c) else none
  | none => none

theorem toOptStr_ref {k : ColorCtx} {v : Val} {o : Option String} (h : v.toOptStr = .ok o) :
    refOfOpt k o = colorRefV k v := by
  cases v <;> simp only [Val.toOptStr] at h <;> cases h <;> rfl

/-- `TextContent`: `\f{font-1}`, `\cf` and `\chcbpat`/`\cb` are the references of the values read -/
theorem resolveText_refs {k : ColorCtx} {v : TextVals} {tf : TextFmt} {conv : Bool}
    (h : resolveText k v = .ok (tf, conv)) :
    ∃ font, v.font.toInt = .ok font ∧ tf.fontIdx = font - 1 ∧ tf.color = colorRefV k v.color ∧
      tf.bg = colorRefV k v.bg ∧ v.convert.toBool = .ok conv := by
  unfold resolveText at h
  peel h as font h1
  peel h as size h2
  peel h as format h3
  peel h as color h4
  peel h as bg h5
  peel h as just h6
  peel h as fi h7
  peel h as li h8
  peel h as ri h9
  peel h as space h10
  peel h as sb h11
  peel h as sa h12
  peel h as conv' h13
  peel h as hyph h14
  dsimp only at h
  split at h
  · simp only [pure_bind] at h
    split at h
    · have := pure_ok h
      simp only [Prod.mk.injEq] at this
      obtain ⟨htf, hcv⟩ := this
      subst htf
      subst hcv
      exact ⟨font, h1, rfl, toOptStr_ref h4, toOptStr_ref h5, h13⟩
    · peel h as fmts hf
      have := pure_ok h
      simp only [Prod.mk.injEq] at this
      obtain ⟨htf, hcv⟩ := this
      subst htf
      subst hcv
      exact ⟨font, h1, rfl, toOptStr_ref h4, toOptStr_ref h5, h13⟩
  · peel h as x hx
    exact (throw_ok hx).elim

/-- `Border`: `\brdrcf` is the reference of the value read -/
theorem resolveBorder_ref {k : ColorCtx} {st w c : Val} {b : BorderFmt} (h : resolveBorder k st w c = .ok b) :
    b.color = colorRefV k c := by
  unfold resolveBorder at h
  peel h as s h1
  dsimp only at h
  simp only [pure_bind, throw_bind'] at h
  have key : ∀ (wd : Int) (col : Option Int), (match List.lookup s borderCodes with
      | some code => (pure { style := codeWord code, width := wd, color := col } : Except String BorderFmt)
      | none => throw "ValueError") = Except.ok b → b.color = col := by
    intro wd col h
    split at h
    · cases pure_ok h; rfl
    · exact (throw_ok h).elim
  split at h
  · split at h
    · exact key _ _ h
    · exact key _ _ h
    · next hc1 hc2 =>
      split at h
      · cases h
      · rw [key _ _ h]
        cases c <;> first | rfl | exact absurd rfl (hc1 _) | exact absurd rfl hc2
  · peel h as wd hw
    split at h
    · exact key _ _ h
    · exact key _ _ h
    · next hc1 hc2 =>
      split at h
      · cases h
      · rw [key _ _ h]
        cases c <;> first | rfl | exact absurd rfl (hc1 _) | exact absurd rfl hc2

theorem mkBorder_ref {k : ColorCtx} {bw : Val} {st col : Read} {b : BorderFmt} (h : mkBorder k bw st col = .ok b) :
    ∃ c, col = .ok c ∧ b.color = colorRefV k c := by
  obtain ⟨s, c, _, hc, hr⟩ := mkBorder_inv h
  exact ⟨c, hc, resolveBorder_ref hr⟩

theorem textValsOf_fields {R : TextAttrsOf Read} {tv : TextVals} (h : textValsOf R = .ok tv) :
    R.font = .ok tv.font ∧ R.color = .ok tv.color ∧ R.bg = .ok tv.bg ∧ R.convert = .ok tv.convert := by
  unfold textValsOf at h
  peel h as x1 h1
  peel h as x2 h2
  peel h as x3 h3
  peel h as x4 h4
  peel h as x5 h5
  peel h as x6 h6
  peel h as x7 h7
  peel h as x8 h8
  peel h as x9 h9
  peel h as x10 h10
  peel h as x11 h11
  peel h as x12 h12
  peel h as x13 h13
  peel h as x14 h14
  cases pure_ok h
  exact ⟨h1, h4, h5, h13⟩

theorem textValsAt_fields {a : TextAttrsOf MatV} {r c : Nat} {tv : TextVals} (h : textValsAt a r c = .ok tv) :
    ilocV a.font r c = .ok tv.font ∧ ilocV a.color r c = .ok tv.color ∧ ilocV a.bg r c = .ok tv.bg ∧
      ilocV a.convert r c = .ok tv.convert := by
  unfold textValsAt at h
  peel h as x1 h1
  peel h as x2 h2
  peel h as x3 h3
  peel h as x4 h4
  peel h as x5 h5
  peel h as x6 h6
  peel h as x7 h7
  peel h as x8 h8
  peel h as x9 h9
  peel h as x10 h10
  peel h as x11 h11
  peel h as x12 h12
  peel h as x13 h13
  peel h as x14 h14
  cases pure_ok h
  exact ⟨h1, h4, h5, h13⟩

/-- the colour and font references of one table cell, as functions of the values read at its position -/
theorem cellOf_refs {k : ColorCtx} {R : TblAttrsOf Read} {isLast : Bool} {text : Model.Encode.Str} {width : Option Rat}
    {c : CellFmt} (h : cellOf k R isLast text width = .ok c) :
    ∃ vfont font vcolor vbg vl vt vb bl bt bb,
      R.font = .ok vfont ∧ vfont.toInt = .ok font ∧ c.text.fontIdx = font - 1 ∧
      R.color = .ok vcolor ∧ c.text.color = colorRefV k vcolor ∧
      R.bg = .ok vbg ∧ c.text.bg = colorRefV k vbg ∧
      R.bcLeft = .ok vl ∧ c.left = some bl ∧ bl.color = colorRefV k vl ∧
      R.bcTop = .ok vt ∧ c.top = some bt ∧ bt.color = colorRefV k vt ∧
      R.bcBottom = .ok vb ∧ c.bottom = some bb ∧ bb.color = colorRefV k vb ∧
      (if isLast then ∃ vr br, R.bcRight = .ok vr ∧ c.right = some br ∧ br.color = colorRefV k vr
       else c.right = none) := by
  obtain ⟨bw, tv, tf, conv, w, left, top, bottom, vjv, vj, right, _, htv, hrt, _, hl, ht, hb, hr, _, _, rfl⟩ :=
    cellOf_inv h
  obtain ⟨g1, g2, g3, _⟩ := textValsOf_fields htv
  obtain ⟨font, f1, f2, f3, f4, _⟩ := resolveText_refs hrt
  obtain ⟨vl, hvl, hbl⟩ := mkBorder_ref hl
  obtain ⟨vt, hvt, hbt⟩ := mkBorder_ref ht
  obtain ⟨vb, hvb, hbb⟩ := mkBorder_ref hb
  refine ⟨tv.font, font, tv.color, tv.bg, vl, vt, vb, left, top, bottom, g1, f1, f2, g2, f3, g3, f4,
    hvl, rfl, hbl, hvt, rfl, hbt, hvb, rfl, hbb, ?_⟩
  cases isLast with
  | false =>
    simp only [Bool.false_eq_true, if_false] at hr ⊢
    exact (pure_ok hr).symm
  | true =>
    simp only [if_true] at hr ⊢
    obtain ⟨br, hbr, rfl⟩ := map_ok hr
    obtain ⟨vr, hvr, hcr⟩ := mkBorder_ref hbr
    exact ⟨vr, br, hvr, rfl, hcr⟩

/-- the references of the lines of a title / subline / page header / page footer / paragraph footnote: line `i` reads
its colours and font at position `(i, 0)` of the component's attributes -/
theorem resolveLines_refs {k : ColorCtx} {a : TextAttrsOf MatV} {text : List Model.Encode.Str}
    {ls : List (TextFmt × List Node)} (h : resolveLines k a text = .ok ls) :
    ls.length = text.length ∧ ∀ i t, text[i]? = some t → ∃ tf conv vfont font vcolor vbg,
      ls[i]? = some (tf, textNodes (convText conv t)) ∧
      ilocV a.font i 0 = .ok vfont ∧ vfont.toInt = .ok font ∧ tf.fontIdx = font - 1 ∧
      ilocV a.color i 0 = .ok vcolor ∧ tf.color = colorRefV k vcolor ∧
      ilocV a.bg i 0 = .ok vbg ∧ tf.bg = colorRefV k vbg ∧
      ∃ vconv, ilocV a.convert i 0 = .ok vconv ∧ vconv.toBool = .ok conv := by
  unfold resolveLines at h
  have hall := mapM_ok h
  have hlen := all2_length hall
  simp only [List.length_zipIdx] at hlen
  refine ⟨hlen, ?_⟩
  intro i t ht
  have := all2_get hall i (t, i) (by simp [List.getElem?_zipIdx, ht])
  obtain ⟨b, hb, hf⟩ := this
  dsimp only at hf
  peel hf as tv htv
  peel hf as x hx
  obtain ⟨tf, conv⟩ := x
  cases pure_ok hf
  obtain ⟨g1, g2, g3, g4⟩ := textValsAt_fields htv
  obtain ⟨font, f1, f2, f3, f4, f5⟩ := resolveText_refs hx
  exact ⟨tf, conv, tv.font, font, tv.color, tv.bg, hb, g1, f1, f2, g2, f3, g3, f4, tv.convert, g4, f5⟩

/-! ## which attribute values were collected -/

/-- the colour attributes of a table component: text colour, background and the six border colours -/
def tblColorAttrs (a : TblAttrsOf Model.Encode.Attr) : List Model.Encode.Attr :=
  [a.color, a.bg, a.bcLeft, a.bcRight, a.bcTop, a.bcBottom, a.bcFirst, a.bcLast]

/-- the attributes `collect_document_colors` reads: the text / background / six border colours of the body, of footnote
and source and of every column header (repo fix: the border colours formerly of the body only), and the text and
background colour of title, subline, page header, page footer -/
def collectedAttrs (d : Model.Encode.Doc) : List Model.Encode.Attr :=
  tblColorAttrs d.body.attrs ++
  ([d.title, d.subline].filterMap id).flatMap (fun t => [t.attrs.color, t.attrs.bg]) ++
  ([d.footnote, d.source].filterMap id).flatMap (fun f => tblColorAttrs f.attrs) ++
  ([d.pageHeader, d.pageFooter].filterMap id).flatMap (fun t => [t.attrs.color, t.attrs.bg]) ++
  (d.headers.filterMap id).flatMap (fun h => tblColorAttrs h.attrs)

theorem mem_valStrs {vs : List Val} {s : String} (h : Val.str s ∈ vs) : s ∈ valStrs vs := by
  unfold valStrs
  rw [List.mem_filterMap]
  exact ⟨_, h, rfl⟩

/-- a non-empty string among the values of an attribute is one of the colours extracted from it -/
theorem attr_colors {a : Model.Encode.Attr} {s : String} (h : Val.str s ∈ Model.EncodeDomain.attrVals a)
    (hne : s ≠ "") : s ∈ (toColorAttr a).colors := by
  have hb : (s != "") = true := by simpa using hne
  cases a with
  | null => simp [Model.EncodeDomain.attrVals] at h
  | scalar v =>
    simp only [Model.EncodeDomain.attrVals, List.mem_singleton] at h
    subst h
    simp [toColorAttr, Attr.colors, hb]
  | list xs =>
    simp only [Model.EncodeDomain.attrVals] at h
    simp only [toColorAttr, Attr.colors, List.mem_filter]
    exact ⟨mem_valStrs h, hb⟩
  | tuple xs =>
    simp only [Model.EncodeDomain.attrVals] at h
    simp only [toColorAttr, Attr.colors, List.mem_filter]
    exact ⟨mem_valStrs h, hb⟩
  | nested m =>
    simp only [Model.EncodeDomain.attrVals, List.mem_flatten] at h
    obtain ⟨row, hrow, hs⟩ := h
    simp only [toColorAttr, Attr.colors, List.mem_filter, List.mem_flatten, List.mem_map]
    exact ⟨⟨valStrs row, ⟨row, hrow, rfl⟩, mem_valStrs hs⟩, hb⟩

/-- the strings `extract_colors_from_attribute` finds in one component -/
def compColors (c : Comp) : List String :=
  c.textColor.colors ++ c.bgColor.colors ++ c.borderColors.flatMap Attr.colors

theorem allColors_eq (d : Model.Color.Doc) :
    d.allColors = d.bodies.flatMap compColors ++ d.texts.flatMap compColors ++ d.headers.flatMap compColors := rfl

theorem mem_tblColors {a : TblAttrsOf Model.Encode.Attr} {x : Model.Encode.Attr} {s : String}
    (hx : x ∈ tblColorAttrs a) (hs : s ∈ (toColorAttr x).colors) : s ∈ compColors (tblColorComp a) := by
  simp only [tblColorAttrs, List.mem_cons, List.not_mem_nil, or_false] at hx
  simp only [compColors, tblColorComp, List.mem_append, List.mem_flatMap, List.mem_map, List.mem_cons,
    List.not_mem_nil, or_false]
  rcases hx with rfl | rfl | rfl | rfl | rfl | rfl | rfl | rfl
  · exact Or.inl (Or.inl hs)
  · exact Or.inl (Or.inr hs)
  · exact Or.inr ⟨_, ⟨_, Or.inl rfl, rfl⟩, hs⟩
  · exact Or.inr ⟨_, ⟨_, Or.inr (Or.inl rfl), rfl⟩, hs⟩
  · exact Or.inr ⟨_, ⟨_, Or.inr (Or.inr (Or.inl rfl)), rfl⟩, hs⟩
  · exact Or.inr ⟨_, ⟨_, Or.inr (Or.inr (Or.inr (Or.inl rfl))), rfl⟩, hs⟩
  · exact Or.inr ⟨_, ⟨_, Or.inr (Or.inr (Or.inr (Or.inr (Or.inl rfl)))), rfl⟩, hs⟩
  · exact Or.inr ⟨_, ⟨_, Or.inr (Or.inr (Or.inr (Or.inr (Or.inr rfl)))), rfl⟩, hs⟩

theorem mem_textColors {a : TextAttrsOf Model.Encode.Attr} {x : Model.Encode.Attr} {s : String}
    (hx : x ∈ [a.color, a.bg]) (hs : s ∈ (toColorAttr x).colors) : s ∈ compColors (textColorComp a) := by
  simp only [List.mem_cons, List.not_mem_nil, or_false] at hx
  simp only [compColors, textColorComp, List.mem_append]
  rcases hx with rfl | rfl
  · exact Or.inl (Or.inl hs)
  · exact Or.inl (Or.inr hs)

theorem collected_allColors {d : Model.Encode.Doc} {a : Model.Encode.Attr} (ha : a ∈ collectedAttrs d) {s : String}
    (hs : s ∈ (toColorAttr a).colors) : s ∈ (colorDoc d).allColors := by
  rw [allColors_eq]
  unfold collectedAttrs at ha
  simp only [colorDoc, List.mem_append, List.mem_flatMap, List.mem_map] at ha ⊢
  rcases ha with (((ha | ⟨t, ht, ha⟩) | ⟨f, hf, ha⟩) | ⟨t, ht, ha⟩) | ⟨h, hh, ha⟩
  · exact Or.inl (Or.inl ⟨_, List.mem_singleton.mpr rfl, mem_tblColors ha hs⟩)
  · exact Or.inl (Or.inr ⟨_, Or.inl (Or.inl ⟨t, ht, rfl⟩), mem_textColors ha hs⟩)
  · exact Or.inl (Or.inr ⟨_, Or.inl (Or.inr ⟨f, hf, rfl⟩), mem_tblColors ha hs⟩)
  · exact Or.inl (Or.inr ⟨_, Or.inr ⟨t, ht, rfl⟩, mem_textColors ha hs⟩)
  · exact Or.inr ⟨_, ⟨h, hh, rfl⟩, mem_tblColors ha hs⟩

/-- every non-empty string an emitter can read (`BroadcastValue.iloc`) from a collected attribute is in the context -/
theorem collected_read {d : Model.Encode.Doc} {a : Model.Encode.Attr} (ha : a ∈ collectedAttrs d) {M : MatV}
    (hM : a.toNested = .ok M) {s : String} (hv : MemV M (.str s)) (hne : s ≠ "") : s ∈ usedColors d := by
  obtain ⟨m, rfl, row, hrow, hvr⟩ := hv
  have := toNested_mem hM row hrow _ hvr
  exact mem_dedup.mpr (collected_allColors ha (attr_colors this hne))

theorem ilocV_str_memV {M : MatV} {r c : Nat} {s : String} (h : ilocV M r c = .ok (.str s)) : MemV M (.str s) := by
  rcases ilocV_memV h with ⟨_, h2⟩ | h
  · cases h2
  · exact h

/-! ## the body attributes on a page -/

theorem memV_processed {A : TblAttrsOf MatV} (f : Field) (nr nc : Nat) (removed : List Nat) {v : Val}
    (h : MemV (f.get (processedAttrs A nr nc removed)) v) : MemV (f.get A) v := by
  rw [processed_get] at h
  split at h
  · exact h
  · exact memV_map (fun m row hrow v hv => Proofs.EncodeAux.expandSlice_mem m nr nc removed row hrow v hv) h

theorem memV_pageAttrs {d : Model.Encode.Doc} {bodyA : TblAttrsOf MatV} {p : Prep} {pg : Model.Layout.PageCtx}
    (f : Field) (hf : f.isEdge = false) {v : Val} (h : MemV (f.get (pageAttrs d bodyA p pg).attrs) v) :
    MemV (f.get p.attrs) v := by
  by_cases hh : pg.height = 0
  · unfold pageAttrs at h
    rw [if_pos hh] at h
    exact h
  · rw [pageAttrs_get d bodyA p pg f hh hf] at h
    exact memV_map (fun m row hrow v hv =>
      ⟨row, Proofs.EncodeAux.pageRows_mem m pg.start pg.height row hrow, hv⟩) h

/-- the body's colour fields -/
def Field.isBodyColor : Field → Bool
  | .color | .bg | .bcLeft | .bcRight | .bcTop | .bcBottom | .bcFirst | .bcLast => true
  | _ => false

theorem tblColor_mem (a : TblAttrsOf Model.Encode.Attr) (f : Field) (hf : Field.isBodyColor f = true) :
    f.get a ∈ tblColorAttrs a := by
  cases f <;> simp [Field.isBodyColor] at hf <;> simp [Field.get, tblColorAttrs]

theorem bodyColor_collected (d : Model.Encode.Doc) (f : Field) (hf : Field.isBodyColor f = true) :
    f.get d.body.attrs ∈ collectedAttrs d := by
  unfold collectedAttrs
  simp only [List.mem_append]
  exact Or.inl (Or.inl (Or.inl (Or.inl (tblColor_mem _ f hf))))

/-- the eight colour attributes of footnote and source are collected -/
theorem footColor_collected (d : Model.Encode.Doc) (ft : Foot) (hft : d.footnote = some ft ∨ d.source = some ft)
    (f : Field) (hf : Field.isBodyColor f = true) : f.get ft.attrs ∈ collectedAttrs d := by
  unfold collectedAttrs
  simp only [List.mem_append, List.mem_flatMap, List.mem_filterMap, List.mem_cons, List.not_mem_nil, or_false, id]
  rcases hft with h | h
  · exact Or.inl (Or.inl (Or.inr ⟨ft, ⟨_, Or.inl rfl, h⟩, tblColor_mem _ f hf⟩))
  · exact Or.inl (Or.inl (Or.inr ⟨ft, ⟨_, Or.inr rfl, h⟩, tblColor_mem _ f hf⟩))

/-- the eight colour attributes of every column header are collected -/
theorem headerColor_collected (d : Model.Encode.Doc) (h : Header) (hh : some h ∈ d.headers)
    (f : Field) (hf : Field.isBodyColor f = true) : f.get h.attrs ∈ collectedAttrs d := by
  unfold collectedAttrs
  simp only [List.mem_append, List.mem_flatMap, List.mem_filterMap, id]
  exact Or.inr ⟨h, ⟨_, hh, rfl⟩, tblColor_mem _ f hf⟩

theorem bodyColor_notEdge (f : Field) (hf : Field.isBodyColor f = true) : f.isEdge = false := by
  cases f <;> simp [Field.isBodyColor] at hf <;> rfl

/-- every colour name a data cell can read from the page attributes was collected -/
theorem page_read_collected {measure : Measure} {d : Model.Encode.Doc} {pl : Proofs.EncodeLift.Plan}
    (hp : Proofs.EncodeLift.plan measure d = .ok pl) (pg : Model.Layout.PageCtx) (f : Field)
    (hf : Field.isBodyColor f = true) {r j : Nat} {s : String}
    (h : ilocV (f.get (pageAttrs d pl.bodyA pl.p pg).attrs) r j = .ok (.str s)) (hne : s ≠ "") :
    s ∈ usedColors d := by
  obtain ⟨hprep, hA, _, _⟩ := Proofs.EncodeLift.plan_ok hp
  obtain ⟨removed, hrem, _⟩ := Proofs.EncodeLift.prepare_parts hprep
  have hpe := prepare_eq hprep hA hrem
  have h1 := memV_pageAttrs f (bodyColor_notEdge f hf) (ilocV_str_memV h)
  rw [hpe] at h1
  have h2 := memV_processed f _ _ _ h1
  exact collected_read (bodyColor_collected d f hf) (get_mapM hA f) h2 hne

/-! ## rows of column headers, footnote and source -/

/-- the page-dependent attribute edits (`border_top` of the first header, `border_bottom` of a table footnote) leave the
text attributes and the border colours alone -/
def SameColors (A A' : TblAttrsOf MatV) : Prop :=
  A'.toTextAttrsOf = A.toTextAttrsOf ∧ A'.bcLeft = A.bcLeft ∧ A'.bcRight = A.bcRight ∧ A'.bcTop = A.bcTop ∧
    A'.bcBottom = A.bcBottom

theorem sameColors_refl (A : TblAttrsOf MatV) : SameColors A A := ⟨rfl, rfl, rfl, rfl, rfl⟩

/-- a rendered column header is one `encodeRow` at attribute row 0 of the header's own attributes -/
theorem headerInner_row {k : ColorCtx} {d : Model.Encode.Doc} {p : Prep} {isFirst : Bool} {idx : Nat} {hdr : Header}
    {text : List Model.Encode.Str} {es : List Elem} (h : headerInner k d p isFirst idx hdr text = .ok es) :
    ∃ A A' cw e, hdr.attrs.mapM Attr.toNested = .ok A ∧ SameColors A A' ∧ es = [e] ∧
      encodeRow k A' cw 0 (text.map some) = .ok e := by
  unfold headerInner at h
  dsimp only at h
  split at h
  · simp only [throw_bind'] at h; cases h
  · peel h as A hA
    by_cases hs : Model.Widths.sumQ (headerV (Option.map (fun w => Model.Widths.headerDisplayed w p.keep text.length)
        hdr.colRelWidth) text.length) = 0
    · simp only [hs, if_true, throw_bind'] at h; cases h
    · simp only [hs, if_false] at h
      obtain ⟨e, rfl, he⟩ := encodeRows_single h
      refine ⟨A, _, _, e, hA, ?_, rfl, he⟩
      split
      · exact ⟨rfl, rfl, rfl, rfl, rfl⟩
      · exact sameColors_refl A

/-- a footnote / source rendered as table is one `encodeRow` at attribute row 0 of the component's own attributes -/
theorem renderFoot_row {k : ColorCtx} {d : Model.Encode.Doc} {f : Foot} {o : Option String} {es : List Elem}
    (h : renderFoot k d f o = .ok es) (hat : f.asTable = true) :
    ∃ A A' cw e, f.attrs.mapM Attr.toNested = .ok A ∧ SameColors A A' ∧ es = [e] ∧
      encodeRow k A' cw 0 [some (f.text.getD [])] = .ok e := by
  unfold renderFoot at h
  peel h as A hA
  dsimp only at h
  simp only [hat, Bool.not_true, Bool.false_eq_true, if_false] at h
  cases hw : f.colRelWidth with
  | none => rw [hw] at h; exact (throw_ok h).elim
  | some w =>
    rw [hw] at h
    dsimp only at h
    have h := ite_throw_ok h
    obtain ⟨e, rfl, he⟩ := encodeRows_single h
    refine ⟨A, _, _, e, hA, ?_, rfl, he⟩
    cases o with
    | none => exact sameColors_refl A
    | some s =>
      dsimp only
      split
      · exact ⟨rfl, rfl, rfl, rfl, rfl⟩
      · exact sameColors_refl A

/-- a footnote / source rendered as paragraph resolves its single line on the component's own text attributes -/
theorem renderFoot_lines {k : ColorCtx} {d : Model.Encode.Doc} {f : Foot} {o : Option String} {es : List Elem}
    (h : renderFoot k d f o = .ok es) (hat : f.asTable = false) :
    ∃ A ls, f.attrs.mapM Attr.toNested = .ok A ∧
      resolveLines k A.toTextAttrsOf (if (f.text.getD []).isEmpty then [] else [f.text.getD []]) = .ok ls ∧
      es = ls.map fun x => [BlockG.plain [paragraph x.1 x.2]] := by
  unfold renderFoot at h
  peel h as A hA
  dsimp only at h
  simp only [hat, Bool.not_false, if_true] at h
  peel h as ps hps
  cases pure_ok h
  unfold encodeTextParas at hps
  peel hps as ls hls
  cases pure_ok hps
  refine ⟨A, ls, hA, ?_, by rw [List.map_map]; rfl⟩
  cases o with
  | none => exact hls
  | some s =>
    dsimp only at hls
    split at hls <;> exact hls

theorem textAttrs_mapM_fields {α β : Type} {f : α → Except String β} {a : TextAttrsOf α} {A : TextAttrsOf β}
    (h : a.mapM f = .ok A) : f a.font = .ok A.font ∧ f a.color = .ok A.color ∧ f a.bg = .ok A.bg := by
  unfold TextAttrsOf.mapM at h
  peel h as x1 h1
  peel h as x2 h2
  peel h as x3 h3
  peel h as x4 h4
  peel h as x5 h5
  peel h as x6 h6
  peel h as x7 h7
  peel h as x8 h8
  peel h as x9 h9
  peel h as x10 h10
  peel h as x11 h11
  peel h as x12 h12
  peel h as x13 h13
  peel h as x14 h14
  cases pure_ok h
  exact ⟨h1, h4, h5⟩

/-- the column whose attributes a spanning heading of level `level` reads -/
def spanColumn (d : Model.Encode.Doc) (level : Nat) : Nat :=
  let ci := d.cols.idxOf ((d.body.pageByL)[level]?.getD [])
  if ci < d.cols.length then ci else 0

/-- what `encode_spanning_row` reads of a body attribute: its default when the body holds nothing, the value at row 0 of
the page_by column otherwise -/
def spanRead (d : Model.Encode.Doc) (level : Nat) (a : MatV) (dflt : Val) : Except String Val :=
  match a with
  | none => .ok dflt
  | some _ => ilocV a 0 (spanColumn d level)

/-- a spanning group heading: one cell; its text colour / background references are those of the body's values at row 0
of the page_by column (none when the body holds no colour); its four borders print no `\brdrcf` -/
theorem spanningRow_refs {k : ColorCtx} {d : Model.Encode.Doc} {bodyA : TblAttrsOf MatV} {level : Nat} {text : String}
    {e : Elem} (h : spanningRow k d bodyA level text = .ok e) :
    ∃ fmt cf vcolor vbg, e = rowElem fmt ∧ fmt.cells = [cf] ∧
      spanRead d level bodyA.color (.str "") = .ok vcolor ∧ cf.text.color = colorRefV k vcolor ∧
      spanRead d level bodyA.bg (.str "") = .ok vbg ∧ cf.text.bg = colorRefV k vbg ∧
      (∀ o ∈ [cf.left, cf.top, cf.right, cf.bottom], ∀ b, o = some b → b.color = none) := by
  unfold spanningRow at h
  dsimp only at h
  peel h as x1 h1
  peel h as x2 h2
  peel h as x3 h3
  peel h as x4 h4
  peel h as x5 h5
  peel h as x6 h6
  peel h as x7 h7
  peel h as x8 h8
  peel h as x9 h9
  peel h as x10 h10
  peel h as x11 h11
  peel h as x12 h12
  peel h as x13 h13
  peel h as x14 h14
  peel h as x hx
  peel h as vjv hvjv
  peel h as vj hvj
  peel h as jv hjv
  peel h as just hjust
  peel h as hv hhv
  peel h as hh hhh
  peel h as bl hbl
  peel h as bt hbt
  peel h as br hbr
  peel h as bb hbb
  cases pure_ok h
  obtain ⟨font, _, _, f3, f4, _⟩ := resolveText_refs (show resolveText k _ = .ok (x.1, x.2) from hx)
  have side : ∀ {g : Except String Val} {o : Option BorderFmt},
      (do let v ← g; some <$> resolveBorder k v Val.null Val.null) = .ok o → ∀ b, o = some b → b.color = none := by
    intro g o hs b hb
    peel hs as v hv
    obtain ⟨b', hb', rfl⟩ := map_ok hs
    cases hb
    rw [resolveBorder_ref hb']
    rfl
  refine ⟨_, _, x4, x5, rfl, rfl, h4, f3, h5, f4, ?_⟩
  intro o ho b hb
  simp only [List.mem_cons, List.not_mem_nil, or_false] at ho
  rcases ho with rfl | rfl | rfl | rfl
  · exact side hbl b hb
  · exact side hbt b hb
  · exact side hbr b hb
  · exact side hbb b hb

/-! ## the head of the document -/

/-- the text of the dense colour table printed for the rows `rows` (`""` when there is none) -/
def tableText (rows : List ColorRow) : String :=
  match rows with
  | [] => ""
  | _ => "{\\colortbl;" ++ joinCodes rows ++ "\n}"

theorem generateColorTable_ok {used : List String} {s : String}
    (h : generateColorTable colorTable (some used) = .ok s) :
    ∃ rows, tableRows colorTable used = .ok rows ∧ s = tableText rows := by
  unfold generateColorTable at h
  simp only at h
  split at h
  · next hn =>
    have hemp : filtered used = [] := by
      simp only [needsColorTable, Bool.not_not] at hn
      exact List.isEmpty_iff.mp hn
    refine ⟨[], ?_, by cases h; rfl⟩
    simp [tableRows, validateList, hemp, validateFrom, sortRows]
  · split at h
    · cases h
    · next hr => cases h; exact ⟨[], hr, rfl⟩
    · next rows hne hr =>
      cases h
      refine ⟨rows, hr, ?_⟩
      cases rows with
      | nil => exact (hne rfl).elim
      | cons r rs => rfl

/-- the head of an accepted document: the font table and the colour table of the collected colours, then the page
header / footer and the page settings -/
theorem encode_head {measure : Measure} {d : Model.Encode.Doc} {g : DocG} (h : encode measure d = .ok g) :
    ∃ fontTbl colorTbl hdr ftr ps,
      fontTableText fontTable = .ok fontTbl ∧
      generateColorTable colorTable (some (usedColors d)) = .ok colorTbl ∧
      pageHF (mkColorCtx d) "header" d.pageHeader = .ok hdr ∧ pageHF (mkColorCtx d) "footer" d.pageFooter = .ok ftr ∧
      pageSettings d.page = .ok ps ∧
      g.head = [cw0 "ansi", Node.nl, cwi "deff" 0, cwi "deflang" 1033, Node.nl] ++ textNodes fontTbl.toList ++
        [Node.nl] ++ textNodes colorTbl.toList ++ [Node.nl, Node.nl, Node.nl] ++ hdr ++ [Node.nl] ++ ftr ++
        [Node.nl] ++ ps ++ [Node.nl] := by
  unfold encode at h
  obtain ⟨x, hx, rfl⟩ := map_ok h
  unfold encodeWith at hx
  dsimp only at hx
  peel hx as y hy
  simp only [pure_bind, throw_bind'] at hx
  split at hx
  · next fontTbl hfont =>
    split at hx
    · next colorTbl hcolor =>
      peel hx as hdr hhdr
      peel hx as ftr hftr
      peel hx as ps hps
      cases pure_ok hx
      exact ⟨fontTbl, colorTbl, hdr, ftr, ps, hfont, hcolor, hhdr, hftr, hps, rfl⟩
    · cases hx
  · cases hx

end Proofs.EncodeColor
