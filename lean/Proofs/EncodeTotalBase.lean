import Model.Encode
import Model.EncodeAccepted
import Proofs.Encode
import Proofs.EncodeAttrs
/-!
Totality of the encoder model, part 1: the `Except` monad in the "succeeds" direction, the field-wise reading of the
record predicates of `Model/EncodeAccepted.lean`, `_to_nested_list` and `BroadcastValue.iloc` on accepted attributes.
-/
namespace Proofs.EncodeTotal
open Model.Encode Model.EncodeAccepted Model.Broadcast Generated
open Proofs.Encode (MemV)
open Proofs.EncodeAttrs (Field GoodV)

/-! ## `Except` -/

@[simp] theorem ok_bind {ε α β : Type} (a : α) (f : α → Except ε β) : (Except.ok a >>= f) = f a := rfl
@[simp] theorem err_bind {ε α β : Type} (e : ε) (f : α → Except ε β) : (Except.error e >>= f) = Except.error e := rfl
@[simp] theorem pure_eq_ok {ε α : Type} (a : α) : (pure a : Except ε α) = Except.ok a := rfl
@[simp] theorem map_ok_eq {ε α β : Type} (a : α) (f : α → β) : (f <$> (Except.ok a : Except ε α)) = Except.ok (f a) := rfl

theorem mapM_total {ε α β : Type} {f : α → Except ε β} : ∀ (l : List α), (∀ x ∈ l, ∃ y, f x = .ok y) →
    ∃ r, l.mapM f = .ok r
  | [], _ => ⟨[], by simp⟩
  | x :: l, h => by
    obtain ⟨y, hy⟩ := h x (by simp)
    obtain ⟨r, hr⟩ := mapM_total l (fun z hz => h z (by simp [hz]))
    exact ⟨y :: r, by rw [List.mapM_cons, hy, hr]; rfl⟩

/-- `mapM` over an indexed list: the statement about positions -/
theorem mapM_zipIdx_total {ε α β : Type} {f : α × Nat → Except ε β} (l : List α) (k : Nat)
    (h : ∀ i x, l[i]? = some x → ∃ y, f (x, i + k) = .ok y) : ∃ r, (l.zipIdx k).mapM f = .ok r := by
  apply mapM_total
  intro x hx
  obtain ⟨a, i⟩ := x
  have := List.mem_zipIdx hx
  obtain ⟨h1, h2, h3⟩ := this
  have hi : l[i - k]? = some a := by
    rw [h3]; exact List.getElem?_eq_getElem _
  have := h (i - k) a hi
  rwa [show i - k + k = i by omega] at this

/-! ## records field by field -/

/-- the 14 attribute matrices of a text component -/
inductive TField
  | font | format | size | color | bg | just | indFirst | indLeft | indRight | space | spBefore | spAfter | hyph
  | convert
  deriving DecidableEq, Repr

def TField.get {α : Type} : TField → TextAttrsOf α → α
  | .font, a => a.font
  | .format, a => a.format
  | .size, a => a.size
  | .color, a => a.color
  | .bg, a => a.bg
  | .just, a => a.just
  | .indFirst, a => a.indFirst
  | .indLeft, a => a.indLeft
  | .indRight, a => a.indRight
  | .space, a => a.space
  | .spBefore, a => a.spBefore
  | .spAfter, a => a.spAfter
  | .hyph, a => a.hyph
  | .convert, a => a.convert

def TField.toField : TField → Field
  | .font => .font
  | .format => .format
  | .size => .size
  | .color => .color
  | .bg => .bg
  | .just => .just
  | .indFirst => .indFirst
  | .indLeft => .indLeft
  | .indRight => .indRight
  | .space => .space
  | .spBefore => .spBefore
  | .spAfter => .spAfter
  | .hyph => .hyph
  | .convert => .convert

theorem toField_get {α : Type} (f : TField) (A : TblAttrsOf α) : f.toField.get A = f.get A.toTextAttrsOf := by
  cases f <;> rfl

theorem text_zipAll {σ α : Type} {p : σ → α → Bool} {s : TextAttrsOf σ} {a : TextAttrsOf α}
    (h : TextAttrsOf.zipAll p s a = true) (f : TField) : p (f.get s) (f.get a) = true := by
  simp only [TextAttrsOf.zipAll, Bool.and_eq_true] at h
  cases f <;> simp only [TField.get] <;> grind

theorem tbl_zipAll {σ α : Type} {p : σ → α → Bool} {s : TblAttrsOf σ} {a : TblAttrsOf α}
    (h : TblAttrsOf.zipAll p s a = true) (f : Field) : p (f.get s) (f.get a) = true := by
  simp only [TblAttrsOf.zipAll, TextAttrsOf.zipAll, Bool.and_eq_true] at h
  cases f <;> simp only [Field.get] <;> grind

/-- `mapM` of a text record succeeds when it succeeds on every field -/
theorem textMapM_total {α β : Type} {g : α → Except String β} {a : TextAttrsOf α}
    (h : ∀ f : TField, ∃ y, g (f.get a) = .ok y) : ∃ B, a.mapM g = .ok B ∧ ∀ f : TField, g (f.get a) = .ok (f.get B) := by
  obtain ⟨y1, h1⟩ := h .font
  obtain ⟨y2, h2⟩ := h .format
  obtain ⟨y3, h3⟩ := h .size
  obtain ⟨y4, h4⟩ := h .color
  obtain ⟨y5, h5⟩ := h .bg
  obtain ⟨y6, h6⟩ := h .just
  obtain ⟨y7, h7⟩ := h .indFirst
  obtain ⟨y8, h8⟩ := h .indLeft
  obtain ⟨y9, h9⟩ := h .indRight
  obtain ⟨y10, h10⟩ := h .space
  obtain ⟨y11, h11⟩ := h .spBefore
  obtain ⟨y12, h12⟩ := h .spAfter
  obtain ⟨y13, h13⟩ := h .hyph
  obtain ⟨y14, h14⟩ := h .convert
  simp only [TField.get] at h1 h2 h3 h4 h5 h6 h7 h8 h9 h10 h11 h12 h13 h14
  refine ⟨{ font := y1, format := y2, size := y3, color := y4, bg := y5, just := y6, indFirst := y7, indLeft := y8,
            indRight := y9, space := y10, spBefore := y11, spAfter := y12, hyph := y13, convert := y14 }, ?_, ?_⟩
  · simp only [TextAttrsOf.mapM, h1, h2, h3, h4, h5, h6, h7, h8, h9, h10, h11, h12, h13, h14, ok_bind, pure_eq_ok]
  · intro f; cases f <;> simp only [TField.get] <;> assumption

theorem tblMapM_total {α β : Type} {g : α → Except String β} {a : TblAttrsOf α}
    (h : ∀ f : Field, ∃ y, g (f.get a) = .ok y) : ∃ B, a.mapM g = .ok B ∧ ∀ f : Field, g (f.get a) = .ok (f.get B) := by
  obtain ⟨T, hT, _⟩ := textMapM_total (g := g) (a := a.toTextAttrsOf)
    (fun f => by rw [← toField_get]; exact h f.toField)
  obtain ⟨x1, h1⟩ := h .bLeft
  obtain ⟨x2, h2⟩ := h .bRight
  obtain ⟨x3, h3⟩ := h .bTop
  obtain ⟨x4, h4⟩ := h .bBottom
  obtain ⟨x5, h5⟩ := h .bFirst
  obtain ⟨x6, h6⟩ := h .bLast
  obtain ⟨x7, h7⟩ := h .bcLeft
  obtain ⟨x8, h8⟩ := h .bcRight
  obtain ⟨x9, h9⟩ := h .bcTop
  obtain ⟨x10, h10⟩ := h .bcBottom
  obtain ⟨x11, h11⟩ := h .bcFirst
  obtain ⟨x12, h12⟩ := h .bcLast
  obtain ⟨x13, h13⟩ := h .bWidth
  obtain ⟨x14, h14⟩ := h .cellHeight
  obtain ⟨x15, h15⟩ := h .cellJust
  obtain ⟨x16, h16⟩ := h .cellVJust
  obtain ⟨x17, h17⟩ := h .cellNrow
  simp only [Field.get] at h1 h2 h3 h4 h5 h6 h7 h8 h9 h10 h11 h12 h13 h14 h15 h16 h17
  have hB : a.mapM g = .ok
      { toTextAttrsOf := T, bLeft := x1, bRight := x2, bTop := x3, bBottom := x4, bFirst := x5,
        bLast := x6, bcLeft := x7, bcRight := x8, bcTop := x9, bcBottom := x10, bcFirst := x11, bcLast := x12,
        bWidth := x13, cellHeight := x14, cellJust := x15, cellVJust := x16, cellNrow := x17 } := by
    simp only [TblAttrsOf.mapM, hT, h1, h2, h3, h4, h5, h6, h7, h8, h9, h10, h11, h12, h13, h14, h15, h16, h17,
      ok_bind, pure_eq_ok]
  exact ⟨_, hB, fun f => Proofs.EncodeAttrs.get_mapM hB f⟩

/-! ## a matrix the encoder can read for a field -/

/-- the matrix of one field after `_to_nested_list`: `iloc` is total on it, it is present when the encoder needs a
value, and it holds admissible scalars only -/
structure FieldGood (s : Spec) (M : MatV) : Prop where
  good : GoodV M
  req : s.req = true → M ≠ none
  vals : ∀ v, MemV M v → s.ok v = true

def TblGood (A : TblAttrsOf MatV) : Prop := ∀ f : Field, FieldGood (f.get tblSpec) (f.get A)
def TextGood (a : TextAttrsOf MatV) : Prop := ∀ f : TField, FieldGood (f.get textSpec) (f.get a)

theorem TblGood.text {A : TblAttrsOf MatV} (h : TblGood A) : TextGood A.toTextAttrsOf := by
  intro f
  have := h f.toField
  rw [toField_get, toField_get] at this
  have hs : f.get tblSpec.toTextAttrsOf = f.get textSpec := by cases f <;> rfl
  rwa [hs] at this

theorem shapeOk_eq (a : Attr) : Model.EncodeAccepted.shapeOk a = Proofs.EncodeAttrs.shapeOk a := by
  cases a <;> rfl

theorem ok_scalar {ok : Val → Bool} : ∀ {v : Val}, (match v with
    | .null => true
    | v => ok v) = true → v = .null ∨ ok v = true
  | .null, _ => Or.inl rfl
  | .bool _, h => Or.inr h
  | .int _, h => Or.inr h
  | .float _, h => Or.inr h
  | .str _, h => Or.inr h

/-- the okness predicates reject `None` -/
def NoNull (ok : Val → Bool) : Prop := ok .null = false

theorem valsOk_scalar {ok : Val → Bool} {v : Val} (h : valsOk ok (.scalar v) = true) : v = .null ∨ ok v = true := by
  cases v <;> simp only [valsOk] at h <;> first | exact Or.inl rfl | exact Or.inr h

/-- `_to_nested_list` succeeds on an accepted attribute of a quantifier shape, and the matrix is readable -/
theorem toNested_total {s : Spec} {a : Attr} (hn : s.ok .null = false) (ha : accAttr s a = true)
    (hs : shpAttr s a = true) : ∃ M, a.toNested = .ok M ∧ FieldGood s M := by
  simp only [accAttr, shpAttr, Bool.and_eq_true] at ha hs
  obtain ⟨hv, _⟩ := ha
  obtain ⟨hshape, hreq⟩ := hs
  have hgood : ∀ M, a.toNested = .ok M → GoodV M := fun M hM =>
    Proofs.EncodeAttrs.toNested_goodV hM (by rw [← shapeOk_eq]; exact hshape)
  have hvals : ∀ M, a.toNested = .ok M → ∀ v, MemV M v → s.ok v = true := by
    intro M hM v ⟨m, hm, row, hrow, hvr⟩
    subst hm
    cases a with
    | null => simp [Attr.toNested] at hM
    | scalar w =>
      simp only [Attr.toNested] at hM
      split at hM
      · cases hM
        simp only [List.mem_singleton] at hrow
        subst hrow
        simp only [List.mem_singleton] at hvr
        subst hvr
        rcases valsOk_scalar hv with h0 | h0
        · subst h0; simp [Val.isScalar] at *
        · exact h0
      · cases hM
    | list xs =>
      simp only [Attr.toNested] at hM
      split at hM
      · cases hM
        simp only [List.mem_singleton] at hrow
        subst hrow
        exact List.all_eq_true.mp hv v hvr
      · split at hM
        · cases hM; cases hrow
        · cases hM
    | tuple xs =>
      simp only [Attr.toNested] at hM
      cases hM
      obtain ⟨x, hx, rfl⟩ := List.mem_map.mp hrow
      simp only [List.mem_singleton] at hvr
      subst hvr
      exact List.all_eq_true.mp hv v hx
    | nested mm =>
      simp only [Attr.toNested] at hM
      cases hM
      exact List.all_eq_true.mp (List.all_eq_true.mp hv row hrow) v hvr
  have hex : ∃ M, a.toNested = .ok M := by
    cases a with
    | null => exact ⟨none, rfl⟩
    | scalar w => simp only [Attr.toNested]; split <;> exact ⟨_, rfl⟩
    | list xs =>
      simp only [Attr.toNested]
      split
      · exact ⟨_, rfl⟩
      · next hany =>
        exfalso
        simp only [Model.EncodeAccepted.shapeOk, Bool.not_eq_true', List.isEmpty_eq_false_iff] at hshape
        cases xs with
        | nil => exact hshape rfl
        | cons x xs =>
          apply hany
          simp only [List.any_cons, Bool.or_eq_true]
          left
          have hx : s.ok x = true := List.all_eq_true.mp hv x (by simp)
          cases x with
          | null => rw [hn] at hx; cases hx
          | _ => rfl
    | tuple xs => exact ⟨_, rfl⟩
    | nested mm => exact ⟨_, rfl⟩
  obtain ⟨M, hM⟩ := hex
  refine ⟨M, hM, hgood M hM, ?_, hvals M hM⟩
  intro hr hnone
  subst hnone
  rw [hr] at hreq
  simp only [Bool.not_true, Bool.false_or, Bool.not_eq_true'] at hreq
  cases a with
  | null => simp [Attr.isNone] at hreq
  | scalar w =>
    cases w with
    | null => simp [Attr.isNone] at hreq
    | _ => simp [Attr.toNested, Val.isScalar] at hM
  | list xs =>
    simp only [Attr.toNested] at hM
    split at hM
    · cases hM
    · split at hM <;> cases hM
  | tuple xs => simp [Attr.toNested] at hM
  | nested mm => simp [Attr.toNested] at hM

theorem tblSpec_noNull (f : Field) : (f.get tblSpec).ok .null = false := by cases f <;> rfl
theorem textSpec_noNull (f : TField) : (f.get textSpec).ok .null = false := by cases f <;> rfl

/-- a table component's attributes: `mapM Attr.toNested` succeeds and every matrix is readable -/
theorem tblNested_total {a : TblAttrsOf Attr} (ha : TblAttrsOf.zipAll accAttr tblSpec a = true)
    (hs : TblAttrsOf.zipAll shpAttr tblSpec a = true) : ∃ A, a.mapM Attr.toNested = .ok A ∧ TblGood A := by
  have hf : ∀ f : Field, ∃ M, (f.get a).toNested = .ok M ∧ FieldGood (f.get tblSpec) M := fun f =>
    toNested_total (tblSpec_noNull f) (tbl_zipAll ha f) (tbl_zipAll hs f)
  obtain ⟨A, hA, hget⟩ := tblMapM_total (g := Attr.toNested) (a := a) (fun f => ⟨_, (hf f).choose_spec.1⟩)
  refine ⟨A, hA, ?_⟩
  intro f
  obtain ⟨M, hM, hg⟩ := hf f
  rw [hget f] at hM
  cases hM
  exact hg

theorem textNested_total {a : TextAttrsOf Attr} (ha : TextAttrsOf.zipAll accAttr textSpec a = true)
    (hs : TextAttrsOf.zipAll shpAttr textSpec a = true) : ∃ A, a.mapM Attr.toNested = .ok A ∧ TextGood A := by
  have hf : ∀ f : TField, ∃ M, (f.get a).toNested = .ok M ∧ FieldGood (f.get textSpec) M := fun f =>
    toNested_total (textSpec_noNull f) (text_zipAll ha f) (text_zipAll hs f)
  obtain ⟨A, hA, hget⟩ := textMapM_total (g := Attr.toNested) (a := a) (fun f => ⟨_, (hf f).choose_spec.1⟩)
  refine ⟨A, hA, ?_⟩
  intro f
  obtain ⟨M, hM, hg⟩ := hf f
  rw [hget f] at hM
  cases hM
  exact hg

/-! ## `BroadcastValue.iloc` -/

/-- reading a readable matrix: a value of the field, or `None` when the (optional) attribute is absent -/
theorem ilocV_total {s : Spec} {M : MatV} (h : FieldGood s M) (r c : Nat) :
    ∃ v, ilocV M r c = .ok v ∧ ((s.ok v = true) ∨ (v = .null ∧ M = none)) := by
  cases M with
  | none => exact ⟨.null, rfl, Or.inr ⟨rfl, rfl⟩⟩
  | some m =>
    have hg := h.good m rfl
    rw [Proofs.EncodeAttrs.ilocV_good hg]
    have hsome := Proofs.Broadcast.Good.iloc_isSome hg r c
    cases hi : m.iloc r c with
    | none => rw [hi] at hsome; cases hsome
    | some v =>
      refine ⟨v, rfl, Or.inl ?_⟩
      apply h.vals
      obtain ⟨row, hrow, hv⟩ := Proofs.EncodeAux.iloc_mem m r c v hi
      exact ⟨m, rfl, row, hrow, hv⟩

/-- … a value of the field when the encoder needs one -/
theorem ilocV_req {s : Spec} {M : MatV} (h : FieldGood s M) (hr : s.req = true) (r c : Nat) :
    ∃ v, ilocV M r c = .ok v ∧ s.ok v = true := by
  obtain ⟨v, hv, h1 | ⟨_, h2⟩⟩ := ilocV_total h r c
  · exact ⟨v, hv, h1⟩
  · exact absurd h2 (h.req hr)

end Proofs.EncodeTotal
