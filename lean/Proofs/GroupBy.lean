import Model.GroupBy
import Model.GroupBySpec
/-! Helper lemmas for C13 (`Model.GroupBy`). Core Lean only. -/
namespace Proofs.GroupBy
open Model.GroupBy

/-- all columns have the frame's height -/
def WF (df : Frame) : Prop := ∀ p ∈ df, p.2.length = height df

/-! ## frames -/

theorem getCol_cons (n : Str) (c : Col) (f : Frame) (m : Str) :
    getCol ((n, c) :: f) m = if m = n then c else getCol f m := by
  unfold getCol
  by_cases h : m = n
  · subst h; simp [List.lookup]
  · have : (m == n) = false := by simpa using h
    simp [List.lookup, this, h]

theorem getCol_nil (m : Str) : getCol [] m = [] := by simp [getCol]

theorem mem_names_cons (n : Str) (c : Col) (f : Frame) (m : Str) :
    m ∈ names ((n, c) :: f) ↔ m = n ∨ m ∈ names f := by simp [names]

theorem getCol_map_set (f : Frame) (name : Str) (v : Col) (m : Str) :
    getCol (f.map (fun p => if p.1 = name then (p.1, v) else p)) m =
      if m = name ∧ m ∈ names f then v else getCol f m := by
  induction f with
  | nil => simp [getCol_nil, names]
  | cons p f ih =>
    obtain ⟨n, c⟩ := p
    simp only [List.map_cons]
    by_cases hn : n = name
    · subst hn
      simp only [if_true, getCol_cons, ih, mem_names_cons]
      by_cases hm : m = n <;> simp [hm]
    · simp only [hn, if_false, getCol_cons, ih, mem_names_cons]
      by_cases hm : m = n
      · subst hm; simp [hn]
      · simp [hm]

theorem getCol_append_single (f : Frame) (name : Str) (v : Col) (m : Str) :
    getCol (f ++ [(name, v)]) m = if m ∈ names f then getCol f m else if m = name then v else [] := by
  induction f with
  | nil => simp [getCol_cons, getCol_nil, names]
  | cons p f ih =>
    obtain ⟨n, c⟩ := p
    simp only [List.cons_append, getCol_cons, ih, mem_names_cons]
    by_cases hm : m = n <;> simp [hm]

theorem getCol_setCol_same (f : Frame) (name : Str) (v : Col) :
    getCol (setCol f name v) name = v := by
  unfold setCol
  split
  · rename_i h; simp [getCol_map_set, h]
  · rename_i h; simp [getCol_append_single, h]

theorem getCol_setCol_other (f : Frame) (name : Str) (v : Col) (m : Str) (h : m ≠ name) :
    getCol (setCol f name v) m = getCol f m := by
  unfold setCol
  split
  · simp [getCol_map_set, h]
  · rw [getCol_append_single]
    by_cases hm : m ∈ names f
    · simp [hm]
    · simp only [hm, h, if_false]
      -- a missing column reads as []
      unfold getCol
      have : f.lookup m = none := by
        rw [List.lookup_eq_none_iff]
        intro p hp
        have : m ≠ p.1 := fun e => hm (by rw [e]; exact List.mem_map_of_mem hp)
        simpa using this
      simp [this]

theorem getCol_setCol (f : Frame) (name : Str) (v : Col) (m : Str) :
    getCol (setCol f name v) m = if m = name then v else getCol f m := by
  by_cases h : m = name
  · subst h; simp [getCol_setCol_same]
  · simp [h, getCol_setCol_other]

theorem names_setCol (f : Frame) (name : Str) (v : Col) (h : name ∈ names f) :
    names (setCol f name v) = names f := by
  unfold setCol
  rw [if_pos h]
  simp only [names, List.map_map]
  apply List.map_congr_left
  intro p _
  simp only [Function.comp]
  split <;> rfl

theorem height_setCol (f : Frame) (name : Str) (v : Col) (h : name ∈ names f)
    (hv : v.length = height f) : height (setCol f name v) = height f := by
  unfold setCol
  rw [if_pos h]
  cases f with
  | nil => simp [names] at h
  | cons p f =>
    simp only [List.map_cons, height]
    split <;> simp [hv, height]

theorem WF_setCol (f : Frame) (name : Str) (v : Col) (h : name ∈ names f)
    (hv : v.length = height f) (wf : WF f) : WF (setCol f name v) := by
  intro p hp
  rw [height_setCol f name v h hv]
  unfold setCol at hp
  rw [if_pos h] at hp
  simp only [List.mem_map] at hp
  obtain ⟨q, hq, rfl⟩ := hp
  split
  · exact hv
  · exact wf q hq

theorem length_getCol (f : Frame) (wf : WF f) (m : Str) (h : m ∈ names f) :
    (getCol f m).length = height f := by
  induction f with
  | nil => simp [names] at h
  | cons p f ih =>
    obtain ⟨n, c⟩ := p
    rw [getCol_cons]
    by_cases hm : m = n
    · simp [hm, height]
    · simp only [hm, if_false]
      have hmem : m ∈ names f := by
        rcases (mem_names_cons n c f m).mp h with h | h
        · exact absurd h hm
        · exact h
      -- the tail is WF for its own height, which equals c.length
      cases f with
      | nil => simp [names] at hmem
      | cons q f =>
        have hq : q.2.length = height ((n, c) :: q :: f) := wf q (by simp)
        have wf' : WF (q :: f) := by
          intro r hr
          have := wf r (List.mem_cons_of_mem _ hr)
          simp only [height] at this hq ⊢
          omega
        rw [ih wf' hmem]
        simp only [height] at hq ⊢
        exact hq

/-! ## pointwise view of the polars expressions -/

theorem cellAt_of_lt (c : Col) (i : Nat) (h : i < c.length) : c[i]? = some (cellAt c i) := by
  simp [cellAt, List.getElem?_eq_getElem h]

theorem cellAt_of_ge (c : Col) (i : Nat) (h : c.length ≤ i) : cellAt c i = none := by
  simp [cellAt, List.getElem?_eq_none h]

/-- the value a row is compared with: the previous row's, null for row 0 -/
def prevCell (c : Col) (i : Nat) : Cell := if i = 0 then none else cellAt c (i - 1)

theorem getElem?_shift1 (c : Col) (i : Nat) (h : i < c.length) :
    (shift1 c)[i]? = some (prevCell c i) := by
  unfold shift1 prevCell
  rw [List.getElem?_take, if_pos h]
  cases i with
  | zero => simp
  | succ k =>
    simp only [List.getElem?_cons_succ, Nat.add_sub_cancel]
    rw [cellAt_of_lt c k (by omega)]
    simp

theorem getElem?_changed (c : Col) (i : Nat) (h : i < c.length) :
    (changed c)[i]? = some (decide (cellAt c i ≠ prevCell c i)) := by
  unfold changed neMissing
  rw [List.getElem?_zipWith, cellAt_of_lt c i h, getElem?_shift1 c i h]

theorem length_changed (c : Col) : (changed c).length = c.length := by
  simp [changed, neMissing, shift1, List.length_zipWith, List.length_take]

theorem getElem?_row0 (n i : Nat) (h : i < n) : (row0 n)[i]? = some (i == 0) := by
  simp [row0, List.getElem?_map, List.getElem?_range h]

theorem getElem?_orMask (a b : List Bool) (i : Nat) (x y : Bool) (ha : a[i]? = some x)
    (hb : b[i]? = some y) : (orMask a b)[i]? = some (x || y) := by
  simp [orMask, List.getElem?_zipWith, ha, hb]

theorem getElem?_foldl_orMask (ms : List (List Bool)) (i : Nat) :
    ∀ (m0 : List Bool) (b0 : Bool), m0[i]? = some b0 → (∀ m ∈ ms, ∃ b, m[i]? = some b) →
      (ms.foldl orMask m0)[i]? = some (b0 || ms.any (fun m => (m[i]?).getD false)) := by
  induction ms with
  | nil => intro m0 b0 h0 _; simp [h0]
  | cons m ms ih =>
    intro m0 b0 h0 hall
    obtain ⟨b, hb⟩ := hall m (by simp)
    simp only [List.foldl_cons]
    rw [ih (orMask m0 m) (b0 || b) (getElem?_orMask m0 m i b0 b h0 hb)
      (fun m' hm' => hall m' (List.mem_cons_of_mem _ hm'))]
    simp [hb, Bool.or_assoc]

theorem cellAt_whenThen (m : List Bool) (c : Col) (i : Nat) (b : Bool) (hm : m[i]? = some b) :
    cellAt (whenThen m c) i = if b then cellAt c i else none := by
  unfold whenThen cellAt
  rw [List.getElem?_zipWith, hm]
  cases hc : c[i]? with
  | none => simp
  | some v => cases b <;> simp

theorem length_whenThen (m : List Bool) (c : Col) : (whenThen m c).length = min m.length c.length := by
  simp [whenThen, List.length_zipWith]

theorem length_row0 (n : Nat) : (row0 n).length = n := by simp [row0]

theorem length_orMask (a b : List Bool) : (orMask a b).length = min a.length b.length := by
  simp [orMask, List.length_zipWith]

theorem length_foldl_orMask (ms : List (List Bool)) (n : Nat) :
    ∀ m0 : List Bool, m0.length = n → (∀ m ∈ ms, m.length = n) → (ms.foldl orMask m0).length = n := by
  induction ms with
  | nil => intro m0 h _; simpa using h
  | cons m ms ih =>
    intro m0 h hall
    simp only [List.foldl_cons]
    apply ih
    · rw [length_orMask, h, hall m (by simp)]; simp
    · intro m' hm'; exact hall m' (List.mem_cons_of_mem _ hm')

theorem any_congr_mem {α} (l : List α) (f g : α → Bool) (h : ∀ x ∈ l, f x = g x) :
    l.any f = l.any g := by
  induction l with
  | nil => rfl
  | cons a l ih =>
    simp only [List.any_cons]
    rw [h a (by simp), ih (fun x hx => h x (List.mem_cons_of_mem _ hx))]

theorem any_congr_mem' {α} (l : List α) (f g : α → Bool) (h : ∀ x ∈ l, f x = g x) :
    l.all f = l.all g := by
  induction l with
  | nil => rfl
  | cons a l ih =>
    simp only [List.all_cons]
    rw [h a (by simp), ih (fun x hx => h x (List.mem_cons_of_mem _ hx))]

/-- a level's value changed against the previous row (row 0 compares with null) -/
def chg (df : Frame) (h : Str) (i : Nat) : Bool :=
  decide (cellAt (getCol df h) i ≠ prevCell (getCol df h) i)

theorem getElem?_showMask (df : Frame) (wf : WF df) (higher : List Str) (column : Str)
    (hh : ∀ h ∈ higher, h ∈ names df) (hc : column ∈ names df) (i : Nat) (hi : i < height df) :
    (showMask df higher column)[i]? =
      some (i == 0 || (higher ++ [column]).any (fun h => chg df h i)) := by
  unfold showMask
  rw [getElem?_foldl_orMask _ i (row0 (height df)) (i == 0) (getElem?_row0 _ _ hi)]
  · congr 2
    rw [← List.map_singleton (f := fun h => changed (getCol df h)), ← List.map_append, List.any_map]
    apply any_congr_mem
    intro h hmem
    have hn : h ∈ names df := by
      rcases List.mem_append.mp hmem with hm | hm
      · exact hh h hm
      · simp at hm; subst hm; exact hc
    simp only [Function.comp]
    rw [getElem?_changed _ i (by rw [length_getCol df wf h hn]; exact hi)]
    simp [chg]
  · intro m hm
    rw [← List.map_singleton (f := fun h => changed (getCol df h)), ← List.map_append] at hm
    obtain ⟨h, hmem, rfl⟩ := List.mem_map.mp hm
    have hn : h ∈ names df := by
      rcases List.mem_append.mp hmem with hm | hm
      · exact hh h hm
      · simp at hm; subst hm; exact hc
    exact ⟨_, getElem?_changed _ i (by rw [length_getCol df wf h hn]; exact hi)⟩

theorem length_showMask (df : Frame) (wf : WF df) (higher : List Str) (column : Str)
    (hh : ∀ h ∈ higher, h ∈ names df) (hc : column ∈ names df) :
    (showMask df higher column).length = height df := by
  unfold showMask
  apply length_foldl_orMask _ _ _ (length_row0 _)
  intro m hm
  rw [← List.map_singleton (f := fun h => changed (getCol df h)), ← List.map_append] at hm
  obtain ⟨h, hmem, rfl⟩ := List.mem_map.mp hm
  have hn : h ∈ names df := by
    rcases List.mem_append.mp hmem with hm | hm
    · exact hh h hm
    · simp at hm; subst hm; exact hc
  rw [length_changed, length_getCol df wf h hn]

/-! ## the loop over levels as a sequence of column updates -/

def applyUps (f : Frame) (ups : List (Str × Col)) : Frame := ups.foldl (fun r p => setCol r p.1 p.2) f

theorem suppressHier_eq (df : Frame) (gb : List Str) :
    suppressHier df gb = applyUps df (gb.zipIdx.map (fun p => (p.1, levelValues df gb p.2 p.1))) := by
  simp [suppressHier, applyUps, List.foldl_map]

theorem names_applyUps (ups : List (Str × Col)) : ∀ (f : Frame), (∀ p ∈ ups, p.1 ∈ names f) →
    names (applyUps f ups) = names f := by
  induction ups with
  | nil => intro f _; rfl
  | cons u ups ih =>
    intro f h
    simp only [applyUps, List.foldl_cons]
    have hu := h u (by simp)
    have := ih (setCol f u.1 u.2) (fun p hp => by
      rw [names_setCol f u.1 u.2 hu]; exact h p (List.mem_cons_of_mem _ hp))
    simp only [applyUps] at this
    rw [this, names_setCol f u.1 u.2 hu]

theorem getCol_applyUps_other (ups : List (Str × Col)) (m : Str) (hm : ∀ p ∈ ups, p.1 ≠ m) :
    ∀ f : Frame, getCol (applyUps f ups) m = getCol f m := by
  induction ups with
  | nil => intro f; rfl
  | cons u ups ih =>
    intro f
    simp only [applyUps, List.foldl_cons]
    have := ih (fun p hp => hm p (List.mem_cons_of_mem _ hp)) (setCol f u.1 u.2)
    simp only [applyUps] at this
    rw [this, getCol_setCol_other _ _ _ _ (fun e => hm u (by simp) e.symm)]

theorem getCol_applyUps_mem (ups : List (Str × Col)) (hnd : (ups.map (·.1)).Nodup) (m : Str) (v : Col)
    (hmem : (m, v) ∈ ups) : ∀ f : Frame, getCol (applyUps f ups) m = v := by
  induction ups with
  | nil => simp at hmem
  | cons u ups ih =>
    intro f
    simp only [List.map_cons, List.nodup_cons] at hnd
    simp only [applyUps, List.foldl_cons]
    rcases List.mem_cons.mp hmem with h | h
    · subst h
      have := getCol_applyUps_other ups m (fun p hp e => hnd.1 (by
        rw [← e]; exact List.mem_map_of_mem (f := (·.1)) hp)) (setCol f m v)
      simp only [applyUps] at this
      rw [this, getCol_setCol_same]
    · have := ih hnd.2 h (setCol f u.1 u.2)
      simpa only [applyUps] using this

theorem zipIdx_map_fst {α} (l : List α) (k : Nat) : (l.zipIdx k).map (·.1) = l := by
  induction l generalizing k with
  | nil => rfl
  | cons a l ih => simp [List.zipIdx_cons, ih]

/-- the column of level `l` after `_suppress_hierarchical_columns` -/
theorem getCol_suppressHier_level (df : Frame) (gb : List Str) (hnd : gb.Nodup) (l : Nat)
    (hl : l < gb.length) :
    getCol (suppressHier df gb) gb[l] = levelValues df gb l gb[l] := by
  rw [suppressHier_eq]
  apply getCol_applyUps_mem
  · rw [List.map_map]
    have : ((fun p : Str × Col => p.1) ∘ fun p : Str × Nat => (p.1, levelValues df gb p.2 p.1)) =
        (fun p : Str × Nat => p.1) := rfl
    rw [this, zipIdx_map_fst]; exact hnd
  · apply List.mem_map.mpr
    refine ⟨(gb[l], l), ?_, rfl⟩
    rw [List.mem_iff_getElem?]
    exact ⟨l, by simp [hl]⟩

theorem getCol_suppressHier_other (df : Frame) (gb : List Str) (m : Str) (hm : m ∉ gb) :
    getCol (suppressHier df gb) m = getCol df m := by
  rw [suppressHier_eq]
  apply getCol_applyUps_other
  intro p hp e
  obtain ⟨q, hq, rfl⟩ := List.mem_map.mp hp
  apply hm
  have : q.1 ∈ (gb.zipIdx).map (·.1) := List.mem_map_of_mem (f := (·.1)) hq
  rw [zipIdx_map_fst] at this
  simpa [← e] using this

theorem names_suppressHier (df : Frame) (gb : List Str) (hsub : ∀ g ∈ gb, g ∈ names df) :
    names (suppressHier df gb) = names df := by
  rw [suppressHier_eq]
  apply names_applyUps
  intro p hp
  obtain ⟨q, hq, rfl⟩ := List.mem_map.mp hp
  have : q.1 ∈ (gb.zipIdx).map (·.1) := List.mem_map_of_mem (f := (·.1)) hq
  rw [zipIdx_map_fst] at this
  exact hsub _ this

theorem orMask_comm (a b : List Bool) : orMask a b = orMask b a := by
  unfold orMask
  rw [List.zipWith_comm]
  congr 1
  funext x y
  exact Bool.or_comm y x

/-- with a single group column both code paths compute the same frame -/
theorem suppressSingle_eq_hier (df : Frame) (column : Str) :
    suppressSingle df column = suppressHier df [column] := by
  simp [suppressSingle, suppressHier, levelValues, showMask, List.zipIdx_cons,
    orMask_comm (changed (getCol df column))]

/-! ## restore_page_context -/

theorem cellAt_set (c : Col) (idx : Nat) (a : Cell) (i : Nat) :
    cellAt (c.set idx a) i = if i = idx ∧ idx < c.length then a else cellAt c i := by
  unfold cellAt
  rw [List.getElem?_set]
  by_cases h : idx = i
  · subst h
    by_cases hl : idx < c.length
    · simp [hl]
    · simp [hl]
  · have : ¬ i = idx := fun e => h e.symm
    simp [h, this]

theorem getCol_restoreCols (orig : Frame) (idx : Nat) (gb : List Str) (m : Str) :
    ∀ res : Frame,
      getCol (gb.foldl (fun r col => setCol r col ((getCol r col).set idx (cellAt (getCol orig col) idx))) res) m
        = if m ∈ gb then (getCol res m).set idx (cellAt (getCol orig m) idx) else getCol res m := by
  induction gb with
  | nil => intro res; simp
  | cons g gb ih =>
    intro res
    simp only [List.foldl_cons]
    rw [ih, getCol_setCol]
    by_cases hmg : m = g
    · subst hmg
      by_cases hin : m ∈ gb <;> simp [hin, List.set_set]
    · by_cases hin : m ∈ gb <;> simp [hin, hmg]

theorem getCol_restoreOne (orig : Frame) (gb : List Str) (res : Frame) (idx : Nat) (m : Str) :
    getCol (restoreOne orig gb res idx) m =
      if m ∈ gb ∧ idx < height orig then (getCol res m).set idx (cellAt (getCol orig m) idx)
      else getCol res m := by
  unfold restoreOne
  by_cases h : idx < height orig
  · simp only [h, if_true, and_true]; exact getCol_restoreCols orig idx gb m res
  · simp [h]

theorem cellAt_restore_fold (orig : Frame) (gb : List Str) (m : Str) (hm : m ∈ gb) (starts : List Nat) :
    ∀ (sup : Frame) (i : Nat),
      cellAt (getCol (starts.foldl (restoreOne orig gb) sup) m) i =
        if i ∈ starts ∧ i < height orig ∧ i < (getCol sup m).length then cellAt (getCol orig m) i
        else cellAt (getCol sup m) i := by
  induction starts with
  | nil => intro sup i; simp
  | cons s starts ih =>
    intro sup i
    simp only [List.foldl_cons]
    rw [ih, getCol_restoreOne]
    by_cases hs : s < height orig
    · simp only [hm, hs, and_self, if_true, List.length_set, cellAt_set, List.mem_cons]
      by_cases his : i = s
      · subst his
        by_cases hl : i < (getCol sup m).length <;> simp [hl, hs]
      · simp [his]
    · simp only [hs, and_false, if_false, List.mem_cons]
      by_cases his : i = s
      · subst his; simp [hs]
      · simp [his]

theorem getCol_restore_fold_other (orig : Frame) (gb : List Str) (m : Str) (hm : m ∉ gb)
    (starts : List Nat) : ∀ sup : Frame, getCol (starts.foldl (restoreOne orig gb) sup) m = getCol sup m := by
  induction starts with
  | nil => intro sup; rfl
  | cons s starts ih =>
    intro sup
    simp only [List.foldl_cons]
    rw [ih, getCol_restoreOne]
    simp [hm]

/-- pointwise effect of `restore_page_context` on a group column -/
theorem cellAt_restorePageContext (sup orig : Frame) (gb : List Str) (starts : List Nat) (m : Str)
    (hm : m ∈ gb) (i : Nat) :
    cellAt (getCol (restorePageContext sup orig gb starts) m) i =
      if i ∈ starts ∧ i < height orig ∧ i < (getCol sup m).length then cellAt (getCol orig m) i
      else cellAt (getCol sup m) i := by
  unfold restorePageContext
  have hgb : gb ≠ [] := by intro e; subst e; simp at hm
  by_cases hs : starts = []
  · subst hs; simp
  · simp only [hgb, hs, decide_false, Bool.or_self, Bool.false_eq_true, if_false]
    exact cellAt_restore_fold orig gb m hm starts sup i

theorem getCol_restorePageContext_other (sup orig : Frame) (gb : List Str) (starts : List Nat) (m : Str)
    (hm : m ∉ gb) : getCol (restorePageContext sup orig gb starts) m = getCol sup m := by
  unfold restorePageContext
  split
  · rfl
  · exact getCol_restore_fold_other orig gb m hm starts sup

theorem names_restoreOne (orig : Frame) (gb : List Str) (res : Frame) (idx : Nat)
    (h : ∀ g ∈ gb, g ∈ names res) : names (restoreOne orig gb res idx) = names res := by
  unfold restoreOne
  split
  · have : ∀ (gs : List Str) (r : Frame), (∀ g ∈ gs, g ∈ names r) →
        names (gs.foldl (fun r col => setCol r col ((getCol r col).set idx (cellAt (getCol orig col) idx))) r)
          = names r := by
      intro gs
      induction gs with
      | nil => intro r _; rfl
      | cons g gs ih =>
        intro r hr
        simp only [List.foldl_cons]
        have hg := hr g (by simp)
        rw [ih _ (fun g' hg' => by rw [names_setCol r g _ hg]; exact hr g' (List.mem_cons_of_mem _ hg')),
          names_setCol r g _ hg]
    exact this gb res h
  · rfl

theorem names_restorePageContext (sup orig : Frame) (gb : List Str) (starts : List Nat)
    (h : ∀ g ∈ gb, g ∈ names sup) : names (restorePageContext sup orig gb starts) = names sup := by
  unfold restorePageContext
  split
  · rfl
  · have : ∀ (ss : List Nat) (r : Frame), (∀ g ∈ gb, g ∈ names r) →
        names (ss.foldl (restoreOne orig gb) r) = names r := by
      intro ss
      induction ss with
      | nil => intro r _; rfl
      | cons s ss ih =>
        intro r hr
        simp only [List.foldl_cons]
        rw [ih _ (fun g hg => by rw [names_restoreOne orig gb r s hr]; exact hr g hg),
          names_restoreOne orig gb r s hr]
    exact this starts sup h

/-! ## putting the cell clause together -/

theorem enhance_ok (df : Frame) (gb : List Str) (s : Frame) (h : enhanceGroupBy df gb = .ok s) :
    (gb = [] ∨ height df = 0) ∧ s = df ∨
    (gb ≠ [] ∧ height df ≠ 0 ∧ (∀ g ∈ gb, g ∈ names df) ∧ validateDataSorting df gb = .ok () ∧
      s = suppressHier df gb) := by
  unfold enhanceGroupBy at h
  split at h
  · rename_i h0
    left
    simp only [Bool.or_eq_true, decide_eq_true_eq] at h0
    exact ⟨h0, by injection h with h; exact h.symm⟩
  · rename_i h0
    simp only [Bool.or_eq_true, decide_eq_true_eq, not_or] at h0
    split at h
    · cases h
    · rename_i hmiss
      right
      have hsub : ∀ g ∈ gb, g ∈ names df := by
        intro g hg
        simp only [List.any_eq_true, not_exists, not_and, Bool.not_eq_true, Bool.not_eq_false',
          List.contains_eq_mem, decide_eq_true_eq] at hmiss
        have := hmiss g hg
        simpa using this
      split at h
      · cases h
      · rename_i hv
        refine ⟨h0.1, h0.2, hsub, hv, ?_⟩
        split at h
        · injection h with h; rw [← h, suppressSingle_eq_hier]
        · injection h with h; exact h.symm

theorem length_levelValues (df : Frame) (wf : WF df) (gb : List Str) (hsub : ∀ g ∈ gb, g ∈ names df)
    (l : Nat) (hl : l < gb.length) : (levelValues df gb l gb[l]).length = height df := by
  unfold levelValues
  rw [length_whenThen, length_showMask df wf _ _ (fun h hh => hsub h (List.mem_of_mem_take hh))
    (hsub _ (List.getElem_mem hl)), length_getCol df wf _ (hsub _ (List.getElem_mem hl))]
  simp

theorem hkey_map (df : Frame) (gb : List Str) (l i : Nat) :
    hkey (gb.map (getCol df)) l i = (gb.take (l + 1)).map (fun g => cellAt (getCol df g) i) := by
  simp only [hkey, List.map_take, List.map_map]
  rfl

theorem any_chg_eq (df : Frame) (gs : List Str) (i : Nat) (hi : 0 < i) :
    gs.any (fun h => chg df h i) =
      !decide (gs.map (fun g => cellAt (getCol df g) i) = gs.map (fun g => cellAt (getCol df g) (i - 1))) := by
  induction gs with
  | nil => simp
  | cons g gs ih =>
    simp only [List.any_cons, ih, List.map_cons, List.cons.injEq]
    have : chg df g i = !decide (cellAt (getCol df g) i = cellAt (getCol df g) (i - 1)) := by
      simp [chg, prevCell, Nat.ne_of_gt hi]
    rw [this]
    by_cases h1 : cellAt (getCol df g) i = cellAt (getCol df g) (i - 1) <;> simp [h1]

/-- the cell of level `l`, row `i` after suppression -/
theorem cellAt_suppressHier (df : Frame) (wf : WF df) (gb : List Str) (hnd : gb.Nodup)
    (hsub : ∀ g ∈ gb, g ∈ names df) (l : Nat) (hl : l < gb.length) (i : Nat) (hi : i < height df) :
    cellAt (getCol (suppressHier df gb) gb[l]) i =
      if isRepeat (gb.map (getCol df)) l i then none else cellAt (getCol df gb[l]) i := by
  rw [getCol_suppressHier_level df gb hnd l hl]
  unfold levelValues
  rw [cellAt_whenThen _ _ i _ (getElem?_showMask df wf _ _
    (fun h hh => hsub h (List.mem_of_mem_take hh)) (hsub _ (List.getElem_mem hl)) i hi)]
  have htake : gb.take l ++ [gb[l]] = gb.take (l + 1) := by
    rw [List.take_add_one]; simp [List.getElem?_eq_getElem hl]
  rw [htake]
  unfold isRepeat
  by_cases h0 : i = 0
  · subst h0; simp
  · have hpos : 0 < i := Nat.pos_of_ne_zero h0
    rw [any_chg_eq df _ i hpos, hkey_map, hkey_map]
    have : (i == 0) = false := by simpa using h0
    simp only [this, Bool.false_or, hpos, decide_true, Bool.true_and]
    by_cases hk : (gb.take (l + 1)).map (fun g => cellAt (getCol df g) i) =
        (gb.take (l + 1)).map (fun g => cellAt (getCol df g) (i - 1)) <;> simp [hk]

/-- **cell clause**: every group cell of the restored frame is what the specification demands -/
theorem cellAt_restored (df : Frame) (wf : WF df) (gb : List Str) (hnd : gb.Nodup) (starts : List Nat)
    (s : Frame) (h : enhanceGroupBy df gb = .ok s) (l : Nat) (hl : l < gb.length) (i : Nat)
    (hi : i < height df) :
    cellAt (getCol (restorePageContext s df gb starts) gb[l]) i =
      expectedCell (gb.map (getCol df)) starts l i := by
  rcases enhance_ok df gb s h with ⟨h0, _⟩ | ⟨_, _, hsub, _, hs⟩
  · rcases h0 with h0 | h0
    · subst h0; simp at hl
    · omega
  · subst hs
    have hmem : gb[l] ∈ gb := List.getElem_mem hl
    rw [cellAt_restorePageContext _ _ _ _ _ hmem, getCol_suppressHier_level df gb hnd l hl,
      length_levelValues df wf gb hsub l hl, ← getCol_suppressHier_level df gb hnd l hl,
      cellAt_suppressHier df wf gb hnd hsub l hl i hi]
    unfold expectedCell isPageStart
    have hget : (gb.map (getCol df)).getD l [] = getCol df gb[l] := by
      simp [List.getD, List.getElem?_map, List.getElem?_eq_getElem hl]
    rw [hget]
    by_cases hst : i ∈ starts
    · simp [hst, hi]
    · by_cases h0 : i = 0
      · subst h0; simp [isRepeat]
      · simp [hst, h0]

/-! ## contiguity: the validator's loop decides the specification -/

section Contig
variable {α : Type} [DecidableEq α]

theorem contigB_cons (v : α) (vs : List α) :
    contigB (v :: vs) = true ↔ (v ∈ vs → vs.head? = some v) ∧ contigB vs = true := by
  simp only [contigB, Bool.and_eq_true, decide_eq_true_eq]

theorem contigAux_iff (vs : List α) : ∀ (cur : α) (seen : List α), cur ∈ seen →
    (contigAux cur seen vs = true ↔
      contigB (cur :: vs) = true ∧ ∀ x ∈ seen, x ≠ cur → x ∉ vs) := by
  induction vs with
  | nil => intro cur seen _; simp [contigAux, contigB]
  | cons v vs ih =>
    intro cur seen hcur
    unfold contigAux
    by_cases hv : v = cur
    · subst hv
      simp only [ne_eq, not_true_eq_false, if_false]
      rw [ih v seen hcur, contigB_cons v (v :: vs)]
      simp only [List.mem_cons, true_or, List.head?_cons, forall_const, true_and, not_or]
      constructor
      · rintro ⟨h1, h2⟩; exact ⟨h1, fun x hx hne => ⟨hne, h2 x hx hne⟩⟩
      · rintro ⟨h1, h2⟩; exact ⟨h1, fun x hx hne => (h2 x hx hne).2⟩
    · simp only [ne_eq, hv, not_false_eq_true, if_true]
      by_cases hs : v ∈ seen
      · simp only [hs, if_true, Bool.false_eq_true, false_iff, not_and]
        intro _ hall
        exact hall v hs hv (by simp)
      · simp only [hs, if_false]
        rw [ih v (v :: seen) (by simp), contigB_cons cur (v :: vs)]
        simp only [List.mem_cons, List.head?_cons, Option.some.injEq, forall_eq_or_imp, ne_eq,
          not_true_eq_false, false_imp_iff, true_and, not_or]
        constructor
        · rintro ⟨h1, h2⟩
          refine ⟨⟨?_, h1⟩, ?_⟩
          · rintro (h | h)
            · exact absurd h.symm hv
            · have hc : ¬ cur = v := fun e => hv e.symm
              exact absurd h (h2 cur hcur hc)
          · intro x hx _
            have hxv : ¬ x = v := fun e => hs (e ▸ hx)
            exact ⟨hxv, h2 x hx hxv⟩
        · rintro ⟨⟨h1, h2⟩, h3⟩
          refine ⟨h2, ?_⟩
          intro x hx hxv
          by_cases hxc : x = cur
          · subst hxc
            intro hmem
            exact hv (h1 (Or.inr hmem))
          · exact (h3 x hx hxc).2

/-- the loop of `validate_data_sorting` accepts exactly the contiguous sequences -/
theorem contig_eq_contigB (ks : List α) : contig ks = contigB ks := by
  cases ks with
  | nil => rfl
  | cons v vs =>
    have := contigAux_iff vs v [v] (by simp)
    simp only [List.mem_singleton, ne_eq, forall_eq, not_true_eq_false, false_imp_iff, and_true] at this
    unfold contig
    cases h1 : contigAux v [v] vs <;> cases h2 : contigB (v :: vs) <;> simp_all

omit [DecidableEq α] in
theorem contiguous_tail (v : α) (vs : List α) (h : Contiguous (v :: vs)) : Contiguous vs := by
  intro pre mid post a e x hx
  exact h (v :: pre) mid post a (by rw [e]; rfl) x hx

/-- structural form ⇒ statement form -/
theorem contiguous_of_contigB (ks : List α) (h : contigB ks = true) : Contiguous ks := by
  induction ks with
  | nil => intro pre mid post a e; cases pre <;> simp at e
  | cons v vs ih =>
    rw [contigB_cons] at h
    have ihv := ih h.2
    intro pre mid post a e x hx
    cases pre with
    | cons p pre =>
      simp only [List.cons_append, List.cons.injEq] at e
      exact ihv pre mid post a e.2 x hx
    | nil =>
      simp only [List.nil_append, List.cons.injEq] at e
      obtain ⟨rfl, e⟩ := e
      -- vs = mid ++ v :: post ; v occurs in vs, so vs starts with v; recurse through mid
      cases mid with
      | nil => simp at hx
      | cons m mid =>
        have hin : v ∈ vs := by rw [e]; simp
        have hhead := h.1 hin
        rw [e] at hhead
        simp only [List.cons_append, List.head?_cons, Option.some.injEq] at hhead
        subst hhead
        rcases List.mem_cons.mp hx with hx | hx
        · exact hx
        · exact ihv [] mid post m (by rw [e]; rfl) x hx

/-- statement form ⇒ structural form -/
theorem contigB_of_contiguous (ks : List α) (h : Contiguous ks) : contigB ks = true := by
  induction ks with
  | nil => rfl
  | cons v vs ih =>
    rw [contigB_cons]
    refine ⟨?_, ih (contiguous_tail v vs h)⟩
    intro hin
    obtain ⟨s, t, e⟩ := List.append_of_mem hin
    cases s with
    | nil => simp [e]
    | cons a s =>
      have := h [] (a :: s) t v (by rw [e]; rfl) a (by simp)
      simp [e, this]

theorem contig_iff (ks : List α) : contig ks = true ↔ Contiguous ks := by
  rw [contig_eq_contigB]
  exact ⟨contiguous_of_contigB ks, contigB_of_contiguous ks⟩

omit [DecidableEq α] in
theorem contiguous_map_inj {β : Type} (f : α → β) (hf : ∀ a b, f a = f b → a = b) (ks : List α) :
    Contiguous (ks.map f) ↔ Contiguous ks := by
  constructor
  · intro h pre mid post a e x hx
    have := h (pre.map f) (mid.map f) (post.map f) (f a) (by rw [e]; simp) (f x)
      (List.mem_map_of_mem hx)
    exact hf _ _ this
  · intro h pre mid post b e y hy
    -- split ks along the image
    obtain ⟨pre', r1, rfl, rfl, e1⟩ := List.map_eq_append_iff.mp e
    obtain ⟨a, r2, rfl, rfl, e2⟩ := List.map_eq_cons_iff.mp e1
    obtain ⟨mid', r3, rfl, rfl, e3⟩ := List.map_eq_append_iff.mp e2
    obtain ⟨a', post', rfl, ha', rfl⟩ := List.map_eq_cons_iff.mp e3
    have haa : a' = a := hf _ _ ha'
    subst haa
    obtain ⟨x, hx, rfl⟩ := List.mem_map.mp hy
    rw [h pre' mid' post' a' rfl x hx]

end Contig

/-! ## the validator against the specification -/

theorem eraseDups_of_nodup (l : List Str) (h : l.Nodup) : l.eraseDups = l := by
  induction l with
  | nil => simp
  | cons a l ih =>
    simp only [List.nodup_cons] at h
    rw [List.eraseDups_cons]
    have : l.filter (fun b => !b == a) = l := by
      rw [List.filter_eq_self]
      intro b hb
      have : b ≠ a := fun e => h.1 (e ▸ hb)
      simpa using this
    rw [this, ih h.2]

/-- keys of all rows at level `l` (the sequence whose contiguity the property speaks about) -/
def keysAt (df : Frame) (gb : List Str) (l : Nat) : List (List Cell) :=
  (List.range (height df)).map (hkey (gb.map (getCol df)) l)

theorem col_eq_range_map (c : Col) : c = (List.range c.length).map (cellAt c) := by
  apply List.ext_getElem?
  intro i
  by_cases h : i < c.length
  · rw [List.getElem?_map, List.getElem?_range h, cellAt_of_lt c i h]; rfl
  · rw [List.getElem?_eq_none (Nat.le_of_not_lt h), List.getElem?_eq_none (by simpa using Nat.le_of_not_lt h)]

theorem tuples_eq_keysAt (df : Frame) (gb : List Str) (l : Nat) :
    tuples df (gb.take (l + 1)) = keysAt df gb l := by
  unfold tuples keysAt
  apply List.map_congr_left
  intro i _
  rw [hkey_map]

theorem levelOk_iff (df : Frame) (wf : WF df) (gb : List Str) (hsub : ∀ g ∈ gb, g ∈ names df)
    (l : Nat) (hl : l < gb.length) :
    levelOk df gb l = true ↔ Contiguous (keysAt df gb l) := by
  unfold levelOk
  by_cases h0 : l = 0
  · subst h0
    simp only [if_true]
    rw [contig_iff]
    cases gb with
    | nil => simp at hl
    | cons g gb =>
      simp only [List.headD_cons]
      have hlen := length_getCol df wf g (hsub g (by simp))
      have hk : keysAt df (g :: gb) 0 = (getCol df g).map (fun x => [x]) := by
        unfold keysAt
        conv => rhs; rw [col_eq_range_map (getCol df g), hlen]
        rw [List.map_map]
        apply List.map_congr_left
        intro i _
        simp [hkey]
      rw [hk, contiguous_map_inj (fun x : Cell => [x]) (fun a b e => by simpa using e)]
  · simp only [h0, if_false]
    rw [contig_iff, tuples_eq_keysAt]

/-- the validator accepts iff every prefix level of the group key is contiguous -/
theorem validate_ok_iff (df : Frame) (wf : WF df) (gb : List Str) (hnd : gb.Nodup)
    (hsub : ∀ g ∈ gb, g ∈ names df) (hne : gb ≠ []) (hh : height df ≠ 0) :
    validateDataSorting df gb = .ok () ↔ ∀ l, l < gb.length → Contiguous (keysAt df gb l) := by
  unfold validateDataSorting
  simp only [hh, hne, if_false, eraseDups_of_nodup gb hnd]
  have hmiss : (gb.any fun c => !(names df).contains c) = false := by
    rw [List.any_eq_false]
    intro g hg
    simpa using hsub g hg
  simp only [hmiss, Bool.false_eq_true, if_false]
  constructor
  · intro h l hl
    split at h
    · rename_i hall
      rw [List.all_eq_true] at hall
      exact (levelOk_iff df wf gb hsub l hl).mp (hall l (List.mem_range.mpr hl))
    · cases h
  · intro h
    rw [if_pos]
    rw [List.all_eq_true]
    intro l hl
    exact (levelOk_iff df wf gb hsub l (List.mem_range.mp hl)).mpr (h l (List.mem_range.mp hl))

theorem validate_error_is_valueError (df : Frame) (gb : List Str) (e : Err)
    (_h : validateDataSorting df gb = .error e) : e = .valueError := by
  cases e; rfl

/-- **rejection clause** -/
theorem enhance_error_iff (df : Frame) (wf : WF df) (gb : List Str) (hnd : gb.Nodup)
    (hsub : ∀ g ∈ gb, g ∈ names df) (hne : gb ≠ []) (hh : height df ≠ 0) :
    enhanceGroupBy df gb = .error .valueError ↔ ¬ ∀ l, l < gb.length → Contiguous (keysAt df gb l) := by
  rw [← validate_ok_iff df wf gb hnd hsub hne hh]
  unfold enhanceGroupBy
  have hmiss : (gb.any fun c => !(names df).contains c) = false := by
    rw [List.any_eq_false]
    intro g hg
    simpa using hsub g hg
  have h0 : (decide (gb = []) || decide (height df = 0)) = false := by simp [hne, hh]
  simp only [h0, hmiss, Bool.false_eq_true, if_false]
  cases hv : validateDataSorting df gb with
  | error e => cases e; simp
  | ok u =>
    cases u
    simp only [not_true_eq_false, iff_false]
    split <;> simp

/-! ## fill-down -/

theorem cellAt_cons_zero (x : Cell) (xs : Col) : cellAt (x :: xs) 0 = x := by simp [cellAt]
theorem cellAt_cons_succ (x : Cell) (xs : Col) (j : Nat) : cellAt (x :: xs) (j + 1) = cellAt xs j := by
  simp [cellAt]
theorem cellAt_nil (j : Nat) : cellAt [] j = none := by simp [cellAt]

/-- rendered segment `out` against original segment `orig`: each cell shows the original or is a
blank standing for the value of the row above (`prev` for the first row) -/
def Sup : Cell → Col → Col → Prop
  | _, [], [] => True
  | prev, o :: os, x :: xs => (o = x ∨ (o = none ∧ x = prev)) ∧ Sup x os xs
  | _, _, _ => False

theorem fill_of_sup : ∀ (out orig : Col) (prev carry : Cell), Sup prev out orig →
    (prev ≠ none → carry = prev) →
    (fillFrom carry out).length = orig.length ∧
      ∀ j, cellAt orig j ≠ none → cellAt (fillFrom carry out) j = cellAt orig j := by
  intro out
  induction out with
  | nil =>
    intro orig prev carry hs _
    cases orig with
    | nil => simp [fillFrom]
    | cons x xs => simp [Sup] at hs
  | cons o os ih =>
    intro orig prev carry hs hinv
    cases orig with
    | nil => simp [Sup] at hs
    | cons x xs =>
      simp only [Sup] at hs
      obtain ⟨hox, hrest⟩ := hs
      cases o with
      | some v =>
        have hx : x = some v := by
          rcases hox with h | h
          · exact h.symm
          · cases h.1
        subst hx
        have := ih xs (some v) (some v) hrest (fun _ => rfl)
        refine ⟨by simp [fillFrom, this.1], ?_⟩
        intro j hj
        cases j with
        | zero => simp [fillFrom, cellAt_cons_zero]
        | succ j =>
          simp only [fillFrom, cellAt_cons_succ] at hj ⊢
          exact this.2 j hj
      | none =>
        -- the blank is filled with `carry`
        have hinv' : x ≠ none → carry = x := by
          intro hxn
          rcases hox with h | h
          · exact absurd h.symm hxn
          · rw [h.2] at hxn ⊢; exact hinv hxn
        have := ih xs x carry hrest hinv'
        refine ⟨by simp [fillFrom, this.1], ?_⟩
        intro j hj
        cases j with
        | zero =>
          simp only [fillFrom, cellAt_cons_zero] at hj ⊢
          exact hinv' hj
        | succ j =>
          simp only [fillFrom, cellAt_cons_succ] at hj ⊢
          exact this.2 j hj

theorem sup_of_pointwise : ∀ (out orig : Col) (prev : Cell), out.length = orig.length →
    (∀ j, j < orig.length → cellAt out j = cellAt orig j ∨
      (cellAt out j = none ∧ cellAt orig j = if j = 0 then prev else cellAt orig (j - 1))) →
    Sup prev out orig := by
  intro out
  induction out with
  | nil =>
    intro orig prev hl _
    cases orig with
    | nil => simp [Sup]
    | cons x xs => simp at hl
  | cons o os ih =>
    intro orig prev hl hp
    cases orig with
    | nil => simp at hl
    | cons x xs =>
      simp only [Sup]
      constructor
      · have := hp 0 (by simp)
        simpa [cellAt_cons_zero] using this
      · apply ih xs x (by simpa using hl)
        intro j hj
        have := hp (j + 1) (by simpa using hj)
        simp only [cellAt_cons_succ, Nat.add_sub_cancel, Nat.succ_ne_zero, if_false] at this
        cases j with
        | zero => simpa [cellAt_cons_zero] using this
        | succ j => simpa [cellAt_cons_succ] using this

theorem cellAt_drop_take (c : Col) (a h j : Nat) :
    cellAt ((c.drop a).take h) j = if j < h then cellAt c (a + j) else none := by
  unfold cellAt
  rw [List.getElem?_take]
  split
  · rw [List.getElem?_drop]
  · rfl

theorem fill_all_nonnull (f o : Col) (hl : f.length = o.length)
    (h : ∀ j, cellAt o j ≠ none → cellAt f j = cellAt o j) (hnn : ∀ x ∈ o, x ≠ none) : f = o := by
  apply List.ext_getElem?
  intro j
  by_cases hj : j < o.length
  · have hne : cellAt o j ≠ none := by
      rw [cellAt, List.getElem?_eq_getElem hj]
      simpa using hnn _ (List.getElem_mem hj)
    have := h j hne
    rw [cellAt, cellAt, List.getElem?_eq_getElem hj, List.getElem?_eq_getElem (hl ▸ hj)] at this
    rw [List.getElem?_eq_getElem hj, List.getElem?_eq_getElem (hl ▸ hj)]
    simpa using this
  · rw [List.getElem?_eq_none (Nat.le_of_not_lt hj), List.getElem?_eq_none (hl ▸ Nat.le_of_not_lt hj)]

/-! ## pages -/

theorem splitCol_getElem? : ∀ (hs : List Nat) (c : Col) (p : Nat) (hp : p < hs.length),
    (splitCol c hs)[p]? = some ((c.drop (hs.take p).sum).take hs[p]) := by
  intro hs
  induction hs with
  | nil => intro c p hp; simp at hp
  | cons h hs ih =>
    intro c p hp
    cases p with
    | zero => simp [splitCol]
    | succ p =>
      simp only [splitCol, List.getElem?_cons_succ, List.take_succ_cons, List.sum_cons,
        List.getElem_cons_succ]
      rw [ih (c.drop h) p (by simpa using hp), List.drop_drop]

theorem mem_pageStartsAux : ∀ (hs : List Nat) (cum : Nat) (nf : Bool) (p : Nat), p < hs.length →
    (nf = true ∨ 0 < p) → cum + (hs.take p).sum ∈ pageStartsAux cum nf hs := by
  intro hs
  induction hs with
  | nil => intro cum nf p hp; simp at hp
  | cons h hs ih =>
    intro cum nf p hp hor
    cases p with
    | zero =>
      rcases hor with h1 | h1
      · simp [pageStartsAux, h1]
      · omega
    | succ p =>
      simp only [pageStartsAux, List.take_succ_cons, List.sum_cons, List.mem_append]
      right
      have := ih (cum + h) true p (by simpa using hp) (Or.inl rfl)
      rw [Nat.add_assoc] at this
      exact this

theorem length_getCol_restore (sup orig : Frame) (gb : List Str) (starts : List Nat) (m : Str) :
    (getCol (restorePageContext sup orig gb starts) m).length = (getCol sup m).length := by
  unfold restorePageContext
  split
  · rfl
  · have : ∀ (ss : List Nat) (r : Frame),
        (getCol (ss.foldl (restoreOne orig gb) r) m).length = (getCol r m).length := by
      intro ss
      induction ss with
      | nil => intro r; rfl
      | cons s ss ih =>
        intro r
        simp only [List.foldl_cons]
        rw [ih, getCol_restoreOne]
        split <;> simp
    exact this starts sup

theorem hkey_component (df : Frame) (gb : List Str) (l : Nat) (hl : l < gb.length) (i i' : Nat)
    (h : hkey (gb.map (getCol df)) l i = hkey (gb.map (getCol df)) l i') :
    cellAt (getCol df gb[l]) i = cellAt (getCol df gb[l]) i' := by
  rw [hkey_map, hkey_map] at h
  have := congrArg (fun xs => xs[l]?) h
  simp only [List.getElem?_map, List.getElem?_take, Nat.lt_succ_self, if_true,
    List.getElem?_eq_getElem hl, Option.map_some, Option.some.injEq] at this
  exact this

/-- **fill-down clause** for one page segment `[a, a+h)` whose first row is a page start -/
theorem segment_fill (df : Frame) (wf : WF df) (gb : List Str) (hnd : gb.Nodup) (starts : List Nat)
    (s : Frame) (hok : enhanceGroupBy df gb = .ok s) (l : Nat) (hl : l < gb.length) (a h : Nat)
    (ha : a = 0 ∨ a ∈ starts) :
    let shown := ((getCol (restorePageContext s df gb starts) gb[l]).drop a).take h
    let orig := ((getCol df gb[l]).drop a).take h
    (fillDown shown).length = orig.length ∧
      ∀ j, cellAt orig j ≠ none → cellAt (fillDown shown) j = cellAt orig j := by
  intro shown orig
  rcases enhance_ok df gb s hok with ⟨h0, hs⟩ | ⟨_, _, hsub, _, hs⟩
  · -- nothing to group: the frame is unchanged
    rcases h0 with h0 | h0
    · subst h0; simp at hl
    · -- height 0: a group column is empty
      have hmem : gb[l] ∈ gb := List.getElem_mem hl
      have hlen : (getCol (restorePageContext s df gb starts) gb[l]).length = (getCol s gb[l]).length :=
        length_getCol_restore _ _ _ _ _
      subst hs
      by_cases hn : gb[l] ∈ names s
      · have h1 := length_getCol s wf _ hn
        have e1 : getCol s gb[l] = [] := List.eq_nil_of_length_eq_zero (by omega)
        have e2 : getCol (restorePageContext s s gb starts) gb[l] = [] :=
          List.eq_nil_of_length_eq_zero (by omega)
        simp [shown, orig, e1, e2, fillDown, fillFrom, cellAt_nil]
      · have e1 : getCol s gb[l] = [] := by
          unfold getCol
          have : s.lookup gb[l] = none := by
            rw [List.lookup_eq_none_iff]
            intro p hp
            have : gb[l] ≠ p.1 := fun e => hn (by rw [e]; exact List.mem_map_of_mem hp)
            simpa using this
          simp [this]
        have e2 : getCol (restorePageContext s s gb starts) gb[l] = [] :=
          List.eq_nil_of_length_eq_zero (by rw [hlen, e1]; rfl)
        simp [shown, orig, e1, e2, fillDown, fillFrom, cellAt_nil]
  · have hmem : gb[l] ∈ gb := List.getElem_mem hl
    have hlenO : (getCol df gb[l]).length = height df := length_getCol df wf _ (hsub _ hmem)
    have hlenS : (getCol (restorePageContext s df gb starts) gb[l]).length = height df := by
      rw [length_getCol_restore, hs, getCol_suppressHier_level df gb hnd l hl,
        length_levelValues df wf gb hsub l hl]
    unfold fillDown
    apply fill_of_sup shown orig none none _ (fun hn => absurd rfl hn)
    apply sup_of_pointwise
    · simp [shown, orig, hlenO, hlenS]
    · intro j hj
      have hjh : j < h ∧ a + j < height df := by
        simp only [orig, List.length_take, List.length_drop, hlenO] at hj
        omega
      simp only [shown, orig, cellAt_drop_take, hjh.1, if_true]
      rw [cellAt_restored df wf gb hnd starts s hok l hl (a + j) hjh.2]
      have hget : (gb.map (getCol df)).getD l [] = getCol df gb[l] := by
        simp [List.getD, List.getElem?_map, List.getElem?_eq_getElem hl]
      unfold expectedCell
      rw [hget]
      split
      · rename_i hc
        right
        refine ⟨rfl, ?_⟩
        simp only [Bool.and_eq_true, Bool.not_eq_true', isRepeat, decide_eq_true_eq, isPageStart,
          Bool.or_eq_false_iff, beq_eq_false_iff_ne, ne_eq, List.contains_eq_mem,
          decide_eq_false_iff_not] at hc
        obtain ⟨⟨hpos, hk⟩, hn0, hnst⟩ := hc
        by_cases hj0 : j = 0
        · subst hj0
          rcases ha with ha | ha
          · omega
          · exact absurd ha (by simpa using hnst)
        · have hjm : j - 1 < h := by omega
          simp only [hj0, if_false, hjm, if_true]
          have := hkey_component df gb l hl (a + j) (a + j - 1) hk
          rw [this]
          congr 1
          omega
      · left; rfl

/-! ## page slices of frames -/

theorem getCol_sliceFrame (f : Frame) (a h : Nat) (m : Str) :
    getCol (sliceFrame f a h) m = ((getCol f m).drop a).take h := by
  induction f with
  | nil => simp [sliceFrame, getCol_nil]
  | cons q f ih =>
    obtain ⟨n, c⟩ := q
    simp only [sliceFrame, List.map_cons] at ih ⊢
    rw [getCol_cons, getCol_cons, ih]
    split <;> rfl

theorem splitFrameAux_getElem? (f : Frame) : ∀ (hs : List Nat) (cur p : Nat) (hp : p < hs.length),
    (splitFrameAux f cur hs)[p]? = some (sliceFrame f (cur + (hs.take p).sum) hs[p]) := by
  intro hs
  induction hs with
  | nil => intro cur p hp; simp at hp
  | cons h hs ih =>
    intro cur p hp
    cases p with
    | zero => simp [splitFrameAux]
    | succ p =>
      simp only [splitFrameAux, List.getElem?_cons_succ, List.take_succ_cons, List.sum_cons,
        List.getElem_cons_succ]
      rw [ih (cur + h) p (by simpa using hp), Nat.add_assoc]


/-! ## the text-key validator (before `fixes/groupby-tuple-keys.patch`) on separator-free data -/

/-- a cell that cannot take part in a key collision of the text-key validator -/
def SepFree (c : Cell) : Prop := c ≠ some "__NULL__".toList ∧ ∀ s, c = some s → '|' ∉ s

def keyText (c : Cell) : Str := c.getD "__NULL__".toList

theorem keyText_inj (a b : Cell) (ha : SepFree a) (hb : SepFree b) (h : keyText a = keyText b) : a = b := by
  cases a with
  | none =>
    cases b with
    | none => rfl
    | some t =>
      have : some t = some "__NULL__".toList := by
        simp only [keyText, Option.getD_none, Option.getD_some] at h
        rw [← h]
      exact absurd this hb.1
  | some s =>
    cases b with
    | none =>
      have : some s = some "__NULL__".toList := by
        simp only [keyText, Option.getD_none, Option.getD_some] at h
        rw [h]
      exact absurd this ha.1
    | some t => simpa [keyText] using h

theorem keyText_nosep (a : Cell) (ha : SepFree a) : '|' ∉ keyText a := by
  cases a with
  | none => simp only [keyText, Option.getD_none]; decide
  | some s => simpa [keyText] using ha.2 s rfl

theorem split_at_sep : ∀ (x y r r' : Str), '|' ∉ x → '|' ∉ y → x ++ '|' :: r = y ++ '|' :: r' →
    x = y ∧ r = r' := by
  intro x
  induction x with
  | nil =>
    intro y r r' _ hy h
    cases y with
    | nil => simpa using h
    | cons b y =>
      simp only [List.nil_append, List.cons_append, List.cons.injEq] at h
      exact absurd (by rw [← h.1]; simp) hy
  | cons a x ih =>
    intro y r r' hx hy h
    cases y with
    | nil =>
      simp only [List.nil_append, List.cons_append, List.cons.injEq] at h
      exact absurd (by rw [h.1]; simp) hx
    | cons b y =>
      simp only [List.cons_append, List.cons.injEq] at h
      have := ih y r r' (fun m => hx (List.mem_cons_of_mem _ m)) (fun m => hy (List.mem_cons_of_mem _ m)) h.2
      exact ⟨by rw [h.1, this.1], this.2⟩

def joinText (xs : List Str) : Str := (xs.intersperse ['|']).flatten

theorem joinText_cons_cons (x x' : Str) (xs : List Str) :
    joinText (x :: x' :: xs) = x ++ '|' :: joinText (x' :: xs) := by
  simp [joinText, List.intersperse]

theorem joinText_inj : ∀ (xs ys : List Str), xs.length = ys.length → (∀ x ∈ xs, '|' ∉ x) →
    (∀ y ∈ ys, '|' ∉ y) → joinText xs = joinText ys → xs = ys := by
  intro xs
  induction xs with
  | nil => intro ys hl _ _ _; cases ys with
    | nil => rfl
    | cons y ys => simp at hl
  | cons x xs ih =>
    intro ys hl hx hy h
    cases ys with
    | nil => simp at hl
    | cons y ys =>
      cases xs with
      | nil =>
        cases ys with
        | nil => simpa [joinText, List.intersperse] using h
        | cons y' ys => simp at hl
      | cons x' xs =>
        cases ys with
        | nil => simp at hl
        | cons y' ys =>
          rw [joinText_cons_cons, joinText_cons_cons] at h
          have := split_at_sep x y _ _ (hx x (by simp)) (hy y (by simp)) h
          rw [this.1, ih (y' :: ys) (by simpa using hl) (fun a ha => hx a (List.mem_cons_of_mem _ ha))
            (fun a ha => hy a (List.mem_cons_of_mem _ ha)) this.2]

theorem joinKey_eq (cells : List Cell) : Legacy.joinKey cells = joinText (cells.map keyText) := rfl

theorem contiguous_map_injOn {α β : Type} (f : α → β) (ks : List α)
    (hf : ∀ a ∈ ks, ∀ b ∈ ks, f a = f b → a = b) : Contiguous (ks.map f) ↔ Contiguous ks := by
  constructor
  · intro h pre mid post a e x hx
    have := h (pre.map f) (mid.map f) (post.map f) (f a) (by rw [e]; simp) (f x)
      (List.mem_map_of_mem hx)
    exact hf x (by rw [e]; simp [hx]) a (by rw [e]; simp) this
  · intro h pre mid post b e y hy
    obtain ⟨pre', r1, rfl, rfl, e1⟩ := List.map_eq_append_iff.mp e
    obtain ⟨a, r2, rfl, rfl, e2⟩ := List.map_eq_cons_iff.mp e1
    obtain ⟨mid', r3, rfl, rfl, e3⟩ := List.map_eq_append_iff.mp e2
    obtain ⟨a', post', rfl, ha', rfl⟩ := List.map_eq_cons_iff.mp e3
    have haa : a' = a := hf a' (by simp) a (by simp) ha'
    subst haa
    obtain ⟨x, hx, rfl⟩ := List.mem_map.mp hy
    rw [h pre' mid' post' a' rfl x hx]

theorem sepFree_cellAt (c : Col) (i : Nat) (h : ∀ x ∈ c, SepFree x) : SepFree (cellAt c i) := by
  by_cases hi : i < c.length
  · have : cellAt c i = c[i] := by simp [cellAt, List.getElem?_eq_getElem hi]
    rw [this]; exact h _ (List.getElem_mem hi)
  · rw [cellAt_of_ge c i (Nat.le_of_not_lt hi)]
    exact ⟨by simp, by simp⟩

/-- on data whose group cells contain no `|` and are not the text `__NULL__`, the text-key validator
decides exactly like the tuple-key validator -/
theorem legacy_validate_eq (df : Frame) (gb : List Str)
    (hsep : ∀ g ∈ gb, ∀ x ∈ getCol df g, SepFree x) :
    Legacy.validateDataSorting df gb = validateDataSorting df gb := by
  unfold Legacy.validateDataSorting validateDataSorting
  have hlev : ∀ i, Legacy.levelOk df gb.eraseDups i = levelOk df gb.eraseDups i := by
    intro i
    unfold Legacy.levelOk levelOk
    by_cases h0 : i = 0
    · simp [h0]
    · simp only [h0, if_false]
      have hiff : contig ((tuples df (gb.eraseDups.take (i + 1))).map Legacy.joinKey) = true ↔
          contig (tuples df (gb.eraseDups.take (i + 1))) = true := by
        rw [contig_iff, contig_iff]
        apply contiguous_map_injOn
        intro a ha b hb hab
        unfold tuples at ha hb
        obtain ⟨ia, _, rfl⟩ := List.mem_map.mp ha
        obtain ⟨ib, _, rfl⟩ := List.mem_map.mp hb
        rw [joinKey_eq, joinKey_eq] at hab
        have hmem : ∀ c ∈ gb.eraseDups.take (i + 1), c ∈ gb := by
          intro c hc
          have := List.mem_of_mem_take hc
          simpa using this
        have := joinText_inj _ _ (by simp) (by
            intro x hx
            obtain ⟨cl, hcl, rfl⟩ := List.mem_map.mp hx
            obtain ⟨c, hc, rfl⟩ := List.mem_map.mp hcl
            exact keyText_nosep _ (sepFree_cellAt _ _ (hsep c (hmem c hc)))) (by
            intro x hx
            obtain ⟨cl, hcl, rfl⟩ := List.mem_map.mp hx
            obtain ⟨c, hc, rfl⟩ := List.mem_map.mp hcl
            exact keyText_nosep _ (sepFree_cellAt _ _ (hsep c (hmem c hc)))) hab
        -- keyText is injective on separator-free cells
        rw [List.map_map, List.map_map] at this
        apply List.map_congr_left
        intro c hc
        have h1 := List.map_inj_left.mp this c hc
        exact keyText_inj _ _ (sepFree_cellAt _ _ (hsep c (hmem c hc)))
          (sepFree_cellAt _ _ (hsep c (hmem c hc))) h1
      cases h1 : contig ((tuples df (gb.eraseDups.take (i + 1))).map Legacy.joinKey) <;>
        cases h2 : contig (tuples df (gb.eraseDups.take (i + 1))) <;> simp_all
  have hall : (List.range gb.eraseDups.length).all (Legacy.levelOk df gb.eraseDups) =
      (List.range gb.eraseDups.length).all (levelOk df gb.eraseDups) :=
    any_congr_mem' _ _ _ (fun i _ => hlev i)
  simp only [hall]

end Proofs.GroupBy
