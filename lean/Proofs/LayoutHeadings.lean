import Model.Layout
/-! Helper lemmas about `renderPage` / `bodyBlocks` / `boundaryHeadings` / `topHeadings` /
`groupValues` / `updateLast` (used by Props.C05). -/
namespace Proofs.LayoutHeadings
open Model.Paginate Model.Layout

/-! ### last heading of a level -/

/-- text of a block when it is a level-`l` heading -/
def hd (l : Nat) : Block → Option String
  | .heading l' t => if l' = l then some t else none
  | _ => none

/-- text of the last level-`l` heading in a block list (same as `Props.C05.lastHeading`) -/
def lastH (l : Nat) (bs : List Block) : Option String := bs.reverse.findSome? (hd l)

@[simp] theorem lastH_nil (l : Nat) : lastH l [] = none := rfl

theorem lastH_append (l : Nat) (xs ys : List Block) :
    lastH l (xs ++ ys) = (lastH l ys).or (lastH l xs) := by
  simp [lastH, List.reverse_append, List.findSome?_append]

theorem lastH_cons (l : Nat) (b : Block) (bs : List Block) :
    lastH l (b :: bs) = (lastH l bs).or (hd l b) := by
  simp [lastH]

theorem lastH_eq_none_of_forall {l : Nat} {bs : List Block} (h : ∀ b ∈ bs, hd l b = none) :
    lastH l bs = none := by
  simp only [lastH, List.findSome?_eq_none_iff, List.mem_reverse]
  exact h

/-! ### groupValues / updateLast -/

theorem groupValues_length (k : List (Option String)) : (groupValues k).length = k.length := by
  simp [groupValues]

theorem isDivider_some (v : String) : isDivider (some v) = (v == "-----") := rfl

theorem groupValues_getElem?_real {k : List (Option String)} {l : Nat} {v : String} :
    (groupValues k)[l]? = some (some (some v)) ↔ (k[l]? = some (some v) ∧ v ≠ "-----") := by
  simp only [groupValues, List.getElem?_map]
  cases h : k[l]? with
  | none => simp
  | some x =>
    cases x with
    | none => simp [isDivider, strOf]
    | some w =>
      by_cases hw : w = "-----"
      · subst hw; simp [isDivider, strOf]; exact fun h => h.symm
      · simp only [Option.map_some, isDivider_some, beq_iff_eq, hw, if_false, Option.some.injEq]
        constructor
        · rintro rfl; exact ⟨rfl, hw⟩
        · rintro ⟨rfl, _⟩; rfl

theorem groupValues_mem_real {k : List (Option String)} {s : String}
    (h : some (some s) ∈ groupValues k) : s ≠ "-----" := by
  obtain ⟨l, hl⟩ := List.mem_iff_getElem?.mp h
  exact (groupValues_getElem?_real.mp hl).2

def differsFrom (l0 : Option (Option String)) (s : String) : Bool :=
  match l0 with
  | some (some v) => s != v
  | _ => true

theorem differsFrom_false {l0 : Option (Option String)} {s : String} (h : differsFrom l0 s = false) :
    l0 = some (some s) := by
  unfold differsFrom at h
  split at h
  · simp at h; rw [h]
  · simp at h

theorem updateLast_cons_real (l0 : Option (Option String)) (s : String)
    (ls ns : List (Option (Option String))) (fc : Bool) :
    updateLast (l0 :: ls) (some (some s) :: ns) fc =
      some (some s) :: updateLast ls ns (differsFrom l0 s || fc) := by
  conv => lhs; unfold updateLast
  rfl

theorem updateLast_cons_null (l0 : Option (Option String))
    (ls ns : List (Option (Option String))) (fc : Bool) :
    updateLast (l0 :: ls) (some none :: ns) fc = some none :: updateLast ls ns fc := by
  conv => lhs; unfold updateLast

theorem updateLast_cons_div (l0 : Option (Option String))
    (ls ns : List (Option (Option String))) (fc : Bool) :
    updateLast (l0 :: ls) (none :: ns) fc = (if fc then none else l0) :: updateLast ls ns fc := by
  conv => lhs; unfold updateLast

theorem updateLast_length : ∀ (ls ns : List (Option (Option String))) (fc : Bool),
    ls.length = ns.length → (updateLast ls ns fc).length = ls.length
  | [], [], _, _ => by simp [updateLast]
  | l0 :: ls, n0 :: ns, fc, h => by
    simp only [List.length_cons, Nat.add_right_cancel_iff] at h
    rcases n0 with _ | _ | s
    · simp [updateLast_cons_div, updateLast_length ls ns _ h]
    · simp [updateLast_cons_null, updateLast_length ls ns _ h]
    · simp [updateLast_cons_real, updateLast_length ls ns _ h]

/-- a level with a real new value remembers it -/
theorem updateLast_real : ∀ (ls ns : List (Option (Option String))) (fc : Bool),
    ls.length = ns.length → ∀ (m : Nat) (x : Option String), ns[m]? = some (some x) →
      (updateLast ls ns fc)[m]? = some (some x)
  | [], [], _, _, m, x, h => by simp at h
  | l0 :: ls, n0 :: ns, fc, hlen, 0, x, h => by
    simp only [List.getElem?_cons_zero, Option.some.injEq] at h
    subst h
    cases x with
    | none => simp [updateLast_cons_null]
    | some s => simp [updateLast_cons_real]
  | l0 :: ls, n0 :: ns, fc, hlen, m + 1, x, h => by
    simp only [List.length_cons, Nat.add_right_cancel_iff] at hlen
    simp only [List.getElem?_cons_succ] at h
    rcases n0 with _ | _ | s
    · simpa [updateLast_cons_div] using updateLast_real ls ns _ hlen m x h
    · simpa [updateLast_cons_null] using updateLast_real ls ns _ hlen m x h
    · simpa [updateLast_cons_real] using updateLast_real ls ns _ hlen m x h

/-- a divider level keeps what was remembered or forgets it -/
theorem updateLast_div : ∀ (ls ns : List (Option (Option String))) (fc : Bool),
    ls.length = ns.length → ∀ (m : Nat), ns[m]? = some none →
      (updateLast ls ns fc)[m]? = ls[m]? ∨ (updateLast ls ns fc)[m]? = some none
  | [], [], _, _, m, h => by simp at h
  | l0 :: ls, n0 :: ns, fc, hlen, 0, h => by
    simp only [List.getElem?_cons_zero, Option.some.injEq] at h
    subst h
    rw [updateLast_cons_div]
    cases fc <;> simp
  | l0 :: ls, n0 :: ns, fc, hlen, m + 1, h => by
    simp only [List.length_cons, Nat.add_right_cancel_iff] at hlen
    simp only [List.getElem?_cons_succ] at h
    rcases n0 with _ | _ | s
    · simpa [updateLast_cons_div] using updateLast_div ls ns _ hlen m h
    · simpa [updateLast_cons_null] using updateLast_div ls ns _ hlen m h
    · simpa [updateLast_cons_real] using updateLast_div ls ns _ hlen m h

/-- once an outer level was rendered, divider levels are forgotten -/
theorem updateLast_div_forced : ∀ (ls ns : List (Option (Option String))),
    ls.length = ns.length → ∀ (m : Nat), ns[m]? = some none →
      (updateLast ls ns true)[m]? = some none
  | [], [], _, m, h => by simp at h
  | l0 :: ls, n0 :: ns, hlen, 0, h => by
    simp only [List.getElem?_cons_zero, Option.some.injEq] at h
    subst h
    simp [updateLast_cons_div]
  | l0 :: ls, n0 :: ns, hlen, m + 1, h => by
    simp only [List.length_cons, Nat.add_right_cancel_iff] at hlen
    simp only [List.getElem?_cons_succ] at h
    rcases n0 with _ | _ | s
    · simpa [updateLast_cons_div] using updateLast_div_forced ls ns hlen m h
    · simpa [updateLast_cons_null] using updateLast_div_forced ls ns hlen m h
    · simpa [updateLast_cons_real] using updateLast_div_forced ls ns hlen m h

/-! ### boundaryHeadings -/

theorem boundaryHeadings_lt (ls ns : List (Option (Option String))) (lvl : Nat) (f : Bool)
    (l : Nat) (hl : l < lvl) : lastH l (boundaryHeadings ls ns lvl f) = none := by
  fun_induction boundaryHeadings ls ns lvl f with
  | case1 l0 ls ns lvl force s differs hd ih =>
    rw [lastH_cons, ih (by omega)]
    simp [Proofs.LayoutHeadings.hd]; omega
  | case2 l0 ls ns lvl force s differs hd ih => exact ih (by omega)
  | case3 l0 ls n ns lvl force hn ih => exact ih (by omega)
  | case4 => rfl


theorem boundaryHeadings_cons_real (l0 : Option (Option String)) (s : String)
    (ls ns : List (Option (Option String))) (lvl : Nat) (f : Bool) :
    boundaryHeadings (l0 :: ls) (some (some s) :: ns) lvl f =
      if differsFrom l0 s || f then Block.heading lvl s :: boundaryHeadings ls ns (lvl + 1) true
      else boundaryHeadings ls ns (lvl + 1) f := by
  conv => lhs; unfold boundaryHeadings
  rfl

theorem boundaryHeadings_cons_other (l0 n0 : Option (Option String))
    (ls ns : List (Option (Option String))) (lvl : Nat) (f : Bool)
    (hn : ∀ s, n0 ≠ some (some s)) :
    boundaryHeadings (l0 :: ls) (n0 :: ns) lvl f = boundaryHeadings ls ns (lvl + 1) f := by
  conv => lhs; unfold boundaryHeadings
  split
  · exact absurd rfl (hn _)
  · rfl

theorem boundaryHeadings_cases (l0 n0 : Option (Option String))
    (ls ns : List (Option (Option String))) (lvl : Nat) (f : Bool) :
    boundaryHeadings (l0 :: ls) (n0 :: ns) lvl f = boundaryHeadings ls ns (lvl + 1) f ∨
    ∃ s, n0 = some (some s) ∧
      boundaryHeadings (l0 :: ls) (n0 :: ns) lvl f =
        Block.heading lvl s :: boundaryHeadings ls ns (lvl + 1) true := by
  by_cases hn : ∃ s, n0 = some (some s)
  · obtain ⟨s, rfl⟩ := hn
    rw [boundaryHeadings_cons_real]
    split
    · exact Or.inr ⟨s, rfl, rfl⟩
    · exact Or.inl rfl
  · exact Or.inl (boundaryHeadings_cons_other _ _ _ _ _ _ (fun s hs => hn ⟨s, hs⟩))

theorem boundaryHeadings_succ (l0 n0 : Option (Option String)) (ls ns : List (Option (Option String)))
    (lvl : Nat) (f : Bool) (l : Nat) (hl : lvl < l) :
    ∃ f', lastH l (boundaryHeadings (l0 :: ls) (n0 :: ns) lvl f) =
      lastH l (boundaryHeadings ls ns (lvl + 1) f') := by
  have hne : ∀ s, hd l (Block.heading lvl s) = none := by
    intro s; simp [hd]; omega
  rcases boundaryHeadings_cases l0 n0 ls ns lvl f with h | ⟨s, _, h⟩
  · exact ⟨f, by rw [h]⟩
  · exact ⟨true, by rw [h, lastH_cons, hne, Option.or_none]⟩

theorem boundaryHeadings_zero_real (l0 : Option (Option String)) (ls ns : List (Option (Option String)))
    (lvl : Nat) (f : Bool) (s : String) :
    lastH lvl (boundaryHeadings (l0 :: ls) (some (some s) :: ns) lvl f) = some s ∨
    (lastH lvl (boundaryHeadings (l0 :: ls) (some (some s) :: ns) lvl f) = none ∧
      l0 = some (some s)) := by
  have hlt := fun f' => boundaryHeadings_lt ls ns (lvl + 1) f' lvl (by omega)
  rw [boundaryHeadings_cons_real]
  split
  · left; simp [lastH_cons, hlt, hd]
  · rename_i hnd
    right
    simp only [Bool.or_eq_true, not_or, Bool.not_eq_true] at hnd
    exact ⟨hlt _, differsFrom_false hnd.1⟩

theorem boundaryHeadings_zero_other (l0 n0 : Option (Option String))
    (ls ns : List (Option (Option String))) (lvl : Nat) (f : Bool)
    (hn : ∀ s, n0 ≠ some (some s)) :
    lastH lvl (boundaryHeadings (l0 :: ls) (n0 :: ns) lvl f) = none := by
  rw [boundaryHeadings_cons_other _ _ _ _ _ _ hn]
  exact boundaryHeadings_lt ls ns (lvl + 1) f lvl (by omega)

/-- what a boundary emits for the level at offset `m` -/
theorem boundaryHeadings_level : ∀ (ls ns : List (Option (Option String))) (lvl : Nat) (f : Bool),
    ls.length = ns.length → ∀ m : Nat,
      match ns[m]? with
      | some (some (some s)) =>
          lastH (lvl + m) (boundaryHeadings ls ns lvl f) = some s ∨
          (lastH (lvl + m) (boundaryHeadings ls ns lvl f) = none ∧ ls[m]? = some (some (some s)))
      | _ => lastH (lvl + m) (boundaryHeadings ls ns lvl f) = none
  | [], [], lvl, f, _, m => by simp [boundaryHeadings]
  | l0 :: ls, n0 :: ns, lvl, f, h, m => by
    simp only [List.length_cons, Nat.add_right_cancel_iff] at h
    cases m with
    | succ m =>
      have e : lvl + (m + 1) = lvl + 1 + m := by omega
      obtain ⟨f', hf'⟩ := boundaryHeadings_succ l0 n0 ls ns lvl f (lvl + 1 + m) (by omega)
      simp only [List.getElem?_cons_succ, e, hf']
      exact boundaryHeadings_level ls ns (lvl + 1) f' h m
    | zero =>
      simp only [List.getElem?_cons_zero, Nat.add_zero]
      split
      · rename_i s heq
        cases heq
        rcases boundaryHeadings_zero_real l0 ls ns lvl f s with h1 | ⟨h1, h2⟩
        · exact Or.inl h1
        · exact Or.inr ⟨h1, by rw [h2]⟩
      · rename_i hn
        apply boundaryHeadings_zero_other
        intro s hs
        exact hn s (by rw [hs])


theorem boundaryHeadings_mem (ls ns : List (Option (Option String))) (lvl : Nat) (f : Bool) :
    ∀ b ∈ boundaryHeadings ls ns lvl f, ∃ l t, b = Block.heading l t ∧ lvl ≤ l ∧ some (some t) ∈ ns := by
  fun_induction boundaryHeadings ls ns lvl f with
  | case1 l0 ls ns lvl force s differs hd ih =>
    intro b hb
    rcases List.mem_cons.mp hb with rfl | hb
    · exact ⟨lvl, s, rfl, Nat.le_refl _, by simp⟩
    · obtain ⟨l, t, rfl, h1, h2⟩ := ih b hb
      exact ⟨l, t, rfl, by omega, List.mem_cons_of_mem _ h2⟩
  | case2 l0 ls ns lvl force s differs hd ih =>
    intro b hb
    obtain ⟨l, t, rfl, h1, h2⟩ := ih b hb
    exact ⟨l, t, rfl, by omega, List.mem_cons_of_mem _ h2⟩
  | case3 l0 ls n ns lvl force hn ih =>
    intro b hb
    obtain ⟨l, t, rfl, h1, h2⟩ := ih b hb
    exact ⟨l, t, rfl, by omega, List.mem_cons_of_mem _ h2⟩
  | case4 => simp

/-! ### list splitting -/

theorem split_left {α : Type} {xs ys pre post : List α} {b : α} (hb : b ∉ xs)
    (h : xs ++ ys = pre ++ b :: post) : ∃ pre', pre = xs ++ pre' ∧ ys = pre' ++ b :: post := by
  rcases List.append_eq_append_iff.mp h with ⟨a', h1, h2⟩ | ⟨c', h1, h2⟩
  · exact ⟨a', h1, h2⟩
  · cases c' with
    | nil => exact ⟨[], by simpa using h1.symm, by simpa using h2.symm⟩
    | cons c cs =>
      simp only [List.cons_append, List.cons.injEq] at h2
      exact absurd (by rw [h1, h2.1]; simp) hb

theorem split_right {α : Type} {xs ys pre post : List α} {b : α} (hb : b ∉ ys)
    (h : xs ++ ys = pre ++ b :: post) : ∃ post', xs = pre ++ b :: post' ∧ post = post' ++ ys := by
  rcases List.append_eq_append_iff.mp h with ⟨a', h1, h2⟩ | ⟨c', h1, h2⟩
  · exact absurd (by rw [h2]; simp) hb
  · cases c' with
    | nil => exact absurd (by rw [List.nil_append] at h2; rw [← h2]; simp) hb
    | cons c cs =>
      simp only [List.cons_append, List.cons.injEq] at h2
      exact ⟨cs, by rw [h1, h2.1], h2.2⟩

/-! ### the body invariant -/

theorem inv_update (acc : List Block) (last nv : List (Option (Option String)))
    (hlen : last.length = nv.length)
    (H1 : ∀ (l : Nat) v, last[l]? = some (some (some v)) → lastH l acc = some v) :
    ∀ (l : Nat) v, (updateLast last nv false)[l]? = some (some (some v)) →
      lastH l (acc ++ boundaryHeadings last nv 0 false) = some v := by
  intro l v h
  have hb := boundaryHeadings_level last nv 0 false hlen l
  rw [lastH_append]
  simp only [Nat.zero_add] at hb
  rcases hnv : nv[l]? with _ | _ | x
  · have : (updateLast last nv false)[l]? = none := by
      rw [List.getElem?_eq_none_iff, updateLast_length _ _ _ hlen, hlen]
      exact List.getElem?_eq_none_iff.mp hnv
    rw [this] at h; simp at h
  · rw [hnv] at hb; simp only at hb
    rw [hb, Option.none_or]
    rcases updateLast_div last nv false hlen l hnv with h' | h'
    · rw [h'] at h; exact H1 l v h
    · rw [h'] at h; simp at h
  · rw [updateLast_real last nv false hlen l x hnv] at h
    simp only [Option.some.injEq] at h
    subst h
    rw [hnv] at hb; simp only at hb
    rcases hb with hb | ⟨hb, hl⟩
    · rw [hb]; rfl
    · rw [hb, Option.none_or]; exact H1 l v hl

/-- Generic invariant of `bodyBlocks`, parametrised by a "heading in force" function `Φ`
(`lastH` for the flat version, `inForce` for the hierarchical one) and a condition `KOK` on the keys
under which a boundary preserves "what `last` remembers is what `Φ` shows". -/
theorem body_inv (nlev : Nat) (Φ : List Block → Nat → Option String)
    (KOK : List (Option String) → Prop) (hKlen : ∀ k, KOK k → k.length = nlev)
    (hdata : ∀ acc i l, Φ (acc ++ [Block.data i]) l = Φ acc l)
    (hupd : ∀ acc last k', KOK k' → last.length = nlev →
      (∀ (l : Nat) v, last[l]? = some (some (some v)) → Φ acc l = some v) →
      ∀ (l : Nat) v, (updateLast last (groupValues k') false)[l]? = some (some (some v)) →
        Φ (acc ++ boundaryHeadings last (groupValues k') 0 false) l = some v) :
    ∀ (ks : List (List (Option String))) (k : List (Option String))
    (last : List (Option (Option String))) (i : Nat) (acc p2 : List Block) (n : Nat) (post : List Block),
    (∀ k' ∈ ks, KOK k') → last.length = nlev →
    (∀ (l : Nat) v, last[l]? = some (some (some v)) → Φ acc l = some v) →
    (∀ (l : Nat) v, k[l]? = some (some v) → v ≠ "-----" → last[l]? = some (some (some v))) →
    Block.data i :: bodyBlocks ks (some k) last (i + 1) = p2 ++ Block.data n :: post →
    ∃ j key, n = i + j ∧ (k :: ks)[j]? = some key ∧
      ∀ (l : Nat) v, key[l]? = some (some v) → v ≠ "-----" → Φ (acc ++ p2) l = some v := by
  intro ks
  induction ks with
  | nil =>
    intro k last i acc p2 n post _ _ H1 H2 hs
    cases p2 with
    | nil =>
      simp only [List.nil_append, List.cons.injEq, Block.data.injEq] at hs
      exact ⟨0, k, by omega, rfl, fun l v h1 h2 => by simpa using H1 l v (H2 l v h1 h2)⟩
    | cons b p3 => simp [bodyBlocks] at hs
  | cons k' ks ih =>
    intro k last i acc p2 n post hks hlen H1 H2 hs
    cases p2 with
    | nil =>
      simp only [List.nil_append, List.cons.injEq, Block.data.injEq] at hs
      exact ⟨0, k, by omega, rfl, fun l v h1 h2 => by simpa using H1 l v (H2 l v h1 h2)⟩
    | cons b p3 =>
      simp only [List.cons_append, List.cons.injEq] at hs
      obtain ⟨rfl, hs⟩ := hs
      have hok : KOK k' := hks k' (by simp)
      have hk' : k'.length = nlev := hKlen k' hok
      have hks' : ∀ k'' ∈ ks, KOK k'' := fun k'' h => hks k'' (List.mem_cons_of_mem _ h)
      rw [bodyBlocks] at hs
      simp only at hs
      split at hs
      · -- boundary
        have hnot : Block.data n ∉ boundaryHeadings last (groupValues k') 0 false := by
          intro hm
          obtain ⟨l, t, h, _⟩ := boundaryHeadings_mem _ _ _ _ _ hm
          cases h
        obtain ⟨p4, rfl, hs4⟩ := split_left hnot hs
        have hl2 : last.length = (groupValues k').length := by rw [groupValues_length, hk', hlen]
        obtain ⟨j, key, hj, hkey, hres⟩ := ih k' (updateLast last (groupValues k') false) (i + 1)
          (acc ++ [Block.data i] ++ boundaryHeadings last (groupValues k') 0 false) p4 n post hks'
          (by rw [updateLast_length _ _ _ hl2, hlen])
          (hupd _ _ _ hok hlen (fun l v h => by rw [hdata]; exact H1 l v h))
          (fun l v h1 h2 =>
            updateLast_real _ _ _ hl2 l _ (groupValues_getElem?_real.mpr ⟨h1, h2⟩))
          hs4
        refine ⟨j + 1, key, by omega, by simpa using hkey, fun l v h1 h2 => ?_⟩
        have := hres l v h1 h2
        simpa [List.append_assoc] using this
      · obtain ⟨j, key, hj, hkey, hres⟩ := ih k' last (i + 1) (acc ++ [Block.data i]) p3 n post hks'
          hlen (fun l v h => by rw [hdata]; exact H1 l v h)
          (by rename_i hne; simp at hne; subst hne; exact H2) hs
        refine ⟨j + 1, key, by omega, by simpa using hkey, fun l v h1 h2 => ?_⟩
        have := hres l v h1 h2
        simpa [List.append_assoc] using this

/-- flat instance -/
theorem body_inv_flat (nlev : Nat) (ks : List (List (Option String))) (k : List (Option String))
    (last : List (Option (Option String))) (i : Nat) (acc p2 : List Block) (n : Nat) (post : List Block)
    (hks : ∀ k' ∈ ks, k'.length = nlev) (hlen : last.length = nlev)
    (H1 : ∀ (l : Nat) v, last[l]? = some (some (some v)) → lastH l acc = some v)
    (H2 : ∀ (l : Nat) v, k[l]? = some (some v) → v ≠ "-----" → last[l]? = some (some (some v)))
    (hs : Block.data i :: bodyBlocks ks (some k) last (i + 1) = p2 ++ Block.data n :: post) :
    ∃ j key, n = i + j ∧ (k :: ks)[j]? = some key ∧
      ∀ (l : Nat) v, key[l]? = some (some v) → v ≠ "-----" → lastH l (acc ++ p2) = some v :=
  body_inv nlev (fun acc l => lastH l acc) (fun k => k.length = nlev) (fun _ h => h)
    (fun acc i l => by simp [lastH_append, lastH_cons, hd])
    (fun acc last k' hk' hlen H1 =>
      inv_update acc last (groupValues k') (by rw [groupValues_length, hk', hlen]) H1)
    ks k last i acc p2 n post hks hlen H1 H2 hs

/-! ### hierarchical "in force" function -/

/-- same as `Props.C05.inForceStep` -/
def forceStep (f : Nat → Option String) : Block → (Nat → Option String)
  | .heading l t => fun k => if k = l then some t else if l < k then none else f k
  | _ => f

def forceFrom (f : Nat → Option String) (bs : List Block) : Nat → Option String :=
  bs.foldl forceStep f

/-- same as `Props.C05.inForce` -/
def force (bs : List Block) : Nat → Option String := forceFrom (fun _ => none) bs

theorem force_append (xs ys : List Block) : force (xs ++ ys) = forceFrom (force xs) ys := by
  simp [force, forceFrom, List.foldl_append]

theorem forceFrom_cons (f : Nat → Option String) (b : Block) (bs : List Block) :
    forceFrom f (b :: bs) = forceFrom (forceStep f b) bs := rfl

/-- headings of deeper levels do not touch level `l` -/
theorem forceFrom_deeper (l : Nat) : ∀ (bs : List Block) (f : Nat → Option String),
    (∀ b ∈ bs, ∀ l' t, b = Block.heading l' t → l < l') → forceFrom f bs l = f l
  | [], f, _ => rfl
  | b :: bs, f, h => by
    rw [forceFrom_cons, forceFrom_deeper l bs _ (fun b' hb' => h b' (List.mem_cons_of_mem _ hb'))]
    cases b with
    | heading l' t =>
      have := h _ (by simp) l' t rfl
      simp only [forceStep]
      rw [if_neg (by omega), if_neg (by omega)]
    | _ => rfl

theorem force_data (acc : List Block) (i l : Nat) : force (acc ++ [Block.data i]) l = force acc l := by
  rw [force_append]; rfl

theorem forceFrom_boundary_deeper (ls ns : List (Option (Option String))) (lvl : Nat) (fc : Bool)
    (f : Nat → Option String) (l : Nat) (hl : l < lvl) :
    forceFrom f (boundaryHeadings ls ns lvl fc) l = f l := by
  apply forceFrom_deeper
  intro b hb l' t hbt
  obtain ⟨l'', t'', h, h1, _⟩ := boundaryHeadings_mem _ _ _ _ b hb
  rw [hbt] at h; cases h; omega

/-- forced cascade: every present level is rendered and in force afterwards -/
theorem forceFrom_boundary_forced : ∀ (ls ns : List (Option (Option String))) (lvl : Nat)
    (f : Nat → Option String), ls.length = ns.length →
    ∀ (m : Nat) (s : String), ns[m]? = some (some (some s)) →
      forceFrom f (boundaryHeadings ls ns lvl true) (lvl + m) = some s
  | [], [], _, _, _, m, s, h => by simp at h
  | l0 :: ls, n0 :: ns, lvl, f, hlen, 0, s, h => by
    simp only [List.getElem?_cons_zero, Option.some.injEq] at h
    subst h
    rw [boundaryHeadings_cons_real]
    simp only [Bool.or_true, if_true, Nat.add_zero, forceFrom_cons]
    rw [forceFrom_boundary_deeper _ _ _ _ _ _ (by omega)]
    simp [forceStep]
  | l0 :: ls, n0 :: ns, lvl, f, hlen, m + 1, s, h => by
    simp only [List.length_cons, Nat.add_right_cancel_iff] at hlen
    simp only [List.getElem?_cons_succ] at h
    have e : lvl + (m + 1) = lvl + 1 + m := by omega
    rw [e]
    rcases boundaryHeadings_cases l0 n0 ls ns lvl true with hc | ⟨s0, _, hc⟩
    · rw [hc]; exact forceFrom_boundary_forced ls ns (lvl + 1) f hlen m s h
    · rw [hc, forceFrom_cons]; exact forceFrom_boundary_forced ls ns (lvl + 1) _ hlen m s h

/-- a boundary: if what `ls` remembers is in force before, every present level of `ns` is in force after -/
theorem forceFrom_boundary : ∀ (ls ns : List (Option (Option String))) (lvl : Nat) (fc : Bool)
    (f : Nat → Option String), ls.length = ns.length →
    (∀ (m : Nat) (s : String), ls[m]? = some (some (some s)) → f (lvl + m) = some s) →
    ∀ (m : Nat) (s : String), ns[m]? = some (some (some s)) →
      forceFrom f (boundaryHeadings ls ns lvl fc) (lvl + m) = some s
  | [], [], _, _, _, _, _, m, s, h => by simp at h
  | l0 :: ls, n0 :: ns, lvl, fc, f, hlen, P, 0, s, h => by
    simp only [List.getElem?_cons_zero, Option.some.injEq] at h
    subst h
    rw [boundaryHeadings_cons_real]
    split
    · simp only [Nat.add_zero, forceFrom_cons]
      rw [forceFrom_boundary_deeper _ _ _ _ _ _ (by omega)]
      simp [forceStep]
    · rename_i hnd
      simp only [Bool.or_eq_true, not_or, Bool.not_eq_true] at hnd
      have hl0 := differsFrom_false hnd.1
      rw [Nat.add_zero, forceFrom_boundary_deeper _ _ _ _ _ _ (by omega)]
      have := P 0 s (by simp [hl0])
      simpa using this
  | l0 :: ls, n0 :: ns, lvl, fc, f, hlen, P, m + 1, s, h => by
    simp only [List.length_cons, Nat.add_right_cancel_iff] at hlen
    simp only [List.getElem?_cons_succ] at h
    have e : lvl + (m + 1) = lvl + 1 + m := by omega
    have P' : ∀ (m : Nat) (s : String), ls[m]? = some (some (some s)) → f (lvl + 1 + m) = some s := by
      intro m' s' h'
      have := P (m' + 1) s' (by simpa using h')
      rwa [show lvl + (m' + 1) = lvl + 1 + m' by omega] at this
    rw [e]
    by_cases hn : ∃ s0, n0 = some (some s0)
    · obtain ⟨s0, rfl⟩ := hn
      rw [boundaryHeadings_cons_real]
      split
      · rw [forceFrom_cons]; exact forceFrom_boundary_forced ls ns (lvl + 1) _ hlen m s h
      · exact forceFrom_boundary ls ns (lvl + 1) fc f hlen P' m s h
    · rw [boundaryHeadings_cons_other _ _ _ _ _ _ (fun s0 hs0 => hn ⟨s0, hs0⟩)]
      exact forceFrom_boundary ls ns (lvl + 1) fc f hlen P' m s h

/-- a divider level that is still remembered after the boundary was not passed by any heading -/
theorem forceFrom_boundary_div : ∀ (ls ns : List (Option (Option String))) (lvl : Nat) (fc : Bool)
    (f : Nat → Option String), ls.length = ns.length →
    ∀ (m : Nat) (v : String), ns[m]? = some none →
      (updateLast ls ns fc)[m]? = some (some (some v)) →
      ls[m]? = some (some (some v)) ∧
        forceFrom f (boundaryHeadings ls ns lvl fc) (lvl + m) = f (lvl + m)
  | [], [], _, _, _, _, m, v, h, _ => by simp at h
  | l0 :: ls, n0 :: ns, lvl, fc, f, hlen, 0, v, h, hu => by
    simp only [List.getElem?_cons_zero, Option.some.injEq] at h
    subst h
    rw [updateLast_cons_div] at hu
    rw [boundaryHeadings_cons_other _ _ _ _ _ _ (by intro s h; cases h), Nat.add_zero,
      forceFrom_boundary_deeper _ _ _ _ _ _ (by omega)]
    cases fc with
    | true => simp at hu
    | false =>
      simp only [Bool.false_eq_true, if_false, List.getElem?_cons_zero] at hu
      exact ⟨by simpa using hu, rfl⟩
  | l0 :: ls, n0 :: ns, lvl, fc, f, hlen, m + 1, v, h, hu => by
    simp only [List.length_cons, Nat.add_right_cancel_iff] at hlen
    simp only [List.getElem?_cons_succ] at h
    have e : lvl + (m + 1) = lvl + 1 + m := by omega
    rw [e]
    simp only [List.getElem?_cons_succ]
    rcases n0 with _ | _ | s0
    · rw [updateLast_cons_div, List.getElem?_cons_succ] at hu
      rw [boundaryHeadings_cons_other _ _ _ _ _ _ (by intro s h; cases h)]
      exact forceFrom_boundary_div ls ns (lvl + 1) fc f hlen m v h hu
    · rw [updateLast_cons_null, List.getElem?_cons_succ] at hu
      rw [boundaryHeadings_cons_other _ _ _ _ _ _ (by intro s h; cases h)]
      exact forceFrom_boundary_div ls ns (lvl + 1) fc f hlen m v h hu
    · rw [updateLast_cons_real, List.getElem?_cons_succ] at hu
      rw [boundaryHeadings_cons_real]
      cases hc : (differsFrom l0 s0 || fc) with
      | true =>
        rw [hc, updateLast_div_forced ls ns hlen m h] at hu
        simp at hu
      | false =>
        have hfc : fc = false := by
          cases fc
          · rfl
          · simp at hc
        rw [hc] at hu
        subst hfc
        simp only [Bool.false_eq_true, if_false]
        exact forceFrom_boundary_div ls ns (lvl + 1) false f hlen m v h hu

/-- hierarchical counterpart of `inv_update` -/
theorem force_update (acc : List Block) (last nv : List (Option (Option String)))
    (hlen : last.length = nv.length)
    (H1 : ∀ (l : Nat) v, last[l]? = some (some (some v)) → force acc l = some v) :
    ∀ (l : Nat) v, (updateLast last nv false)[l]? = some (some (some v)) →
      force (acc ++ boundaryHeadings last nv 0 false) l = some v := by
  intro l v h
  rw [force_append]
  have hb := forceFrom_boundary last nv 0 false (force acc) hlen
    (fun m s hm => by rw [Nat.zero_add]; exact H1 m s hm) l v
  rw [Nat.zero_add] at hb
  rcases hnv' : nv[l]? with _ | _ | x
  · have : (updateLast last nv false)[l]? = none := by
      rw [List.getElem?_eq_none_iff, updateLast_length _ _ _ hlen, hlen]
      exact List.getElem?_eq_none_iff.mp hnv'
    rw [this] at h; simp at h
  · obtain ⟨h1, h2⟩ := forceFrom_boundary_div last nv 0 false (force acc) hlen l v hnv' h
    rw [Nat.zero_add] at h2
    rw [h2]; exact H1 l v h1
  · rw [updateLast_real last nv false hlen l x hnv'] at h
    simp only [Option.some.injEq] at h
    subst h
    exact hb hnv'

/-- hierarchical instance -/
theorem body_inv_hier (nlev : Nat) (ks : List (List (Option String))) (k : List (Option String))
    (last : List (Option (Option String))) (i : Nat) (acc p2 : List Block) (n : Nat) (post : List Block)
    (hks : ∀ k' ∈ ks, k'.length = nlev) (hlen : last.length = nlev)
    (H1 : ∀ (l : Nat) v, last[l]? = some (some (some v)) → force acc l = some v)
    (H2 : ∀ (l : Nat) v, k[l]? = some (some v) → v ≠ "-----" → last[l]? = some (some (some v)))
    (hs : Block.data i :: bodyBlocks ks (some k) last (i + 1) = p2 ++ Block.data n :: post) :
    ∃ j key, n = i + j ∧ (k :: ks)[j]? = some key ∧
      ∀ (l : Nat) v, key[l]? = some (some v) → v ≠ "-----" → force (acc ++ p2) l = some v :=
  body_inv nlev force (fun k => k.length = nlev) (fun _ h => h)
    force_data
    (fun acc last k' hk' hlen H1 =>
      force_update acc last (groupValues k') (by rw [groupValues_length, hk', hlen]) H1)
    ks k last i acc p2 n post hks hlen H1 H2 hs

/-! ### page-top headings -/

def topFrom : List (Option (Option String)) → Nat → List Block
  | [], _ => []
  | some (some s) :: gs, n => Block.heading n s :: topFrom gs (n + 1)
  | _ :: gs, n => topFrom gs (n + 1)

theorem topFrom_eq (gs : List (Option (Option String))) (n : Nat) :
    ((gs.zipIdx n).filterMap fun (gv, lvl) =>
      match gv with
      | some (some s) => some (Block.heading lvl s)
      | _ => none) = topFrom gs n := by
  induction gs generalizing n with
  | nil => rfl
  | cons g gs ih =>
    rcases g with _ | _ | s <;> simp [List.zipIdx_cons, topFrom, ih]

theorem topHeadings_eq (k : List (Option String)) : topHeadings k = topFrom (groupValues k) 0 :=
  topFrom_eq _ 0

theorem topFrom_mem (gs : List (Option (Option String))) (n : Nat) :
    ∀ b ∈ topFrom gs n, ∃ l t, b = Block.heading l t ∧ n ≤ l ∧ some (some t) ∈ gs := by
  induction gs generalizing n with
  | nil => simp [topFrom]
  | cons g gs ih =>
    intro b hb
    rcases g with _ | _ | s
    · obtain ⟨l, t, rfl, h1, h2⟩ := ih (n + 1) b (by simpa [topFrom] using hb)
      exact ⟨l, t, rfl, by omega, List.mem_cons_of_mem _ h2⟩
    · obtain ⟨l, t, rfl, h1, h2⟩ := ih (n + 1) b (by simpa [topFrom] using hb)
      exact ⟨l, t, rfl, by omega, List.mem_cons_of_mem _ h2⟩
    · simp only [topFrom, List.mem_cons] at hb
      rcases hb with rfl | hb
      · exact ⟨n, s, rfl, Nat.le_refl _, by simp⟩
      · obtain ⟨l, t, rfl, h1, h2⟩ := ih (n + 1) b hb
        exact ⟨l, t, rfl, by omega, List.mem_cons_of_mem _ h2⟩

theorem topFrom_lt (gs : List (Option (Option String))) (n l : Nat) (hl : l < n) :
    lastH l (topFrom gs n) = none := by
  apply lastH_eq_none_of_forall
  intro b hb
  obtain ⟨l', t, rfl, h1, _⟩ := topFrom_mem gs n b hb
  simp [hd]; omega

theorem topFrom_level : ∀ (gs : List (Option (Option String))) (n m : Nat) (v : String),
    gs[m]? = some (some (some v)) → lastH (n + m) (topFrom gs n) = some v
  | [], _, _, _, h => by simp at h
  | g :: gs, n, 0, v, h => by
    simp only [List.getElem?_cons_zero, Option.some.injEq] at h
    subst h
    simp [topFrom, lastH_cons, topFrom_lt gs (n + 1) n (by omega), hd]
  | g :: gs, n, m + 1, v, h => by
    simp only [List.getElem?_cons_succ] at h
    have ih := topFrom_level gs (n + 1) m v h
    have e : n + (m + 1) = n + 1 + m := by omega
    rw [e]
    rcases g with _ | _ | s
    · simpa [topFrom] using ih
    · simpa [topFrom] using ih
    · have hne : hd (n + 1 + m) (Block.heading n s) = none := by simp [hd]; omega
      simp only [topFrom, lastH_cons, hne, Option.or_none]; exact ih

theorem topHeadings_level {k : List (Option String)} {l : Nat} {v : String}
    (h : (groupValues k)[l]? = some (some (some v))) : lastH l (topHeadings k) = some v := by
  have := topFrom_level (groupValues k) 0 l v h
  rwa [Nat.zero_add, ← topHeadings_eq] at this

theorem forceFrom_topFrom : ∀ (gs : List (Option (Option String))) (n : Nat)
    (f : Nat → Option String) (m : Nat) (s : String), gs[m]? = some (some (some s)) →
    forceFrom f (topFrom gs n) (n + m) = some s
  | [], _, _, _, _, h => by simp at h
  | g :: gs, n, f, 0, s, h => by
    simp only [List.getElem?_cons_zero, Option.some.injEq] at h
    subst h
    simp only [topFrom, forceFrom_cons, Nat.add_zero]
    rw [forceFrom_deeper]
    · simp [forceStep]
    · intro b hb l' t hbt
      obtain ⟨l'', t'', h, h1, _⟩ := topFrom_mem _ _ b hb
      rw [hbt] at h; cases h; omega
  | g :: gs, n, f, m + 1, s, h => by
    simp only [List.getElem?_cons_succ] at h
    have e : n + (m + 1) = n + 1 + m := by omega
    rw [e]
    rcases g with _ | _ | s0
    · exact forceFrom_topFrom gs (n + 1) f m s h
    · exact forceFrom_topFrom gs (n + 1) f m s h
    · exact forceFrom_topFrom gs (n + 1) _ m s h

theorem force_top (A : List Block) {k : List (Option String)} {l : Nat} {v : String}
    (h : (groupValues k)[l]? = some (some (some v))) : force (A ++ topHeadings k) l = some v := by
  have := forceFrom_topFrom (groupValues k) 0 (force A) l v h
  rwa [Nat.zero_add, ← topHeadings_eq, ← force_append] at this

/-! ### "a heading is followed by a deeper heading or a data row" -/

def Starts (n : Nat) (bs : List Block) : Prop :=
  ∃ b rest, bs = b :: rest ∧ ((∃ i, b = Block.data i) ∨ (∃ l' t', b = Block.heading l' t' ∧ n ≤ l'))

def Good (bs : List Block) : Prop :=
  ∀ pre l t post, bs = pre ++ Block.heading l t :: post → Starts (l + 1) post

theorem Starts.mono {n m : Nat} {bs : List Block} (hnm : n ≤ m) (h : Starts m bs) : Starts n bs := by
  obtain ⟨b, rest, rfl, h | ⟨l', t', rfl, h⟩⟩ := h
  · exact ⟨b, rest, rfl, Or.inl h⟩
  · exact ⟨_, rest, rfl, Or.inr ⟨l', t', rfl, by omega⟩⟩

theorem Starts.append {n : Nat} {bs : List Block} (h : Starts n bs) (F : List Block) :
    Starts n (bs ++ F) := by
  obtain ⟨b, rest, rfl, h⟩ := h
  exact ⟨b, rest ++ F, rfl, h⟩

theorem Starts.data (n i : Nat) (rest : List Block) : Starts n (Block.data i :: rest) :=
  ⟨_, rest, rfl, Or.inl ⟨i, rfl⟩⟩

theorem Good.nil : Good [] := by
  intro pre l t post h; simp at h

theorem Good.cons_other {b : Block} {bs : List Block} (hb : ∀ l t, b ≠ Block.heading l t)
    (h : Good bs) : Good (b :: bs) := by
  intro pre l t post he
  cases pre with
  | nil => simp only [List.nil_append, List.cons.injEq] at he; exact absurd he.1 (hb l t)
  | cons c pre =>
    simp only [List.cons_append, List.cons.injEq] at he
    exact h pre l t post he.2

theorem Good.cons_heading {l : Nat} {t : String} {bs : List Block} (hs : Starts (l + 1) bs)
    (h : Good bs) : Good (Block.heading l t :: bs) := by
  intro pre l' t' post he
  cases pre with
  | nil =>
    simp only [List.nil_append, List.cons.injEq, Block.heading.injEq] at he
    obtain ⟨⟨rfl, rfl⟩, rfl⟩ := he
    exact hs
  | cons c pre =>
    simp only [List.cons_append, List.cons.injEq] at he
    exact h pre l' t' post he.2

theorem Good.append_left {A bs : List Block} (hA : ∀ b ∈ A, ∀ l t, b ≠ Block.heading l t)
    (h : Good bs) : Good (A ++ bs) := by
  induction A with
  | nil => exact h
  | cons a A ih =>
    exact Good.cons_other (hA a (by simp)) (ih fun b hb => hA b (List.mem_cons_of_mem _ hb))

theorem Good.append_right {bs F : List Block} (hF : ∀ b ∈ F, ∀ l t, b ≠ Block.heading l t)
    (h : Good bs) : Good (bs ++ F) := by
  intro pre l t post he
  obtain ⟨post', h1, rfl⟩ := split_right (fun hm => hF _ hm l t rfl) he
  exact (h pre l t post' h1).append F

theorem good_topFrom (X : List Block) (hX : Good X) (hd : ∃ i rest, X = Block.data i :: rest) :
    ∀ (gs : List (Option (Option String))) (n : Nat),
      Good (topFrom gs n ++ X) ∧ Starts n (topFrom gs n ++ X)
  | [], n => by
    obtain ⟨i, rest, rfl⟩ := hd
    exact ⟨hX, Starts.data _ _ _⟩
  | g :: gs, n => by
    have ih := good_topFrom X hX hd gs (n + 1)
    rcases g with _ | _ | s
    · exact ⟨ih.1, ih.2.mono (by omega)⟩
    · exact ⟨ih.1, ih.2.mono (by omega)⟩
    · exact ⟨Good.cons_heading ih.2 ih.1, ⟨_, _, rfl, Or.inr ⟨n, s, rfl, Nat.le_refl _⟩⟩⟩

theorem good_boundary (X : List Block) (hX : Good X) (hd : ∃ i rest, X = Block.data i :: rest) :
    ∀ (ls ns : List (Option (Option String))) (lvl : Nat) (f : Bool),
      Good (boundaryHeadings ls ns lvl f ++ X) ∧ Starts lvl (boundaryHeadings ls ns lvl f ++ X)
  | [], ns, lvl, f => by
    obtain ⟨i, rest, rfl⟩ := hd
    rw [boundaryHeadings]
    · exact ⟨hX, Starts.data _ _ _⟩
    · simp
  | l0 :: ls, [], lvl, f => by
    obtain ⟨i, rest, rfl⟩ := hd
    rw [boundaryHeadings]
    · exact ⟨hX, Starts.data _ _ _⟩
    · simp
  | l0 :: ls, n0 :: ns, lvl, f => by
    have ih := fun f' => good_boundary X hX hd ls ns (lvl + 1) f'
    rcases boundaryHeadings_cases l0 n0 ls ns lvl f with h | ⟨s, _, h⟩
    · rw [h]; exact ⟨(ih f).1, (ih f).2.mono (by omega)⟩
    · rw [h]
      exact ⟨Good.cons_heading (ih true).2 (ih true).1, ⟨_, _, rfl, Or.inr ⟨lvl, s, rfl, Nat.le_refl _⟩⟩⟩

theorem good_body : ∀ (ks : List (List (Option String))) (prev : Option (List (Option String)))
    (last : List (Option (Option String))) (i : Nat), Good (bodyBlocks ks prev last i)
  | [], prev, last, i => by simp [bodyBlocks, Good.nil]
  | k :: ks, none, last, i => by
    simp only [bodyBlocks]
    exact Good.cons_other (by intro l t h; cases h) (good_body ks _ _ _)
  | k :: ks, some pk, last, i => by
    simp only [bodyBlocks]
    split
    · exact (good_boundary _ (Good.cons_other (by intro l t h; cases h) (good_body ks _ _ _))
        ⟨_, _, rfl⟩ _ _ _ _).1
    · exact Good.cons_other (by intro l t h; cases h) (good_body ks _ _ _)

theorem body_mem : ∀ (ks : List (List (Option String))) (prev : Option (List (Option String)))
    (last : List (Option (Option String))) (i : Nat),
    ∀ b ∈ bodyBlocks ks prev last i,
      (∃ n, b = Block.data n) ∨ (∃ l t, b = Block.heading l t ∧ t ≠ "-----")
  | [], prev, last, i => by simp [bodyBlocks]
  | k :: ks, none, last, i => by
    intro b hb
    simp only [bodyBlocks, List.mem_cons] at hb
    rcases hb with rfl | hb
    · exact Or.inl ⟨_, rfl⟩
    · exact body_mem ks _ _ _ b hb
  | k :: ks, some pk, last, i => by
    intro b hb
    simp only [bodyBlocks] at hb
    split at hb
    · simp only [List.mem_append, List.mem_cons] at hb
      rcases hb with hb | rfl | hb
      · obtain ⟨l, t, rfl, _, h⟩ := boundaryHeadings_mem _ _ _ _ b hb
        exact Or.inr ⟨l, t, rfl, groupValues_mem_real h⟩
      · exact Or.inl ⟨_, rfl⟩
      · exact body_mem ks _ _ _ b hb
    · simp only [List.mem_cons] at hb
      rcases hb with rfl | hb
      · exact Or.inl ⟨_, rfl⟩
      · exact body_mem ks _ _ _ b hb

theorem topHeadings_mem (k : List (Option String)) :
    ∀ b ∈ topHeadings k, ∃ l t, b = Block.heading l t ∧ t ≠ "-----" := by
  intro b hb
  rw [topHeadings_eq] at hb
  obtain ⟨l, t, rfl, _, h⟩ := topFrom_mem _ _ b hb
  exact ⟨l, t, rfl, groupValues_mem_real h⟩


/-! ### decomposition of `renderPage` -/

def pageHead (d : LDoc) (pg : PageCtx) : List Block :=
  let isFirst := pg.number == 1
  let isLast := pg.number == pg.total
  let needsHeader := d.pagebyHeader || isFirst
  let firstRow := d.rows[pg.start]?
  (if isFirst then [] else [Block.brk]) ++
  (if d.hasTitle && d.pageTitle.shows isFirst isLast then [Block.title] else []) ++
  (if d.hasSublineTxt && d.pageTitle.shows isFirst isLast then [Block.subline] else []) ++
  (if d.hasSubline then
     match firstRow with
     | some r =>
       let parts := (groupValues r.skey).filterMap fun gv => match gv with
         | some (some s) => some s
         | some none => none
         | none => none
       if parts.isEmpty then [] else [Block.sublineHeading (", ".intercalate parts)]
     | none => []
   else []) ++
  (if needsHeader then
     (d.headers.zipIdx.filterMap fun (hasText, k) =>
        if hasText || d.asColheader then some (Block.colHeader k) else none)
   else [])

def pageMid (d : LDoc) (pg : PageCtx) : List Block :=
  let pageKeys := ((d.rows.drop pg.start).take pg.height).map (·.pkey)
  let firstRow := d.rows[pg.start]?
  (if d.spanning then
     match firstRow with
     | some r => topHeadings r.pkey
     | none => []
   else []) ++
  (if d.spanning then
     match firstRow with
     | some r => bodyBlocks pageKeys none (groupValues r.pkey) pg.dataStart
     | none => dataBlocks pg.dataStart pg.height
   else dataBlocks pg.dataStart pg.height)

def pageTail (d : LDoc) (pg : PageCtx) : List Block :=
  let isFirst := pg.number == 1
  let isLast := pg.number == pg.total
  (if d.footnote != .absent && d.pageFootnote.shows isFirst isLast
     then [Block.footnote (d.footnote == .table)] else []) ++
  (if d.source != .absent && d.pageSource.shows isFirst isLast
     then [Block.source (d.source == .table)] else [])

theorem renderPage_eq (d : LDoc) (pg : PageCtx) :
    renderPage d pg = pageHead d pg ++ (pageMid d pg ++ pageTail d pg) := by
  simp only [renderPage, pageHead, pageMid, pageTail, List.append_assoc]
  rfl

/-- blocks that are neither headings, data rows nor subline headings -/
def other : Block → Bool
  | .heading _ _ => false
  | .data _ => false
  | .sublineHeading _ => false
  | _ => true

theorem pageHead_mem (d : LDoc) (pg : PageCtx) :
    ∀ b ∈ pageHead d pg, other b = true ∨ ∃ t, b = Block.sublineHeading t := by
  intro b hb
  simp only [pageHead, List.mem_append] at hb
  rcases hb with (((hb | hb) | hb) | hb) | hb
  · split at hb <;> simp at hb; subst hb; exact Or.inl rfl
  · split at hb <;> simp at hb; subst hb; exact Or.inl rfl
  · split at hb <;> simp at hb; subst hb; exact Or.inl rfl
  · split at hb
    · split at hb
      · split at hb <;> simp at hb
        exact Or.inr ⟨_, hb⟩
      · simp at hb
    · simp at hb
  · split at hb
    · obtain ⟨⟨a, k⟩, _, hx⟩ := List.mem_filterMap.mp hb
      by_cases hc : (a || d.asColheader) = true <;> simp only [hc] at hx
      · simp only [if_true, Option.some.injEq] at hx
        rw [← hx]; exact Or.inl rfl
      · simp at hx
    · simp at hb

theorem pageTail_mem (d : LDoc) (pg : PageCtx) : ∀ b ∈ pageTail d pg, other b = true := by
  intro b hb
  simp only [pageTail, List.mem_append] at hb
  rcases hb with hb | hb
  · split at hb <;> simp at hb; subst hb; rfl
  · split at hb <;> simp at hb; subst hb; rfl

theorem dataBlocks_mem (s n : Nat) : ∀ b ∈ dataBlocks s n, ∃ i, b = Block.data i := by
  intro b hb
  obtain ⟨j, _, rfl⟩ := List.mem_map.mp hb
  exact ⟨_, rfl⟩

theorem pageMid_mem (d : LDoc) (pg : PageCtx) :
    ∀ b ∈ pageMid d pg, (∃ n, b = Block.data n) ∨
      (∃ l t, b = Block.heading l t ∧ t ≠ "-----" ∧ d.spanning = true) := by
  intro b hb
  simp only [pageMid, List.mem_append] at hb
  by_cases hsp : d.spanning = true
  · simp only [hsp, if_true] at hb
    rcases hb with hb | hb
    · split at hb
      · obtain ⟨l, t, rfl, h⟩ := topHeadings_mem _ b hb
        exact Or.inr ⟨l, t, rfl, h, hsp⟩
      · simp at hb
    · split at hb
      · rcases body_mem _ _ _ _ b hb with h | ⟨l, t, rfl, h⟩
        · exact Or.inl h
        · exact Or.inr ⟨l, t, rfl, h, hsp⟩
      · exact Or.inl (dataBlocks_mem _ _ b hb)
  · simp only [hsp] at hb
    rcases hb with hb | hb
    · simp at hb
    · exact Or.inl (dataBlocks_mem _ _ b (by simpa using hb))

theorem pageMid_spanning (d : LDoc) (pg : PageCtx) (hsp : d.spanning = true) (r : LRow)
    (hr : d.rows[pg.start]? = some r) :
    pageMid d pg = topHeadings r.pkey ++
      bodyBlocks (((d.rows.drop pg.start).take pg.height).map (·.pkey)) none (groupValues r.pkey)
        pg.dataStart := by
  simp only [pageMid, hsp, hr, if_true]

/-- every heading of a page is a non-divider and needs `spanning` -/
theorem renderPage_heading_mem (d : LDoc) (pg : PageCtx) (l : Nat) (t : String)
    (h : Block.heading l t ∈ renderPage d pg) : t ≠ "-----" ∧ d.spanning = true := by
  rw [renderPage_eq] at h
  simp only [List.mem_append] at h
  rcases h with h | h | h
  · rcases pageHead_mem d pg _ h with h | ⟨_, h⟩
    · simp [other] at h
    · cases h
  · rcases pageMid_mem d pg _ h with ⟨_, h⟩ | ⟨l', t', h, h1, h2⟩
    · cases h
    · cases h; exact ⟨h1, h2⟩
  · have := pageTail_mem d pg _ h
    simp [other] at this

/-- position of a data row in a page with spanning rows -/
theorem page_split (d : LDoc) (pg : PageCtx) (hsp : d.spanning = true)
    (hin : pg.start + pg.height ≤ d.rows.length) (hpos : 0 < pg.height)
    (pre post : List Block) (i : Nat) (hsplit : renderPage d pg = pre ++ Block.data i :: post) :
    ∃ r0 ks p2 q1, d.rows[pg.start]? = some r0 ∧
      ((d.rows.drop pg.start).take pg.height).map (·.pkey) = r0.pkey :: ks ∧
      pre = pageHead d pg ++ (topHeadings r0.pkey ++ p2) ∧
      Block.data pg.dataStart ::
        bodyBlocks ks (some r0.pkey) (groupValues r0.pkey) (pg.dataStart + 1) =
          p2 ++ Block.data i :: q1 := by
  have hlt : pg.start < d.rows.length := by omega
  have hr0 : d.rows[pg.start]? = some d.rows[pg.start] := List.getElem?_eq_getElem hlt
  generalize d.rows[pg.start] = r0 at hr0
  rw [renderPage_eq, pageMid_spanning d pg hsp r0 hr0] at hsplit
  have h1 : Block.data i ∉ pageHead d pg := by
    intro hm
    rcases pageHead_mem d pg _ hm with h | ⟨_, h⟩
    · simp [other] at h
    · cases h
  have h2 : Block.data i ∉ pageTail d pg := by
    intro hm
    have := pageTail_mem d pg _ hm
    simp [other] at this
  have h3 : Block.data i ∉ topHeadings r0.pkey := by
    intro hm
    obtain ⟨_, _, h, _⟩ := topHeadings_mem _ _ hm
    cases h
  obtain ⟨p1, rfl, hs1⟩ := split_left h1 hsplit
  obtain ⟨q1, hs2, _⟩ := split_right h2 hs1
  obtain ⟨p2, rfl, hs3⟩ := split_left h3 hs2
  have hk0 : (((d.rows.drop pg.start).take pg.height).map (·.pkey))[0]? = some r0.pkey := by
    simp [hpos, hr0]
  generalize ((d.rows.drop pg.start).take pg.height).map (·.pkey) = keys at hs3 hk0
  cases keys with
  | nil => simp at hk0
  | cons k0 ks =>
    simp only [List.getElem?_cons_zero, Option.some.injEq] at hk0
    subst hk0
    simp only [bodyBlocks] at hs3
    exact ⟨r0, ks, p2, q1, hr0, rfl, rfl, hs3⟩

theorem page_key (d : LDoc) (pg : PageCtx) (keys : List (List (Option String)))
    (hk : ((d.rows.drop pg.start).take pg.height).map (·.pkey) = keys) (j : Nat)
    (key : List (Option String)) (hkey : keys[j]? = some key) (r : LRow)
    (hr : d.rows[pg.start + j]? = some r) : key = r.pkey := by
  subst hk
  simp only [List.getElem?_map, List.getElem?_take, List.getElem?_drop, hr] at hkey
  split at hkey <;> simp at hkey
  exact hkey.symm

theorem page_keys_mem (d : LDoc) (pg : PageCtx) (k : List (Option String))
    (hk : k ∈ ((d.rows.drop pg.start).take pg.height).map (·.pkey)) :
    ∃ r ∈ (d.rows.drop pg.start).take pg.height, r ∈ d.rows ∧ k = r.pkey := by
  obtain ⟨r', hr', rfl⟩ := List.mem_map.mp hk
  exact ⟨r', hr', List.mem_of_mem_drop (List.mem_of_mem_take hr'), rfl⟩

/-! ### subline heading -/

def isSub : Block → Bool
  | .sublineHeading _ => true
  | _ => false

theorem subline_parts (vals : List String) (hnd : ∀ v ∈ vals, v ≠ "-----") :
    ((groupValues (vals.map some)).filterMap fun gv => match gv with
         | some (some s) => some s
         | some none => none
         | none => none) = vals := by
  induction vals with
  | nil => rfl
  | cons v vs ih =>
    have hv : v ≠ "-----" := hnd v (by simp)
    have ih' := ih (fun w hw => hnd w (List.mem_cons_of_mem _ hw))
    simp only [groupValues] at ih' ⊢
    simp only [List.map_cons, isDivider_some, beq_iff_eq, hv, if_false, List.filterMap_cons, ih']

theorem filter_isSub_nil {bs : List Block} (h : ∀ b ∈ bs, ∀ t, b ≠ Block.sublineHeading t) :
    bs.filter isSub = [] := by
  rw [List.filter_eq_nil_iff]
  intro b hb
  cases b <;> simp [isSub]
  exact h _ hb _ rfl

theorem pageHead_filter (d : LDoc) (hs : d.hasSubline = true) (pg : PageCtx)
    (r : LRow) (hr : d.rows[pg.start]? = some r) (vals : List String)
    (hvals : r.skey = vals.map some) (hne : vals ≠ []) (hnd : ∀ v ∈ vals, v ≠ "-----") :
    (pageHead d pg).filter isSub = [Block.sublineHeading (", ".intercalate vals)] := by
  have hemp : vals.isEmpty = false := by cases vals <;> simp at hne ⊢
  simp only [pageHead, hs, hr, hvals, subline_parts vals hnd, hemp, if_true, List.filter_append]
  have h1 : (if (pg.number == 1) = true then [] else [Block.brk]).filter isSub = [] := by
    split <;> rfl
  have h2 : ∀ c : Bool, (if c = true then [Block.title] else []).filter isSub = [] := by
    intro c; split <;> rfl
  have h3 : ∀ c : Bool, (if c = true then [Block.subline] else []).filter isSub = [] := by
    intro c; split <;> rfl
  have h4 : ∀ c : Bool, (if c = true then
      (d.headers.zipIdx.filterMap fun (hasText, k) =>
        if hasText || d.asColheader then some (Block.colHeader k) else none)
      else []).filter isSub = [] := by
    intro c
    apply filter_isSub_nil
    intro b hb t
    split at hb
    · obtain ⟨⟨a, k⟩, _, hx⟩ := List.mem_filterMap.mp hb
      by_cases hc : (a || d.asColheader) = true <;> simp only [hc] at hx
      · simp only [if_true, Option.some.injEq] at hx
        rw [← hx]; intro h; cases h
      · simp at hx
    · simp at hb
  rw [h1, h2, h3, h4]
  rfl

end Proofs.LayoutHeadings
