import Model.StrWidth
/-! Helper lemmas for C20 (core Lean only). -/
namespace Proofs.StrWidth
open Model.StrWidth Generated

/-! ## the fold -/

theorem run_nil (m : Metrics) (e : Env) (st : St) : run m e st [] = st := rfl

theorem run_cons (m : Metrics) (e : Env) (st : St) (c : Char) (t : List Char) :
    run m e st (c :: t) = run m e (step m e st c) t := rfl

theorem run_append (m : Metrics) (e : Env) (st : St) (t u : List Char) :
    run m e st (t ++ u) = run m e (run m e st t) u := by
  simp [run, List.foldl_append]

theorem run_snoc (m : Metrics) (e : Env) (st : St) (t : List Char) (c : Char) :
    run m e st (t ++ [c]) = step m e (run m e st t) c := by
  simp [run_append, run_cons, run_nil]

/-- the table hypotheses of the C20 theorems -/
def TableOK (m : Metrics) : Prop := (∀ g, 0 ≤ m.adv g) ∧ (∀ a b, 0 ≤ m.adv b + m.kern a b)

theorem increment_nonneg {m : Metrics} (h : TableOK m) (prev : Option (Char × Option Nat))
    (cur : Option Nat) (c : Char) : 0 ≤ increment m prev cur c := by
  unfold increment
  match prev with
  | none => exact h.1 c
  | some (p, ps) =>
    simp only
    split
    · exact h.2 p c
    · have := h.1 c; omega

theorem step_acc (m : Metrics) (e : Env) (st : St) (c : Char) :
    (step m e st c).acc = st.acc + increment m st.prev (resolve e st.last st.stack c).1 c := rfl

theorem step_acc_le {m : Metrics} (h : TableOK m) (e : Env) (st : St) (c : Char) :
    st.acc ≤ (step m e st c).acc := by
  rw [step_acc]
  have := increment_nonneg h st.prev (resolve e st.last st.stack c).1 c
  omega

theorem run_acc_le {m : Metrics} (h : TableOK m) (e : Env) (t : List Char) :
    ∀ st : St, st.acc ≤ (run m e st t).acc := by
  induction t with
  | nil => intro st; simp [run_nil]
  | cons c t ih =>
    intro st
    rw [run_cons]
    exact Int.le_trans (step_acc_le h e st c) (ih _)

theorem px64_nil (m : Metrics) (e : Env) : px64 m e [] = 0 := rfl

theorem px64_nonneg {m : Metrics} (h : TableOK m) (e : Env) (t : List Char) : 0 ≤ px64 m e t :=
  run_acc_le h e t St.init

theorem px64_append_le {m : Metrics} (h : TableOK m) (e : Env) (t u : List Char) :
    px64 m e t ≤ px64 m e (t ++ u) := by
  unfold px64
  rw [run_append]
  exact run_acc_le h e u _

/-- the exact increment: appending one character adds its advance, plus the pair adjustment when it is
shaped together with its predecessor — and nothing else changes -/
theorem px64_snoc (m : Metrics) (e : Env) (t : List Char) (c : Char) :
    px64 m e (t ++ [c]) = px64 m e t +
      increment m (run m e St.init t).prev
        (resolve e (run m e St.init t).last (run m e St.init t).stack c).1 c := by
  unfold px64
  rw [run_snoc, step_acc]

/-! ### monospace -/

theorem run_mono (m : Metrics) (e : Env) (a : Int) (hk : ∀ x y, m.kern x y = 0) (t : List Char) :
    ∀ st : St, (∀ c ∈ t, m.adv c = a) → (run m e st t).acc = st.acc + t.length * a := by
  induction t with
  | nil => intro st _; simp [run_nil]
  | cons c t ih =>
    intro st h
    rw [run_cons, ih _ (fun x hx => h x (List.mem_cons_of_mem _ hx)), step_acc]
    have hc : m.adv c = a := h c (List.mem_cons_self ..)
    have hi : increment m st.prev (resolve e st.last st.stack c).1 c = a := by
      unfold increment
      split
      · exact hc
      · simp [hk, hc]
    rw [hi, List.length_cons, Int.natCast_succ, Int.add_mul]
    omega

theorem px64_mono (m : Metrics) (e : Env) (a : Int) (hk : ∀ x y, m.kern x y = 0) (t : List Char)
    (ha : ∀ c ∈ t, m.adv c = a) : px64 m e t = t.length * a := by
  have := run_mono m e a hk t St.init ha
  simpa [px64, St.init] using this

/-! ### linearity and boundedness in the tables (for the size-scaling bound) -/

/-- the non-accumulator part of the state does not depend on the tables -/
theorem run_shape (m u : Metrics) (e : Env) (t : List Char) :
    ∀ s1 s2 : St, s1.prev = s2.prev → s1.last = s2.last → s1.stack = s2.stack →
      (run m e s1 t).prev = (run u e s2 t).prev ∧ (run m e s1 t).last = (run u e s2 t).last ∧
      (run m e s1 t).stack = (run u e s2 t).stack := by
  induction t with
  | nil => intro s1 s2 h1 h2 h3; exact ⟨h1, h2, h3⟩
  | cons c t ih =>
    intro s1 s2 h1 h2 h3
    rw [run_cons, run_cons]
    apply ih
    · simp [step, h2, h3]
    · simp [step, h2, h3]
    · simp [step, h2, h3]

/-- metrics `α·m − β·u` -/
def lin (α β : Int) (m u : Metrics) : Metrics where
  adv c := α * m.adv c - β * u.adv c
  kern a b := α * m.kern a b - β * u.kern a b

theorem increment_lin (α β : Int) (m u : Metrics) (prev : Option (Char × Option Nat)) (cur : Option Nat)
    (c : Char) :
    increment (lin α β m u) prev cur c = α * increment m prev cur c - β * increment u prev cur c := by
  unfold increment
  match prev with
  | none => rfl
  | some (p, ps) =>
    simp only [lin]
    split
    · rw [Int.mul_add, Int.mul_add]; omega
    · simp

theorem run_lin (α β : Int) (m u : Metrics) (e : Env) (t : List Char) :
    ∀ s s1 s2 : St, s.prev = s1.prev → s.last = s1.last → s.stack = s1.stack →
      s.prev = s2.prev → s.last = s2.last → s.stack = s2.stack →
      s.acc = α * s1.acc - β * s2.acc →
      (run (lin α β m u) e s t).acc = α * (run m e s1 t).acc - β * (run u e s2 t).acc := by
  induction t with
  | nil => intro s s1 s2 _ _ _ _ _ _ h; exact h
  | cons c t ih =>
    intro s s1 s2 p1 l1 k1 p2 l2 k2 h
    rw [run_cons, run_cons, run_cons]
    apply ih
    · simp [step, l1, k1]
    · simp [step, l1, k1]
    · simp [step, l1, k1]
    · simp [step, l2, k2]
    · simp [step, l2, k2]
    · simp [step, l2, k2]
    · rw [step_acc, step_acc, step_acc, increment_lin, h, ← p1, ← p2, ← l1, ← l2, ← k1, ← k2,
        Int.mul_add, Int.mul_add]
      omega

theorem px64_lin (α β : Int) (m u : Metrics) (e : Env) (t : List Char) :
    px64 (lin α β m u) e t = α * px64 m e t - β * px64 u e t := by
  unfold px64
  apply run_lin <;> simp [St.init]

/-- if every advance is within `EA` and every pair value within `EK` of zero, the width of `t` is within
`|t|·(EA + EK)` of zero -/
theorem run_bound (d : Metrics) (e : Env) (EA EK : Int) (hEK : 0 ≤ EK)
    (hA : ∀ c, -EA ≤ d.adv c ∧ d.adv c ≤ EA) (hK : ∀ a b, -EK ≤ d.kern a b ∧ d.kern a b ≤ EK)
    (t : List Char) :
    ∀ st : St, st.acc - t.length * (EA + EK) ≤ (run d e st t).acc ∧
      (run d e st t).acc ≤ st.acc + t.length * (EA + EK) := by
  induction t with
  | nil => intro st; simp [run_nil]
  | cons c t ih =>
    intro st
    rw [run_cons]
    have h := ih (step d e st c)
    rw [step_acc] at h
    have hi : -(EA + EK) ≤ increment d st.prev (resolve e st.last st.stack c).1 c ∧
        increment d st.prev (resolve e st.last st.stack c).1 c ≤ EA + EK := by
      unfold increment
      have a := hA c
      split
      · omega
      · rename_i p ps _
        have k := hK p c
        split <;> omega
    rw [List.length_cons, Int.natCast_succ, Int.add_mul]
    omega

theorem px64_bound (d : Metrics) (e : Env) (EA EK : Int) (hEK : 0 ≤ EK)
    (hA : ∀ c, -EA ≤ d.adv c ∧ d.adv c ≤ EA) (hK : ∀ a b, -EK ≤ d.kern a b ∧ d.kern a b ≤ EK)
    (t : List Char) :
    -(t.length * (EA + EK)) ≤ px64 d e t ∧ px64 d e t ≤ t.length * (EA + EK) := by
  have := run_bound d e EA EK hEK hA hK t St.init
  simp only [St.init] at this
  unfold px64
  simp only [St.init]
  omega

/-! ## fixed point: FreeType / HarfBuzz scaling -/


theorem asr10 (x : Int) : asr x 10 = x / 1024 := rfl
theorem asr16 (x : Int) : asr x 16 = x / 65536 := rfl

theorem sgn2_nonneg {a b : Int} (ha : 0 ≤ a) (hb : 0 ≤ b) : sgn2 a b = 1 := by
  have h1 : ¬ a < 0 := by omega
  have h2 : ¬ b < 0 := by omega
  simp [sgn2, h1, h2]

theorem xScale_eq (n upem : Nat) (hu : 0 < upem) :
    xScale n upem = (((n * 65536 + upem / 2) / upem : Nat) : Int) := by
  have h0 : upem ≠ 0 := by omega
  simp [xScale, ftDivFix, h0, sgn2_nonneg]

theorem ftMulDiv64 (h s : Nat) : ftMulDiv h s 64 = (((h * s + 32) / 64 : Nat) : Int) := by
  have : sgn2 ((h : Int) * (s : Int)) 64 = 1 := sgn2_nonneg (Int.mul_nonneg (by omega) (by omega)) (by omega)
  simp [ftMulDiv, this]

theorem hbAdvance_eq (h s : Nat) : hbAdvance h s = (((h * s + 0x8020) / 65536 : Nat) : Int) := by
  rw [hbAdvance, ftMulDiv64, asr10]
  generalize h * s = p
  omega


/-- the scale as a natural number -/
def scaleN (n upem : Nat) : Nat := (n * 65536 + upem / 2) / upem
def multN (n upem : Nat) : Nat := n * 65536 / upem

theorem scaleN_bounds (n upem : Nat) (hu : 0 < upem) :
    scaleN n upem * upem ≤ n * 65536 + upem / 2 ∧ n * 65536 + upem / 2 < scaleN n upem * upem + upem := by
  unfold scaleN
  have h1 := Nat.div_mul_le_self (n * 65536 + upem / 2) upem
  have h2 := Nat.lt_div_mul_add (a := n * 65536 + upem / 2) hu
  omega

theorem multN_bounds (n upem : Nat) (hu : 0 < upem) :
    multN n upem * upem ≤ n * 65536 ∧ n * 65536 < multN n upem * upem + upem := by
  unfold multN
  have h1 := Nat.div_mul_le_self (n * 65536) upem
  have h2 := Nat.lt_div_mul_add (a := n * 65536) hu
  omega

theorem multN_le_scaleN (n upem : Nat) : multN n upem ≤ scaleN n upem :=
  Nat.div_le_div_right (by omega)

theorem hbXScale_eq (n upem : Nat) (hu : 0 < upem) (hu2 : upem < 65536) : hbXScale n upem = n := by
  rw [hbXScale, xScale_eq n upem hu, asr16]
  have := scaleN_bounds n upem hu
  unfold scaleN at this
  generalize (n * 65536 + upem / 2) / upem = q at *
  have hc : ((q : Int) * (upem : Int)) = ((q * upem : Nat) : Int) := by simp
  rw [hc]
  generalize q * upem = p at *
  omega

theorem hbXMult_eq (n upem : Nat) (hu : 0 < upem) (hu2 : upem < 65536) :
    hbXMult n upem = (multN n upem : Int) := by
  rw [hbXMult, hbXScale_eq n upem hu hu2, multN]
  have : ((n : Int) * 65536) = ((n * 65536 : Nat) : Int) := by simp
  rw [this, Int.tdiv_eq_ediv_of_nonneg (by omega)]
  simp

theorem hbEmMult_eq (k x : Int) : hbEmMult k x = (k * x + 32768) / 65536 := rfl

/-- the arithmetic heart of the L2 hypotheses: if the advance of the right glyph plus the pair value is
non-negative in font units, it is non-negative after FreeType/HarfBuzz scaling at every size -/
theorem scaled_pair_nonneg (h : Nat) (k : Int) (s x : Nat) (hx : x ≤ s) (hk : 0 ≤ (h : Int) + k) :
    0 ≤ hbAdvance h s + hbEmMult k x := by
  rw [hbAdvance_eq, hbEmMult_eq]
  have hP : 0 ≤ ((h * s : Nat) : Int) + k * x := by
    by_cases hk0 : 0 ≤ k
    · have := Int.mul_nonneg hk0 (by omega : (0 : Int) ≤ x)
      omega
    · have h1 : k * (s : Int) ≤ k * (x : Int) :=
        Int.mul_le_mul_of_nonpos_left (by omega) (by omega)
      have h2 : 0 ≤ ((h : Int) + k) * (s : Int) := Int.mul_nonneg hk (by omega)
      rw [Int.add_mul] at h2
      have : ((h * s : Nat) : Int) = (h : Int) * (s : Int) := by simp
      omega
  generalize k * (x : Int) = q at *
  generalize h * s = p at *
  omega


/-! ## error of the scaled tables against exact scaling -/

/-- scaled advance vs exact scaling, cross-multiplied -/
theorem adv_err (h n U : Nat) (hU : 64 ≤ U) (hh : h ≤ 4096) :
    65536 * ((h * scaleN n U + 0x8020) / 65536 * U) ≤ 65536 * (n * h) + 34848 * U ∧
    65536 * (n * h) ≤ 65536 * ((h * scaleN n U + 0x8020) / 65536 * U) + 34848 * U := by
  have hb := scaleN_bounds n U (by omega)
  generalize hS : scaleN n U = S at *
  have e1 : 65536 * ((h * S + 0x8020) / 65536) ≤ h * S + 32800 := by omega
  have e2 : h * S + 32800 + 1 ≤ 65536 * ((h * S + 0x8020) / 65536) + 65536 := by omega
  generalize (h * S + 0x8020) / 65536 = a at *
  have e1U := Nat.mul_le_mul_right U e1
  have e2U := Nat.mul_le_mul_right U e2
  have s1 := Nat.mul_le_mul_left h hb.1
  have s2 := Nat.mul_le_mul_left h (Nat.le_of_lt hb.2)
  have u1 : h * (U / 2) ≤ 4096 * (U / 2) := Nat.mul_le_mul_right _ hh
  have u2 : h * U ≤ h * (2 * (U / 2) + 1) := Nat.mul_le_mul_left h (by omega)
  have c1 : 65536 * a * U = 65536 * (a * U) := by ac_rfl
  have c2 : (h * S + 32800) * U = h * (S * U) + 32800 * U := by rw [Nat.add_mul]; ac_rfl
  have c3 : (h * S + 32800 + 1) * U = h * (S * U) + 32800 * U + U := by
    rw [Nat.add_mul, Nat.add_mul]; simp only [Nat.one_mul]; ac_rfl
  have c4 : (65536 * a + 65536) * U = 65536 * (a * U) + 65536 * U := by rw [Nat.add_mul]; ac_rfl
  have c5 : h * (n * 65536 + U / 2) = 65536 * (n * h) + h * (U / 2) := by rw [Nat.mul_add]; ac_rfl
  have c6 : h * (S * U + U) = h * (S * U) + h * U := by rw [Nat.mul_add]
  have c7 : h * (2 * (U / 2) + 1) = 2 * (h * (U / 2)) + h := by rw [Nat.mul_add]; simp only [Nat.mul_one]; ac_rfl
  rw [c1, c2] at e1U
  rw [c3, c4] at e2U
  rw [c5] at s1 s2
  rw [c6] at s2
  rw [c7] at u2
  generalize a * U = aU at *
  generalize h * (S * U) = hSU at *
  generalize n * h = nh at *
  generalize h * (U / 2) = hU2 at *
  generalize h * U = hU' at *
  omega


/-- scaled pair value vs exact scaling, cross-multiplied -/
theorem kern_err (k : Int) (n U : Nat) (hU : 0 < U) (hk1 : -1024 ≤ k) (hk2 : k ≤ 1024) :
    -(33792 * (U : Int)) ≤ 65536 * ((k * (multN n U : Int) + 32768) / 65536 * U) - 65536 * ((n : Int) * k) ∧
    65536 * ((k * (multN n U : Int) + 32768) / 65536 * U) - 65536 * ((n : Int) * k) ≤ 33792 * (U : Int) := by
  have hb := multN_bounds n U hU
  generalize multN n U = X at *
  obtain ⟨r, hr⟩ : ∃ r : Nat, X * U + r = n * 65536 := ⟨n * 65536 - X * U, by omega⟩
  have hrU : r < U := by omega
  have hXU : (X : Int) * (U : Int) = (n : Int) * 65536 - r := by
    have : ((X * U + r : Nat) : Int) = ((n * 65536 : Nat) : Int) := by rw [hr]
    simp at this
    omega
  have e1 : 65536 * ((k * (X : Int) + 32768) / 65536) ≤ k * X + 32768 := by omega
  have e2 : k * (X : Int) + 32768 ≤ 65536 * ((k * (X : Int) + 32768) / 65536) + 65535 := by omega
  generalize (k * (X : Int) + 32768) / 65536 = K at *
  have hU0 : (0 : Int) ≤ U := by omega
  have e1U := Int.mul_le_mul_of_nonneg_right e1 hU0
  have e2U := Int.mul_le_mul_of_nonneg_right e2 hU0
  have r0 : (0 : Int) ≤ r := by omega
  have k1 := Int.mul_le_mul_of_nonneg_right hk2 r0
  have k2 := Int.mul_le_mul_of_nonneg_right hk1 r0
  have c1 : 65536 * K * (U : Int) = 65536 * (K * U) := by ac_rfl
  have c2 : (k * (X : Int) + 32768) * (U : Int) = 65536 * ((n : Int) * k) - k * r + 32768 * U := by
    rw [Int.add_mul, Int.mul_assoc, hXU, Int.mul_sub]
    have : k * ((n : Int) * 65536) = 65536 * ((n : Int) * k) := by ac_rfl
    omega
  have c3 : (65536 * K + 65535) * (U : Int) = 65536 * (K * U) + 65535 * U := by
    rw [Int.add_mul]; ac_rfl
  rw [c1, c2] at e1U
  rw [c2, c3] at e2U
  generalize K * (U : Int) = KU at *
  generalize (n : Int) * k = nk at *
  generalize k * (r : Int) = kr at *
  omega


/-! ## font-unit facts (decidable; discharged per generated font by `decide +kernel`) -/

/-- for every legacy kern pair, the advance of the right glyph plus the pair value is non-negative -/
def kernFact (f : FontData) : Bool :=
  f.kern.all fun e => f.glyphs.all fun g => g.2.1 != e.2.1 || decide (0 ≤ (g.2.2 : Int) + e.2.2)

/-- magnitude bounds used by the size-scaling estimate -/
def unitBounds (f : FontData) : Bool :=
  decide (64 ≤ f.upem) && decide (f.upem < 65536) && decide (f.notdef ≤ 4096) &&
  f.glyphs.all (fun g => decide (g.2.2 ≤ 4096)) &&
  f.kern.all (fun e => decide (-1024 ≤ e.2.2) && decide (e.2.2 ≤ 1024))

theorem lookup_mem {β : Type} (k : Nat) : ∀ (l : List (Nat × β)) (v : β), l.lookup k = some v → (k, v) ∈ l := by
  intro l
  induction l with
  | nil => intro v h; simp [List.lookup] at h
  | cons x l ih =>
    intro v h
    obtain ⟨k', v'⟩ := x
    simp only [List.lookup] at h
    split at h
    · rename_i heq
      have : k = k' := by simpa using heq
      simp at h
      subst h; subst this
      exact List.mem_cons_self ..
    · exact List.mem_cons_of_mem _ (ih v h)

theorem kernLookup_cases (k : List (Nat × Nat × Int)) (l r : Nat) :
    kernLookup k l r = 0 ∨ ∃ e ∈ k, e.1 = l ∧ e.2.1 = r ∧ kernLookup k l r = e.2.2 := by
  unfold kernLookup
  split
  · rename_i e he
    right
    refine ⟨e, List.mem_of_find?_eq_some he, ?_⟩
    have := List.find?_some he
    simp only [Bool.and_eq_true, beq_iff_eq] at this
    exact ⟨this.1, this.2, rfl⟩
  · left; rfl

theorem unitsPair_nonneg (f : FontData) (hf : kernFact f = true) (a b : Char) :
    0 ≤ (unitsAdv f b : Int) + unitsKern f a b := by
  unfold unitsKern
  split
  · rename_i ga xa gb advb ha hb
    have hadv : unitsAdv f b = advb := by simp [unitsAdv, hb]
    rw [hadv]
    rcases kernLookup_cases f.kern ga gb with h0 | ⟨e, he, _, h2, h3⟩
    · rw [h0]; omega
    · rw [h3]
      have hm := lookup_mem _ _ _ hb
      have := (List.all_eq_true.mp ((List.all_eq_true.mp hf) e he)) _ hm
      simp only [Bool.or_eq_true, bne_iff_ne, ne_eq, decide_eq_true_eq] at this
      rcases this with h | h
      · exact absurd h2.symm h
      · exact h
  · omega

theorem lib_tableOK (f : FontData) (hf : kernFact f = true) (hu : 0 < f.upem) (hu2 : f.upem < 65536)
    (n : Nat) : TableOK (libMetrics f n) := by
  constructor
  · intro g
    simp only [libMetrics]
    rw [xScale_eq n f.upem hu, hbAdvance_eq]
    omega
  · intro a b
    simp only [libMetrics]
    rw [xScale_eq n f.upem hu, hbXMult_eq n f.upem hu hu2]
    exact scaled_pair_nonneg _ _ _ _ (multN_le_scaleN n f.upem) (unitsPair_nonneg f hf a b)

/-! ## size scaling -/

/-- the unscaled tables of a font, as `Metrics` in font units -/
def unitMetrics (f : FontData) : Metrics := ⟨fun c => unitsAdv f c, unitsKern f⟩

theorem unitsRun_eq (f : FontData) (e : Env) (t : List Char) : unitsRun f e t = px64 (unitMetrics f) e t := rfl

theorem unitsAdv_le (f : FontData) (hb : unitBounds f = true) (c : Char) : unitsAdv f c ≤ 4096 := by
  simp only [unitBounds, Bool.and_eq_true, decide_eq_true_eq, List.all_eq_true] at hb
  unfold unitsAdv
  split
  · rename_i g a h
    exact hb.1.2 _ (lookup_mem _ _ _ h)
  · exact hb.1.1.2

theorem unitsKern_bounds (f : FontData) (hb : unitBounds f = true) (a b : Char) :
    -1024 ≤ unitsKern f a b ∧ unitsKern f a b ≤ 1024 := by
  simp only [unitBounds, Bool.and_eq_true, decide_eq_true_eq, List.all_eq_true] at hb
  unfold unitsKern
  split
  · rename_i ga _ gb _ _ _
    rcases kernLookup_cases f.kern ga gb with h0 | ⟨e, he, _, _, h3⟩
    · rw [h0]; omega
    · rw [h3]; exact hb.2 e he
  · omega

/-- **size scaling, exact form**: the width at 26.6 size `n` differs from exact linear scaling of the
font-unit width by at most 68640/65536 ≈ 1.05 (in 1/64 px) per character -/
theorem lib_scaling_bound (f : FontData) (hb : unitBounds f = true) (e : Env) (n : Nat) (t : List Char) :
    -(68640 * (f.upem : Int) * t.length) ≤
        65536 * (f.upem : Int) * px64 (libMetrics f n) e t - 65536 * (n : Int) * unitsRun f e t ∧
      65536 * (f.upem : Int) * px64 (libMetrics f n) e t - 65536 * (n : Int) * unitsRun f e t ≤
        68640 * (f.upem : Int) * t.length := by
  have hb' := hb
  simp only [unitBounds, Bool.and_eq_true, decide_eq_true_eq, List.all_eq_true] at hb'
  have hU : 64 ≤ f.upem := hb'.1.1.1.1
  have hU2 : f.upem < 65536 := hb'.1.1.1.2
  rw [unitsRun_eq, ← px64_lin]
  have key := px64_bound (lin (65536 * (f.upem : Int)) (65536 * (n : Int)) (libMetrics f n) (unitMetrics f)) e
    (34848 * (f.upem : Int)) (33792 * (f.upem : Int)) (by omega)
    (by
      intro c
      simp only [lin, libMetrics, unitMetrics]
      rw [xScale_eq n f.upem (by omega), hbAdvance_eq]
      have h := adv_err (unitsAdv f c) n f.upem hU (unitsAdv_le f hb c)
      unfold scaleN at h
      generalize ((unitsAdv f c * ((n * 65536 + f.upem / 2) / f.upem) + 0x8020) / 65536) = a at *
      generalize unitsAdv f c = hh at *
      obtain ⟨h1, h2⟩ := h
      have h1' : ((65536 * (a * f.upem) : Nat) : Int) ≤ ((65536 * (n * hh) + 34848 * f.upem : Nat) : Int) :=
        Int.ofNat_le.mpr h1
      have h2' : ((65536 * (n * hh) : Nat) : Int) ≤ ((65536 * (a * f.upem) + 34848 * f.upem : Nat) : Int) :=
        Int.ofNat_le.mpr h2
      simp only [Int.natCast_mul, Int.natCast_add] at h1' h2'
      have c1 : 65536 * (f.upem : Int) * (a : Int) = 65536 * ((a : Int) * (f.upem : Int)) := by ac_rfl
      have c2 : 65536 * (n : Int) * (hh : Int) = 65536 * ((n : Int) * (hh : Int)) := by ac_rfl
      rw [c1, c2]
      generalize (a : Int) * (f.upem : Int) = x at *
      generalize (n : Int) * (hh : Int) = y at *
      omega)
    (by
      intro a b
      simp only [lin, libMetrics, unitMetrics]
      rw [hbXMult_eq n f.upem (by omega) hU2, hbEmMult_eq]
      have kb := unitsKern_bounds f hb a b
      have h := kern_err (unitsKern f a b) n f.upem (by omega) kb.1 kb.2
      generalize unitsKern f a b = k at *
      generalize (k * (multN n f.upem : Int) + 32768) / 65536 = K at *
      have c1 : 65536 * (f.upem : Int) * K = 65536 * (K * (f.upem : Int)) := by ac_rfl
      have c2 : 65536 * (n : Int) * k = 65536 * ((n : Int) * k) := by ac_rfl
      rw [c1, c2]
      omega)
    t
  have c : (t.length : Int) * (34848 * (f.upem : Int) + 33792 * (f.upem : Int)) = 68640 * (f.upem : Int) * t.length := by
    rw [← Int.add_mul]
    have : (34848 + 33792 : Int) = 68640 := by decide
    rw [this]; ac_rfl
  rw [c] at key
  exact key

/-- **the one-percent relation from two exact-form bounds** (pure arithmetic).
`212·upem·|t| ≤ n·R` says: the mean advance at size `n` is at least 212/64 = 3.3125 px. -/
theorem one_percent (U L n1 n2 : Nat) (W1 W2 R : Int) (hU : 0 < U)
    (b1 : -(68640 * (U : Int) * L) ≤ 65536 * (U : Int) * W1 - 65536 * (n1 : Int) * R ∧
          65536 * (U : Int) * W1 - 65536 * (n1 : Int) * R ≤ 68640 * (U : Int) * L)
    (b2 : -(68640 * (U : Int) * L) ≤ 65536 * (U : Int) * W2 - 65536 * (n2 : Int) * R ∧
          65536 * (U : Int) * W2 - 65536 * (n2 : Int) * R ≤ 68640 * (U : Int) * L)
    (h1 : 212 * (U : Int) * L ≤ n1 * R) (h2 : 212 * (U : Int) * L ≤ n2 * R) :
    scaleOK64 n1 W1 n2 W2 = true := by
  have n1' : (0 : Int) ≤ n1 := by omega
  have n2' : (0 : Int) ≤ n2 := by omega
  -- multiply the bounds by the other size
  have a1 := Int.mul_le_mul_of_nonneg_left b1.1 n2'
  have a2 := Int.mul_le_mul_of_nonneg_left b1.2 n2'
  have a3 := Int.mul_le_mul_of_nonneg_left b2.1 n1'
  have a4 := Int.mul_le_mul_of_nonneg_left b2.2 n1'
  have g1 := Int.mul_le_mul_of_nonneg_left h1 n2'
  have g2 := Int.mul_le_mul_of_nonneg_left h2 n1'
  -- name the monomials
  have e1 : (n2 : Int) * (65536 * (U : Int) * W1 - 65536 * (n1 : Int) * R) =
      65536 * ((U : Int) * (W1 * n2)) - 65536 * ((n1 : Int) * n2 * R) := by
    rw [Int.mul_sub]; congr 1 <;> ac_rfl
  have e2 : (n1 : Int) * (65536 * (U : Int) * W2 - 65536 * (n2 : Int) * R) =
      65536 * ((U : Int) * (W2 * n1)) - 65536 * ((n1 : Int) * n2 * R) := by
    rw [Int.mul_sub]; congr 1 <;> ac_rfl
  have e3 : (n2 : Int) * (68640 * (U : Int) * L) = 68640 * ((U : Int) * L * n2) := by ac_rfl
  have e4 : (n1 : Int) * (68640 * (U : Int) * L) = 68640 * ((U : Int) * L * n1) := by ac_rfl
  have e5 : (n2 : Int) * (212 * (U : Int) * L) = 212 * ((U : Int) * L * n2) := by ac_rfl
  have e6 : (n1 : Int) * (212 * (U : Int) * L) = 212 * ((U : Int) * L * n1) := by ac_rfl
  have e7 : (n2 : Int) * ((n1 : Int) * R) = (n1 : Int) * n2 * R := by ac_rfl
  have e8 : (n1 : Int) * ((n2 : Int) * R) = (n1 : Int) * n2 * R := by ac_rfl
  have e9 : (n2 : Int) * -(68640 * (U : Int) * L) = -(68640 * ((U : Int) * L * n2)) := by
    rw [Int.mul_neg, e3]
  have e10 : (n1 : Int) * -(68640 * (U : Int) * L) = -(68640 * ((U : Int) * L * n1)) := by
    rw [Int.mul_neg, e4]
  rw [e9, e1] at a1
  rw [e1, e3] at a2
  rw [e10, e2] at a3
  rw [e2, e4] at a4
  rw [e5, e7] at g1
  rw [e6, e8] at g2
  have t1 : (0 : Int) ≤ (U : Int) * L * n1 := Int.mul_nonneg (Int.mul_nonneg (by omega) (by omega)) n1'
  have t2 : (0 : Int) ≤ (U : Int) * L * n2 := Int.mul_nonneg (Int.mul_nonneg (by omega) (by omega)) n2'
  generalize (U : Int) * L * n1 = T1 at *
  generalize (U : Int) * L * n2 = T2 at *
  generalize (n1 : Int) * n2 * R = M at *
  -- U·(W1·n2) and U·(W2·n1)
  have hx : 100 * ((U : Int) * (W1 * n2) - (U : Int) * (W2 * n1)) ≤ (U : Int) * (W1 * n2) ∧
      -(100 * ((U : Int) * (W1 * n2) - (U : Int) * (W2 * n1))) ≤ (U : Int) * (W1 * n2) := by
    generalize (U : Int) * (W1 * n2) = A at *
    generalize (U : Int) * (W2 * n1) = B at *
    omega
  have hUpos : (0 : Int) < U := by omega
  have d1 : 100 * (W1 * n2 - W2 * n1) ≤ W1 * n2 := by
    apply Int.le_of_mul_le_mul_left _ hUpos
    have : (U : Int) * (100 * (W1 * n2 - W2 * n1)) = 100 * ((U : Int) * (W1 * n2) - (U : Int) * (W2 * n1)) := by
      rw [Int.mul_sub, Int.mul_sub]
      have x1 : (U : Int) * (100 * (W1 * n2)) = 100 * ((U : Int) * (W1 * n2)) := by ac_rfl
      have x2 : (U : Int) * (100 * (W2 * n1)) = 100 * ((U : Int) * (W2 * n1)) := by ac_rfl
      rw [x1, x2]
      generalize (U : Int) * (W1 * n2) = A
      generalize (U : Int) * (W2 * n1) = B
      omega
    rw [this]; exact hx.1
  have d2 : -(100 * (W1 * n2 - W2 * n1)) ≤ W1 * n2 := by
    apply Int.le_of_mul_le_mul_left _ hUpos
    have : (U : Int) * -(100 * (W1 * n2 - W2 * n1)) = -(100 * ((U : Int) * (W1 * n2) - (U : Int) * (W2 * n1))) := by
      rw [Int.mul_neg, Int.mul_sub, Int.mul_sub]
      have x1 : (U : Int) * (100 * (W1 * n2)) = 100 * ((U : Int) * (W1 * n2)) := by ac_rfl
      have x2 : (U : Int) * (100 * (W2 * n1)) = 100 * ((U : Int) * (W2 * n1)) := by ac_rfl
      rw [x1, x2]
      generalize (U : Int) * (W1 * n2) = A
      generalize (U : Int) * (W2 * n1) = B
      omega
    rw [this]; exact hx.2
  unfold scaleOK64
  rw [decide_eq_true_eq]
  generalize W1 * (n2 : Int) = P at *
  generalize W2 * (n1 : Int) = Q at *
  omega

/-! ## rationals: unit conversion -/

theorem rat_div64_nonneg (a : Int) (h : 0 ≤ a) : (0 : Rat) ≤ (a : Rat) / 64 := by
  rw [Rat.div_def]
  exact Rat.mul_nonneg (Rat.intCast_nonneg.mpr h) (by decide +kernel)

theorem rat_div64_le (a b : Int) (h : a ≤ b) : (a : Rat) / 64 ≤ (b : Rat) / 64 := by
  rw [Rat.div_def, Rat.div_def]
  exact Rat.mul_le_mul_of_nonneg_right (Rat.intCast_le_intCast.mpr h) (by decide +kernel)

theorem rat_div_le {x y d : Rat} (hd : 0 < d) (h : x ≤ y) : x / d ≤ y / d := by
  rw [Rat.div_def, Rat.div_def]
  exact Rat.mul_le_mul_of_nonneg_right h (Rat.le_of_lt (Rat.inv_pos.mpr hd))

theorem rat_div_nonneg {x d : Rat} (hd : 0 < d) (h : 0 ≤ x) : 0 ≤ x / d := by
  rw [Rat.div_def]
  exact Rat.mul_nonneg h (Rat.le_of_lt (Rat.inv_pos.mpr hd))

theorem convert_mono {unit : String} {dpi x y a b : Rat} (hd : 0 < dpi) (h : x ≤ y)
    (hx : convert unit dpi x = .ok a) (hy : convert unit dpi y = .ok b) : a ≤ b := by
  unfold convert at hx hy
  have hd0 : dpi ≠ 0 := by intro h0; rw [h0] at hd; exact absurd hd (by decide +kernel)
  split at hx
  · simp_all
  · split at hx
    · rename_i h1 h2
      simp [hd0, h2] at hx hy
      rw [← hx, ← hy]; exact rat_div_le hd h
    · split at hx
      · rename_i h1 h2 h3
        simp [hd0, h3] at hx hy
        rw [← hx, ← hy]
        exact Rat.mul_le_mul_of_nonneg_right (rat_div_le hd h) (by decide +kernel)
      · simp at hx

theorem convert_nonneg {unit : String} {dpi x a : Rat} (hd : 0 < dpi) (h : 0 ≤ x)
    (hx : convert unit dpi x = .ok a) : 0 ≤ a := by
  unfold convert at hx
  have hd0 : dpi ≠ 0 := by intro h0; rw [h0] at hd; exact absurd hd (by decide +kernel)
  split at hx
  · simp_all
  · split at hx
    · simp at hx
      rw [← hx]; exact rat_div_nonneg hd h
    · split at hx
      · simp at hx
        rw [← hx]
        exact Rat.mul_nonneg (rat_div_nonneg hd h) (by decide +kernel)
      · simp at hx

theorem convert_zero {unit : String} {dpi : Rat} (hd : dpi ≠ 0)
    (hu : unit = "px" ∨ unit = "in" ∨ unit = "mm") : convert unit dpi 0 = .ok 0 := by
  unfold convert
  rcases hu with h | h | h <;> subst h <;> simp [hd, Rat.div_def, Rat.zero_mul]

theorem convert_bad_unit {unit : String} (dpi x : Rat)
    (hu : unit ≠ "px" ∧ unit ≠ "in" ∧ unit ≠ "mm") : convert unit dpi x = .error .valueError := by
  unfold convert
  simp [hu.1, hu.2.1, hu.2.2]

/-! ## unfolding `getStringWidth` -/

theorem gsw_ok {measure : String → Rat → List Char → Rat} {text : List Char} {font : FontArg}
    {size dpi w : Rat} {unit : String}
    (h : getStringWidth measure text font size unit dpi = .ok w) :
    ∃ p, fontPath font = .ok p ∧ 0 < size ∧ convert unit dpi (measure p size text) = .ok w := by
  unfold getStringWidth at h
  cases hp : fontPath font with
  | error e => simp [hp, bind, Except.bind] at h
  | ok p =>
    simp only [hp, bind, Except.bind] at h
    split at h
    · simp at h
    · rename_i hs
      exact ⟨p, rfl, Rat.not_le.mp hs, h⟩

theorem gsw_of_path {measure : String → Rat → List Char → Rat} {text : List Char} {font : FontArg}
    {size dpi : Rat} {unit p : String} (hp : fontPath font = .ok p) (hs : 0 < size) :
    getStringWidth measure text font size unit dpi = convert unit dpi (measure p size text) := by
  unfold getStringWidth
  have : ¬ size ≤ 0 := Rat.not_le.mpr hs
  simp [hp, bind, Except.bind, this]

/-! ## `FT_MulFix` (used by FreeType's own kerning / the BASIC layout engine): oddness, monotonicity, and its
relation to the HarfBuzz rounding of L2 -/

theorem ftMulFix_nonneg_eq (a b : Nat) : ftMulFix a b = (((a * b + 0x8000) / 65536 : Nat) : Int) := by
  simp [ftMulFix, sgn2_nonneg]

set_option linter.unusedSimpArgs false in
theorem ftMulFix_neg_left (a b : Int) : ftMulFix (-a) b = -ftMulFix a b := by
  unfold ftMulFix
  by_cases ha : a = 0
  · subst ha; simp
  · have hs : sgn2 (-a) b = -sgn2 a b := by
      unfold sgn2
      by_cases h1 : a < 0 <;> by_cases h2 : b < 0 <;>
        simp [h1, h2, show ¬ (a < 0) → (-a < 0) from fun _ => by omega,
              show (a < 0) → ¬ (-a < 0) from fun _ => by omega] <;> omega
    rw [hs, Int.natAbs_neg, Int.neg_mul]

theorem ftMulFix_mono (a a' b : Nat) (h : a ≤ a') : ftMulFix a b ≤ ftMulFix a' b := by
  rw [ftMulFix_nonneg_eq, ftMulFix_nonneg_eq]
  apply Int.ofNat_le.mpr
  apply Nat.div_le_div_right
  have := Nat.mul_le_mul_right b h
  omega

/-- HarfBuzz's two-step rounding of an advance is `FT_MulFix` or one more -/
theorem hbAdvance_vs_ftMulFix (h s : Nat) :
    hbAdvance h s = ftMulFix h s ∨ hbAdvance h s = ftMulFix h s + 1 := by
  rw [hbAdvance_eq, ftMulFix_nonneg_eq]
  generalize h * s = p
  omega

/-! ## relativisation to an alphabet: hypotheses checked on a finite alphabet carry to all strings over it -/

/-- the table hypotheses, required only for characters of `S` -/
def TableOKOn (S : Char → Bool) (m : Metrics) : Prop :=
  (∀ g, S g = true → 0 ≤ m.adv g) ∧ (∀ a b, S a = true → S b = true → 0 ≤ m.adv b + m.kern a b)

def restrict (S : Char → Bool) (m : Metrics) : Metrics where
  adv c := if S c then m.adv c else 0
  kern a b := if S a && S b then m.kern a b else 0

theorem tableOK_restrict {S : Char → Bool} {m : Metrics} (h : TableOKOn S m) : TableOK (restrict S m) := by
  constructor
  · intro g
    simp only [restrict]
    split
    · exact h.1 g ‹_›
    · omega
  · intro a b
    simp only [restrict]
    by_cases hb : S b = true
    · by_cases ha : S a = true
      · simp only [ha, hb, Bool.and_self, if_true]; exact h.2 a b ha hb
      · have := h.1 b hb
        simp [ha, hb]; exact this
    · simp [hb]

theorem run_restrict (S : Char → Bool) (m : Metrics) (e : Env) (t : List Char) :
    ∀ st : St, (∀ p ps, st.prev = some (p, ps) → S p = true) → (∀ c ∈ t, S c = true) →
      run (restrict S m) e st t = run m e st t := by
  induction t with
  | nil => intro st _ _; rfl
  | cons c t ih =>
    intro st hp ht
    have hc : S c = true := ht c (List.mem_cons_self ..)
    have hstep : step (restrict S m) e st c = step m e st c := by
      unfold step
      congr 1
      congr 1
      unfold increment
      cases hprev : st.prev with
      | none => simp [restrict, hc]
      | some x =>
        obtain ⟨p, ps⟩ := x
        have := hp p ps hprev
        simp [restrict, hc, this]
    rw [run_cons, run_cons, hstep]
    apply ih
    · intro p ps h
      simp only [step] at h
      injection h with h
      injection h with h1 _
      rw [← h1]; exact hc
    · intro x hx; exact ht x (List.mem_cons_of_mem _ hx)

theorem px64_restrict (S : Char → Bool) (m : Metrics) (e : Env) (t : List Char) (ht : ∀ c ∈ t, S c = true) :
    px64 (restrict S m) e t = px64 m e t := by
  unfold px64
  rw [run_restrict S m e t St.init (by intro p ps h; simp [St.init] at h) ht]

theorem px64_nonneg_on {S : Char → Bool} {m : Metrics} (h : TableOKOn S m) (e : Env) (t : List Char)
    (ht : ∀ c ∈ t, S c = true) : 0 ≤ px64 m e t := by
  rw [← px64_restrict S m e t ht]
  exact px64_nonneg (tableOK_restrict h) e t

theorem px64_append_le_on {S : Char → Bool} {m : Metrics} (h : TableOKOn S m) (e : Env) (t u : List Char)
    (ht : ∀ c ∈ t ++ u, S c = true) : px64 m e t ≤ px64 m e (t ++ u) := by
  rw [← px64_restrict S m e (t ++ u) ht,
    ← px64_restrict S m e t (fun c hc => ht c (List.mem_append_left _ hc))]
  exact px64_append_le (tableOK_restrict h) e t u

/-- the driver's finite check establishes the hypotheses on the alphabet it was run with -/
theorem tableOKOn_of_no_violations (m : Metrics) (alpha : List Char) (h : tableViolations m alpha = []) :
    TableOKOn (fun c => alpha.contains c) m := by
  unfold tableViolations at h
  rw [List.append_eq_nil_iff] at h
  obtain ⟨h1, h2⟩ := h
  constructor
  · intro g hg
    have hg' : g ∈ alpha := by simpa using hg
    rw [List.map_eq_nil_iff, List.filter_eq_nil_iff] at h1
    have := h1 g hg'
    simp at this
    exact this
  · intro a b ha hb
    have ha' : a ∈ alpha := by simpa using ha
    have hb' : b ∈ alpha := by simpa using hb
    rw [List.flatMap_eq_nil_iff] at h2
    have := h2 a ha'
    rw [List.map_eq_nil_iff, List.filter_eq_nil_iff] at this
    have := this b hb'
    simp at this
    exact this

end Proofs.StrWidth
