import Model.Memo
import Model.WorldMemo
/-! helper lemmas for `Props/C14memo.lean` -/
namespace Proofs.Memo
open Model.Memo

variable {ρ κ ν : Type} [DecidableEq κ]

theorem sound_nil (S : Spec ρ κ ν) : Sound S [] := by
  intro r v h
  simp [find] at h

theorem ask_sound (S : Spec ρ κ ν) (hF : Faithful S) (st : Store κ ν) (hs : Sound S st) (r : ρ) :
    Sound S (ask S st r).1 ∧ (ask S st r).2 = S.compute r := by
  unfold ask
  split
  · rename_i v h
    exact ⟨hs, hs r v h⟩
  · refine ⟨?_, rfl⟩
    intro r' v' h'
    simp only [find] at h'
    by_cases hk : S.key r = S.key r'
    · rw [if_pos hk] at h'
      cases h'
      exact hF r r' hk
    · rw [if_neg hk] at h'
      exact hs r' v' h'

theorem askAll_sound (S : Spec ρ κ ν) (hF : Faithful S) :
    ∀ (rs : List ρ) (st : Store κ ν), Sound S st →
      Sound S (askAll S st rs).1 ∧ (askAll S st rs).2 = rs.map S.compute := by
  intro rs
  induction rs with
  | nil => intro st hs; exact ⟨hs, rfl⟩
  | cons r rs ih =>
    intro st hs
    have ha := ask_sound S hF st hs r
    have hb := ih (ask S st r).1 ha.1
    simp only [askAll, List.map_cons]
    exact ⟨hb.1, by rw [ha.2, hb.2]⟩

end Proofs.Memo

namespace Proofs.WorldMemo
open Model.Memo Model.World Proofs.Memo

variable {ρ κ ν : Type} [DecidableEq κ]

theorem storeAfter_sound (S : Spec ρ κ ν) (hF : Faithful S) (q : Reqs ρ) (w : World) (st : Store κ ν)
    (hs : Sound S st) (o : Op) : Sound S (storeAfter S q w st o) := by
  cases o <;> simp only [storeAfter] <;> (try split) <;> (try exact hs)
  · exact (askAll_sound S hF _ _ hs).1
  · exact (askAll_sound S hF _ _ (askAll_sound S hF _ _ hs).1).1

theorem runM_sound (S : Spec ρ κ ν) (hF : Faithful S) (q : Reqs ρ) (T : Table) (ops : List (MOp ρ)) :
    ∀ mw : MWorld κ ν, Sound S mw.store → Sound S (runM S q T mw ops).store := by
  induction ops with
  | nil => intro mw h; exact h
  | cons o os ih =>
    intro mw h
    simp only [runM]
    apply ih
    cases o with
    | op o => exact storeAfter_sound S hF q mw.base mw.store h o
    | ask r => exact (ask_sound S hF mw.store h r).1

theorem runM_base (S : Spec ρ κ ν) (q : Reqs ρ) (T : Table) (ops : List (MOp ρ)) :
    ∀ mw : MWorld κ ν, (runM S q T mw ops).base = (run T mw.base (baseOps ops)).1 := by
  induction ops with
  | nil => intro mw; rfl
  | cons o os ih =>
    intro mw
    cases o with
    | op o => simp only [runM, baseOps, run]; rw [ih]; rfl
    | ask r => simp only [runM, baseOps]; rw [ih]; rfl

end Proofs.WorldMemo
