import Model.EncodeMulti
import Proofs.Encode
import Proofs.EncodeLift
import Proofs.EncodeAttrs
import Proofs.Borders
/-!
# The multi-section encoder as a list of single-section encodes

Helper lemmas for `Props/C02encm.lean`:

* `exists_zipped`        choice over a list;
* `encodeWithM_parts`    `encodeWithM` = `encodePages` on every `sectionDoc`, in order, with the document-wide colour
                         context; the output blocks are the chunks of all sections joined by newlines;
* `encodeWithM_traces`   the same with a plan and a rendering trace per section (`Proofs.EncodeLift`);
* `encodeWithM_runs`     the same with a `Proofs.EncodeAttrs.Run` per section (for the C07 / C08 / C09 theorems);
* `sectionDocs_getElem?` the `i`-th section document;
* `bottom_untouched`     with no closing style (`closingStyle = none`) `_apply_pagination_borders` leaves every bottom
                         border of the page as the user gave it and hands no override to footnote / source.
-/
namespace Proofs.EncodeMultiLift
open Model.Rtf Model.Emit Model.Encode Model.EncodeMulti Model.Layout Proofs.Encode Proofs.EncodeLift
open Proofs.EncodeAttrs (Run encodePages_run)

/-- the colour context of a multi-section document -/
def ctxM (d : MDoc) : ColorCtx := ctxOfColors (colorDocM d)

theorem exists_zipped {α β : Type} (P : α → β → Prop) : ∀ (l : List α), (∀ a ∈ l, ∃ b, P a b) →
    ∃ T : List (α × β), T.map Prod.fst = l ∧ ∀ t ∈ T, P t.1 t.2
  | [], _ => ⟨[], rfl, fun t ht => by cases ht⟩
  | a :: l, h => by
    obtain ⟨b, hb⟩ := h a (by simp)
    obtain ⟨T, h1, h2⟩ := exists_zipped P l (fun x hx => h x (by simp [hx]))
    refine ⟨(a, b) :: T, by simp [h1], ?_⟩
    intro t ht
    rcases List.mem_cons.mp ht with rfl | ht
    · exact hb
    · exact h2 t ht

/-- **structure of `encodeWithM`**: every section document is encoded by `encodePages` with the document-wide colour
context, in order; the blocks are all chunks joined by newlines, followed by the closing newlines -/
theorem encodeWithM_parts {measure : Measure} {d : MDoc} {x : DocG × Nat} (h : encodeWithM measure d = .ok x) :
    ∃ T : List (Doc × (List Elem × Nat)), T.map Prod.fst = sectionDocs d ∧
      (∀ t ∈ T, encodePages measure (ctxM d) t.1 = .ok t.2) ∧
      preamble (ctxM d) d.page d.pageHeader d.pageFooter = .ok x.1.head ∧
      x.1.blocks = joinElems (T.flatMap fun t => t.2.1) ++ [BlockG.plain [Node.nl, Node.nl, Node.nl, Node.nl]] := by
  unfold encodeWithM at h
  dsimp only at h
  peel h as y hy
  peel h as head hhead
  cases pure_ok h
  unfold encodeSections at hy
  peel hy as parts hparts
  cases pure_ok hy
  obtain ⟨T, h1, h2, h3⟩ := mapM_trace hparts
  refine ⟨T, h1, h3, hhead, ?_⟩
  dsimp only
  rw [← h2, List.flatMap_map]

/-- … with a plan and a rendering trace for every section -/
theorem encodeWithM_traces {measure : Measure} {d : MDoc} {x : DocG × Nat} (h : encodeWithM measure d = .ok x) :
    ∃ T : List (Doc × (Plan × Trace)), T.map Prod.fst = sectionDocs d ∧
      (∀ t ∈ T, plan measure t.1 = .ok t.2.1 ∧ Renders (ctxM d) t.1 t.2.1 t.2.2) ∧
      x.1.blocks = joinElems (T.flatMap fun t => t.2.2.elems) ++
        [BlockG.plain [Node.nl, Node.nl, Node.nl, Node.nl]] := by
  obtain ⟨T, h1, h2, _, h4⟩ := encodeWithM_parts h
  obtain ⟨U, g1, g2⟩ := exists_zipped
    (fun (t : Doc × (List Elem × Nat)) (b : Plan × Trace) =>
      plan measure t.1 = .ok b.1 ∧ Renders (ctxM d) t.1 b.1 b.2 ∧ t.2.1 = b.2.elems) T (by
    intro t ht
    obtain ⟨pl, R, a1, a2, a3, _⟩ := encodePages_trace.mp (show encodePages measure (ctxM d) t.1 = .ok (t.2.1, t.2.2)
      from h2 t ht)
    exact ⟨(pl, R), a1, a2, a3⟩)
  refine ⟨U.map fun u => (u.1.1, u.2), ?_, ?_, ?_⟩
  · rw [List.map_map, ← h1, ← g1, List.map_map]; rfl
  · intro t ht
    obtain ⟨u, hu, rfl⟩ := List.mem_map.mp ht
    exact ⟨(g2 u hu).1, (g2 u hu).2.1⟩
  · rw [h4, ← g1, List.flatMap_map, List.flatMap_map]
    congr 2
    apply Proofs.Layout.flatMap_congr'
    intro u hu
    exact (g2 u hu).2.2

/-- … with a `Run` (all intermediate values of `encodePages`) for every section -/
theorem encodeWithM_runs {measure : Measure} {d : MDoc} {x : DocG × Nat} (h : encodeWithM measure d = .ok x) :
    ∃ Rs : List (Sigma fun sd : Doc => Run measure (ctxM d) sd), Rs.map (·.1) = sectionDocs d ∧
      x.1.blocks = joinElems (Rs.flatMap fun r => r.2.ess.flatten) ++
        [BlockG.plain [Node.nl, Node.nl, Node.nl, Node.nl]] := by
  obtain ⟨T, h1, h2, _, h4⟩ := encodeWithM_parts h
  obtain ⟨U, g1, g2⟩ := exists_zipped
    (fun (t : Doc × (List Elem × Nat)) (b : Sigma fun sd : Doc => Run measure (ctxM d) sd) =>
      b.1 = t.1 ∧ t.2.1 = b.2.ess.flatten) T (by
    intro t ht
    obtain ⟨R, _, a2⟩ := encodePages_run (show encodePages measure (ctxM d) t.1 = .ok (t.2.1, t.2.2) from h2 t ht)
    exact ⟨⟨t.1, R⟩, rfl, a2⟩)
  refine ⟨U.map (·.2), ?_, ?_⟩
  · rw [List.map_map, ← h1, ← g1, List.map_map]
    apply List.map_congr_left
    intro u hu
    exact (g2 u hu).1
  · rw [h4, ← g1, List.flatMap_map, List.flatMap_map]
    congr 2
    apply Proofs.Layout.flatMap_congr'
    intro u hu
    exact (g2 u hu).2

/-! ## the section documents -/

theorem sectionDocs_length (d : MDoc) : (sectionDocs d).length = d.sections.length := by
  unfold sectionDocs
  rw [List.length_map, List.length_zipIdx]

theorem sectionDocs_getElem? (d : MDoc) (i : Nat) :
    (sectionDocs d)[i]? = d.sections[i]?.map fun s => sectionDoc d d.sections.length i s := by
  unfold sectionDocs
  rw [List.getElem?_map, List.getElem?_zipIdx]
  cases d.sections[i]? with
  | none => rfl
  | some s => simp

/-! ## no closing style: the bottom borders stay the user's -/

open Model.Borders Proofs.Borders Model.Broadcast in
theorem bottom_untouched (b : BorderIn) (hne : b.height ≠ 0) (hg : Proofs.Broadcast.Good b.bottom)
    (hs : closingStyle b = none) :
    (∀ i c, i < b.height → bottomAt (applyBorders b) i c = b.bottom.iloc (b.start + i) c) ∧
    (applyBorders b).fnOverride = none ∧ (applyBorders b).srcOverride = none := by
  rw [applyBorders_none b hne hs]
  exact ⟨fun i c hi => bot0_iloc hg hi c, rfl, rfl⟩

end Proofs.EncodeMultiLift
