import Model.EncodeFigure
import Model.FigureSpec
import Proofs.Figure
/-!
# `int(w * k)` in IEEE doubles vs. the floor of the exact product

Helper lemmas for `Props/C16enc.lean` about `Model.EncodeFigure.roundDouble` / `truncFMul` (core Lean only).

* `pow2_eq_zpow`           `pow2 e = 2 ^ e`;
* `rhe_*`                  `roundHalfEven`: between the floor and the floor + 1, at most 1/2 above the argument, never
                           above an integer the argument does not exceed;
* `roundDouble_spec`       for `q > 0`: `roundDouble q = roundHalfEven (q · 2^-e) · 2^e` for an exponent `e` with
                           `2^52 ≤ q · 2^-e` (the significand has 53 bits);
* `floor_roundDouble`      for `0 < q < 2^52`: `⌊q⌋ ≤ ⌊roundDouble q⌋ ≤ ⌊q⌋ + 1`, and `⌊roundDouble q⌋ = ⌊q⌋` as soon as
                           `q` lies more than `q / 2^53` (half an ulp, at most) below the next integer;
* `floor_mul_eq_truncMul`  `⌊w · k⌋ = truncMul (sizeOf w) k` for a positive `w` (`Props.C16.C16_goal_floor` is about this);
* `truncFMul_bounds`, `truncFMul_eq_of_far`, `truncFMul_eq_of_not_nearBelow`, `goalOkTol_truncFMul`
                           `int(w * k)` in doubles vs. the floor of the exact product, and the oracle `goalOkTol`.
-/
namespace Proofs.RoundDouble
open Model.EncodeFigure

theorem two_ne_zero : (2 : Rat) ≠ 0 := by decide

theorem pow2_eq_zpow (e : Int) : pow2 e = (2 : Rat) ^ e := by
  unfold pow2
  split
  · next h =>
    rw [Rat.natCast_pow]
    have : e = ((e.toNat : Nat) : Int) := by omega
    conv => rhs; rw [this]
    rw [Rat.zpow_natCast]
    rfl
  · next h =>
    have : e = -(((-e).toNat : Nat) : Int) := by omega
    conv => rhs; rw [this]
    rw [Rat.zpow_neg, Rat.zpow_natCast, Rat.natCast_pow, Rat.div_def, Rat.one_mul]
    rfl

theorem pow2_pos (e : Int) : 0 < pow2 e := by
  rw [pow2_eq_zpow]
  exact Rat.zpow_pos (by decide)

theorem pow2_neg_mul (e : Int) : pow2 (-e) * pow2 e = 1 := by
  rw [pow2_eq_zpow, pow2_eq_zpow, Rat.zpow_neg]
  exact Rat.inv_mul_cancel _ (Rat.ne_of_gt (Rat.zpow_pos (by decide)))

theorem pow2_add (a b : Int) : pow2 (a + b) = pow2 a * pow2 b := by
  rw [pow2_eq_zpow, pow2_eq_zpow, pow2_eq_zpow, Rat.zpow_add two_ne_zero]

/-- for `e ≤ 0` the scaling factor `2^-e` is a natural number -/
theorem pow2_neg_of_nonpos (e : Int) (h : e ≤ 0) : pow2 (-e) = (((2 : Nat) ^ (-e).toNat : Nat) : Rat) := by
  unfold pow2
  rw [if_pos (by omega)]

theorem pow2_nat (n : Nat) : pow2 (n : Int) = (((2 : Nat) ^ n : Nat) : Rat) := by
  unfold pow2
  rw [if_pos (by omega)]
  rfl

theorem pow2_le_one (e : Int) (h : e ≤ 0) : pow2 e ≤ 1 := by
  have h1 := pow2_neg_mul e
  rw [pow2_neg_of_nonpos e h] at h1
  have hK : (1 : Rat) ≤ (((2 : Nat) ^ (-e).toNat : Nat) : Rat) := by
    have : 1 ≤ (2 : Nat) ^ (-e).toNat := Nat.one_le_two_pow
    exact_mod_cast this
  have hp := pow2_pos e
  have := Rat.mul_le_mul_of_nonneg_right hK (Rat.le_of_lt hp)
  rw [h1, Rat.one_mul] at this
  exact this

/-! ## round half to even -/

theorem rhe_cases (x : Rat) : roundHalfEven x = x.floor ∨
    (roundHalfEven x = x.floor + 1 ∧ (1 : Rat) / 2 ≤ x - x.floor) := by
  unfold roundHalfEven
  dsimp only
  split
  · exact Or.inl rfl
  · next h1 =>
    split
    · next h2 => exact Or.inr ⟨rfl, Rat.le_of_lt h2⟩
    · split
      · exact Or.inl rfl
      · exact Or.inr ⟨rfl, Rat.not_lt.mp h1⟩

theorem rhe_ge_floor (x : Rat) : x.floor ≤ roundHalfEven x := by
  rcases rhe_cases x with h | ⟨h, _⟩ <;> omega

theorem rhe_le_floor_succ (x : Rat) : roundHalfEven x ≤ x.floor + 1 := by
  rcases rhe_cases x with h | ⟨h, _⟩ <;> omega

/-- rounding moves the value up by at most one half -/
theorem rhe_le_add_half (x : Rat) : (roundHalfEven x : Rat) ≤ x + 1 / 2 := by
  have hf := Rat.floor_le x
  rcases rhe_cases x with h | ⟨h, h2⟩
  · rw [h]; grind
  · rw [h]
    have : ((x.floor + 1 : Int) : Rat) = (x.floor : Rat) + 1 := by simp
    rw [this]; grind

/-- rounding never passes an integer -/
theorem rhe_le_int (x : Rat) (M : Int) (h : x ≤ (M : Rat)) : roundHalfEven x ≤ M := by
  rcases rhe_cases x with h1 | ⟨h1, h2⟩
  · rw [h1]
    have := Rat.floor_le x
    have : (x.floor : Rat) ≤ (M : Rat) := Rat.le_trans this h
    exact Rat.intCast_le_intCast.mp this
  · rw [h1]
    -- `x.floor + 1 ≤ M`: otherwise `M ≤ x.floor ≤ x ≤ M`, so `x = x.floor` and the fraction is 0
    by_cases hlt : x.floor < M
    · omega
    · exfalso
      have hge : (M : Rat) ≤ (x.floor : Rat) := Rat.intCast_le_intCast.mpr (by omega)
      have := Rat.floor_le x
      grind

theorem rhe_ge_int (x : Rat) (M : Int) (h : (M : Rat) ≤ x) : M ≤ roundHalfEven x :=
  Int.le_trans (Rat.le_floor_iff.mpr h) (rhe_ge_floor x)

/-! ## the nearest double -/

theorem natCast_two_pow (n : Nat) : (((2 : Nat) ^ n : Nat) : Rat) = pow2 (n : Int) := (pow2_nat n).symm

/-- a positive rational is its numerator over its denominator -/
theorem eq_num_div_den (q : Rat) (hq : 0 < q) : q = ((q.num.toNat : Nat) : Rat) / ((q.den : Nat) : Rat) := by
  have hn : 0 ≤ q.num := Rat.num_nonneg.mpr (Rat.le_of_lt hq)
  have h1 : ((q.num.toNat : Nat) : Rat) = ((q.num : Int) : Rat) := by
    have : ((q.num.toNat : Nat) : Int) = q.num := by omega
    rw [← this]
    rfl
  rw [h1]
  have := Rat.mkRat_self q
  rw [Rat.mkRat_eq_div] at this
  exact this.symm

theorem num_toNat_pos (q : Rat) (hq : 0 < q) : 0 < q.num.toNat := by
  have hn : 0 ≤ q.num := Rat.num_nonneg.mpr (Rat.le_of_lt hq)
  have hne : q.num ≠ 0 := by
    intro h0
    have : q = 0 := Rat.num_eq_zero.mp h0
    rw [this] at hq
    exact absurd hq (by decide)
  omega

/-- with `a = log2 num`, `b = log2 den`: `q · 2^(b + 52 - a) ≥ 2^51` -/
theorem scaled_ge (q : Rat) (hq : 0 < q) :
    pow2 51 ≤ q * pow2 (-((Nat.log2 q.num.toNat : Int) - (Nat.log2 q.den : Int) - 52)) := by
  have hN := num_toNat_pos q hq
  have hD := q.den_pos
  have ha : 2 ^ Nat.log2 q.num.toNat ≤ q.num.toNat := Nat.log2_self_le (by omega)
  have hb : q.den < 2 ^ (Nat.log2 q.den + 1) := Nat.lt_log2_self
  generalize Nat.log2 q.num.toNat = a at ha
  generalize Nat.log2 q.den = b at hb
  have he : -((a : Int) - (b : Int) - 52) = ((b + 52 : Nat) : Int) + -((a : Nat) : Int) := by omega
  rw [he, pow2_add]
  have hq' := eq_num_div_den q hq
  generalize q.num.toNat = N at hN ha hq'
  generalize q.den = D at hD hb hq'
  -- `N ≥ 2^a`, `D < 2^(b+1)`; claim `2^51 ≤ N / D · 2^(b+52) · 2^-a`
  have hDpos : (0 : Rat) < (D : Rat) := Rat.natCast_pos.mpr hD
  have hApos := pow2_pos (a : Int)
  have h1 := pow2_neg_mul (a : Int)
  -- multiply through by `D · 2^a`
  apply Rat.le_of_mul_le_mul_right (c := (D : Rat) * pow2 (a : Int)) _ (Rat.mul_pos hDpos hApos)
  have e1 : q * (pow2 ((b + 52 : Nat) : Int) * pow2 (-(a : Int))) * ((D : Rat) * pow2 (a : Int)) =
      (N : Rat) * pow2 ((b + 52 : Nat) : Int) := by
    rw [hq']
    have h2 : (N : Rat) / (D : Rat) * (D : Rat) = (N : Rat) := Rat.div_mul_cancel (Rat.ne_of_gt hDpos)
    calc (N : Rat) / (D : Rat) * (pow2 ((b + 52 : Nat) : Int) * pow2 (-(a : Int))) * ((D : Rat) * pow2 (a : Int))
        = ((N : Rat) / (D : Rat) * (D : Rat)) * pow2 ((b + 52 : Nat) : Int) * (pow2 (-(a : Int)) * pow2 (a : Int)) := by
          grind
      _ = (N : Rat) * pow2 ((b + 52 : Nat) : Int) := by rw [h2, h1, Rat.mul_one]
  rw [e1]
  -- everything is a natural number now
  rw [pow2_nat, pow2_nat, show (51 : Int) = ((51 : Nat) : Int) from rfl, pow2_nat]
  have key : 2 ^ 51 * (D * 2 ^ a) ≤ N * 2 ^ (b + 52) := by
    have e2 : 2 ^ (b + 52) = 2 ^ 51 * 2 ^ (b + 1) := by
      rw [← Nat.pow_add]; congr 1; omega
    rw [e2]
    calc 2 ^ 51 * (D * 2 ^ a) ≤ 2 ^ 51 * (2 ^ (b + 1) * N) :=
          Nat.mul_le_mul_left _ (Nat.mul_le_mul (Nat.le_of_lt hb) ha)
      _ = N * (2 ^ 51 * 2 ^ (b + 1)) := by
          rw [Nat.mul_comm N, Nat.mul_assoc]
  have : (((2 ^ 51 * (D * 2 ^ a) : Nat)) : Rat) ≤ ((N * 2 ^ (b + 52) : Nat) : Rat) :=
    Rat.natCast_le_natCast.mpr key
  simpa using this

/-- **what `roundDouble` computes**: the value scaled by a power of two so that it has 53 significant bits, rounded
half to even, scaled back -/
theorem roundDouble_spec (q : Rat) (hq : 0 < q) :
    ∃ e : Int, roundDouble q = (roundHalfEven (q * pow2 (-e)) : Rat) * pow2 e ∧ pow2 52 ≤ q * pow2 (-e) := by
  unfold roundDouble
  rw [if_neg (Rat.not_le.mpr hq)]
  dsimp only
  split
  · next hlt =>
    refine ⟨_, rfl, ?_⟩
    have h := scaled_ge q hq
    generalize ((Nat.log2 q.num.toNat : Int) - (Nat.log2 q.den : Int) - 52) = e0 at h hlt ⊢
    have he : -(e0 - 1) = 1 + -e0 := by omega
    rw [he, pow2_add]
    have h2 : pow2 1 = 2 := by decide +kernel
    have h52 : pow2 52 = 2 * pow2 51 := by decide +kernel
    rw [h2, h52]
    have := Rat.mul_le_mul_of_nonneg_left h (show (0 : Rat) ≤ 2 by decide)
    grind
  · next hge => exact ⟨_, rfl, Rat.not_lt.mp hge⟩

/-! ## the floor of the rounded product -/

/-- for `0 < q < 2^52` the nearest double of `q` lies between `⌊q⌋` and `⌊q⌋ + 1` (both are doubles), and it is below
`⌊q⌋ + 1` as soon as `q` is more than `q / 2^53` away from it -/
theorem floor_roundDouble (q : Rat) (hq : 0 < q) (hlt : q < pow2 52) :
    q.floor ≤ (roundDouble q).floor ∧ (roundDouble q).floor ≤ q.floor + 1 ∧
    (q < (((q.floor + 1 : Int) : Rat) - q) * pow2 53 → (roundDouble q).floor = q.floor) := by
  obtain ⟨e, hrd, hx⟩ := roundDouble_spec q hq
  have he : e ≤ 0 := by
    apply Classical.byContradiction
    intro hne
    have h1 := pow2_le_one (-e) (by omega)
    have h2 := Rat.mul_le_mul_of_nonneg_left h1 (Rat.le_of_lt hq)
    grind
  have hK := pow2_neg_of_nonpos e he
  have hu := pow2_neg_mul e
  have hppos := pow2_pos e
  have hKpos := pow2_pos (-e)
  rw [hK] at hx hu hKpos hrd
  generalize ((2 : Nat) ^ (-e).toNat : Nat) = K at hx hu hKpos hrd
  generalize pow2 e = u at hu hppos hrd
  have hfl := Rat.floor_le q
  have hfu := Rat.lt_floor_add_one q
  generalize q.floor = n at hfl hfu ⊢
  have hcast : ((n + 1 : Int) : Rat) = (n : Rat) + 1 := by simp
  rw [hcast] at hfu ⊢
  -- integers on the grid
  have c0 : (((K : Nat) : Int) : Rat) = ((K : Nat) : Rat) := Rat.intCast_natCast K
  have c1 : ((n * (K : Int) : Int) : Rat) = (n : Rat) * (K : Rat) := by simp [c0]
  have c2 : (((n + 1) * (K : Int) : Int) : Rat) = ((n : Rat) + 1) * (K : Rat) := by simp [c0]
  have hlow : ((n * (K : Int) : Int) : Rat) ≤ q * (K : Rat) := by
    rw [c1]; exact Rat.mul_le_mul_of_nonneg_right hfl (Rat.le_of_lt hKpos)
  have hup : q * (K : Rat) < (((n + 1) * (K : Int) : Int) : Rat) := by
    rw [c2]; exact Rat.mul_lt_mul_of_pos_right hfu hKpos
  have r1 := rhe_ge_int _ _ hlow
  have r2 := rhe_le_int _ _ (Rat.le_of_lt hup)
  have r3 := rhe_le_add_half (q * (K : Rat))
  generalize roundHalfEven (q * (K : Rat)) = R at r1 r2 r3 hrd
  have r1' : (n : Rat) * (K : Rat) ≤ (R : Rat) := by rw [← c1]; exact Rat.intCast_le_intCast.mpr r1
  have r2' : (R : Rat) ≤ ((n : Rat) + 1) * (K : Rat) := by rw [← c2]; exact Rat.intCast_le_intCast.mpr r2
  -- scale back
  have s1 : (n : Rat) ≤ roundDouble q := by
    rw [hrd]
    have := Rat.mul_le_mul_of_nonneg_right r1' (Rat.le_of_lt hppos)
    rw [Rat.mul_assoc, hu, Rat.mul_one] at this
    exact this
  have s2 : roundDouble q ≤ (n : Rat) + 1 := by
    rw [hrd]
    have := Rat.mul_le_mul_of_nonneg_right r2' (Rat.le_of_lt hppos)
    rw [Rat.mul_assoc, hu, Rat.mul_one] at this
    exact this
  have f1 : n ≤ (roundDouble q).floor := Rat.le_floor_iff.mpr s1
  have f2 : (roundDouble q).floor ≤ n + 1 := by
    have := Rat.le_trans (Rat.floor_le (roundDouble q)) s2
    rw [← hcast] at this
    exact Rat.intCast_le_intCast.mp this
  refine ⟨f1, f2, ?_⟩
  intro hfar
  -- `(n + 1 - q) · K > 1/2`, so the rounded significand stays below `(n + 1) · K`
  have h53 : pow2 53 = 2 * pow2 52 := by decide +kernel
  have hd : q * (K : Rat) < ((n : Rat) + 1 - q) * pow2 53 * (K : Rat) := Rat.mul_lt_mul_of_pos_right hfar hKpos
  have hP := pow2_pos 52
  have hR : (R : Rat) < ((n : Rat) + 1) * (K : Rat) := by
    rw [h53] at hd
    have h1 : 1 * pow2 52 < (2 * (((n : Rat) + 1 - q) * (K : Rat))) * pow2 52 := by grind
    have h2 := Rat.lt_of_mul_lt_mul_right h1 (Rat.le_of_lt hP)
    grind
  have s3 : roundDouble q < (n : Rat) + 1 := by
    rw [hrd]
    have := Rat.mul_lt_mul_of_pos_right hR hppos
    rw [Rat.mul_assoc, hu, Rat.mul_one] at this
    exact this
  have f3 : (roundDouble q).floor < n + 1 := Rat.floor_lt_iff.mpr (by rw [hcast]; exact s3)
  omega

/-! ## `int(w * k)` in doubles and the floor of the exact product -/

open Model.Figure (truncMul Size goalOk goalOkTol nearBelow)

local notation "sz" => Model.EncodeFigure.sizeOf

theorem sizeOf_den_pos (w : Rat) : 0 < (sz w).den := w.den_pos

/-- the product as a quotient of natural numbers -/
theorem mul_eq_div (w : Rat) (hw : 0 < w) (k : Nat) :
    w * (k : Rat) = (((sz w).num * k : Nat) : Rat) / (((sz w).den : Nat) : Rat) := by
  have h := eq_num_div_den w hw
  have hD : (0 : Rat) < ((w.den : Nat) : Rat) := Rat.natCast_pos.mpr w.den_pos
  show w * (k : Rat) = ((w.num.toNat * k : Nat) : Rat) / ((w.den : Nat) : Rat)
  rw [Rat.natCast_mul]
  conv => lhs; rw [h]
  rw [Rat.div_def, Rat.div_def]
  grind

/-- `m = ⌊M / D⌋` from `m · D ≤ M < (m + 1) · D` -/
theorem floor_div_nat (M D m : Nat) (hd : 0 < D) (h1 : m * D ≤ M) (h2 : M < (m + 1) * D) :
    ((M : Rat) / (D : Rat)).floor = (m : Int) := by
  have hD : (0 : Rat) < (D : Rat) := Rat.natCast_pos.mpr hd
  have c1 : ((m * D : Nat) : Rat) ≤ (M : Rat) := Rat.natCast_le_natCast.mpr h1
  have c2 : (M : Rat) < (((m + 1) * D : Nat) : Rat) := Rat.natCast_lt_natCast.mpr h2
  rw [Rat.natCast_mul] at c1 c2
  have lo : ((m : Int) : Rat) ≤ (M : Rat) / (D : Rat) := by
    apply Rat.not_lt.mp
    intro hlt
    have := (Rat.div_lt_iff hD).mp hlt
    rw [Rat.intCast_natCast] at this
    exact absurd c1 (Rat.not_le.mpr this)
  have hi : (M : Rat) / (D : Rat) < (((m : Int) + 1 : Int) : Rat) := by
    apply (Rat.div_lt_iff hD).mpr
    have : ((((m : Int) + 1 : Int)) : Rat) = ((m + 1 : Nat) : Rat) := by
      rw [← Rat.intCast_natCast]; rfl
    rw [this]
    exact c2
  have f1 : (m : Int) ≤ ((M : Rat) / (D : Rat)).floor := Rat.le_floor_iff.mpr lo
  have f2 : ((M : Rat) / (D : Rat)).floor < (m : Int) + 1 := Rat.floor_lt_iff.mpr hi
  omega

/-- the floor of the exact product is `truncMul` on the exact value of the float -/
theorem floor_mul_eq_truncMul (w : Rat) (hw : 0 < w) (k : Nat) :
    (w * (k : Rat)).floor = ((truncMul (sz w) k : Nat) : Int) := by
  have hd := sizeOf_den_pos w
  obtain ⟨h1, h2⟩ := Proofs.Figure.truncMul_floor (sz w) k hd
  rw [mul_eq_div w hw k]
  exact floor_div_nat _ _ _ hd h1 h2

/-- **`int(w * k)` on doubles is the floor of the exact product or one more** (positive `w`, product below `2^52`) -/
theorem truncFMul_bounds (w : Rat) (hw : 0 < w) (k : Nat) (hk : 0 < k) (hlt : w * (k : Rat) < pow2 52) :
    truncMul (sz w) k ≤ truncFMul w k ∧ truncFMul w k ≤ truncMul (sz w) k + 1 := by
  have hq : 0 < w * (k : Rat) := Rat.mul_pos hw (Rat.natCast_pos.mpr hk)
  obtain ⟨h1, h2, _⟩ := floor_roundDouble _ hq hlt
  rw [floor_mul_eq_truncMul w hw k] at h1 h2
  unfold truncFMul
  omega

/-- the exact product `num · k / den` is further than `q / 2^53` (at least half an ulp) below the next integer `g + 1`,
`g = ⌊q⌋`, stated on natural numbers: `num · k < ((g + 1) · den − num · k) · 2^53` -/
def farBelow (s : Size) (k : Nat) : Prop := s.num * k < ((truncMul s k + 1) * s.den - s.num * k) * 2 ^ 53

theorem far_aux (q D M m T P : Rat) (hqD : q * D = M) (hcast : T + M = (m + 1) * D) :
    (m + 1 - q) * P * D = T * P := by
  have h1 : (m + 1 - q) * P * D = ((m + 1) * D - q * D) * P := by grind
  rw [h1, hqD, ← hcast]
  grind

/-- … then `int(w * k)` on doubles IS the floor of the exact product -/
theorem truncFMul_eq_of_far (w : Rat) (hw : 0 < w) (k : Nat) (hk : 0 < k) (hlt : w * (k : Rat) < pow2 52)
    (hfar : farBelow (sz w) k) : truncFMul w k = truncMul (sz w) k := by
  have hq : 0 < w * (k : Rat) := Rat.mul_pos hw (Rat.natCast_pos.mpr hk)
  obtain ⟨_, _, h3⟩ := floor_roundDouble _ hq hlt
  have hfl := floor_mul_eq_truncMul w hw k
  suffices hs : w * (k : Rat) < ((((w * (k : Rat)).floor + 1 : Int) : Rat) - w * (k : Rat)) * pow2 53 by
    have := h3 hs
    rw [hfl] at this
    unfold truncFMul
    omega
  rw [hfl]
  have hd := sizeOf_den_pos w
  have hmul := mul_eq_div w hw k
  obtain ⟨h1, h2⟩ := Proofs.Figure.truncMul_floor (sz w) k hd
  unfold farBelow at hfar
  generalize (sz w).num * k = M at hfar hmul h1 h2
  generalize (sz w).den = D at hd hfar hmul h1 h2
  generalize truncMul (sz w) k = m at hfar h1 h2 ⊢
  generalize w * (k : Rat) = q at hmul ⊢
  have hD : (0 : Rat) < (D : Rat) := Rat.natCast_pos.mpr hd
  have hqD : q * (D : Rat) = (M : Rat) := by rw [hmul]; exact Rat.div_mul_cancel (Rat.ne_of_gt hD)
  have hcast : ((((m + 1) * D - M : Nat)) : Rat) + (M : Rat) = ((m : Rat) + 1) * (D : Rat) := by
    have hnat : ((m + 1) * D - M) + M = (m + 1) * D := by omega
    have := congrArg (fun (x : Nat) => (x : Rat)) hnat
    simpa using this
  have hfarR : (M : Rat) < (((m + 1) * D - M : Nat) : Rat) * pow2 53 := by
    have : ((M : Nat) : Rat) < ((((m + 1) * D - M) * 2 ^ 53 : Nat) : Rat) := Rat.natCast_lt_natCast.mpr hfar
    rw [Rat.natCast_mul] at this
    have e : (((2 : Nat) ^ 53 : Nat) : Rat) = pow2 53 := by decide +kernel
    rw [e] at this
    exact this
  have c : ((((m : Int) + 1 : Int)) : Rat) = (m : Rat) + 1 := by
    simp [Rat.intCast_natCast]
  rw [c]
  generalize ((((m + 1) * D - M : Nat)) : Rat) = T at hcast hfarR
  apply Rat.lt_of_mul_lt_mul_right (c := (D : Rat)) _ (Rat.le_of_lt hD)
  rw [far_aux q (D : Rat) (M : Rat) (m : Rat) T (pow2 53) hqD hcast, hqD]
  exact hfarR

/-- the oracle's `nearBelow` (exact product less than `2^-30` below an integer) is false and the product is below
`2^23`: `int(w * k)` on doubles is the floor of the exact product, the value `Props.C16.C16_goal_floor` describes -/
theorem truncFMul_eq_of_not_nearBelow (w : Rat) (hw : 0 < w) (k : Nat) (hk : 0 < k)
    (hlt : w * (k : Rat) < pow2 23) (hnb : nearBelow (sz w) k = false) :
    truncFMul w k = truncMul (sz w) k := by
  have h52 : pow2 23 < pow2 52 := by decide +kernel
  apply truncFMul_eq_of_far w hw k hk (by grind)
  have hd := sizeOf_den_pos w
  have hmul := mul_eq_div w hw k
  unfold farBelow truncMul
  unfold nearBelow at hnb
  dsimp only at hnb
  generalize (sz w).num * k = M at hnb hmul ⊢
  generalize (sz w).den = D at hd hnb hmul ⊢
  have hD : (0 : Rat) < (D : Rat) := Rat.natCast_pos.mpr hd
  -- `M < 2^23 · D`
  have hM : M < 2 ^ 23 * D := by
    rw [hmul] at hlt
    have := (Rat.div_lt_iff hD).mp hlt
    have e : pow2 23 = (((2 : Nat) ^ 23 : Nat) : Rat) := by decide +kernel
    rw [e, ← Rat.natCast_mul] at this
    exact Rat.natCast_lt_natCast.mp this
  have hr := Nat.mod_lt M hd
  have hdm := Nat.div_add_mod M D
  -- the distance to the next integer, times `D`, is `D − M mod D`
  have hdist : (M / D + 1) * D - M = D - M % D := by
    rw [Nat.add_mul, Nat.one_mul, Nat.mul_comm (M / D) D]
    omega
  rw [hdist]
  simp only [Bool.and_eq_false_iff, decide_eq_false_iff_not, ne_eq, Decidable.not_not,
    Nat.not_lt] at hnb
  have e53 : (2 : Nat) ^ 53 = 2 ^ 23 * 2 ^ 30 := by decide
  rcases hnb with h0 | h1
  · have h0' : M % D = 0 := by simpa using h0
    rw [h0', Nat.sub_zero, e53]
    calc M < 2 ^ 23 * D := hM
      _ ≤ D * (2 ^ 23 * 2 ^ 30) := by
        rw [Nat.mul_comm D, Nat.mul_assoc]
        exact Nat.mul_le_mul_left _ (Nat.le_mul_of_pos_left _ (by decide))
  · calc M < 2 ^ 23 * D := hM
      _ ≤ 2 ^ 23 * ((D - M % D) * 2 ^ 30) := Nat.mul_le_mul_left _ h1
      _ = (D - M % D) * 2 ^ 53 := by rw [e53]; ac_rfl

/-- **the oracle of C16 accepts the encoder's goal**: for a positive size with `w · k < 2^23` the value `int(w * k)`
computed in doubles passes `goalOkTol` (the floor of the exact product, or one more when the exact product is within
`2^-30` below an integer) -/
theorem goalOkTol_truncFMul (w : Rat) (hw : 0 < w) (k : Nat) (hk : 0 < k) (hlt : w * (k : Rat) < pow2 23) :
    goalOkTol (sz w) k (truncFMul w k) = true := by
  have h52 : pow2 23 < pow2 52 := by decide +kernel
  obtain ⟨h1, h2⟩ := truncFMul_bounds w hw k hk (by grind)
  have hd := sizeOf_den_pos w
  unfold goalOkTol
  by_cases hnb : nearBelow (sz w) k = false
  · rw [truncFMul_eq_of_not_nearBelow w hw k hk hlt hnb, Proofs.Figure.goalOk_truncMul _ _ hd]
    rfl
  · have hnb' : nearBelow (sz w) k = true := by simpa using hnb
    rcases Nat.lt_or_ge (truncMul (sz w) k) (truncFMul w k) with hgt | hle
    · have e : truncFMul w k = truncMul (sz w) k + 1 := by omega
      rw [e, hnb', Nat.add_sub_cancel, Proofs.Figure.goalOk_truncMul _ _ hd]
      simp
    · have e : truncFMul w k = truncMul (sz w) k := by omega
      rw [e, Proofs.Figure.goalOk_truncMul _ _ hd]
      rfl

end Proofs.RoundDouble
