import Generated.PyPrelude
import Model.Rtf
import Proofs.EscNodes
/-!
Strings of the translated emitters (`Generated/Py*.lean`: lists of code points) against the characters the syntax
trees print: the helpers shared by the bridge files `Props/C01py*.lean`.  Kept apart from those files so that a
bridge file imports the generated definition of ITS function only — when another function leaves the translated
subset, only the bridge files of that function stop being obligations (`harness/common.py` `build_all`).
-/
namespace Props.C01py
open Model.Rtf Generated.Py

/-- code points of a list of characters -/
def cps (l : List Char) : List Nat := l.map Char.toNat

/-- the text a `*_CODES` table holds for an entry whose control word is `w` (`""` for the entry `""`) -/
def codeText (w : List Char) : List Nat := if w.isEmpty then [] else cps ('\\' :: w)

theorem strOfInt_digits (k : Int) : strOfInt k = cps (intDigits k) := by
  simp [strOfInt, cps, Proofs.EscNodes.intDigits_agree]

end Props.C01py

namespace Props.C01pyc
open Generated.Py Props.C01py

theorem cps_append (a b : List Char) : cps (a ++ b) = cps a ++ cps b := by simp [cps]

theorem pyJoin_nil (l : List (List Nat)) : pyJoin [] l = l.flatten := by
  induction l with
  | nil => rfl
  | cons x xs ih =>
    cases xs with
    | nil => simp [pyJoin]
    | cons y ys => simp only [pyJoin, List.append_nil, ih, List.flatten_cons]

end Props.C01pyc
