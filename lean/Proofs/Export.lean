import Model.Export
import Model.ExportSpec
/-! Helper lemmas for C18: how each file-system operation changes `fget`. -/
namespace Proofs.Export
open Model.Export

/-! ## `under` -/

theorem under_iff {p q : Path} : under p q = true ↔ p <+: q := by
  simp [under]

theorem under_refl (p : Path) : under p p = true := by simp [under]

theorem under_nil (q : Path) : under [] q = true := by simp [under]

theorem under_nil_right {p : Path} (h : p ≠ []) : under p [] = false := by
  cases p with
  | nil => exact absurd rfl h
  | cons a r => simp [under]

theorem under_trans {a b c : Path} (h1 : under a b = true) (h2 : under b c = true) : under a c = true := by
  rw [under_iff] at *; exact List.IsPrefix.trans h1 h2

theorem under_append (p r : Path) : under p (p ++ r) = true := by
  rw [under_iff]; exact List.prefix_append p r

theorem under_split {p q : Path} (h : under p q = true) : q = p ++ q.drop p.length := by
  rw [under_iff] at h
  obtain ⟨t, rfl⟩ := h
  simp

/-- a path below `root ++ [a]` is below `root` -/
theorem under_of_under_snoc {root : Path} {a : Name} {q : Path} (h : under (root ++ [a]) q = true) :
    under root q = true :=
  under_trans (under_append root [a]) h

theorem not_under_snoc {root : Path} {a : Name} {q : Path} (h : under root q = false) :
    under (root ++ [a]) q = false := by
  cases h' : under (root ++ [a]) q with
  | false => rfl
  | true => rw [under_of_under_snoc h'] at h; exact absurd h (by simp)

/-- prefixes of a path not below `t` are not below `t` -/
theorem not_under_of_prefix {t q p : Path} (hq : under q p = true) (h : under t p = false) :
    under t q = false := by
  cases h' : under t q with
  | false => rfl
  | true => rw [under_trans h' hq] at h; exact absurd h (by simp)

theorem snoc_ne_nil (p : Path) (a : Name) : p ++ [a] ≠ [] := by simp

theorem dropLast_snoc (p : Path) (a : Name) : (p ++ [a]).dropLast = p := by simp

theorem under_dropLast {t p : Path} (hne : p ≠ t) (h : under t p = true) : under t p.dropLast = true := by
  rw [under_iff] at *
  obtain ⟨r, rfl⟩ := h
  have hr : r ≠ [] := by intro h0; apply hne; simp [h0]
  rw [List.dropLast_append_of_ne_nil hr]
  exact List.prefix_append _ _

/-! ## `lookup` through `filter` / `map` -/

theorem lookup_filter_key (P : Path → Bool) (fs : Fs) (q : Path) :
    (fs.filter (fun e => P e.1)).lookup q = if P q then fs.lookup q else none := by
  induction fs with
  | nil => simp
  | cons e fs ih =>
    obtain ⟨k, v⟩ := e
    by_cases hk : P k = true
    · simp only [List.filter_cons, hk, ↓reduceIte, List.lookup_cons]
      by_cases hq : q == k
      · have : q = k := by simpa using hq
        subst this; simp [hk]
      · simp only [hq, ih]
    · have hk' : P k = false := by simpa using hk
      simp only [List.filter_cons, hk', Bool.false_eq_true, ↓reduceIte, List.lookup_cons, ih]
      by_cases hq : q == k
      · have : q = k := by simpa using hq
        subst this; simp [hk']
      · simp [hq]

theorem lookup_map_const (l : List Path) (v : Node) (q : Path) :
    (l.map (fun p => (p, v))).lookup q = if q ∈ l then some v else none := by
  induction l with
  | nil => simp
  | cons a l ih =>
    simp only [List.map_cons, List.lookup_cons, List.mem_cons]
    by_cases h : q == a
    · have : q = a := by simpa using h
      simp [this]
    · have hne : q ≠ a := by simpa using h
      simp [h, ih, hne]

/-! ## `fget` after each operation -/

theorem fget_nil (fs : Fs) : fget fs [] = some .dir := by simp [fget]

theorem fget_fset {fs : Fs} {p : Path} (n : Node) (hp : p ≠ []) (q : Path) :
    fget (fset fs p n) q = if q = p then some n else fget fs q := by
  unfold fget fset
  by_cases hq : q = []
  · subst hq
    have : ([] : Path) ≠ p := fun h => hp h.symm
    simp [this]
  · simp only [hq, ↓reduceIte, List.lookup_cons]
    by_cases h : q = p
    · subst h; simp
    · have hb : (q == p) = false := by simpa using h
      simp only [hb, h, ↓reduceIte]
      have := lookup_filter_key (fun k => !(k == p)) fs q
      simp only [hb, Bool.not_false, ↓reduceIte] at this
      exact this

theorem fget_rmTree {fs : Fs} {p : Path} (hp : p ≠ []) (q : Path) :
    fget (rmTree fs p) q = if under p q = true then none else fget fs q := by
  unfold fget rmTree
  by_cases hq : q = []
  · subst hq; simp [under_nil_right hp]
  · simp only [hq, ↓reduceIte]
    have := lookup_filter_key (fun k => !under p k) fs q
    rw [this]
    cases under p q <;> simp

theorem lookup_moved (fs : Fs) (src dst r : Path) :
    ((fs.filter (fun e => under src e.1)).map (fun e => (dst ++ e.1.drop src.length, e.2))).lookup (dst ++ r)
      = fs.lookup (src ++ r) := by
  induction fs with
  | nil => simp
  | cons e fs ih =>
    obtain ⟨k, v⟩ := e
    by_cases hk : under src k = true
    · have hsplit := under_split hk
      simp only [List.filter_cons, hk, ↓reduceIte, List.map_cons, List.lookup_cons]
      by_cases hr : r = k.drop src.length
      · have h1 : (dst ++ r == dst ++ k.drop src.length) = true := by simp [hr]
        have h2 : (src ++ r == k) = true := by
          rw [hr, ← hsplit]; simp
        simp [h1, h2]
      · have h1 : (dst ++ r == dst ++ k.drop src.length) = false := by simpa using hr
        have h2 : (src ++ r == k) = false := by
          have : src ++ r ≠ k := by
            intro h; apply hr; rw [← h]; simp
          simpa using this
        simp only [h1, h2, ih]
    · have hk' : under src k = false := by simpa using hk
      have h2 : (src ++ r == k) = false := by
        have : src ++ r ≠ k := by
          intro h; rw [← h, under_append] at hk'; exact absurd hk' (by simp)
        simpa using this
      simp only [List.filter_cons, hk', Bool.false_eq_true, ↓reduceIte, List.lookup_cons, h2, ih]

theorem lookup_moved_none (fs : Fs) (src dst q : Path) (h : under dst q = false) :
    ((fs.filter (fun e => under src e.1)).map (fun e => (dst ++ e.1.drop src.length, e.2))).lookup q = none := by
  induction fs with
  | nil => simp
  | cons e fs ih =>
    obtain ⟨k, v⟩ := e
    by_cases hk : under src k = true
    · simp only [List.filter_cons, hk, ↓reduceIte, List.map_cons, List.lookup_cons]
      have : (q == dst ++ k.drop src.length) = false := by
        have : q ≠ dst ++ k.drop src.length := by
          intro h'; rw [h', under_append] at h; exact absurd h (by simp)
        simpa using this
      simp only [this, ih]
    · have hk' : under src k = false := by simpa using hk
      simp only [List.filter_cons, hk', Bool.false_eq_true, ↓reduceIte, ih]

/-- the tree below `dst` is the old tree below `src`; the old `src` tree is gone; the rest is untouched -/
theorem fget_moveTree {fs : Fs} {src dst : Path} (hs : src ≠ []) (hd : dst ≠ []) (q : Path) :
    fget (moveTree fs src dst) q =
      if under dst q = true then fget fs (src ++ q.drop dst.length)
      else if under src q = true then none else fget fs q := by
  by_cases hq : q = []
  · subst hq; simp [under_nil_right hs, under_nil_right hd, fget_nil]
  · unfold fget moveTree
    have hne : src ++ q.drop dst.length ≠ [] := by simp [hs]
    simp only [hq, hne, ↓reduceIte, List.lookup_append]
    by_cases hdq : under dst q = true
    · have hsplit := under_split hdq
      simp only [hdq, ↓reduceIte]
      conv => lhs; arg 1; rw [hsplit]
      rw [lookup_moved]
      have h2 := lookup_filter_key (fun k => !under src k && !under dst k) fs q
      simp only [hdq, Bool.not_true, Bool.and_false, Bool.false_eq_true, ↓reduceIte] at h2
      rw [h2]; simp
    · have hdq' : under dst q = false := by simpa using hdq
      rw [lookup_moved_none fs src dst q hdq']
      have h2 := lookup_filter_key (fun k => !under src k && !under dst k) fs q
      simp only [hdq', Bool.not_false, Bool.and_true] at h2
      simp only [Option.none_or, h2, hdq', Bool.false_eq_true, ↓reduceIte]
      cases under src q <;> simp

/-! ## prefixes / mkdirParents -/

theorem mem_prefixes {q p : Path} : q ∈ prefixes p ↔ under q p = true := by
  induction p generalizing q with
  | nil =>
    cases q <;> simp [prefixes, under]
  | cons a r ih =>
    cases q with
    | nil => simp [prefixes, under]
    | cons b s =>
      simp only [prefixes, List.mem_cons, List.mem_map]
      constructor
      · rintro (h | ⟨x, hx, hxe⟩)
        · cases h
        · cases hxe
          have := ih.mp hx
          simp only [under] at this ⊢
          simp [List.isPrefixOf, this]
      · intro h
        right
        simp only [under, List.isPrefixOf, Bool.and_eq_true, beq_iff_eq] at h
        obtain ⟨hab, hs⟩ := h
        subst hab
        exact ⟨s, ih.mpr (by simpa [under] using hs), rfl⟩

theorem mkdirParents_err {p : Path} {fs : Fs} {e : Err} {fs' : Fs}
    (h : mkdirParents p fs = (.error e, fs')) : fs' = fs := by
  unfold mkdirParents at h
  split at h
  · cases h; rfl
  · cases h

theorem fget_mkdirParents {p : Path} {fs fs' : Fs} (h : mkdirParents p fs = (.ok (), fs')) (q : Path) :
    fget fs' q = if under q p = true ∧ fget fs q = none then some .dir else fget fs q := by
  unfold mkdirParents at h
  split at h
  · cases h
  · cases h
    by_cases hq : q = []
    · subst hq; simp [fget_nil]
    · unfold fget
      simp only [hq, ↓reduceIte]
      rw [List.lookup_append, lookup_map_const]
      have hmem : (q ∈ List.filter (fun q => (if q = [] then some Node.dir else List.lookup q fs) == none) (prefixes p))
          ↔ (under q p = true ∧ List.lookup q fs = none) := by
        simp [List.mem_filter, mem_prefixes, hq]
      by_cases hc : under q p = true ∧ List.lookup q fs = none
      · rw [if_pos (hmem.mpr hc), if_pos hc]; simp
      · rw [if_neg (fun hm => hc (hmem.mp hm)), if_neg hc]; simp

/-- after a successful `mkdir(parents=True)` every prefix of the path is a directory -/
theorem mkdirParents_dir {p : Path} {fs fs' : Fs} (h : mkdirParents p fs = (.ok (), fs')) {q : Path}
    (hq : under q p = true) : fget fs' q = some .dir := by
  rw [fget_mkdirParents h]
  by_cases hn : fget fs q = none
  · simp [hq, hn]
  · simp only [hn, and_false, ↓reduceIte]
    unfold mkdirParents at h
    split at h
    · cases h
    · rename_i hany
      have := mem_prefixes.mpr hq
      simp only [List.any_eq_true, not_exists, not_and] at hany
      have hf := hany q this
      cases hg : fget fs q with
      | none => exact absurd hg hn
      | some n =>
        cases n with
        | dir => rfl
        | file b => simp [hg, isFile] at hf

/-! ## `move` and the commit block -/

theorem under_longer {a b : Path} (h : b.length < a.length) : under a b = false := by
  cases h' : under a b with
  | false => rfl
  | true => rw [under_iff] at h'; have := h'.length_le; omega

theorem under_comparable {a b c : Path} (h1 : under a c = true) (h2 : under b c = true) :
    under a b = true ∨ under b a = true := by
  simp only [under_iff] at *
  exact List.prefix_or_prefix_of_prefix h1 h2

theorem not_under_below {a b q : Path} (hab : under a b = true) (h : under a q = false) : under b q = false := by
  cases h' : under b q with
  | false => rfl
  | true => rw [under_trans hab h'] at h; cases h

theorem realDst_under (fs : Fs) (src dst : Path) : under dst (realDst fs src dst) = true := by
  unfold realDst; split
  · exact under_append _ _
  · exact under_refl _

theorem realDst_ne_nil {fs : Fs} {src dst : Path} (hd : dst ≠ []) : realDst fs src dst ≠ [] := by
  unfold realDst; split <;> simp [hd]

theorem moveTo_frame {fs fs' : Fs} {src real : Path} {n : Node} (hs : src ≠ []) (hd : real ≠ [])
    (h : moveTo fs src real n = .ok fs') (q : Path)
    (h1 : under src q = false) (h2 : under real q = false) : fget fs' q = fget fs q := by
  unfold moveTo at h
  split at h
  · cases h
  · split at h
    · cases n with
      | file b =>
        simp only at h; cases h
        rw [fget_fset _ hd, fget_rmTree hs]
        have : q ≠ real := by intro e; rw [e, under_refl] at h2; cases h2
        simp [this, h1]
      | dir =>
        simp only at h
        split at h
        · cases h
          rw [fget_moveTree hs hd]; simp [h1, h2]
        · cases h
    · cases h

theorem move_frame {fs fs' : Fs} {src dst : Path} (hs : src ≠ []) (hd : dst ≠ [])
    (h : move fs src dst = .ok fs') (q : Path)
    (h1 : under src q = false) (h2 : under dst q = false) : fget fs' q = fget fs q := by
  unfold move at h
  split at h
  · cases h
  · split at h
    · cases h
    · refine moveTo_frame hs (realDst_ne_nil hd) h q h1 ?_
      exact not_under_below (realDst_under fs src dst) h2

structure CommitCtx (dir : Path) (tname : Name) (tB p : Path) (fsc : Fs) (html : Bool) : Prop where
  tBne : tB ≠ []
  hp : under tB p = true
  hpne : p ≠ tB
  hdir : fget fsc dir = some .dir
  hT : Unrelated tB (dir ++ [tname])
  hR : html = true → Unrelated tB (resDst dir p)

section
variable {dir : Path} {tname : Name} {tB p : Path} {fsc : Fs} {html : Bool}

theorem CommitCtx.p_ne (c : CommitCtx dir tname tB p fsc html) : p ≠ [] := by
  intro h
  have := c.hp
  rw [h] at this
  rw [under_nil_right c.tBne] at this; cases this

theorem CommitCtx.res_under (c : CommitCtx dir tname tB p fsc html) : under tB (resourcesOf p) = true :=
  under_trans (under_dropLast c.hpne c.hp) (under_append _ _)

theorem CommitCtx.p_dir (c : CommitCtx dir tname tB p fsc html) : under p dir = false := by
  cases h : under p dir with
  | false => rfl
  | true =>
    have := under_trans (under_trans c.hp h) (under_append dir [tname])
    rw [c.hT.1] at this; cases this

theorem CommitCtx.tB_dir (c : CommitCtx dir tname tB p fsc html) : under tB dir = false :=
  not_under_of_prefix (under_append dir [tname]) c.hT.1

theorem commit_fail (c : CommitCtx dir tname tB p fsc html) {e : Err} {fs' : Fs}
    (h : commit html dir tname p fsc = (.error e, fs')) : fs' = fsc := by
  unfold commit at h
  split at h
  · cases h; rfl
  · rename_i fs1 hm1
    split at h
    · rename_i hres
      exfalso
      have hR := c.hR hres.1
      have hdne : resDst dir p ≠ [] := by simp [resDst]
      have hsne : resourcesOf p ≠ [] := by simp [resourcesOf]
      have hTne : dir ++ [tname] ≠ [] := by simp
      -- the directory of the target is still a directory after the first move
      have hdir1 : fget fs1 dir = some .dir := by
        rw [move_frame c.p_ne hTne hm1 dir c.p_dir (under_longer (by simp))]; exact c.hdir
      have hsd : under (resDst dir p) (resourcesOf p) = false := by
        cases hh : under (resDst dir p) (resourcesOf p) with
        | false => rfl
        | true =>
          rcases under_comparable hh c.res_under with h1 | h1
          · rw [hR.2] at h1; cases h1
          · rw [hR.1] at h1; cases h1
      have hds : under (resourcesOf p) (resDst dir p) = false := by
        cases hh : under (resourcesOf p) (resDst dir p) with
        | false => rfl
        | true => have := under_trans c.res_under hh; rw [hR.1] at this; cases this
      have hsrc : fget (rmTree fs1 (resDst dir p)) (resourcesOf p) = some .dir := by
        rw [fget_rmTree hdne, hsd]; simpa using hres.2
      have hdst : fget (rmTree fs1 (resDst dir p)) (resDst dir p) = none := by
        rw [fget_rmTree hdne, under_refl]; simp
      have hreal : realDst (rmTree fs1 (resDst dir p)) (resourcesOf p) (resDst dir p) = resDst dir p := by
        unfold realDst; simp [hdst]
      have hpar : fget (rmTree fs1 (resDst dir p)) (resDst dir p).dropLast = some .dir := by
        have : (resDst dir p).dropLast = dir := by simp [resDst]
        rw [this, fget_rmTree hdne, under_longer (by simp [resDst])]; simpa using hdir1
      simp only [move, hsrc, hdst, hreal, moveTo, hds, hpar] at h
      simp at h
    · cases h
end

section
variable {dir : Path} {tname : Name} {tB p : Path} {fsc : Fs} {html : Bool}

theorem commit_ok_form {fs' : Fs} (h : commit html dir tname p fsc = (.ok (), fs')) :
    ∃ fs1, move fsc p (dir ++ [tname]) = .ok fs1 ∧
      ((html = true ∧ fget fs1 (resourcesOf p) = some .dir ∧
          move (rmTree fs1 (resDst dir p)) (resourcesOf p) (resDst dir p) = .ok fs')
        ∨ (¬ (html = true ∧ fget fs1 (resourcesOf p) = some .dir) ∧ fs' = fs1)) := by
  unfold commit at h
  split at h
  · cases h
  · rename_i fs1 hm1
    refine ⟨fs1, hm1, ?_⟩
    split at h
    · rename_i hres
      simp only at h
      split at h
      · cases h
      · rename_i fs3 hm2
        cases h
        exact Or.inl ⟨hres.1, hres.2, hm2⟩
    · rename_i hres
      cases h
      exact Or.inr ⟨hres, rfl⟩

theorem str_append_ne (n : Name) : n ++ filesSuffix ≠ n := by
  intro h
  have := congrArg List.length h
  simp [filesSuffix] at this

/-- `p` and its resource sibling are different entries of the same directory -/
theorem p_not_under_res (hp : p ≠ []) (r : Path) : under p (resourcesOf p ++ r) = false := by
  cases h : under p (resourcesOf p ++ r) with
  | false => rfl
  | true =>
    exfalso
    have h2 : under (resourcesOf p) (resourcesOf p ++ r) = true := under_append _ _
    rw [under_iff] at h h2
    have hl : p.length = (resourcesOf p).length := by
      simp [resourcesOf]
      have := List.length_pos_iff.mpr hp
      omega
    have e1 := List.prefix_of_prefix_length_le h h2 (by omega)
    have e2 := List.prefix_of_prefix_length_le h2 h (by omega)
    have e := List.IsPrefix.eq_of_length e1 hl
    have hlast : p.getLast? = (resourcesOf p).getLast? := by rw [← e]
    simp only [resourcesOf, List.getLast?_append, List.getLast?_singleton, Option.some_or] at hlast
    cases hp' : p.getLast? with
    | none => simp [List.getLast?_eq_none_iff] at hp'; exact hp hp'
    | some n =>
      rw [hp'] at hlast
      simp only [Option.getD_some, Option.some.injEq] at hlast
      exact str_append_ne n hlast.symm

theorem res_not_under_p (hp : p ≠ []) : under (resourcesOf p) p = false := by
  cases h : under (resourcesOf p) p with
  | false => rfl
  | true =>
    exfalso
    have hl : p.length = (resourcesOf p).length := by
      simp [resourcesOf]
      have := List.length_pos_iff.mpr hp
      omega
    rw [under_iff] at h
    have e := List.IsPrefix.eq_of_length h hl.symm
    have := p_not_under_res hp []
    rw [List.append_nil, e, under_refl] at this; cases this

end

section
variable {dir : Path} {tname : Name} {tB p : Path} {fsc : Fs} {html : Bool}

theorem CommitCtx.res_rel (c : CommitCtx dir tname tB p fsc html) (hh : html = true) (r : Path) :
    under (resDst dir p) (resourcesOf p ++ r) = false := by
  cases h : under (resDst dir p) (resourcesOf p ++ r) with
  | false => rfl
  | true =>
    have h2 : under tB (resourcesOf p ++ r) = true := under_trans c.res_under (under_append _ _)
    rcases under_comparable h h2 with h1 | h1
    · rw [(c.hR hh).2] at h1; cases h1
    · rw [(c.hR hh).1] at h1; cases h1

theorem CommitCtx.T_rel (c : CommitCtx dir tname tB p fsc html) (r : Path) :
    under (dir ++ [tname]) (resourcesOf p ++ r) = false := by
  cases h : under (dir ++ [tname]) (resourcesOf p ++ r) with
  | false => rfl
  | true =>
    have h2 : under tB (resourcesOf p ++ r) = true := under_trans c.res_under (under_append _ _)
    rcases under_comparable h h2 with h1 | h1
    · rw [c.hT.2] at h1; cases h1
    · rw [c.hT.1] at h1; cases h1

/-- the resource folder test sees the converter's state -/
theorem CommitCtx.res_same (c : CommitCtx dir tname tB p fsc html) {fs1 : Fs}
    (hm1 : move fsc p (dir ++ [tname]) = .ok fs1) (r : Path) :
    fget fs1 (resourcesOf p ++ r) = fget fsc (resourcesOf p ++ r) :=
  move_frame c.p_ne (by simp) hm1 _ (p_not_under_res c.p_ne r) (c.T_rel r)

/-- what a successful commit leaves untouched -/
theorem commit_ok_frame (c : CommitCtx dir tname tB p fsc html) {fs' : Fs}
    (h : commit html dir tname p fsc = (.ok (), fs')) (q : Path)
    (h1 : under tB q = false) (h2 : under (dir ++ [tname]) q = false)
    (h3 : html = true → fget fsc (resourcesOf p) = some .dir → under (resDst dir p) q = false) :
    fget fs' q = fget fsc q := by
  obtain ⟨fs1, hm1, hcase⟩ := commit_ok_form h
  have hpq : under p q = false := not_under_below c.hp h1
  have e1 : fget fs1 q = fget fsc q := move_frame c.p_ne (by simp) hm1 q hpq h2
  rcases hcase with ⟨hh, hres, hm2⟩ | ⟨_, rfl⟩
  · have hres' : fget fsc (resourcesOf p) = some .dir := by
      have := c.res_same hm1 []; simp only [List.append_nil] at this; rw [← this]; exact hres
    have h3' := h3 hh hres'
    have hdne : resDst dir p ≠ [] := by simp [resDst]
    have hsne : resourcesOf p ≠ [] := by simp [resourcesOf]
    rw [move_frame hsne hdne hm2 q (not_under_below c.res_under h1) h3', fget_rmTree hdne, h3']
    simpa using e1
  · exact e1

/-- the target holds the converter's file -/
theorem commit_ok_target (c : CommitCtx dir tname tB p fsc html) {fs' : Fs} {b : Bytes}
    (h : commit html dir tname p fsc = (.ok (), fs'))
    (hnd : fget fsc (dir ++ [tname]) ≠ some .dir) (hb : fget fsc p = some (.file b))
    (hname : html = true → resDst dir p ≠ dir ++ [tname]) :
    fget fs' (dir ++ [tname]) = some (.file b) := by
  obtain ⟨fs1, hm1, hcase⟩ := commit_ok_form h
  have hTne : dir ++ [tname] ≠ [] := by simp
  have e1 : fget fs1 (dir ++ [tname]) = some (.file b) := by
    have hreal : realDst fsc p (dir ++ [tname]) = dir ++ [tname] := by unfold realDst; simp [hnd]
    unfold move at hm1
    simp only [hb, hreal, hnd, false_and, ↓reduceIte] at hm1
    unfold moveTo at hm1
    split at hm1
    · cases hm1
    · split at hm1
      · simp only at hm1; cases hm1
        rw [fget_fset _ hTne]; simp
      · cases hm1
  rcases hcase with ⟨hh, hres, hm2⟩ | ⟨_, rfl⟩
  · have hdne : resDst dir p ≠ [] := by simp [resDst]
    have hsne : resourcesOf p ≠ [] := by simp [resourcesOf]
    have hdT : under (resDst dir p) (dir ++ [tname]) = false := by
      cases hu : under (resDst dir p) (dir ++ [tname]) with
      | false => rfl
      | true =>
        rw [under_iff] at hu
        exact absurd (List.IsPrefix.eq_of_length hu (by simp [resDst])) (hname hh)
    rw [move_frame hsne hdne hm2 _ (not_under_below c.res_under c.hT.1) hdT, fget_rmTree hdne, hdT]
    simpa using e1
  · exact e1

/-- the resource folder next to the target is exactly the converter's folder (no nesting, no stale entries) -/
theorem commit_ok_res (c : CommitCtx dir tname tB p fsc html) {fs' : Fs}
    (h : commit html dir tname p fsc = (.ok (), fs'))
    (hh : html = true) (hres : fget fsc (resourcesOf p) = some .dir) (r : Path) :
    fget fs' (resDst dir p ++ r) = fget fsc (resourcesOf p ++ r) := by
  obtain ⟨fs1, hm1, hcase⟩ := commit_ok_form h
  have hres1 : fget fs1 (resourcesOf p) = some .dir := by
    have := c.res_same hm1 []; simp only [List.append_nil] at this; rw [this]; exact hres
  rcases hcase with ⟨_, _, hm2⟩ | ⟨hn, _⟩
  · have hdne : resDst dir p ≠ [] := by simp [resDst]
    have hsne : resourcesOf p ≠ [] := by simp [resourcesOf]
    have hsrc : fget (rmTree fs1 (resDst dir p)) (resourcesOf p) = some .dir := by
      have := c.res_rel hh []; simp only [List.append_nil] at this
      rw [fget_rmTree hdne, this]; simpa using hres1
    have hdst : fget (rmTree fs1 (resDst dir p)) (resDst dir p) = none := by
      rw [fget_rmTree hdne, under_refl]; simp
    have hreal : realDst (rmTree fs1 (resDst dir p)) (resourcesOf p) (resDst dir p) = resDst dir p := by
      unfold realDst; simp [hdst]
    unfold move at hm2
    simp only [hsrc, hreal, hdst, ne_eq, not_true_eq_false, and_false, ↓reduceIte] at hm2
    unfold moveTo at hm2
    split at hm2
    · cases hm2
    · split at hm2
      · simp only at hm2
        cases hm2
        rw [fget_moveTree hsne hdne, under_append]
        simp only [↓reduceIte, List.drop_left]
        rw [fget_rmTree hdne, c.res_rel hh r]
        simpa using c.res_same hm1 r
      · cases hm2
  · exact absurd ⟨hh, hres1⟩ hn
end

/-! ## effect sequences: specification rules and the per-scope postconditions -/

theorem step_spec {α : Type} (Q : Res → Prop) (k : Nat) (e : Eff) (act : Fs → Except Err α × Fs) (s : St)
    (cont : α → St → Res)
    (hinj : Q (.error .injected, s))
    (herr : ∀ er fs', act s.fs = (.error er, fs') → Q (.error er, { s with fs := fs' }))
    (hok : ∀ a fs', act s.fs = (.ok a, fs') → Q (cont a { s with fs := fs', trace := s.trace ++ [e] })) :
    Q (step k e act s cont) := by
  unfold step
  split
  · exact hinj
  · split
    · rename_i er fs' h; exact herr er fs' h
    · rename_i a fs' h; exact hok a fs' h

theorem withTemp_spec (Q : Res → Prop) (k : Nat) (root : Path) (name : Name) (s : St) (body : Path → St → Res)
    (hinj : Q (.error .injected, s))
    (herr : ∀ er fs', mkdtemp root name s.fs = (.error er, fs') → Q (.error er, { s with fs := fs' }))
    (hok : ∀ t fs', mkdtemp root name s.fs = (.ok t, fs') →
      Q ((body t { fs := fs', temps := t :: s.temps, trace := s.trace ++ [.mkdtemp] }).1,
         { (body t { fs := fs', temps := t :: s.temps, trace := s.trace ++ [.mkdtemp] }).2 with
           fs := rmTree (body t { fs := fs', temps := t :: s.temps, trace := s.trace ++ [.mkdtemp] }).2.fs t })) :
    Q (withTemp k root name s body) := by
  unfold withTemp
  apply step_spec
  · exact hinj
  · exact herr
  · intro t fs' h; exact hok t fs' h

theorem mkdtemp_err {root : Path} {name : Name} {fs fs' : Fs} {e : Err}
    (h : mkdtemp root name fs = (.error e, fs')) : fs' = fs := by
  unfold mkdtemp at h
  split at h
  · split at h
    · cases h
    · cases h; rfl
  · cases h; rfl

theorem mkdtemp_ok {root : Path} {name : Name} {fs fs' : Fs} {t : Path}
    (h : mkdtemp root name fs = (.ok t, fs')) :
    t = root ++ [name] ∧ fget fs t = none ∧ fget fs root = some .dir ∧ fs' = fset fs t .dir := by
  unfold mkdtemp at h
  split at h
  · rename_i hr
    split at h
    · rename_i hn; cases h; exact ⟨rfl, hn, hr, rfl⟩
    · cases h
  · cases h

theorem writeText_err {p : Path} {b : Bytes} {fs fs' : Fs} {e : Err}
    (h : writeText p b fs = (.error e, fs')) : fs' = fs := by
  unfold writeText at h
  split at h
  · cases h; rfl
  · split at h
    · cases h
    · cases h; rfl

theorem writeText_ok {p : Path} {b : Bytes} {fs fs' : Fs} {u : Unit}
    (h : writeText p b fs = (.ok u, fs')) :
    fs' = fset fs p (.file b) ∧ fget fs p ≠ some .dir ∧ fget fs p.dropLast = some .dir := by
  unfold writeText at h
  split at h
  · cases h
  · rename_i hnd
    split at h
    · rename_i hp; cases h; exact ⟨rfl, hnd, hp⟩
    · cases h

/-- postcondition of the block inside the second temporary directory `tB` -/
def QB (P : Params) (c : Converter) (rtf tB : Path) (s : St) (r : Res) : Prop :=
  r.2.temps = s.temps
  ∧ (∀ e, r.1 = .error e → ∀ q, under tB q = false → fget r.2.fs q = fget s.fs q)
  ∧ (r.1 = .ok () → ∃ p fsc, c s.fs rtf tB = (.ok (.path p), fsc)
        ∧ commit P.html P.dir P.tname p fsc = (.ok (), r.2.fs))

theorem coreB_spec (k : Nat) (P : Params) (c : Converter) (rtf tB : Path) (s : St)
    (hc : Confined c) (tBne : tB ≠ [])
    (hT : Unrelated tB (P.dir ++ [P.tname]))
    (hR : P.html = true → ∀ n : Name, Unrelated tB (P.dir ++ [n ++ filesSuffix]))
    (hdir : fget s.fs P.dir = some .dir) :
    QB P c rtf tB s (coreB k P c rtf tB s) := by
  have hframe : ∀ q, under tB q = false → fget (c s.fs rtf tB).2 q = fget s.fs q :=
    fun q hq => hc.frame s.fs rtf tB q hq
  unfold coreB
  apply step_spec
  · exact ⟨rfl, fun _ _ _ _ => rfl, fun h => by cases h⟩
  · intro er fs' h
    refine ⟨rfl, fun _ _ q hq => ?_, fun h => by cases h⟩
    have := hframe q hq; rw [h] at this; exact this
  · intro ret fsc h
    have hfr : ∀ q, under tB q = false → fget fsc q = fget s.fs q := by
      intro q hq; have := hframe q hq; rw [h] at this; exact this
    apply step_spec
    · exact ⟨rfl, fun _ _ q hq => hfr q hq, fun h => by cases h⟩
    · intro er fs' h2
      cases ret <;> simp only [typecheck] at h2 <;> cases h2
      all_goals exact ⟨rfl, fun _ _ q hq => hfr q hq, fun h => by cases h⟩
    · intro p fs' h2
      cases ret <;> simp only [typecheck] at h2 <;> cases h2
      have hret := hc.ret s.fs rtf tB p (by rw [h])
      have ctx : CommitCtx P.dir P.tname tB p fsc P.html :=
        { tBne := tBne, hp := hret.1, hpne := hret.2,
          hdir := by rw [hfr _ (not_under_of_prefix (under_append P.dir [P.tname]) hT.1)]; exact hdir,
          hT := hT, hR := fun hh => hR hh _ }
      apply step_spec
      · exact ⟨rfl, fun _ _ q hq => hfr q hq, fun h => by cases h⟩
      · intro er fs'' h3
        have := commit_fail ctx h3
        subst this
        exact ⟨rfl, fun _ _ q hq => hfr q hq, fun h => by cases h⟩
      · intro u fs'' h3
        refine ⟨rfl, ?_, fun _ => ⟨p, fsc, h, h3⟩⟩
        intro e he; cases he

theorem ne_of_under_false {t a b : Path} (ha : under t a = false) (hb : under t b = true) : a ≠ b := by
  intro h; rw [h, hb] at ha; cases ha

/-- postcondition of the block inside the first temporary directory `tA` (after the inner scope was cleaned) -/
def QA (P : Params) (c : Converter) (tA : Path) (s : St) (r : Res) : Prop :=
  (r.2.temps = s.temps ∨
    (r.2.temps = (P.tmpRoot ++ [P.tB]) :: s.temps ∧ fget s.fs (P.tmpRoot ++ [P.tB]) = none
      ∧ ∀ q, under (P.tmpRoot ++ [P.tB]) q = true → fget r.2.fs q = none))
  ∧ (∀ e, r.1 = .error e → ∀ q, under tA q = false → (∀ t ∈ r.2.temps, under t q = false) →
        fget r.2.fs q = fget s.fs q)
  ∧ (r.1 = .ok () → r.2.temps = (P.tmpRoot ++ [P.tB]) :: s.temps ∧ ∃ b p fsc fs', P.enc = .ok b
        ∧ fget s.fs (P.tmpRoot ++ [P.tB]) = none
        ∧ c (fset (fset s.fs (tA ++ [P.rtfName]) (.file b)) (P.tmpRoot ++ [P.tB]) .dir)
            (tA ++ [P.rtfName]) (P.tmpRoot ++ [P.tB]) = (.ok (.path p), fsc)
        ∧ commit P.html P.dir P.tname p fsc = (.ok (), fs')
        ∧ r.2.fs = rmTree fs' (P.tmpRoot ++ [P.tB]))

theorem coreA_spec (k : Nat) (P : Params) (c : Converter) (tA : Path) (s : St)
    (hc : Confined c)
    (hTA : Unrelated tA (P.dir ++ [P.tname]))
    (hTB : Unrelated (P.tmpRoot ++ [P.tB]) (P.dir ++ [P.tname]))
    (hR : P.html = true → ∀ n : Name, Unrelated (P.tmpRoot ++ [P.tB]) (P.dir ++ [n ++ filesSuffix]))
    (hdir : fget s.fs P.dir = some .dir) :
    QA P c tA s (coreA k P c tA s) := by
  have hrtfne : tA ++ [P.rtfName] ≠ [] := by simp
  have htBne : P.tmpRoot ++ [P.tB] ≠ [] := by simp
  have hAdir : under tA P.dir = false := not_under_of_prefix (under_append P.dir [P.tname]) hTA.1
  have hBdir : under (P.tmpRoot ++ [P.tB]) P.dir = false :=
    not_under_of_prefix (under_append P.dir [P.tname]) hTB.1
  unfold coreA
  apply step_spec
  · exact ⟨Or.inl rfl, fun _ _ _ _ _ => rfl, fun h => by cases h⟩
  · intro er fs' h
    have : fs' = s.fs := (congrArg Prod.snd h).symm
    subst this
    exact ⟨Or.inl rfl, fun _ _ _ _ _ => rfl, fun h => by cases h⟩
  · intro b fs' h
    have hb : P.enc = .ok b := congrArg Prod.fst h
    have : fs' = s.fs := (congrArg Prod.snd h).symm
    subst this
    apply step_spec
    · exact ⟨Or.inl rfl, fun _ _ _ _ _ => rfl, fun h => by cases h⟩
    · intro er fs' h2
      have := writeText_err h2; subst this
      exact ⟨Or.inl rfl, fun _ _ _ _ _ => rfl, fun h => by cases h⟩
    · intro u fs2 h2
      obtain ⟨hfs2, _, _⟩ := writeText_ok h2
      subst hfs2
      have hf2 : ∀ q, under tA q = false → fget (fset s.fs (tA ++ [P.rtfName]) (.file b)) q = fget s.fs q := by
        intro q hq
        rw [fget_fset _ hrtfne, if_neg (ne_of_under_false hq (under_append tA _))]
      apply withTemp_spec
      · exact ⟨Or.inl rfl, fun _ _ q hq _ => hf2 q hq, fun h => by cases h⟩
      · intro er fs' h3
        have := mkdtemp_err h3; subst this
        exact ⟨Or.inl rfl, fun _ _ q hq _ => hf2 q hq, fun h => by cases h⟩
      · intro t fs3 h3
        obtain ⟨ht, hfresh, _, hfs3⟩ := mkdtemp_ok h3
        subst ht; subst hfs3
        have hfresh' : fget s.fs (P.tmpRoot ++ [P.tB]) = none := by
          rw [fget_fset _ hrtfne] at hfresh
          split at hfresh
          · cases hfresh
          · exact hfresh
        have hf3 : ∀ q, under tA q = false → under (P.tmpRoot ++ [P.tB]) q = false →
            fget (fset (fset s.fs (tA ++ [P.rtfName]) (.file b)) (P.tmpRoot ++ [P.tB]) .dir) q = fget s.fs q := by
          intro q hq hq2
          rw [fget_fset _ htBne, if_neg (ne_of_under_false hq2 (under_refl _))]
          exact hf2 q hq
        have hB := coreB_spec k P c (tA ++ [P.rtfName]) (P.tmpRoot ++ [P.tB])
          { fs := fset (fset s.fs (tA ++ [P.rtfName]) (.file b)) (P.tmpRoot ++ [P.tB]) .dir,
            temps := (P.tmpRoot ++ [P.tB]) :: s.temps,
            trace := (s.trace ++ [Eff.encode] ++ [Eff.writeRtf]) ++ [Eff.mkdtemp] }
          hc htBne hTB hR (by rw [hf3 _ hAdir hBdir]; exact hdir)
        obtain ⟨hB1, hB2, hB3⟩ := hB
        refine ⟨Or.inr ⟨hB1, hfresh', fun q hq => ?_⟩, fun e he q hq hall => ?_, fun hok => ?_⟩
        · simp only [fget_rmTree htBne, hq, ↓reduceIte]
        · have hq2 : under (P.tmpRoot ++ [P.tB]) q = false := hall _ (by rw [hB1]; simp)
          simp only [fget_rmTree htBne, hq2]
          have := hB2 e he q hq2
          simp only at this
          rw [this]; exact hf3 q hq hq2
        · obtain ⟨p, fsc, h5, h6⟩ := hB3 hok
          exact ⟨hB1, b, p, fsc, _, hb, hfresh', h5, h6, rfl⟩

/-- postcondition of everything after the converter is known (state `s` = after `mkdir`, no temp dirs yet) -/
def QT (P : Params) (c : Converter) (s : St) (r : Res) : Prop :=
  (∀ t ∈ r.2.temps, (t = P.tmpRoot ++ [P.tA] ∨ t = P.tmpRoot ++ [P.tB]) ∧ fget s.fs t = none
      ∧ ∀ q, under t q = true → fget r.2.fs q = none)
  ∧ (∀ e, r.1 = .error e → ∀ q, (∀ t ∈ r.2.temps, under t q = false) → fget r.2.fs q = fget s.fs q)
  ∧ (r.1 = .ok () → r.2.temps = [P.tmpRoot ++ [P.tB], P.tmpRoot ++ [P.tA]] ∧ ∃ b p fsc fs', P.enc = .ok b
        ∧ c (fset (fset (fset s.fs (P.tmpRoot ++ [P.tA]) .dir) (P.tmpRoot ++ [P.tA] ++ [P.rtfName]) (.file b))
              (P.tmpRoot ++ [P.tB]) .dir)
            (P.tmpRoot ++ [P.tA] ++ [P.rtfName]) (P.tmpRoot ++ [P.tB]) = (.ok (.path p), fsc)
        ∧ commit P.html P.dir P.tname p fsc = (.ok (), fs')
        ∧ r.2.fs = rmTree (rmTree fs' (P.tmpRoot ++ [P.tB])) (P.tmpRoot ++ [P.tA]))

theorem afterResolve_spec (k : Nat) (P : Params) (c : Converter) (fs0 : Fs) (trace0 : List Eff)
    (hc : Confined c)
    (hTA : Unrelated (P.tmpRoot ++ [P.tA]) (P.dir ++ [P.tname]))
    (hTB : Unrelated (P.tmpRoot ++ [P.tB]) (P.dir ++ [P.tname]))
    (hR : P.html = true → ∀ n : Name, Unrelated (P.tmpRoot ++ [P.tB]) (P.dir ++ [n ++ filesSuffix]))
    (hdir : fget fs0 P.dir = some .dir) :
    QT P c { fs := fs0, temps := [], trace := trace0 }
      (afterResolve k P c { fs := fs0, temps := [], trace := trace0 }) := by
  have htAne : P.tmpRoot ++ [P.tA] ≠ [] := by simp
  have hAdir : under (P.tmpRoot ++ [P.tA]) P.dir = false :=
    not_under_of_prefix (under_append P.dir [P.tname]) hTA.1
  unfold afterResolve
  apply withTemp_spec
  · refine ⟨?_, fun _ _ _ _ => rfl, fun h => by cases h⟩
    intro t ht; cases ht
  · intro er fs' h
    have := mkdtemp_err h; subst this
    refine ⟨?_, fun _ _ _ _ => rfl, fun h => by cases h⟩
    intro t ht; cases ht
  · intro t fs2 h
    obtain ⟨ht, hfresh, _, hfs2⟩ := mkdtemp_ok h
    subst ht; subst hfs2
    have hA := coreA_spec k P c (P.tmpRoot ++ [P.tA])
      { fs := fset fs0 (P.tmpRoot ++ [P.tA]) .dir, temps := (P.tmpRoot ++ [P.tA]) :: [],
        trace := trace0 ++ [Eff.mkdtemp] } hc hTA hTB hR
      (by rw [fget_fset _ htAne, if_neg (ne_of_under_false hAdir (under_refl _))]; exact hdir)
    obtain ⟨hA1, hA2, hA3⟩ := hA
    refine ⟨?_, ?_, ?_⟩
    · intro t ht
      simp only at ht
      rcases hA1 with h1 | ⟨h1, h2, h3⟩
      · rw [h1] at ht
        simp only [List.mem_cons, List.not_mem_nil, or_false] at ht
        subst ht
        refine ⟨Or.inl rfl, hfresh, fun q hq => ?_⟩
        simp only [fget_rmTree htAne, hq, ↓reduceIte]
      · rw [h1] at ht
        simp only [List.mem_cons, List.not_mem_nil, or_false] at ht
        rcases ht with rfl | rfl
        · refine ⟨Or.inr rfl, ?_, fun q hq => ?_⟩
          · rw [fget_fset _ htAne] at h2
            split at h2
            · cases h2
            · exact h2
          · simp only [fget_rmTree htAne, h3 q hq, ite_self]
        · refine ⟨Or.inl rfl, hfresh, fun q hq => ?_⟩
          simp only [fget_rmTree htAne, hq, ↓reduceIte]
    · intro e he q hall
      simp only at hall ⊢
      have hqA : under (P.tmpRoot ++ [P.tA]) q = false := by
        apply hall
        rcases hA1 with h1 | ⟨h1, _, _⟩ <;> rw [h1] <;> simp
      rw [fget_rmTree htAne, hqA]
      simp only [Bool.false_eq_true, ↓reduceIte]
      rw [hA2 e he q hqA hall, fget_fset _ htAne, if_neg (ne_of_under_false hqA (under_refl _))]
    · intro hok
      obtain ⟨h1, b, p, fsc, fs', hb, hfB, hcv, hcm, hfs⟩ := hA3 hok
      exact ⟨h1, b, p, fsc, fs', hb, hcv, hcm, by simp only [hfs]⟩

/-! ## the whole call -/

theorem same_of_mkdir {dir : Path} {fs fs1 fs' : Fs} (h : mkdirParents dir fs = (.ok (), fs1)) {q : Path}
    (hq : fget fs' q = fget fs1 q) : Same fs dir fs' q := by
  rw [fget_mkdirParents h] at hq
  split at hq
  · rename_i hc; exact Or.inr ⟨hc.1, hc.2, hq⟩
  · exact Or.inl hq

theorem fresh_of_mkdir {dir : Path} {fs fs1 : Fs} (h : mkdirParents dir fs = (.ok (), fs1)) {t : Path}
    (ht : fget fs1 t = none) : fget fs t = none := by
  rw [fget_mkdirParents h] at ht
  split at ht
  · cases ht
  · exact ht

def QW (P : Params) (fs : Fs) (r : Res) : Prop :=
  (∀ t ∈ r.2.temps, (t = P.tmpRoot ++ [P.tA] ∨ t = P.tmpRoot ++ [P.tB]) ∧ fget fs t = none
      ∧ ∀ q, under t q = true → fget r.2.fs q = none)
  ∧ (∀ e, r.1 = .error e → ∀ q, (∀ t ∈ r.2.temps, under t q = false) → Same fs P.dir r.2.fs q)
  ∧ (r.1 = .ok () → r.2.temps = [P.tmpRoot ++ [P.tB], P.tmpRoot ++ [P.tA]] ∧ ∃ c b p fs1 fsc fs',
        P.conv = .ok c ∧ P.enc = .ok b ∧ mkdirParents P.dir fs = (.ok (), fs1)
        ∧ c (fset (fset (fset fs1 (P.tmpRoot ++ [P.tA]) .dir) (P.tmpRoot ++ [P.tA] ++ [P.rtfName]) (.file b))
              (P.tmpRoot ++ [P.tB]) .dir)
            (P.tmpRoot ++ [P.tA] ++ [P.rtfName]) (P.tmpRoot ++ [P.tB]) = (.ok (.path p), fsc)
        ∧ commit P.html P.dir P.tname p fsc = (.ok (), fs')
        ∧ r.2.fs = rmTree (rmTree fs' (P.tmpRoot ++ [P.tB])) (P.tmpRoot ++ [P.tA]))

theorem QW_of_QT {P : Params} {c : Converter} {fs fs1 : Fs} {tr : List Eff} {r : Res}
    (hconv : P.conv = .ok c) (hm : mkdirParents P.dir fs = (.ok (), fs1))
    (h : QT P c { fs := fs1, temps := [], trace := tr } r) : QW P fs r := by
  obtain ⟨h1, h2, h3⟩ := h
  refine ⟨fun t ht => ?_, fun e he q hall => ?_, fun hok => ?_⟩
  · obtain ⟨a, b, c'⟩ := h1 t ht
    exact ⟨a, fresh_of_mkdir hm b, c'⟩
  · exact same_of_mkdir hm (h2 e he q hall)
  · obtain ⟨ht, b, p, fsc, fs', hb, hcv, hcm, hfs⟩ := h3 hok
    exact ⟨ht, c, b, p, fs1, fsc, fs', hconv, hb, hm, hcv, hcm, hfs⟩

theorem writeConv_spec (k : Nat) (P : Params) (fs : Fs)
    (hconf : ∀ c, P.conv = .ok c → Confined c) (hN : NoClash P) :
    QW P fs (writeConv k P fs) := by
  have trivialQ : ∀ tr, QW P fs (.error .injected, { fs := fs, temps := [], trace := tr }) := by
    intro tr
    exact ⟨fun t ht => (by cases ht), fun _ _ q _ => Or.inl rfl, fun h => by cases h⟩
  unfold writeConv
  apply step_spec
  · exact trivialQ _
  · intro er fs' h
    have := mkdirParents_err h; subst this
    exact ⟨fun t ht => (by cases ht), fun _ _ q _ => Or.inl rfl, fun h => by cases h⟩
  · intro u fs1 hm
    have hdir : fget fs1 P.dir = some .dir := mkdirParents_dir hm (under_refl _)
    have errQ : ∀ (er : Err) tr, QW P fs (.error er, { fs := fs1, temps := [], trace := tr }) := by
      intro er tr
      exact ⟨fun t ht => (by cases ht), fun _ _ q _ => same_of_mkdir hm rfl, fun h => by cases h⟩
    split
    · split
      · rename_i c hcv
        exact QW_of_QT hcv hm (afterResolve_spec k P c fs1 _ (hconf c hcv) hN.tA hN.tB hN.resB hdir)
      · exact errQ _ _
    · apply step_spec
      · exact errQ _ _
      · intro er fs' h
        have : fs1 = fs' := congrArg Prod.snd h
        subst this
        exact errQ _ _
      · intro c fs' h
        have hcv : P.conv = .ok c := congrArg Prod.fst h
        have : fs1 = fs' := congrArg Prod.snd h
        subst this
        exact QW_of_QT hcv hm (afterResolve_spec k P c fs1 _ (hconf c hcv) hN.tA hN.tB hN.resB hdir)

/-! ## stubs -/
theorem ne_below {out x q : Path} (hq : under out q = false) : q ≠ out ++ x := by
  intro e; rw [e, under_append] at hq; cases hq

theorem fget_fset_below {fs : Fs} {out x q : Path} (n : Node) (hq : under out q = false) :
    fget (fset fs (out ++ x) n) q = fget fs q := by
  by_cases hx : out ++ x = []
  · have : out = [] := by simp at hx; exact hx.1
    subst this; rw [under_nil] at hq; cases hq
  · rw [fget_fset _ hx, if_neg (ne_below hq)]


/-! ## well-formedness: nothing exists below an absent path -/

theorem mem_of_lookup {fs : Fs} {q : Path} {n : Node} (h : fs.lookup q = some n) : (q, n) ∈ fs := by
  induction fs with
  | nil => simp at h
  | cons e fs ih =>
    obtain ⟨k, v⟩ := e
    simp only [List.lookup_cons] at h
    by_cases hq : q == k
    · simp only [hq] at h
      have : q = k := by simpa using hq
      cases h; subst this; exact List.mem_cons_self
    · simp only [hq] at h
      exact List.mem_cons_of_mem _ (ih h)

theorem WF.parent_dir {fs : Fs} (h : WF fs) {q : Path} {n : Node} (hq : q ≠ []) (hn : fget fs q = some n) :
    fget fs q.dropLast = some .dir := by
  unfold fget at hn
  simp only [hq, ↓reduceIte] at hn
  exact (h.2 _ (mem_of_lookup hn)).2

/-- in a well-formed file system nothing exists below a path that does not exist -/
theorem WF.below_absent {fs : Fs} (h : WF fs) {t : Path} (ht : fget fs t = none) :
    ∀ r, fget fs (t ++ r) = none := by
  intro r
  induction hlen : r.length generalizing r with
  | zero =>
    have : r = [] := List.eq_nil_of_length_eq_zero hlen
    subst this; simpa using ht
  | succ m ih =>
    have hr : r ≠ [] := by intro e; subst e; simp at hlen
    cases hq : fget fs (t ++ r) with
    | none => rfl
    | some n =>
      exfalso
      have hne : t ++ r ≠ [] := by simp [hr]
      have hp := WF.parent_dir h hne hq
      rw [List.dropLast_append_of_ne_nil hr] at hp
      have := ih r.dropLast (by simp [hlen])
      rw [this] at hp; cases hp

theorem WF.under_absent {fs : Fs} (h : WF fs) {t q : Path} (ht : fget fs t = none) (hq : under t q = true) :
    fget fs q = none := by
  rw [under_split hq]; exact WF.below_absent h ht _

/-! ## `write_rtf` -/

/-- postcondition of `write_rtf`, all outcomes -/
def QR (dir : Path) (tname : Name) (enc : Except Err Bytes) (fs : Fs) (r : Res) : Prop :=
  r.2.temps = []
  ∧ (∀ q, q ≠ dir ++ [tname] → Same fs dir r.2.fs q)
  ∧ (∀ e, r.1 = .error e → fget r.2.fs (dir ++ [tname]) = fget fs (dir ++ [tname]))
  ∧ (r.1 = .ok () → ∃ b, enc = .ok b ∧ fget r.2.fs (dir ++ [tname]) = some (.file b)
        ∧ ∀ q, under q dir = true → fget r.2.fs q = some .dir)

theorem rtf_spec (k : Nat) (dir : Path) (tname : Name) (enc : Except Err Bytes) (fs : Fs) :
    QR dir tname enc fs (writeRtf k dir tname enc fs) := by
  have hTne : dir ++ [tname] ≠ [] := by simp
  unfold writeRtf
  apply step_spec
  · exact ⟨rfl, fun _ _ => Or.inl rfl, fun _ _ => rfl, fun h => by cases h⟩
  · intro er fs' h
    have := mkdirParents_err h; subst this
    exact ⟨rfl, fun _ _ => Or.inl rfl, fun _ _ => rfl, fun h => by cases h⟩
  · intro u fs1 hm
    have hT1 : fget fs1 (dir ++ [tname]) = fget fs (dir ++ [tname]) := by
      rw [fget_mkdirParents hm, under_longer (by simp)]; simp
    have errQ : ∀ (er : Err) tr, QR dir tname enc fs (.error er, { fs := fs1, temps := [], trace := tr }) :=
      fun er tr => ⟨rfl, fun _ _ => same_of_mkdir hm rfl, fun _ _ => hT1, fun h => by cases h⟩
    apply step_spec
    · exact errQ _ _
    · intro er fs' h
      have : fs1 = fs' := congrArg Prod.snd h
      subst this; exact errQ _ _
    · intro u' fs' h
      have : fs1 = fs' := congrArg Prod.snd h
      subst this
      apply step_spec
      · exact errQ _ _
      · intro er fs' h
        have : fs1 = fs' := congrArg Prod.snd h
        subst this; exact errQ _ _
      · intro b fs' h
        have hb : enc = .ok b := congrArg Prod.fst h
        have : fs1 = fs' := congrArg Prod.snd h
        subst this
        apply step_spec
        · exact errQ _ _
        · intro er fs' h
          have := writeText_err h; subst this; exact errQ _ _
        · intro u'' fs2 h
          obtain ⟨hfs2, _, _⟩ := writeText_ok h
          subst hfs2
          refine ⟨rfl, fun q hq => ?_, fun e he => (by cases he), fun _ => ⟨b, hb, ?_, fun q hq => ?_⟩⟩
          · exact same_of_mkdir hm (by rw [fget_fset _ hTne, if_neg hq])
          · rw [fget_fset _ hTne]; simp
          · have hne : q ≠ dir ++ [tname] := by
              intro e; rw [e, under_longer (by simp)] at hq; cases hq
            simp only
            rw [fget_fset _ hTne, if_neg hne]
            exact mkdirParents_dir hm hq


theorem unrelated_append {t d : Path} (h : Unrelated t d) (r : Path) : under t (d ++ r) = false := by
  cases hu : under t (d ++ r) with
  | false => rfl
  | true =>
    rcases under_comparable hu (under_append d r) with h1 | h1
    · rw [h.1] at h1; cases h1
    · rw [h.2] at h1; cases h1


/-! ## well-formedness is preserved by the elementary updates -/

theorem keys_filter (fs : Fs) (P : Path → Bool) :
    keys (fs.filter (fun e => P e.1)) = (keys fs).filter P := by
  induction fs with
  | nil => rfl
  | cons e fs ih =>
    simp only [List.filter_cons, keys, List.map_cons]
    by_cases h : P e.1 = true
    · simp only [h, ↓reduceIte, List.map_cons]; congr 1
    · simp only [h, Bool.false_eq_true, ↓reduceIte]; exact ih

/-- removing a subtree keeps a file system well-formed -/
theorem WF.rmTree {fs : Fs} (h : WF fs) {p : Path} (hp : p ≠ []) : WF (rmTree fs p) := by
  constructor
  · have := keys_filter fs (fun k => !under p k)
    unfold Model.Export.rmTree
    rw [this]; exact h.1.filter _
  · intro e he
    have hmem : e ∈ fs ∧ under p e.1 = false := by
      unfold Model.Export.rmTree at he
      simpa [List.mem_filter] using he
    obtain ⟨hne, hpar⟩ := h.2 e hmem.1
    refine ⟨hne, ?_⟩
    rw [fget_rmTree hp]
    have : under p e.1.dropLast = false := by
      apply not_under_of_prefix _ hmem.2
      rw [under_iff]; exact List.dropLast_prefix _
    simp [this, hpar]

/-- binding a path whose parent is a directory keeps a file system well-formed, provided a directory
is not overwritten by a file (its children would be orphaned) -/
theorem WF.fset {fs : Fs} (h : WF fs) {p : Path} {n : Node} (hp : p ≠ [])
    (hpar : fget fs p.dropLast = some .dir) (hkeep : fget fs p = some .dir → n = .dir) : WF (fset fs p n) := by
  have hdl : p.dropLast ≠ p := by
    intro e
    have := congrArg List.length e
    simp at this
    have := List.length_pos_iff.mpr hp
    omega
  constructor
  · unfold Model.Export.fset keys
    simp only [List.map_cons, List.nodup_cons]
    constructor
    · intro hm
      simp only [List.mem_map, List.mem_filter] at hm
      obtain ⟨e, ⟨_, hne⟩, he⟩ := hm
      simp [he] at hne
    · have := keys_filter fs (fun k => !(k == p))
      unfold keys at this
      rw [this]; exact h.1.filter _
  · intro e he
    unfold Model.Export.fset at he
    simp only [List.mem_cons, List.mem_filter] at he
    rcases he with rfl | ⟨hmem, _⟩
    · refine ⟨hp, ?_⟩
      simp only
      rw [fget_fset _ hp, if_neg hdl]; exact hpar
    · obtain ⟨hne, hpe⟩ := h.2 e hmem
      refine ⟨hne, ?_⟩
      rw [fget_fset _ hp]
      split
      · rename_i heq
        rw [heq] at hpe
        rw [hkeep hpe]
      · exact hpe

/-! ## names as data (`stem`, `stubN`) -/

theorem splitLastDot_none {s : Name} (h : '.' ∉ s) : splitLastDot s = none := by
  induction s with
  | nil => rfl
  | cons c r ih =>
    have hc : c ≠ '.' := fun e => h (by simp [e])
    have hr : '.' ∉ r := fun m => h (by simp [m])
    simp [splitLastDot, ih hr, hc]

theorem splitLastDot_append (x s : Name) (h : '.' ∉ s) : splitLastDot (x ++ '.' :: s) = some (x, s) := by
  induction x with
  | nil => simp [splitLastDot, splitLastDot_none h]
  | cons c r ih => simp [splitLastDot, ih]

/-- what `stubN .okRes` leaves behind, given an input file holding `b` -/
theorem stubN_okRes_run {fs fsc : Fs} {inp out p : Path} {fmt : List Char} {b : Bytes}
    (hin : fget fs inp = some (.file b))
    (hrun : stubN .okRes fmt fs inp out = (.ok (.path p), fsc)) :
    p = out ++ [convName fmt inp]
    ∧ fget fsc p = some (.file (stubBytes fmt b))
    ∧ fget fsc (resourcesOf p) = some .dir
    ∧ fget fsc (resourcesOf p ++ [['r', '.', 't', 'x', 't']]) = some (.file ['r', 'e', 's', 'o', 'u', 'r', 'c', 'e'])
    ∧ fget fsc (resourcesOf p ++ [['s', 'u', 'b']]) = some .dir
    ∧ fget fsc (resourcesOf p ++ [['s', 'u', 'b'], ['s', '.', 't', 'x', 't']]) = some (.file ['n', 'e', 's', 't', 'e', 'd']) := by
  unfold stubN stub at hrun
  simp only [hin] at hrun
  obtain ⟨hp, hfs⟩ := Prod.mk.inj hrun
  have hp' : p = out ++ [convName fmt inp] := by
    injection hp with hp; injection hp with hp; exact hp.symm
  subst hp'
  have hres : resourcesOf (out ++ [convName fmt inp]) = out ++ [convName fmt inp ++ filesSuffix] := by
    simp [resourcesOf]
  rw [hres, ← hfs]
  have hne : convName fmt inp ++ filesSuffix ≠ convName fmt inp := str_append_ne _
  refine ⟨rfl, ?_, ?_, ?_, ?_, ?_⟩ <;>
    simp [fget_fset, filesSuffix]

/-! ## process converters -/

/-- the writes of a process run stay below its output directory -/
theorem fget_writeRel (out : Path) (files : List (Path × Node)) (fs : Fs) (q : Path) (hq : under out q = false) :
    fget (writeRel out files fs) q = fget fs q := by
  induction files generalizing fs with
  | nil => rfl
  | cons e r ih =>
    simp only [writeRel]
    rw [ih, fget_fset_below _ hq]

end Proofs.Export
