import Proofs.EncodeTotalMore
/-!
Totality of the encoder models, part 8: the refusal is decided by the data alone.

`encodePages_total` says: a document, or `ValueError` and the keys are not contiguous.  Here the converse: when the
encoder returns a document, the group_by keys ARE contiguous (`encodePages_ok_contiguous`).  Together: on an accepted
configuration of the quantifier the encoder refuses if and only if the keys (of some section) are not contiguous.
-/
namespace Proofs.EncodeTotal
open Model.Encode Model.EncodeAccepted Model.EncodeAcceptedMore Model.EncodeMulti Model.Broadcast Model.Emit Generated
open Model.GroupBy Proofs.GroupBy

theorem contiguous_nil {α : Type} : Contiguous ([] : List α) := by
  intro pre mid post a e
  cases pre <;> simp at e

/-- `enhance_group_by` succeeded ⇒ the keys are contiguous at every level of the de-duplicated list -/
theorem contiguous_of_enhance_ok (df : Frame) (wf : WF df) (gb : List Model.Encode.Str)
    (hsub : ∀ g ∈ gb, g ∈ names df) {s : Frame} (hs : enhanceGroupBy df gb = .ok s) :
    ∀ l, l < gb.eraseDups.length → Contiguous (keysAt df gb.eraseDups l) := by
  intro l hl
  by_cases hh : height df = 0
  · unfold keysAt
    rw [hh]
    exact contiguous_nil
  · have hne : gb ≠ [] := by
      intro h0
      rw [h0] at hl
      simp at hl
    have hnd := nodup_eraseDups gb.length gb (Nat.le_refl _)
    have hne' : gb.eraseDups ≠ [] := by
      intro he
      rw [he] at hl
      simp at hl
    have hsub' : ∀ g ∈ gb.eraseDups, g ∈ names df := fun g hg => hsub g (List.mem_eraseDups.mp hg)
    have heq : validateDataSorting df gb = validateDataSorting df gb.eraseDups := by
      unfold validateDataSorting
      simp only [hh, hne, hne', if_false, eraseDups_of_nodup gb.eraseDups hnd]
    have hv : validateDataSorting df gb = .ok () := by
      unfold enhanceGroupBy at hs
      have h0 : (decide (gb = []) || decide (height df = 0)) = false := by simp [hne, hh]
      have hmiss : (gb.any fun c => !(names df).contains c) = false := by
        rw [List.any_eq_false]
        intro g hg
        simpa using hsub g hg
      simp only [h0, hmiss, Bool.false_eq_true, if_false] at hs
      cases hv : validateDataSorting df gb with
      | ok u => cases u; rfl
      | error e => rw [hv] at hs; cases hs
    rw [heq] at hv
    exact (validate_ok_iff df wf gb.eraseDups hnd hsub' hne' hh).mp hv l hl

theorem finalRows_ok_contiguous {d : Doc} {p : Prep} {removed : List Nat} {A : TblAttrsOf MatV}
    (h : PrepOk d p removed A) (hacc : AccFacts d) (hsh : ShapeFacts d removed) {heights : List Nat}
    {rows : List (List (Option Model.Encode.Str))} (hf : finalRows d p heights = .ok rows) : GroupKeysContiguous d := by
  intro p' hp' l hl
  have hpp : p' = p := by
    have := h.prep
    rw [hp'] at this
    exact Except.ok.inj this
  subst hpp
  have h0 : d.body.groupByL ≠ [] := by
    intro h0
    rw [h0] at hl
    simp at hl
  cases hs : enhanceGroupBy (toFrame p'.dispCols p'.dispRows) d.body.groupByL with
  | error e' =>
    have := (Proofs.EncodeGroup.finalRows_error_iff (heights := heights) h0 "ValueError").mpr ⟨rfl, e', hs⟩
    rw [this] at hf
    cases hf
  | ok s =>
    exact contiguous_of_enhance_ok _ (Proofs.EncodeGroup.wf_toFrame _ _) d.body.groupByL
      (by rw [Proofs.EncodeGroup.names_toFrame]; exact group_displayed h hacc hsh) hs l hl

/-- **the encoder returned the pages of `d` ⇒ the group_by keys of `d` are contiguous** -/
theorem encodePages_ok_contiguous (measure : Measure) (k : ColorCtx) {d : Doc} (ha : Accepted d)
    (hs : ShapesInQuantifier d) (hm : MeasureOk measure d) {x : List Elem × Nat}
    (hx : encodePages measure k d = .ok x) : GroupKeysContiguous d := by
  have hacc := accFacts ha
  obtain ⟨removed, hsh⟩ := shapeFacts hs
  obtain ⟨p, A, hprep⟩ := prepare_total hacc hsh
  obtain ⟨⟨ld, near⟩, hld⟩ := mkLDoc_total measure hprep hacc hsh hm
  cases hf : finalRows d p (ld.pages.map (·.height)) with
  | ok rows => exact finalRows_ok_contiguous hprep hacc hsh hf
  | error e =>
    exfalso
    unfold encodePages at hx
    simp only [hprep.prep, hprep.nested, hld, ok_bind, hf, err_bind] at hx
    cases hx

/-- on an accepted configuration of the quantifier the pages are refused exactly for non-contiguous keys -/
theorem encodePages_refused_iff (measure : Measure) (k : ColorCtx) {d : Doc} (ha : Accepted d)
    (hs : ShapesInQuantifier d) (hm : MeasureOk measure d) :
    encodePages measure k d = .error "ValueError" ↔ ¬ GroupKeysContiguous d := by
  constructor
  · intro he hc
    rcases encodePages_total measure k ha hs hm with ⟨x, hx⟩ | ⟨_, hn⟩
    · rw [hx] at he; cases he
    · exact hn hc
  · intro hn
    rcases encodePages_total measure k ha hs hm with ⟨x, hx⟩ | ⟨he, _⟩
    · exact absurd (encodePages_ok_contiguous measure k ha hs hm hx) hn
    · exact he

/-- the single-section encoder -/
theorem encode_ok_contiguous (measure : Measure) {d : Doc} (ha : Accepted d) (hs : ShapesInQuantifier d)
    (hm : MeasureOk measure d) {g : Model.Rtf.DocG} (hg : encode measure d = .ok g) : GroupKeysContiguous d := by
  rcases encodePages_total measure (mkColorCtx d) ha hs hm with ⟨x, hx⟩ | ⟨he, _⟩
  · exact encodePages_ok_contiguous measure _ ha hs hm hx
  · exfalso
    unfold encode encodeWith at hg
    simp only [he, err_bind] at hg
    cases hg

/-- the multi-section encoder: a document ⇒ the keys of EVERY section are contiguous -/
theorem encodeM_ok_contiguous (measure : Measure) {d : MDoc} (ha : AcceptedM d) (hs : ShapesInQuantifierM d)
    (hm : MeasureOkM measure d) {g : Model.Rtf.DocG} (hg : encodeM measure d = .ok g) :
    ∀ sd ∈ sectionDocs d, GroupKeysContiguous sd := by
  intro sd hsd
  have hs' := hs
  unfold ShapesInQuantifierM shapesInQuantifierM at hs'
  simp only [Bool.and_eq_true] at hs'
  unfold MeasureOkM measureOkM at hm
  have hsdA := accepted_sectionDocs ha sd hsd
  have hsdS : ShapesInQuantifier sd := List.all_eq_true.mp hs'.1.1 sd hsd
  have hsdM : MeasureOk measure sd := List.all_eq_true.mp hm sd hsd
  cases hparts : (sectionDocs d).mapM (fun sd => encodePages measure (ctxOfColors (colorDocM d)) sd) with
  | ok parts =>
    obtain ⟨x, _, hx⟩ := Proofs.EncodeAttrs.mapM_mem_left hparts sd hsd
    exact encodePages_ok_contiguous measure _ hsdA hsdS hsdM hx
  | error e =>
    exfalso
    unfold encodeM encodeWithM encodeSections at hg
    simp only [hparts, err_bind] at hg
    cases hg

end Proofs.EncodeTotal
