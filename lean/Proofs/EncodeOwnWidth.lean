import Model.Encode
import Proofs.Encode
import Proofs.EncodeLift
/-!
# The line estimate of a row measures every displayed cell in ITS OWN column

`Model.Encode.dataLines` (the model of the data-row part of `calculate_row_metadata`) walks the DISPLAYED cells of a row
together with the cumulative widths of the DISPLAYED columns.  This file says what that means cell by cell:

* `dataLines_own_width`  the cell at displayed position `j` contributes `linesOf w (cum[j] − cum[j−1])` (the first one
                         against `cum[0] − prev`), where `w` is the measured width of its `str()` at the font and the size
                         that the processed attribute matrices hold at (row, `k + j`) — never the width, font or size of
                         a neighbouring column, whatever columns left the table;
* `dataLines_attained`   and the estimate of the row is its start value or exactly one of these contributions, so it is
                         `max (start, contributions)`.
-/
namespace Proofs.EncodeOwnWidth
open Model.Encode Model.Broadcast Proofs.Encode Proofs.EncodeLift

/-- `l` is the number of lines of `cell`, standing in attribute column `k` of table row `r`, in a column `cw` wide:
`max(1, int(width(str(cell), font, size) / cw) + 1)` with the font and size the attribute matrices hold at `(r, k)`
(`None` → font 1, size 9) -/
def CellLines (measure : Measure) (A : TblAttrsOf MatV) (r k : Nat) (cell : Option Str) (cw : Rat) (l : Nat) : Prop :=
  ∃ sv fv size font w,
    ilocV A.size r k = .ok sv ∧ ilocV A.font r k = .ok fv ∧
    (sv = .null → size = 9) ∧ (sv ≠ .null → sv.toRat = .ok size) ∧
    (fv = .null → font = 1) ∧ (∀ i, fv = .int i → font = i) ∧
    measure (strOfCell cell) font size = some w ∧ cw ≠ 0 ∧ l = (linesOf w cw).1

/-- the width the displayed cell at position `j` is measured against: its own cumulative width minus its left
neighbour's (`prev` for the first cell of the walk) -/
def ownWidth (cum : List Rat) (prev : Rat) (j : Nat) (c : Rat) : Rat :=
  c - (if j = 0 then prev else (cum[j - 1]?).getD 0)

/-- one step of `dataLines`, inverted: the head cell's contribution and the recursive call -/
theorem dataLines_step {measure : Measure} {A : TblAttrsOf MatV} {r : Nat}
    {cell : Option Str} {cells : List (Option Str)} {c : Rat} {cum : List Rat} {k : Nat} {prev : Rat}
    {acc res : Nat × Bool}
    (h : dataLines measure A r (cell :: cells) (c :: cum) k prev acc = .ok res) :
    ∃ l near, CellLines measure A r k cell (c - prev) l ∧
      dataLines measure A r cells cum (k + 1) c (max acc.1 l, acc.2 || near) = .ok res := by
  rw [dataLines] at h
  peel h as sv hsv
  dsimp only at h
  simp only [pure_bind, throw_bind'] at h
  have fin : ∀ (size : Rat) (font : Int) (fv : Val),
      ilocV A.font r k = .ok fv → (sv = .null → size = 9) → (sv ≠ .null → sv.toRat = .ok size) →
      (fv = .null → font = 1) → (∀ i, fv = .int i → font = i) →
      (match measure (strOfCell cell) font size with
        | some w =>
          if c - prev = 0 then Except.error "ZeroDivisionError"
          else dataLines measure A r cells cum (k + 1) c
            (max acc.fst (linesOf w (c - prev)).fst, acc.snd || (linesOf w (c - prev)).snd)
        | none => Except.error "model:width-missing") = Except.ok res →
      ∃ l near, CellLines measure A r k cell (c - prev) l ∧
        dataLines measure A r cells cum (k + 1) c (max acc.1 l, acc.2 || near) = .ok res := by
    intro size font fv hfv h1 h2 h3 h4 h
    split at h
    · next w hm =>
      split at h
      · cases h
      · next hne =>
        exact ⟨(linesOf w (c - prev)).1, (linesOf w (c - prev)).2,
          ⟨sv, fv, size, font, w, hsv, hfv, h1, h2, h3, h4, hm, hne, rfl⟩, h⟩
    · cases h
  split at h
  · -- size is None → 9
    peel h as fv hfv
    split at h
    · exact fin 9 1 _ hfv (fun _ => rfl) (fun hn => (hn rfl).elim) (fun _ => rfl) (fun i hi => by cases hi) h
    · next i =>
      exact fin 9 i _ hfv (fun _ => rfl) (fun hn => (hn rfl).elim) (fun hn => by cases hn)
        (fun i' hi => by cases hi; rfl) h
    · cases h
  · next hnn =>
    split at h
    · next q hq =>
      peel h as fv hfv
      split at h
      · exact fin q 1 _ hfv (fun hn => (hnn hn).elim) (fun _ => hq) (fun _ => rfl) (fun i hi => by cases hi) h
      · next i =>
        exact fin q i _ hfv (fun hn => (hnn hn).elim) (fun _ => hq) (fun hn => by cases hn)
          (fun i' hi => by cases hi; rfl) h
      · cases h
    · cases h

/-- **every displayed cell is measured in its own column**: the cell at displayed position `j` contributes the lines of
its `str()` at the font / size of attribute column `k + j`, against `cum[j] − cum[j−1]`, and the row's estimate is at least
that -/
theorem dataLines_own_width {measure : Measure} {A : TblAttrsOf MatV} {r : Nat} :
    ∀ (cells : List (Option Str)) (cum : List Rat) (k : Nat) (prev : Rat) (acc res : Nat × Bool),
      dataLines measure A r cells cum k prev acc = .ok res →
      ∀ (j : Nat) (cell : Option Str) (c : Rat), cells[j]? = some cell → cum[j]? = some c →
        ∃ l, CellLines measure A r (k + j) cell (ownWidth cum prev j c) l ∧ l ≤ res.1
  | [], _, _, _, _, _, _, j, cell, c, hc, _ => by simp at hc
  | _ :: _, [], _, _, _, _, _, j, cell, c, _, hw => by simp at hw
  | cell0 :: cells, c0 :: cum, k, prev, acc, res, h, j, cell, c, hc, hw => by
    obtain ⟨l, near, hl, hrec⟩ := dataLines_step h
    cases j with
    | zero =>
      simp only [List.getElem?_cons_zero, Option.some.injEq] at hc hw
      subst hc; subst hw
      refine ⟨l, ?_, ?_⟩
      · simpa [ownWidth] using hl
      · exact Nat.le_trans (Nat.le_max_right _ _) (dataLines_ge _ _ _ _ _ _ hrec)
    | succ j =>
      simp only [List.getElem?_cons_succ] at hc hw
      obtain ⟨l', hl', hle⟩ := dataLines_own_width cells cum (k + 1) c0 _ res hrec j cell c hc hw
      refine ⟨l', ?_, hle⟩
      have hk : k + 1 + j = k + (j + 1) := by omega
      have hwid : ownWidth cum c0 j c = ownWidth (c0 :: cum) prev (j + 1) c := by
        unfold ownWidth
        cases j with
        | zero => simp
        | succ j => simp
      rw [← hk, ← hwid]
      exact hl'

/-- **and nothing else enters**: the row's estimate is its start value or the contribution of one displayed cell -/
theorem dataLines_attained {measure : Measure} {A : TblAttrsOf MatV} {r : Nat} :
    ∀ (cells : List (Option Str)) (cum : List Rat) (k : Nat) (prev : Rat) (acc res : Nat × Bool),
      dataLines measure A r cells cum k prev acc = .ok res →
      res.1 = acc.1 ∨ ∃ (j : Nat) (cell : Option Str) (c : Rat), cells[j]? = some cell ∧ cum[j]? = some c ∧
        CellLines measure A r (k + j) cell (ownWidth cum prev j c) res.1
  | [], _, _, _, acc, res, h => by
    simp only [dataLines] at h
    cases h; exact .inl rfl
  | _ :: _, [], _, _, acc, res, h => by
    simp only [dataLines] at h
    cases h; exact .inl rfl
  | cell0 :: cells, c0 :: cum, k, prev, acc, res, h => by
    obtain ⟨l, near, hl, hrec⟩ := dataLines_step h
    rcases dataLines_attained cells cum (k + 1) c0 _ res hrec with hacc | ⟨j, cell, c, hc, hw, hl'⟩
    · dsimp only at hacc
      rcases Nat.le_total acc.1 l with hle | hle
      · right
        refine ⟨0, cell0, c0, rfl, rfl, ?_⟩
        rw [hacc, Nat.max_eq_right hle]
        simpa [ownWidth] using hl
      · left
        rw [hacc, Nat.max_eq_left hle]
    · right
      refine ⟨j + 1, cell, c, by simpa using hc, by simpa using hw, ?_⟩
      have hk : k + 1 + j = k + (j + 1) := by omega
      have hwid : ownWidth cum c0 j c = ownWidth (c0 :: cum) prev (j + 1) c := by
        unfold ownWidth
        cases j with
        | zero => simp
        | succ j => simp
      rw [← hk, ← hwid]
      exact hl'

end Proofs.EncodeOwnWidth
