import Model.Encode
import Model.GroupBy
import Model.GroupBySpec
import Proofs.GroupBy
import Proofs.EncodeLift
import Proofs.EncodeAttrs
/-!
Helper lemmas for `Props/C13enc.lean`: how the whole-encoder model hands the displayed frame to the grouping service
(`toFrame`), reads the result back (`ofFrame`), and which rows its pages start with.

* `cellRC`                      cell `(i, j)` of a list of rows (`none` = null or outside)
* `names_toFrame`, `wf_toFrame`, `height_toFrame`, `getCol_toFrame`   the frame `toFrame cols rows`
* `cellRC_ofFrame_named`        reading `ofFrame f n` back by column NAME (unique names)
* `finalRows_groupby`           `finalRows` with a non-empty group_by = `restored` of `toFrame`, read back by `ofFrame`
* `pages_start_eq`              the start row of the `n`-th page is the sum of the heights of the pages before it
* `isPageStart_pages_iff`       `isPageStart (pageStarts heights)` = "some page of the encoder starts with this row"
* `map_range'_cellAt`           a page's slice of a column as a map over the page's row indices
* `dropCols_by_name`            column removal keeps every remaining column's values (unique column names)
-/
namespace Proofs.EncodeGroup
open Model.Encode Model.Broadcast Model.Layout Model.GroupBy Proofs.GroupBy Proofs.Encode Proofs.EncodeLift

/-- cell `(i, j)` of a list of rows; `none` for a null and outside the frame -/
def cellRC (rows : List (List (Option Model.Encode.Str))) (i j : Nat) : Option Model.Encode.Str :=
  ((rows[i]?).bind (·[j]?)).join

/-! ## `toFrame` -/

theorem toFrame_getElem? (cols : List Model.Encode.Str) (rows : List (List (Option Model.Encode.Str))) (j : Nat) :
    (toFrame cols rows)[j]? = cols[j]?.map fun n => (n, rows.map fun r => (r[j]?).join) := by
  unfold toFrame
  rw [List.getElem?_map, List.getElem?_zipIdx]
  cases cols[j]? <;> simp

theorem names_toFrame (cols : List Model.Encode.Str) (rows : List (List (Option Model.Encode.Str))) :
    names (toFrame cols rows) = cols := by
  apply List.ext_getElem?
  intro j
  unfold names
  rw [List.getElem?_map, toFrame_getElem?]
  cases cols[j]? <;> rfl

theorem length_toFrame (cols : List Model.Encode.Str) (rows : List (List (Option Model.Encode.Str))) :
    (toFrame cols rows).length = cols.length := by
  unfold toFrame; simp

theorem toFrame_col_length {cols : List Model.Encode.Str} {rows : List (List (Option Model.Encode.Str))}
    {p : Model.GroupBy.Str × Col} (h : p ∈ toFrame cols rows) : p.2.length = rows.length := by
  obtain ⟨j, hj⟩ := List.getElem?_of_mem h
  rw [toFrame_getElem?] at hj
  cases hc : cols[j]? with
  | none => rw [hc] at hj; cases hj
  | some n =>
    rw [hc] at hj
    simp only [Option.map_some, Option.some.injEq] at hj
    rw [← hj]; simp

theorem height_toFrame {cols : List Model.Encode.Str} (rows : List (List (Option Model.Encode.Str))) (h : cols ≠ []) :
    height (toFrame cols rows) = rows.length := by
  cases hf : toFrame cols rows with
  | nil =>
    have := length_toFrame cols rows
    rw [hf] at this
    exact absurd (List.eq_nil_of_length_eq_zero this.symm) h
  | cons p f =>
    obtain ⟨n, c⟩ := p
    show c.length = rows.length
    exact toFrame_col_length (p := (n, c)) (by rw [hf]; exact List.mem_cons_self)

theorem height_toFrame_le (cols : List Model.Encode.Str) (rows : List (List (Option Model.Encode.Str))) :
    height (toFrame cols rows) ≤ rows.length := by
  by_cases h : cols = []
  · subst h; simp [toFrame, height]
  · rw [height_toFrame rows h]; exact Nat.le_refl _

theorem wf_toFrame (cols : List Model.Encode.Str) (rows : List (List (Option Model.Encode.Str))) :
    WF (toFrame cols rows) := by
  intro p hp
  have hne : cols ≠ [] := by
    intro h0
    subst h0
    simp [toFrame] at hp
  rw [height_toFrame rows hne]
  exact toFrame_col_length hp

/-! ## frames with unique column names -/

/-- in a frame with unique column names, the `j`-th column is the column of its name -/
theorem getCol_of_getElem? : ∀ (f : Frame) (j : Nat) (n : Model.GroupBy.Str) (c : Col), (names f).Nodup →
    f[j]? = some (n, c) → getCol f n = c
  | [], j, n, c, _, h => by simp at h
  | (n0, c0) :: f, j, n, c, hnd, h => by
    rw [getCol_cons]
    have hnd' : n0 ∉ names f ∧ (names f).Nodup := by
      simpa [names] using hnd
    cases j with
    | zero =>
      simp only [List.getElem?_cons_zero, Option.some.injEq, Prod.mk.injEq] at h
      rw [if_pos h.1.symm]; exact h.2
    | succ j =>
      simp only [List.getElem?_cons_succ] at h
      have hmem : n ∈ names f := by
        unfold names
        exact List.mem_map.mpr ⟨(n, c), List.mem_of_getElem? h, rfl⟩
      have hne : n ≠ n0 := fun e => hnd'.1 (e ▸ hmem)
      rw [if_neg hne]
      exact getCol_of_getElem? f j n c hnd'.2 h

theorem getElem?_of_names {f : Frame} {j : Nat} {n : Model.GroupBy.Str} (hnd : (names f).Nodup)
    (h : (names f)[j]? = some n) : f[j]? = some (n, getCol f n) := by
  unfold names at h
  rw [List.getElem?_map] at h
  cases hf : f[j]? with
  | none => rw [hf] at h; cases h
  | some p =>
    obtain ⟨n', c⟩ := p
    rw [hf] at h
    simp only [Option.map_some, Option.some.injEq] at h
    subst h
    rw [getCol_of_getElem? f j n' c hnd hf]

/-- the column of name `cols[j]` of `toFrame cols rows` holds the `j`-th value of every row -/
theorem getCol_toFrame {cols : List Model.Encode.Str} (rows : List (List (Option Model.Encode.Str)))
    (hnd : cols.Nodup) {j : Nat} {c : Model.Encode.Str} (hj : cols[j]? = some c) :
    getCol (toFrame cols rows) c = rows.map fun r => (r[j]?).join := by
  apply getCol_of_getElem? _ j
  · rw [names_toFrame]; exact hnd
  · rw [toFrame_getElem?, hj]; rfl

theorem cellAt_map_row (rows : List (List (Option Model.Encode.Str))) (i j : Nat) :
    cellAt (rows.map fun r => (r[j]?).join) i = cellRC rows i j := by
  unfold cellAt cellRC
  rw [List.getElem?_map]
  cases rows[i]? <;> rfl

/-- the cell of column `cols[j]` of `toFrame cols rows` at row `i` is cell `(i, j)` of `rows` -/
theorem cellAt_toFrame {cols : List Model.Encode.Str} (rows : List (List (Option Model.Encode.Str)))
    (hnd : cols.Nodup) {j : Nat} {c : Model.Encode.Str} (hj : cols[j]? = some c) (i : Nat) :
    cellAt (getCol (toFrame cols rows) c) i = cellRC rows i j := by
  rw [getCol_toFrame rows hnd hj, cellAt_map_row]

/-! ## `ofFrame` -/

theorem cellRC_ofFrame (f : Frame) (n i j : Nat) :
    cellRC (ofFrame f n) i j = if i < n then (f[j]?).bind (fun p => cellAt p.2 i) else none := by
  unfold cellRC ofFrame
  rw [List.getElem?_map]
  by_cases hi : i < n
  · rw [List.getElem?_range hi, if_pos hi]
    simp only [Option.map_some, Option.bind_some, List.getElem?_map]
    cases f[j]? <;> rfl
  · rw [if_neg hi, List.getElem?_eq_none (by simpa using Nat.le_of_not_lt hi)]
    rfl

/-- reading a frame with unique names back: cell `(i, j)` is row `i` of the column named `names[j]` -/
theorem cellRC_ofFrame_named {f : Frame} (hnd : (names f).Nodup) {j : Nat} {c : Model.GroupBy.Str}
    (hj : (names f)[j]? = some c) {n i : Nat} (hi : i < n) :
    cellRC (ofFrame f n) i j = cellAt (getCol f c) i := by
  rw [cellRC_ofFrame, if_pos hi, getElem?_of_names hnd hj]
  rfl

theorem ofFrame_length (f : Frame) (n : Nat) : (ofFrame f n).length = n := by
  unfold ofFrame; simp

/-! ## `finalRows` with group_by -/

theorem groupByL_of_some {d : Doc} {gb : List Model.Encode.Str} (h : d.body.groupBy = some gb) :
    d.body.groupByL = gb := by
  unfold Body.groupByL; rw [h]; rfl

/-- with a non-empty group_by the final frame is the restored frame of the grouping service, read back row-wise -/
theorem finalRows_groupby {d : Doc} {p : Prep} {heights : List Nat} {rows : List (List (Option Model.Encode.Str))}
    (hne : d.body.groupByL ≠ []) (h : finalRows d p heights = .ok rows) :
    ∃ s, enhanceGroupBy (toFrame p.dispCols p.dispRows) d.body.groupByL = .ok s ∧
      rows = ofFrame (restorePageContext s (toFrame p.dispCols p.dispRows) d.body.groupByL (pageStarts heights))
        p.dispRows.length := by
  unfold finalRows at h
  simp only at h
  have he : d.body.groupByL.isEmpty = false := by
    cases hg : d.body.groupByL with
    | nil => exact absurd hg hne
    | cons _ _ => rfl
  rw [he] at h
  simp only [Bool.false_eq_true, if_false] at h
  unfold restored at h
  cases hs : enhanceGroupBy (toFrame p.dispCols p.dispRows) d.body.groupByL with
  | error e => rw [hs] at h; cases h
  | ok s =>
    rw [hs] at h
    simp only [Except.ok.injEq] at h
    exact ⟨s, rfl, h.symm⟩

/-- `finalRows` fails with `ValueError` exactly when the grouping service fails, and never with anything else -/
theorem finalRows_error_iff {d : Doc} {p : Prep} {heights : List Nat} (hne : d.body.groupByL ≠ []) (e : String) :
    finalRows d p heights = .error e ↔
      (e = "ValueError" ∧ ∃ e', enhanceGroupBy (toFrame p.dispCols p.dispRows) d.body.groupByL = .error e') := by
  unfold finalRows
  simp only
  have he : d.body.groupByL.isEmpty = false := by
    cases hg : d.body.groupByL with
    | nil => exact absurd hg hne
    | cons _ _ => rfl
  rw [he]
  simp only [Bool.false_eq_true, if_false]
  unfold restored
  cases hs : enhanceGroupBy (toFrame p.dispCols p.dispRows) d.body.groupByL with
  | error e' =>
    constructor
    · intro h; exact ⟨(Except.error.inj h).symm, e', rfl⟩
    · intro h; rw [h.1]
  | ok s =>
    constructor
    · intro h; cases h
    · rintro ⟨_, e', h⟩; cases h

theorem finalRows_no_groupby {d : Doc} {p : Prep} {heights : List Nat} (h0 : d.body.groupByL = []) :
    finalRows d p heights = .ok p.dispRows := by
  unfold finalRows
  simp [h0]

/-! ## the pages of the encoder -/

theorem mkPagesAux_dataStart (ps : List Nat) (total : Nat) : ∀ (us : List Nat) (cum n : Nat) (pg : PageCtx),
    (mkPagesAux ps total us cum)[n]? = some pg →
      pg.dataStart = cum + (((mkPagesAux ps total us cum).map (·.height)).take n).sum
  | [], _, n, pg, h => by simp [mkPagesAux] at h
  | u :: us, cum, n, pg, h => by
    simp only [mkPagesAux] at h ⊢
    cases n with
    | zero =>
      simp only [List.getElem?_cons_zero, Option.some.injEq] at h
      subst h
      simp
    | succ n =>
      simp only [List.getElem?_cons_succ] at h
      have := mkPagesAux_dataStart ps total us _ n pg h
      rw [this]
      simp only [List.map_cons, List.take_succ_cons, List.sum_cons]
      omega

/-- every page of the encoder starts where the pages before it end: its first row is the sum of their heights -/
theorem pages_start_eq (ld : LDoc) (n : Nat) (pg : PageCtx) (h : ld.pages[n]? = some pg) :
    pg.start = ((ld.pages.map (·.height)).take n).sum ∧ pg.dataStart = pg.start := by
  by_cases hne : ld.rows = []
  · rw [Proofs.Layout.pages_of_no_rows ld hne] at h ⊢
    cases n with
    | zero => simp at h; subst h; simp
    | succ n => simp at h
  · obtain ⟨P, _, _, _, hok, _⟩ := Proofs.Layout.pages_spec ld hne
    have hds := (hok pg (List.mem_of_getElem? h)).data_eq
    refine ⟨?_, hds⟩
    rw [← hds]
    have key : ∀ (qs : List PageCtx), qs = ld.pages → qs[n]? = some pg →
        pg.dataStart = ((qs.map (·.height)).take n).sum := by
      intro qs hqs h
      unfold LDoc.pages at hqs
      dsimp only at hqs
      split at hqs
      · rw [hqs] at h ⊢
        cases n with
        | zero => simp at h; subst h; simp
        | succ n => simp at h
      · subst hqs
        have := mkPagesAux_dataStart _ _ _ _ n pg h
        rw [this]; omega
    exact key _ rfl h

theorem mem_pageStartsAux_iff : ∀ (hs : List Nat) (cum : Nat) (nf : Bool) (x : Nat),
    x ∈ pageStartsAux cum nf hs ↔ ∃ p, p < hs.length ∧ (nf = true ∨ 0 < p) ∧ x = cum + (hs.take p).sum
  | [], cum, nf, x => by simp [pageStartsAux]
  | h :: hs, cum, nf, x => by
    simp only [pageStartsAux, List.mem_append]
    rw [mem_pageStartsAux_iff hs (cum + h) true x]
    constructor
    · rintro (h1 | ⟨p, hp, _, hx⟩)
      · cases nf with
        | false => simp at h1
        | true =>
          simp only [if_true, List.mem_singleton] at h1
          exact ⟨0, by simp, Or.inl rfl, by simp [h1]⟩
      · refine ⟨p + 1, by simpa using hp, Or.inr (Nat.succ_pos _), ?_⟩
        simp only [List.take_succ_cons, List.sum_cons]
        omega
    · rintro ⟨p, hp, hor, hx⟩
      cases p with
      | zero =>
        rcases hor with h1 | h1
        · left; simp [h1, hx]
        · omega
      | succ p =>
        right
        refine ⟨p, by simpa using hp, Or.inl rfl, ?_⟩
        simp only [List.take_succ_cons, List.sum_cons] at hx
        omega

/-- the page-start rows `_apply_data_post_processing` restores are exactly the first rows of the encoder's pages -/
theorem isPageStart_pages_iff (ld : LDoc) (i : Nat) :
    isPageStart (pageStarts (ld.pages.map (·.height))) i = true ↔
      ∃ (n : Nat) (pg : PageCtx), ld.pages[n]? = some pg ∧ pg.start = i := by
  unfold isPageStart pageStarts
  simp only [Bool.or_eq_true, beq_iff_eq, List.contains_iff_mem]
  rw [mem_pageStartsAux_iff]
  have hpos := pages_pos ld
  constructor
  · rintro (h0 | ⟨p, hp, hor, hx⟩)
    · subst h0
      refine ⟨0, ld.pages[0], List.getElem?_eq_getElem hpos, ?_⟩
      rw [(pages_start_eq ld 0 _ (List.getElem?_eq_getElem hpos)).1]
      simp
    · rw [List.length_map] at hp
      refine ⟨p, ld.pages[p], List.getElem?_eq_getElem hp, ?_⟩
      rw [(pages_start_eq ld p _ (List.getElem?_eq_getElem hp)).1, hx]
      omega
  · rintro ⟨n, pg, hn, hs⟩
    have h1 := (pages_start_eq ld n pg hn).1
    cases n with
    | zero => left; rw [← hs, h1]; simp
    | succ n =>
      right
      refine ⟨n + 1, ?_, Or.inr (Nat.succ_pos _), ?_⟩
      · rw [List.length_map]; exact (List.getElem?_eq_some_iff.mp hn).1
      · rw [← hs, h1]; omega

/-- a page's slice of a column, as a map over the page's row indices -/
theorem map_range'_cellAt (c : Col) (a h : Nat) (hb : a + h ≤ c.length) :
    (c.drop a).take h = (List.range' a h).map (cellAt c) := by
  apply List.ext_getElem?
  intro k
  rw [List.getElem?_take, List.getElem?_map]
  by_cases hk : k < h
  · rw [if_pos hk, List.getElem?_drop, List.getElem?_range' hk, cellAt_of_lt c (a + k) (by omega)]
    simp
  · rw [if_neg hk, List.getElem?_eq_none (by simpa using Nat.le_of_not_lt hk)]
    rfl

/-! ## column removal keeps the remaining columns' values -/

theorem filter_by_name : ∀ (cols : List Model.Encode.Str) (row : List (Option Model.Encode.Str)) (q : Model.Encode.Str → Bool)
    (j : Nat) (c : Model.Encode.Str), cols.Nodup → (cols.filter q)[j]? = some c →
      (((cols.zip row).filter fun x => q x.1).map (·.2))[j]? = row[cols.idxOf c]?
  | [], row, q, j, c, _, h => by simp at h
  | c0 :: cs, [], q, j, c, _, _ => by simp
  | c0 :: cs, v :: vs, q, j, c, hnd, h => by
    have hnd' : c0 ∉ cs ∧ cs.Nodup := by simpa using hnd
    simp only [List.zip_cons_cons, List.filter_cons] at h ⊢
    have tail : ∀ j' : Nat, (cs.filter q)[j']? = some c →
        (((cs.zip vs).filter fun x => q x.1).map (·.2))[j']? = (v :: vs)[(c0 :: cs).idxOf c]? := by
      intro j' hj'
      have hmem : c ∈ cs := (List.mem_filter.mp (List.mem_of_getElem? hj')).1
      have hne : c0 ≠ c := fun e => hnd'.1 (e ▸ hmem)
      have hb : (c0 == c) = false := by simpa using hne
      rw [List.idxOf_cons, hb]
      simp only [cond_false, List.getElem?_cons_succ]
      exact filter_by_name cs vs q j' c hnd'.2 hj'
    by_cases hq : q c0 = true
    · rw [if_pos hq] at h
      rw [if_pos hq]
      cases j with
      | zero =>
        simp only [List.getElem?_cons_zero, Option.some.injEq] at h
        subst h
        simp
      | succ j =>
        simp only [List.getElem?_cons_succ] at h
        simp only [List.map_cons, List.getElem?_cons_succ]
        exact tail j h
    · rw [if_neg hq] at h
      rw [if_neg hq]
      exact tail j h

/-- (unique column names) the `j`-th displayed column, named `c`, holds in every row the value of column `c` -/
theorem dropCols_by_name {cols : List Model.Encode.Str} (hnd : cols.Nodup) (names : List Model.Encode.Str)
    (row : List (Option Model.Encode.Str)) (hlen : row.length ≤ cols.length) {j : Nat} {c : Model.Encode.Str}
    (hj : (dropCols cols (names.map fun n => cols.idxOf n))[j]? = some c) :
    (dropCols row (names.map fun n => cols.idxOf n))[j]? = row[cols.idxOf c]? := by
  rw [dropCols_cols_eq_filter hnd] at hj
  rw [dropCols_eq_filter hnd names row hlen]
  exact filter_by_name cols row _ j c hnd hj

/-! ## the plan of an accepted document with group_by -/

/-- the frame the encoder hands to the grouping service: the displayed columns of the processed frame -/
def gframe (pl : Plan) : Frame := toFrame pl.p.dispCols pl.p.dispRows

/-- the heights of the encoder's pages, in page order -/
def pageHeights (pl : Plan) : List Nat := pl.ld.pages.map (·.height)

/-- the frame after suppression and page-context restoration, for the suppressed frame `s` -/
def restoredFrame (pl : Plan) (gb : List Model.Encode.Str) (s : Frame) : Frame :=
  restorePageContext s (gframe pl) gb (pageStarts (pageHeights pl))

theorem dispCols_nodup {measure : Measure} {d : Doc} {pl : Plan} (hp : plan measure d = .ok pl) (hnd : d.cols.Nodup) :
    pl.p.dispCols.Nodup := by
  obtain ⟨hprep, _, _, _⟩ := plan_ok hp
  obtain ⟨removed, hrem, _, _, _, hcols, _⟩ := prepare_parts hprep
  obtain ⟨h1, _⟩ := removedIdx_ok hrem
  rw [hcols, h1, dropCols_cols_eq_filter hnd]
  exact hnd.sublist List.filter_sublist

theorem names_restored_eq {df : Frame} {gb : List Model.GroupBy.Str} {s : Frame} (starts : List Nat)
    (h : enhanceGroupBy df gb = .ok s) : names (restorePageContext s df gb starts) = names df := by
  rcases enhance_ok df gb s h with ⟨h0, hs⟩ | ⟨_, _, hsub, _, hs⟩
  · subst hs
    rcases h0 with h0 | h0
    · subst h0; simp [restorePageContext]
    · unfold restorePageContext
      split
      · rfl
      · have : ∀ (ss : List Nat) (r : Frame), ss.foldl (restoreOne s gb) r = r := by
          intro ss
          induction ss with
          | nil => intro r; rfl
          | cons x ss ih => intro r; simp [restoreOne, h0, ih]
        rw [this]
  · subst hs
    have hn := names_suppressHier df gb hsub
    rw [names_restorePageContext _ _ _ _ (fun g hg => by rw [hn]; exact hsub g hg), hn]

/-- everything the lifted theorems need about an accepted document with a non-empty group_by -/
theorem group_setup {measure : Measure} {d : Doc} {pl : Plan} {gb : List Model.Encode.Str}
    (hp : plan measure d = .ok pl) (hgb : d.body.groupBy = some gb) (hne : gb ≠ []) :
    ∃ s, enhanceGroupBy (gframe pl) gb = .ok s ∧
      pl.rows = ofFrame (restoredFrame pl gb s) d.rows.length ∧
      names (restoredFrame pl gb s) = pl.p.dispCols ∧ pl.p.dispRows.length = d.rows.length := by
  obtain ⟨hprep, _, _, hfin⟩ := plan_ok hp
  have hL := groupByL_of_some hgb
  obtain ⟨s, hs, hrows⟩ := finalRows_groupby (by rw [hL]; exact hne) hfin
  rw [hL] at hs hrows
  have hlen := prepare_dispRows_length hprep
  refine ⟨s, hs, by rw [hrows, hlen]; rfl, ?_, hlen⟩
  unfold restoredFrame gframe
  rw [names_restored_eq _ hs]
  exact names_toFrame _ _

theorem height_gframe {measure : Measure} {d : Doc} {pl : Plan} (hp : plan measure d = .ok pl) {j : Nat}
    {c : Model.Encode.Str} (hj : pl.p.dispCols[j]? = some c) : height (gframe pl) = d.rows.length := by
  obtain ⟨hprep, _, _, _⟩ := plan_ok hp
  unfold gframe
  rw [height_toFrame _ (by intro h0; rw [h0] at hj; simp at hj), prepare_dispRows_length hprep]

/-- a cell of the final frame is the cell of the restored frame's column of that name -/
theorem final_cell {pl : Plan} {gb : List Model.Encode.Str} {s : Frame} {n : Nat}
    (hrows : pl.rows = ofFrame (restoredFrame pl gb s) n) (hnames : names (restoredFrame pl gb s) = pl.p.dispCols)
    (hnd : pl.p.dispCols.Nodup) {j : Nat} {c : Model.Encode.Str} (hj : pl.p.dispCols[j]? = some c) {i : Nat}
    (hi : i < n) : cellRC pl.rows i j = cellAt (getCol (restoredFrame pl gb s) c) i := by
  rw [hrows]
  exact cellRC_ofFrame_named (by rw [hnames]; exact hnd) (by rw [hnames]; exact hj) hi

/-- a cell of the frame handed to the service is the cell of the processed frame -/
theorem frame_cell {pl : Plan} (hnd : pl.p.dispCols.Nodup) {j : Nat} {c : Model.Encode.Str}
    (hj : pl.p.dispCols[j]? = some c) (i : Nat) :
    cellAt (getCol (gframe pl) c) i = cellRC pl.p.dispRows i j :=
  cellAt_toFrame _ hnd hj i

theorem names_gframe (pl : Plan) : names (gframe pl) = pl.p.dispCols := names_toFrame _ _

theorem wf_gframe (pl : Plan) : WF (gframe pl) := wf_toFrame _ _

theorem length_getCol_gframe {measure : Measure} {d : Doc} {pl : Plan} (hp : plan measure d = .ok pl) {j : Nat}
    {c : Model.Encode.Str} (hj : pl.p.dispCols[j]? = some c) : (getCol (gframe pl) c).length = d.rows.length := by
  rw [length_getCol _ (wf_gframe pl) _ (by rw [names_gframe]; exact List.mem_of_getElem? hj), height_gframe hp hj]

/-- every displayed column of the restored frame is as long as the frame is high -/
theorem length_getCol_restored {measure : Measure} {d : Doc} {pl : Plan} (hp : plan measure d = .ok pl)
    {gb : List Model.Encode.Str} {s : Frame} (hs : enhanceGroupBy (gframe pl) gb = .ok s) (hgnd : gb.Nodup) {j : Nat}
    {c : Model.Encode.Str} (hj : pl.p.dispCols[j]? = some c) :
    (getCol (restoredFrame pl gb s) c).length = d.rows.length := by
  have h0 := length_getCol_gframe hp hj
  unfold restoredFrame
  rw [length_getCol_restore]
  rcases enhance_ok _ _ _ hs with ⟨_, rfl⟩ | ⟨_, _, hsub', _, rfl⟩
  · exact h0
  · by_cases hcg : c ∈ gb
    · obtain ⟨l, hl, rfl⟩ := List.getElem_of_mem hcg
      rw [getCol_suppressHier_level _ gb hgnd l hl, length_levelValues _ (wf_gframe pl) gb hsub' l hl,
        height_gframe hp hj]
    · rw [getCol_suppressHier_other _ gb c hcg]
      exact h0

end Proofs.EncodeGroup
