import Model.Interleave
/-!
Lemmas behind C15: the frame lemma, the simulation between a thread inside an arbitrary
interleaving and the same thread alone, monotonicity of outputs.
-/
namespace Proofs.Interleave
open Model.Interleave

/-! ## basic facts about `exec` and `step` -/

theorem exec_prog (m : CtxMode) (e : Ev) (t : Thread) (s : Shared) :
    (exec m e t s).1.prog = t.prog := by
  cases e <;> cases m <;> rfl

theorem exec_out_append (m : CtxMode) (e : Ev) (t : Thread) (s : Shared) :
    ∃ o, (exec m e t s).1.out = t.out ++ o := by
  cases e <;> cases m <;> simp only [exec] <;> first
    | exact ⟨[], (List.append_nil _).symm⟩
    | exact ⟨_, rfl⟩

/-- **Frame lemma.**  A step of thread `j` leaves the local state (rest of the program, own
colour cell, recorded outputs) of every other thread `i` untouched — in both modes. -/
theorem step_frame (m : CtxMode) (i j : Nat) (σ : State) (h : i ≠ j) :
    (step m j σ).threads[i]? = σ.threads[i]? := by
  unfold step
  split
  · rfl
  · split
    · rfl
    · simp [List.getElem?_set_ne (Ne.symm h)]

theorem step_length (m : CtxMode) (j : Nat) (σ : State) :
    (step m j σ).threads.length = σ.threads.length := by
  unfold step
  split
  · rfl
  · split
    · rfl
    · simp

theorem run_length (m : CtxMode) (sched : List Nat) (σ : State) :
    (run m sched σ).threads.length = σ.threads.length := by
  induction sched generalizing σ with
  | nil => rfl
  | cons j js ih => simp [run, ih, step_length]

/-- a step of the thread itself, spelled out -/
theorem step_self (m : CtxMode) (i : Nat) (σ : State) (t : Thread) (e : Ev) (rest : List Ev)
    (h : σ.threads[i]? = some t) (hp : t.prog = e :: rest) :
    (step m i σ).threads[i]? = some (exec m e { t with prog := rest } σ.sh).1 ∧
    (step m i σ).sh = (exec m e { t with prog := rest } σ.sh).2 := by
  have hlt : i < σ.threads.length := by
    rcases Nat.lt_or_ge i σ.threads.length with h' | h'
    · exact h'
    · simp [List.getElem?_eq_none h'] at h
  unfold step
  simp only [h, hp]
  simp [hlt]

theorem step_done (m : CtxMode) (i : Nat) (σ : State) (t : Thread)
    (h : σ.threads[i]? = some t) (hp : t.prog = []) : step m i σ = σ := by
  unfold step
  simp [h, hp]

theorem step_absent (m : CtxMode) (i : Nat) (σ : State) (h : σ.threads[i]? = none) :
    step m i σ = σ := by
  unfold step
  simp [h]

/-! ## `Local` mode: the thread's next state depends on the shared state only through the
registry entries it reads -/

theorem exec_local_thread (e : Ev) (t : Thread) (s s' : Shared)
    (h : ∀ n, e = .getStrategy n → regGet s.reg n = regGet s'.reg n) :
    (exec .Local e t s).1 = (exec .Local e t s').1 := by
  cases e <;> simp_all [exec]

theorem regGet_regSet (r : Registry) (n k : Name) (c : Cls) :
    regGet (regSet r n c) k = if n = k then some c else regGet r k := by
  simp [regSet, regGet]

theorem exec_reg (m : CtxMode) (e : Ev) (t : Thread) (s : Shared) (k : Name) :
    regGet (exec m e t s).2.reg k =
      match e with
      | .register n c => if n = k then some c else regGet s.reg k
      | _ => regGet s.reg k := by
  cases e <;> cases m <;> simp [exec, regGet_regSet]

/-! ## canonical registrations -/

theorem canonicalB_tail {canon : Name → Cls} {e : Ev} {es : List Ev}
    (h : canonicalB canon (e :: es) = true) : canonicalB canon es = true := by
  simp [canonicalB] at h ⊢
  exact h.2

theorem canonicalB_head_register {canon : Name → Cls} {n : Name} {c : Cls} {es : List Ev}
    (h : canonicalB canon (.register n c :: es) = true) : c = canon n := by
  simp [canonicalB] at h
  exact h.1

/-! ## the simulation -/

/-- thread `i` of the pool `σ` and the only thread of `τ` are in the same local state; every
registry entry the rest of their program will read without writing it first is already
canonical in both registries; all pending registrations of the pool are canonical -/
structure Sim (canon : Name → Cls) (i : Nat) (σ τ : State) : Prop where
  thr : ∃ t, σ.threads[i]? = some t ∧ τ.threads = [t] ∧
    ∀ n ∈ freeGets t.prog, regGet σ.sh.reg n = some (canon n) ∧ regGet τ.sh.reg n = some (canon n)
  can : ∀ t' ∈ σ.threads, canonicalB canon t'.prog = true

theorem sim_other (canon : Name → Cls) (i j : Nat) (σ τ : State) (hij : i ≠ j)
    (h : Sim canon i σ τ) : Sim canon i (step .Local j σ) τ := by
  obtain ⟨⟨t, hi, hτ, hfree⟩, hcan⟩ := h
  cases hj : σ.threads[j]? with
  | none => rw [step_absent _ _ _ hj]; exact ⟨⟨t, hi, hτ, hfree⟩, hcan⟩
  | some tj =>
    cases hp : tj.prog with
    | nil => rw [step_done _ _ _ _ hj hp]; exact ⟨⟨t, hi, hτ, hfree⟩, hcan⟩
    | cons e rest =>
      have hmem : tj ∈ σ.threads := List.mem_of_getElem? hj
      have hcj : canonicalB canon (e :: rest) = true := hp ▸ hcan tj hmem
      obtain ⟨hthr, hsh⟩ := step_self .Local j σ tj e rest hj hp
      refine ⟨⟨t, ?_, hτ, ?_⟩, ?_⟩
      · rw [step_frame _ _ _ _ hij]; exact hi
      · intro n hn
        refine ⟨?_, (hfree n hn).2⟩
        rw [hsh, exec_reg]
        cases e with
        | register n' c' =>
          have hc : c' = canon n' := canonicalB_head_register hcj
          by_cases hnn : n' = n
          · simp [hnn, hc]
          · simp [hnn, (hfree n hn).1]
        | _ => exact (hfree n hn).1
      · intro t' ht'
        have hset : (step .Local j σ).threads =
            σ.threads.set j (exec .Local e { tj with prog := rest } σ.sh).1 := by
          unfold step; simp [hj, hp]
        rw [hset] at ht'
        rcases List.mem_or_eq_of_mem_set ht' with h1 | h1
        · exact hcan t' h1
        · rw [h1, exec_prog]; exact canonicalB_tail hcj

theorem mem_freeGets_of_tail {e : Ev} {rest : List Ev} {n : Name}
    (hn : n ∈ freeGets rest) (hne : ∀ c, e ≠ .register n c) : n ∈ freeGets (e :: rest) := by
  cases e with
  | register n' c' =>
    have : n' ≠ n := fun h => hne c' (by rw [h])
    simp [freeGets, hn, Ne.symm this]
  | getStrategy n' => simp [freeGets, hn]
  | _ => simpa [freeGets] using hn

theorem sim_self (canon : Name → Cls) (i : Nat) (σ τ : State)
    (h : Sim canon i σ τ) : Sim canon i (step .Local i σ) (step .Local 0 τ) := by
  obtain ⟨⟨t, hi, hτ, hfree⟩, hcan⟩ := h
  have hτ0 : τ.threads[0]? = some t := by simp [hτ]
  cases hp : t.prog with
  | nil =>
    rw [step_done _ _ _ _ hi hp, step_done _ _ _ _ hτ0 hp]
    exact ⟨⟨t, hi, hτ, hfree⟩, hcan⟩
  | cons e rest =>
    have hmem : t ∈ σ.threads := List.mem_of_getElem? hi
    have hci : canonicalB canon (e :: rest) = true := hp ▸ hcan t hmem
    obtain ⟨hσt, hσs⟩ := step_self .Local i σ t e rest hi hp
    obtain ⟨hτt, hτs⟩ := step_self .Local 0 τ t e rest hτ0 hp
    have hτlist : (step .Local 0 τ).threads = [(exec .Local e { t with prog := rest } τ.sh).1] := by
      unfold step; simp [hτ, hp]
    -- the thread reads the same thing from both registries
    have hsame : (exec .Local e { t with prog := rest } σ.sh).1 =
        (exec .Local e { t with prog := rest } τ.sh).1 := by
      apply exec_local_thread
      intro n hn
      have : n ∈ freeGets t.prog := by rw [hp, hn]; simp [freeGets]
      rw [(hfree n this).1, (hfree n this).2]
    refine ⟨⟨_, hσt, by rw [hτlist, hsame], ?_⟩, ?_⟩
    · intro n hn
      rw [exec_prog] at hn
      simp only at hn
      rw [hσs, hτs, exec_reg, exec_reg]
      cases e with
      | register n' c' =>
        have hc : c' = canon n' := canonicalB_head_register hci
        by_cases hnn : n' = n
        · simp [hnn, hc]
        · have : n ∈ freeGets t.prog := by
            rw [hp]; exact mem_freeGets_of_tail hn (fun c h => hnn (by cases h; rfl))
          simpa [hnn] using hfree n this
      | getStrategy n' =>
        have : n ∈ freeGets t.prog := by rw [hp]; exact mem_freeGets_of_tail hn (by simp)
        exact hfree n this
      | setCtx p =>
        have : n ∈ freeGets t.prog := by rw [hp]; exact mem_freeGets_of_tail hn (by simp)
        exact hfree n this
      | lookup c =>
        have : n ∈ freeGets t.prog := by rw [hp]; exact mem_freeGets_of_tail hn (by simp)
        exact hfree n this
      | clearCtx =>
        have : n ∈ freeGets t.prog := by rw [hp]; exact mem_freeGets_of_tail hn (by simp)
        exact hfree n this
      | emit v =>
        have : n ∈ freeGets t.prog := by rw [hp]; exact mem_freeGets_of_tail hn (by simp)
        exact hfree n this
      | fetch p c =>
        have : n ∈ freeGets t.prog := by rw [hp]; exact mem_freeGets_of_tail hn (by simp)
        exact hfree n this
    · intro t' ht'
      have hset : (step .Local i σ).threads =
          σ.threads.set i (exec .Local e { t with prog := rest } σ.sh).1 := by
        unfold step; simp [hi, hp]
      rw [hset] at ht'
      rcases List.mem_or_eq_of_mem_set ht' with h1 | h1
      · exact hcan t' h1
      · rw [h1, exec_prog]; exact canonicalB_tail hci

/-- the simulation survives any schedule: the pool runs `sched`, the lone thread runs as many
steps as `sched` gives to thread `i` -/
theorem sim_run (canon : Name → Cls) (i : Nat) (sched : List Nat) (σ τ : State)
    (h : Sim canon i σ τ) :
    Sim canon i (run .Local sched σ) (run .Local (List.replicate (sched.count i) 0) τ) := by
  induction sched generalizing σ τ with
  | nil => simpa [run] using h
  | cons j js ih =>
    by_cases hji : j = i
    · subst hji
      simp only [List.count_cons_self, List.replicate_succ, run]
      exact ih _ _ (sim_self canon j σ τ h)
    · have : (j :: js).count i = js.count i := by simp [hji]
      rw [this]
      simp only [run]
      exact ih _ _ (sim_other canon i j σ τ (Ne.symm hji) h)

theorem sim_init (canon : Name → Cls) (r₀ r₀' : Registry) (progs : List (List Ev)) (i : Nat)
    (p : List Ev) (hp : progs[i]? = some p)
    (hcan : ∀ q ∈ progs, canonicalB canon q = true) (hfree : freeGets p = []) :
    Sim canon i (init r₀ progs) (init r₀' [p]) := by
  refine ⟨⟨{ prog := p, ctx := none, out := [] }, ?_, rfl, ?_⟩, ?_⟩
  · simp [init, hp]
  · intro n hn; simp [hfree] at hn
  · intro t' ht'
    simp only [init, List.mem_map] at ht'
    obtain ⟨q, hq, rfl⟩ := ht'
    exact hcan q hq

/-! ## outputs only grow; a finished thread stays as it is -/

theorem isPrefixB_iff (a b : List Out) : isPrefixB a b = true ↔ a <+: b := by
  induction a generalizing b with
  | nil => simp [isPrefixB]
  | cons x xs ih =>
    cases b with
    | nil => simp [isPrefixB]
    | cons y ys => simp [isPrefixB, ih, List.cons_prefix_cons]

theorem outOf_step_prefix (m : CtxMode) (j i : Nat) (σ : State) :
    outOf σ i <+: outOf (step m j σ) i := by
  by_cases hij : i = j
  · subst hij
    cases hi : σ.threads[i]? with
    | none => rw [step_absent _ _ _ hi]; exact List.prefix_refl _
    | some t =>
      cases hp : t.prog with
      | nil => rw [step_done _ _ _ _ hi hp]; exact List.prefix_refl _
      | cons e rest =>
        obtain ⟨hthr, _⟩ := step_self m i σ t e rest hi hp
        obtain ⟨o, ho⟩ := exec_out_append m e { t with prog := rest } σ.sh
        simp only [outOf, hthr, hi, ho]
        exact List.prefix_append _ _
  · simp only [outOf, step_frame m i j σ hij]
    exact List.prefix_refl _

theorem outOf_run_prefix (m : CtxMode) (sched : List Nat) (i : Nat) (σ : State) :
    outOf σ i <+: outOf (run m sched σ) i := by
  induction sched generalizing σ with
  | nil => exact List.prefix_refl _
  | cons j js ih => exact List.IsPrefix.trans (outOf_step_prefix m j i σ) (ih _)

theorem run_append (m : CtxMode) (a b : List Nat) (σ : State) :
    run m (a ++ b) σ = run m b (run m a σ) := by
  induction a generalizing σ with
  | nil => rfl
  | cons j js ih => simp [run, ih]

/-- length of the remaining program of thread 0 -/
def remaining (σ : State) : Nat :=
  match σ.threads[0]? with
  | some t => t.prog.length
  | none => 0

theorem remaining_step (m : CtxMode) (σ : State) :
    remaining (step m 0 σ) = remaining σ - 1 := by
  cases h0 : σ.threads[0]? with
  | none => rw [step_absent _ _ _ h0]; simp [remaining, h0]
  | some t =>
    cases hp : t.prog with
    | nil => rw [step_done _ _ _ _ h0 hp]; simp [remaining, h0, hp]
    | cons e rest =>
      obtain ⟨hthr, _⟩ := step_self m 0 σ t e rest h0 hp
      simp [remaining, hthr, h0, hp, exec_prog]

theorem step_of_remaining_zero (m : CtxMode) (σ : State) (h : remaining σ = 0) :
    step m 0 σ = σ := by
  cases h0 : σ.threads[0]? with
  | none => exact step_absent _ _ _ h0
  | some t =>
    have : t.prog = [] := by simpa [remaining, h0] using h
    exact step_done _ _ _ _ h0 this

theorem run_replicate_done (m : CtxMode) (k : Nat) (σ : State) (h : remaining σ = 0) :
    run m (List.replicate k 0) σ = σ := by
  induction k with
  | zero => rfl
  | succ k ih => simp [List.replicate_succ, run, step_of_remaining_zero m σ h, ih]

theorem remaining_run_replicate (m : CtxMode) (k : Nat) (σ : State) :
    remaining (run m (List.replicate k 0) σ) = remaining σ - k := by
  induction k generalizing σ with
  | zero => simp [run]
  | succ k ih =>
    simp only [List.replicate_succ, run]
    rw [ih, remaining_step]; omega

/-- running a lone thread beyond the end of its program changes nothing -/
theorem soloState_saturates (m : CtxMode) (r₀ : Registry) (p : List Ev) (k : Nat)
    (hk : p.length ≤ k) : soloState m r₀ p k = soloState m r₀ p p.length := by
  obtain ⟨d, rfl⟩ := Nat.exists_eq_add_of_le hk
  unfold soloState
  rw [← List.replicate_append_replicate, run_append]
  apply run_replicate_done
  rw [remaining_run_replicate]
  simp [remaining, init]

/-- what a lone thread has produced after `k` steps is an initial part of its complete output -/
theorem soloState_out_prefix (m : CtxMode) (r₀ : Registry) (p : List Ev) (k : Nat) :
    outOf (soloState m r₀ p k) 0 <+: solo m r₀ p := by
  unfold solo
  rcases Nat.le_total k p.length with h | h
  · obtain ⟨d, hd⟩ := Nat.exists_eq_add_of_le h
    have : soloState m r₀ p p.length = run m (List.replicate d 0) (soloState m r₀ p k) := by
      unfold soloState
      rw [hd, ← List.replicate_append_replicate, run_append]
    rw [this]
    exact outOf_run_prefix m _ 0 _
  · rw [soloState_saturates m r₀ p k h]
    exact List.prefix_refl _

end Proofs.Interleave

/-! ## sequential execution (no preemption) — used to show that the old, process-global colour
cell is invisible to single-threaded use -/
namespace Proofs.Interleave
open Model.Interleave

theorem set_self {α} (l : List α) (i : Nat) (a : α) (h : l[i]? = some a) : l.set i a = l := by
  induction l generalizing i with
  | nil => rfl
  | cons x xs ih =>
    cases i with
    | zero => simp at h; simp [h]
    | succ i => simp at h; simp [ih i h]

/-- a block of a schedule that gives thread `i` exactly the steps of its remaining program -/
theorem run_block (m : CtxMode) (i : Nat) (es : List Ev) (σ : State) (t : Thread)
    (h : σ.threads[i]? = some t) (hp : t.prog = es) :
    run m (List.replicate es.length i) σ =
      { threads := σ.threads.set i (runEvents m es t σ.sh).1, sh := (runEvents m es t σ.sh).2 } := by
  induction es generalizing σ t with
  | nil =>
    simp only [List.length_nil, List.replicate_zero, run, runEvents]
    rw [set_self _ _ _ h]
  | cons e rest ih =>
    have hlt : i < σ.threads.length := by
      rcases Nat.lt_or_ge i σ.threads.length with h' | h'
      · exact h'
      · simp [List.getElem?_eq_none h'] at h
    simp only [List.length_cons, List.replicate_succ, run, runEvents]
    obtain ⟨hthr, hsh⟩ := step_self m i σ t e rest h hp
    have hthreads : (step m i σ).threads = σ.threads.set i (exec m e { t with prog := rest } σ.sh).1 := by
      unfold step; simp [h, hp]
    rw [ih (step m i σ) (exec m e { t with prog := rest } σ.sh).1 hthr (by rw [exec_prog])]
    rw [hsh, hthreads, List.set_set]

theorem run_frame (m : CtxMode) (i : Nat) (sched : List Nat) (σ : State) (h : i ∉ sched) :
    (run m sched σ).threads[i]? = σ.threads[i]? := by
  induction sched generalizing σ with
  | nil => rfl
  | cons j js ih =>
    simp only [List.mem_cons, not_or] at h
    simp only [run]
    rw [ih _ h.2, step_frame m i j σ h.1]

theorem runEvents_global_cell (es : List Ev) (t : Thread) (s : Shared) :
    (runEvents .Global es t s).2.cell = cellAfter s.cell es := by
  induction es generalizing t s with
  | nil => rfl
  | cons e rest ih =>
    cases e <;> simp [runEvents, exec, cellAfter, ih]

/-- in `Global` mode the thread that results from running a whole program depends on the
shared state only through the cell it finds and the registry entries it reads before writing -/
theorem runEvents_global_thread (es : List Ev) (t : Thread) (s s' : Shared)
    (hc : s.cell = s'.cell) (hr : ∀ n ∈ freeGets es, regGet s.reg n = regGet s'.reg n) :
    (runEvents .Global es t s).1 = (runEvents .Global es t s').1 := by
  induction es generalizing t s s' with
  | nil => rfl
  | cons e rest ih =>
    cases e with
    | register n c =>
      simp only [runEvents, exec]
      apply ih
      · exact hc
      · intro n' hn'
        simp only [regGet_regSet]
        by_cases hnn : n = n'
        · simp [hnn]
        · simp only [hnn, if_false]
          exact hr n' (by simp [freeGets, hn', Ne.symm hnn])
    | getStrategy n =>
      simp only [runEvents, exec]
      rw [hr n (by simp [freeGets])]
      apply ih _ _ _ hc
      intro n' hn'; exact hr n' (by simp [freeGets, hn'])
    | setCtx p =>
      simp only [runEvents, exec]
      apply ih
      · rfl
      · intro n' hn'; exact hr n' (by simpa [freeGets] using hn')
    | lookup c =>
      simp only [runEvents, exec]
      rw [hc]
      apply ih _ _ _ hc
      intro n' hn'; exact hr n' (by simpa [freeGets] using hn')
    | clearCtx =>
      simp only [runEvents, exec]
      apply ih
      · rfl
      · intro n' hn'; exact hr n' (by simpa [freeGets] using hn')
    | emit v =>
      simp only [runEvents, exec]
      apply ih _ _ _ hc
      intro n' hn'; exact hr n' (by simpa [freeGets] using hn')
    | fetch p c =>
      simp only [runEvents, exec]
      rw [hc]
      apply ih
      · rfl
      · intro n' hn'; exact hr n' (by simpa [freeGets] using hn')

theorem seqScheduleFrom_ge (k : Nat) (progs : List (List Ev)) :
    ∀ x ∈ seqScheduleFrom k progs, k ≤ x := by
  induction progs generalizing k with
  | nil => intro x hx; simp [seqScheduleFrom] at hx
  | cons p ps ih =>
    intro x hx
    simp only [seqScheduleFrom, List.mem_append, List.mem_replicate] at hx
    rcases hx with ⟨_, rfl⟩ | hx
    · exact Nat.le_refl _
    · exact Nat.le_of_succ_le (ih (k + 1) x hx)

def fresh (p : List Ev) : Thread := { prog := p, ctx := none, out := [] }

/-- solo output through `runEvents` -/
theorem solo_eq_runEvents (m : CtxMode) (r₀ : Registry) (p : List Ev) :
    solo m r₀ p = (runEvents m p (fresh p) { reg := r₀, cell := none }).1.out := by
  unfold solo soloState
  rw [run_block m 0 p (init r₀ [p]) (fresh p) (by simp [init, fresh]) rfl]
  simp [outOf, init]

/-- sequential execution in `Global` mode, generalised over the position of the block -/
theorem seq_global_aux (r₀' : Registry) (progs : List (List Ev)) :
    ∀ (k : Nat) (σ : State),
      (∀ j q, progs[j]? = some q → σ.threads[k + j]? = some (fresh q)) →
      σ.sh.cell = none →
      (∀ q ∈ progs, freeGets q = []) → (∀ q ∈ progs, cellAfter none q = none) →
      ∀ i p, progs[i]? = some p →
        outOf (run .Global (seqScheduleFrom k progs) σ) (k + i) = solo .Global r₀' p := by
  induction progs with
  | nil => intro k σ _ _ _ _ i p hp; simp at hp
  | cons p0 ps ih =>
    intro k σ hthr hcell hfree hclosed i p hp
    have hk : σ.threads[k]? = some (fresh p0) := by simpa using hthr 0 p0 rfl
    simp only [seqScheduleFrom, run_append]
    rw [run_block .Global k p0 σ (fresh p0) hk rfl]
    cases i with
    | zero =>
      simp only [List.getElem?_cons_zero, Option.some.injEq] at hp
      subst hp
      have hnot : k ∉ seqScheduleFrom (k + 1) ps := by
        intro hmem
        have := seqScheduleFrom_ge (k + 1) ps k hmem
        omega
      have hlt : k < σ.threads.length := by
        rcases Nat.lt_or_ge k σ.threads.length with h' | h'
        · exact h'
        · simp [List.getElem?_eq_none h'] at hk
      simp only [outOf, Nat.add_zero]
      rw [run_frame .Global k _ _ hnot]
      simp only [List.getElem?_set_self hlt]
      rw [solo_eq_runEvents]
      congr 1
      apply runEvents_global_thread
      · exact hcell
      · intro n hn; rw [hfree p0 (by simp)] at hn; simp at hn
    | succ i =>
      have := ih (k + 1)
        { threads := σ.threads.set k (runEvents .Global p0 (fresh p0) σ.sh).1,
          sh := (runEvents .Global p0 (fresh p0) σ.sh).2 }
        (by
          intro j q hq
          have : k ≠ k + 1 + j := by omega
          simp only [List.getElem?_set_ne this]
          have h2 := hthr (j + 1) q (by simpa using hq)
          rw [show k + 1 + j = k + (j + 1) by omega]
          exact h2)
        (by
          simp only [runEvents_global_cell, hcell]
          exact hclosed p0 (by simp))
        (fun q hq => hfree q (by simp [hq]))
        (fun q hq => hclosed q (by simp [hq]))
        i p (by simpa using hp)
      rw [show k + (i + 1) = k + 1 + i by omega]
      exact this

/-! ## sequential execution of programs that reset the cell before reading it -/

/-- a program that writes the process-wide cell before its first lookup computes the same
thread from any cell it finds -/
theorem runEvents_global_thread_reset (es : List Ev) (t : Thread) (s s' : Shared)
    (ho : opensWithReset es = true)
    (hr : ∀ n ∈ freeGets es, regGet s.reg n = regGet s'.reg n) :
    (runEvents .Global es t s).1 = (runEvents .Global es t s').1 := by
  induction es generalizing t s s' with
  | nil => rfl
  | cons e rest ih =>
    cases e with
    | register n c =>
      simp only [runEvents, exec]
      apply ih
      · simpa [opensWithReset] using ho
      · intro n' hn'
        simp only [regGet_regSet]
        by_cases hnn : n = n'
        · simp [hnn]
        · simp only [hnn, if_false]
          exact hr n' (by simp [freeGets, hn', Ne.symm hnn])
    | getStrategy n =>
      simp only [runEvents, exec]
      rw [hr n (by simp [freeGets])]
      apply ih
      · simpa [opensWithReset] using ho
      · intro n' hn'; exact hr n' (by simp [freeGets, hn'])
    | setCtx p =>
      simp only [runEvents, exec]
      apply runEvents_global_thread
      · rfl
      · intro n' hn'; exact hr n' (by simpa [freeGets] using hn')
    | lookup c => simp [opensWithReset] at ho
    | fetch p c => simp [opensWithReset] at ho
    | clearCtx =>
      simp only [runEvents, exec]
      apply runEvents_global_thread
      · rfl
      · intro n' hn'; exact hr n' (by simpa [freeGets] using hn')
    | emit v =>
      simp only [runEvents, exec]
      apply ih
      · simpa [opensWithReset] using ho
      · intro n' hn'; exact hr n' (by simpa [freeGets] using hn')

/-- sequential execution in `Global` mode of programs that open with a reset: whatever the cell
holds at the start and whatever the programs leave in it -/
theorem seq_global_reset_aux (r₀' : Registry) (progs : List (List Ev)) :
    ∀ (k : Nat) (σ : State),
      (∀ j q, progs[j]? = some q → σ.threads[k + j]? = some (fresh q)) →
      (∀ q ∈ progs, freeGets q = []) → (∀ q ∈ progs, opensWithReset q = true) →
      ∀ i p, progs[i]? = some p →
        outOf (run .Global (seqScheduleFrom k progs) σ) (k + i) = solo .Global r₀' p := by
  induction progs with
  | nil => intro k σ _ _ _ i p hp; simp at hp
  | cons p0 ps ih =>
    intro k σ hthr hfree hopen i p hp
    have hk : σ.threads[k]? = some (fresh p0) := by simpa using hthr 0 p0 rfl
    simp only [seqScheduleFrom, run_append]
    rw [run_block .Global k p0 σ (fresh p0) hk rfl]
    cases i with
    | zero =>
      simp only [List.getElem?_cons_zero, Option.some.injEq] at hp
      subst hp
      have hnot : k ∉ seqScheduleFrom (k + 1) ps := by
        intro hmem
        have := seqScheduleFrom_ge (k + 1) ps k hmem
        omega
      have hlt : k < σ.threads.length := by
        rcases Nat.lt_or_ge k σ.threads.length with h' | h'
        · exact h'
        · simp [List.getElem?_eq_none h'] at hk
      simp only [outOf, Nat.add_zero]
      rw [run_frame .Global k _ _ hnot]
      simp only [List.getElem?_set_self hlt]
      rw [solo_eq_runEvents]
      congr 1
      apply runEvents_global_thread_reset
      · exact hopen p0 (by simp)
      · intro n hn; rw [hfree p0 (by simp)] at hn; simp at hn
    | succ i =>
      have := ih (k + 1)
        { threads := σ.threads.set k (runEvents .Global p0 (fresh p0) σ.sh).1,
          sh := (runEvents .Global p0 (fresh p0) σ.sh).2 }
        (by
          intro j q hq
          have : k ≠ k + 1 + j := by omega
          simp only [List.getElem?_set_ne this]
          have h2 := hthr (j + 1) q (by simpa using hq)
          rw [show k + 1 + j = k + (j + 1) by omega]
          exact h2)
        (fun q hq => hfree q (by simp [hq]))
        (fun q hq => hopen q (by simp [hq]))
        i p (by simpa using hp)
      rw [show k + (i + 1) = k + 1 + i by omega]
      exact this

/-! ## a memo kept on an object (`objMemoProg`) -/

theorem freeGets_replicate_fetch (p : Palette) (c : Color) (n : Nat) :
    freeGets (List.replicate n (Ev.fetch p c)) = [] := by
  induction n with
  | zero => rfl
  | succ k ih => simp [List.replicate_succ, freeGets, ih]

theorem freeGets_objMemoProg (p : Palette) (c : Color) (n : Nat) :
    freeGets (objMemoProg p c n) = [] := by
  simp [objMemoProg, freeGets, freeGets_replicate_fetch]

theorem opensWithReset_objMemoProg (p : Palette) (c : Color) (n : Nat) :
    opensWithReset (objMemoProg p c n) = true := by
  simp [objMemoProg, opensWithReset]

theorem canonicalB_objMemoProg (canon : Name → Cls) (p : Palette) (c : Color) (n : Nat) :
    canonicalB canon (objMemoProg p c n) = true := by
  simp [objMemoProg, canonicalB]

end Proofs.Interleave
