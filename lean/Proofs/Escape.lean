import Model.Escape
/-!
Helper lemmas for C10: the reader `decode` run over the writer's output `escape t`.

Plan: `run` is a left fold, so it splits over `++` (`run_append`); the output of the escaper for one
code point is a constant prefix, the decimal digits of a signed 16-bit number and `*`; the digits are
handled by `run_num` / `run_intRepr` (with `digitsVal (natDigits n) = n`), the rest by evaluation.
-/
namespace Proofs.Escape
open Model.Escape

def digitsVal (acc : Nat) (ds : List Nat) : Nat := ds.foldl (fun a d => a * 10 + d) acc

theorem digitsVal_aux (fuel : Nat) : ∀ n acc, n < fuel →
    digitsVal 0 (natDigitsAux fuel n acc) = digitsVal n acc := by
  induction fuel with
  | zero => intro n acc h; omega
  | succ f ih =>
    intro n acc h
    unfold natDigitsAux
    split
    · simp [digitsVal]
    · rw [ih (n / 10) _ (by omega)]
      simp only [digitsVal, List.foldl_cons]
      congr 1; omega

theorem digitsVal_natDigits (n : Nat) : digitsVal 0 (natDigits n) = n := by
  unfold natDigits
  rw [digitsVal_aux _ _ _ (by omega)]
  simp [digitsVal]

theorem natDigitsAux_lt (fuel : Nat) : ∀ n acc, n < fuel → (∀ d ∈ acc, d < 10) →
    ∀ d ∈ natDigitsAux fuel n acc, d < 10 := by
  induction fuel with
  | zero => intro n acc h; omega
  | succ f ih =>
    intro n acc h hacc
    unfold natDigitsAux
    split
    · intro d hd
      simp only [List.mem_cons] at hd
      rcases hd with rfl | hd
      · assumption
      · exact hacc d hd
    · apply ih _ _ (by omega)
      intro d hd
      simp only [List.mem_cons] at hd
      rcases hd with rfl | hd
      · omega
      · exact hacc d hd

theorem natDigits_lt (n : Nat) : ∀ d ∈ natDigits n, d < 10 :=
  natDigitsAux_lt _ _ _ (by omega) (by simp)

theorem natDigits_ne_nil (n : Nat) : natDigits n ≠ [] := by
  intro h
  have := digitsVal_natDigits n
  rw [h] at this
  simp [digitsVal] at this
  subst this
  simp [natDigits, natDigitsAux] at h

theorem run_append (st : St) (a b : List Nat) : run st (a ++ b) = run (run st a) b := by
  simp [run, List.foldl_append]

theorem run_cons (st : St) (a : Nat) (b : List Nat) : run st (a :: b) = run (step st a) b := rfl

theorem run_nil (st : St) : run st [] = st := rfl

theorem isDigit_add (d : Nat) (h : d < 10) : isDigit (d + 48) = true := by
  simp [isDigit]; omega

/-- digits continue a numeric parameter -/

theorem run_num (ds : List Nat) : ∀ (st : St) (nm : List Nat) (neg : Bool) (acc : Nat),
    (∀ d ∈ ds, d < 10) →
    run { st with mode := .num nm neg acc } (ds.map (· + 48)) =
      { st with mode := .num nm neg (digitsVal acc ds) } := by
  induction ds with
  | nil => intros; rfl
  | cons d ds ih =>
    intro st nm neg acc h
    have hd : d < 10 := h d (by simp)
    simp only [List.map_cons, run_cons]
    have : step { st with mode := .num nm neg acc } (d + 48) = { st with mode := .num nm neg (acc * 10 + d) } := by
      simp [step, isDigit_add d hd]
    rw [this, ih _ _ _ _ (fun x hx => h x (by simp [hx]))]
    simp [digitsVal]

/-- the decimal number after a control word's letters -/

theorem run_intRepr (st : St) (nm : List Nat) (i : Int) :
    run { st with mode := .word nm } (intRepr i) =
      { st with mode := .num nm (decide (i < 0)) i.natAbs } := by
  have hne := natDigits_ne_nil i.natAbs
  have hlt := natDigits_lt i.natAbs
  have hval := digitsVal_natDigits i.natAbs
  unfold intRepr
  cases hds : natDigits i.natAbs with
  | nil => exact absurd hds hne
  | cons d ds =>
    rw [hds] at hlt hval
    have hd : d < 10 := hlt d (by simp)
    have hv : digitsVal d ds = i.natAbs := by simpa [digitsVal] using hval
    split
    · rename_i hneg
      simp only [List.map_cons, run_cons]
      have h1 : step { st with mode := .word nm } 45 = { st with mode := .minus nm } := by
        simp [step, isLetter, isDigit]
      have h2 : step { st with mode := .minus nm } (d + 48) = { st with mode := .num nm true d } := by
        simp [step, isDigit_add d hd]
      rw [h1, h2, run_num ds _ _ _ _ (fun x hx => hlt x (by simp [hx])), hv]
      simp [hneg]
    · rename_i hneg
      simp only [List.map_cons, run_cons]
      have h2 : step { st with mode := .word nm } (d + 48) = { st with mode := .num nm false d } := by
        have : isLetter (d + 48) = false := by simp [isLetter]; omega
        simp [step, isDigit_add d hd, this]
      rw [h2, run_num ds _ _ _ _ (fun x hx => hlt x (by simp [hx])), hv]
      simp [hneg]

/-- reader state right after `\uc1\uN*` -/

def stU (st : St) (N : Int) : St := stepGround (applyU { st with uc := 1 } (some N)) 42

theorem run_escUnit (st : St) (hm : st.mode = .ground) (hs : st.skip = 0) (u : Nat) :
    run st (escUnit u) = stU st (signed16 u) := by
  obtain ⟨mode, uc, skip, hi, out, us, words, errs, stack⟩ := st
  simp only at hm hs
  subst hm hs
  unfold escUnit
  rw [run_append, run_append]
  have h1 : run { mode := .ground, uc := uc, skip := 0, hi := hi, out := out, us := us, words := words,
                  errs := errs, stack := stack } [92, 117, 99, 49, 92, 117] =
            { mode := .word [117], uc := 1, skip := 0, hi := hi, out := out, us := us, words := words,
              errs := errs, stack := stack } := by
    simp [run, step, stepGround, isLetter, isDigit, applyCW, endWord]
  rw [h1]
  have h2 := run_intRepr ⟨.ground, 1, 0, hi, out, us, words, errs, stack⟩ [117] (signed16 u)
  simp only at h2
  rw [h2]
  simp only [run_cons, run_nil, step, isDigit, stU, endWord, applyCW]
  have : (if signed16 u < 0 then -((signed16 u).natAbs : Int) else ((signed16 u).natAbs : Int))
      = signed16 u := by
    split <;> omega
  simp [this]

theorem signed16_mod (u : Nat) (h : u < 65536) : (signed16 u % 65536).toNat = u := by
  unfold signed16; split <;> omega

theorem signed16_range (u : Nat) (h : u < 65536) : -32768 ≤ signed16 u ∧ signed16 u ≤ 32767 := by
  unfold signed16; split <;> omega

theorem stU_bmp (st : St) (hs : st.skip = 0) (hh : st.hi = none) (u : Nat)
    (h : u < 0xD800 ∨ (0xE000 ≤ u ∧ u < 0x10000)) :
    stU st (signed16 u) =
      { st with uc := 1, out := u :: st.out, us := { arg := signed16 u, uc := 1, skipped := 1 } :: st.us } := by
  obtain ⟨mode, uc, skip, hi, out, us, words, errs, stack⟩ := st
  simp only at hs hh
  subst hs hh
  have hu : u < 65536 := by omega
  have hr := signed16_range u hu
  have hm := signed16_mod u hu
  have h1 : ¬ (signed16 u < -32768 ∨ signed16 u > 32767) := by omega
  have h2 : ¬ (0xD800 ≤ u ∧ u < 0xDC00) := by omega
  have h3 : ¬ (0xDC00 ≤ u ∧ u < 0xE000) := by omega
  simp [stU, applyU, h1, hm, h2, h3, stepGround, emitChar, bump]

theorem stU_high (st : St) (hs : st.skip = 0) (hh : st.hi = none) (u : Nat)
    (h : 0xD800 ≤ u ∧ u < 0xDC00) :
    stU st (signed16 u) =
      { st with uc := 1, hi := some u, us := { arg := signed16 u, uc := 1, skipped := 1 } :: st.us } := by
  obtain ⟨mode, uc, skip, hi, out, us, words, errs, stack⟩ := st
  simp only at hs hh
  subst hs hh
  have hu : u < 65536 := by omega
  have hr := signed16_range u hu
  have hm := signed16_mod u hu
  have h1 : ¬ (signed16 u < -32768 ∨ signed16 u > 32767) := by omega
  simp [stU, applyU, h1, hm, h, stepGround, emitChar, bump]

theorem stU_low (st : St) (hs : st.skip = 0) (hv : Nat) (hh : st.hi = some hv) (u : Nat)
    (h : 0xDC00 ≤ u ∧ u < 0xE000) :
    stU st (signed16 u) =
      { st with uc := 1, hi := none, out := (0x10000 + (hv - 0xD800) * 1024 + (u - 0xDC00)) :: st.out,
                us := { arg := signed16 u, uc := 1, skipped := 1 } :: st.us } := by
  obtain ⟨mode, uc, skip, hi, out, us, words, errs, stack⟩ := st
  simp only at hs hh
  subst hs hh
  have hu : u < 65536 := by omega
  have hr := signed16_range u hu
  have hm := signed16_mod u hu
  have h1 : ¬ (signed16 u < -32768 ∨ signed16 u > 32767) := by omega
  have h2 : ¬ (0xD800 ≤ u ∧ u < 0xDC00) := by omega
  simp [stU, applyU, h1, hm, h, h2, stepGround, emitChar, bump]

/-- the reader is between characters: no control sequence open, no fallback due, no surrogate pending -/

structure Good (st : St) : Prop where
  mode : st.mode = .ground
  skip : st.skip = 0
  hi : st.hi = none

theorem readable_iff (n : Nat) : readable n = true ↔
    ((n < 0xD800 ∨ (0xE000 ≤ n ∧ n < 0x110000)) ∧ n ≠ 92 ∧ n ≠ 123 ∧ n ≠ 125 ∧ n ≠ 10 ∧ n ≠ 13) := by
  simp [readable, isScalar]
  omega

theorem run_escapeCp (st : St) (g : Good st) (n : Nat) (hn : readable n = true) :
    ∃ uc', run st (escapeCp n) =
      { st with uc := uc', out := n :: st.out, us := (uTraceCp n).reverse ++ st.us } := by
  obtain ⟨hm, hs, hh⟩ := g
  rw [readable_iff] at hn
  unfold escapeCp uTraceCp
  by_cases h128 : n < 128
  · refine ⟨st.uc, ?_⟩
    obtain ⟨mode, uc, skip, hi, out, us, words, errs, stack⟩ := st
    simp only at hm hs hh
    subst hm hs hh
    have h1 : n ≠ 92 := hn.2.1
    have h2 : n ≠ 123 := hn.2.2.1
    have h3 : n ≠ 125 := hn.2.2.2.1
    have h4 : ¬ (n = 10 ∨ n = 13) := by omega
    have h5 : ansi n = n := by simp [ansi]; omega
    simp [h128, run_cons, run_nil, step, stepGround, h1, h2, h3, h4, h5, emitChar]
  · refine ⟨1, ?_⟩
    simp only [h128, if_false]
    unfold codeUnits
    by_cases hb : n < 0x10000
    · simp only [hb, if_true, List.flatMap_cons, List.flatMap_nil, List.append_nil, List.map_cons, List.map_nil,
        List.reverse_cons, List.reverse_nil, List.nil_append, List.singleton_append]
      rw [run_escUnit st hm hs, stU_bmp st hs hh n (by omega)]
    · simp only [hb, if_false, List.flatMap_cons, List.flatMap_nil, List.append_nil, List.map_cons, List.map_nil,
        List.reverse_cons, List.reverse_nil, List.nil_append]
      rw [run_append, run_escUnit st hm hs, stU_high st hs hh _ (by omega)]
      rw [run_escUnit _ (by simpa using hm) (by simpa using hs),
          stU_low _ (by simpa using hs) (0xD800 + (n - 0x10000) / 1024) (by simp) _ (by omega)]
      simp
      exact ⟨hh.symm, by omega⟩

theorem uTrace_cons (n : Nat) (t : List Nat) : uTrace (n :: t) = uTraceCp n ++ uTrace t := by
  simp [uTrace]

theorem escape_cons (n : Nat) (t : List Nat) : escape (n :: t) = escapeCp n ++ escape t := by
  simp [escape]

theorem run_escape (t : List Nat) : ∀ (st : St), Good st → (∀ n ∈ t, readable n = true) →
    ∃ uc', run st (escape t) =
      { st with uc := uc', out := t.reverse ++ st.out, us := (uTrace t).reverse ++ st.us } := by
  induction t with
  | nil => intro st _ _; exact ⟨st.uc, by simp [escape, uTrace, run_nil]⟩
  | cons n t ih =>
    intro st g h
    obtain ⟨uc1, h1⟩ := run_escapeCp st g n (h n (by simp))
    have g1 : Good { st with uc := uc1, out := n :: st.out, us := (uTraceCp n).reverse ++ st.us } :=
      ⟨g.mode, g.skip, g.hi⟩
    obtain ⟨uc2, h2⟩ := ih _ g1 (fun x hx => h x (by simp [hx]))
    refine ⟨uc2, ?_⟩
    rw [escape_cons, run_append, h1, h2, uTrace_cons]
    simp [List.reverse_append]

theorem finish_good (st : St) (g : Good st) : finish st = st := by
  obtain ⟨hm, _, hh⟩ := g
  simp [finish, hm, hh]

/-- what the reader shows for an escaped text: the text itself -/
theorem decode_escape (t : List Nat) (h : ∀ n ∈ t, readable n = true) :
    decode (escape t) = { text := t, us := uTrace t, words := 0, errs := [], depth := 0 } := by
  have g0 : Good ({} : St) := ⟨rfl, rfl, rfl⟩
  obtain ⟨uc', hr⟩ := run_escape t {} g0 h
  unfold decode
  rw [hr, finish_good _ ⟨rfl, rfl, rfl⟩]
  simp

theorem codeUnits_lt (n : Nat) (h : n < 0x110000) : ∀ u ∈ codeUnits n, u < 65536 := by
  unfold codeUnits
  split
  · intro u hu; simp at hu; omega
  · intro u hu; simp at hu; omega

theorem uTraceCp_ok (n : Nat) (h : n < 0x110000) : ∀ e ∈ uTraceCp n, uOk e = true ∧ e.uc = 1 := by
  unfold uTraceCp
  split
  · simp
  · intro e he
    simp only [List.mem_map] at he
    obtain ⟨u, hu, rfl⟩ := he
    have := signed16_range u (codeUnits_lt n h u hu)
    simp [uOk, this]

theorem uTrace_ok (t : List Nat) (h : ∀ n ∈ t, n < 0x110000) : ∀ e ∈ uTrace t, uOk e = true ∧ e.uc = 1 := by
  intro e he
  simp only [uTrace, List.mem_flatMap] at he
  obtain ⟨n, hn, he⟩ := he
  exact uTraceCp_ok n (h n hn) e he

theorem readable_lt (n : Nat) (h : readable n = true) : n < 0x110000 := by
  rw [readable_iff] at h; omega

theorem intact_escape (t : List Nat) (h : ∀ n ∈ t, readable n = true) :
    intact t (decode (escape t)) = true := by
  rw [decode_escape t h]
  have := uTrace_ok t (fun n hn => readable_lt n (h n hn))
  simp [intact, List.all_eq_true]
  intro e he
  exact (this e he).1

theorem natDigits_ascii (n : Nat) : ∀ b ∈ (natDigits n).map (· + 48), b < 128 := by
  intro b hb
  simp only [List.mem_map] at hb
  obtain ⟨d, hd, rfl⟩ := hb
  have := natDigits_lt n d hd
  omega

theorem escUnit_ascii (u : Nat) : ∀ b ∈ escUnit u, b < 128 := by
  intro b hb
  unfold escUnit intRepr at hb
  have hd := natDigits_ascii (signed16 u).natAbs
  split at hb
  · simp only [List.mem_append, List.mem_cons, List.mem_nil_iff, or_false] at hb
    rcases hb with (hb | hb) | hb
    · omega
    · rcases hb with hb | hb
      · omega
      · exact hd b hb
    · omega
  · simp only [List.mem_append, List.mem_cons, List.mem_nil_iff, or_false] at hb
    rcases hb with (hb | hb) | hb
    · omega
    · exact hd b hb
    · omega

/-- the escaper emits 7-bit characters only — for every input whatsoever -/
theorem escape_ascii (t : List Nat) : ∀ b ∈ escape t, b < 128 := by
  intro b hb
  simp only [escape, List.mem_flatMap] at hb
  obtain ⟨n, _, hb⟩ := hb
  unfold escapeCp at hb
  split at hb
  · simp at hb; omega
  · simp only [List.mem_flatMap] at hb
    obtain ⟨u, _, hb⟩ := hb
    exact escUnit_ascii u b hb

theorem utf8_ascii (l : List Nat) (h : ∀ b ∈ l, b < 128) : utf8 l = some l := by
  induction l with
  | nil => rfl
  | cons a l ih =>
    have ha : a < 128 := h a (by simp)
    have := ih (fun b hb => h b (by simp [hb]))
    have h1 : a < 0x80 := by omega
    simp [utf8, utf8Cp, this, h1]

/-- 7-bit text is its own UTF-8 encoding: the bytes `write_text` puts on disk are the escaper's output -/
theorem utf8_escape (t : List Nat) : utf8 (escape t) = some (escape t) :=
  utf8_ascii _ (escape_ascii t)

theorem joinComma_readable (parts : List (List Nat)) (h : ∀ p ∈ parts, ∀ n ∈ p, readable n = true) :
    ∀ n ∈ joinComma parts, readable n = true := by
  induction parts with
  | nil => simp [joinComma]
  | cons a r ih =>
    cases r with
    | nil => simpa [joinComma] using h
    | cons b r =>
      intro n hn
      simp only [joinComma, List.mem_append, List.mem_cons, List.mem_nil_iff, or_false] at hn
      rcases hn with (hn | hn) | hn
      · exact h a (by simp) n hn
      · rcases hn with rfl | rfl <;> decide
      · exact ih (fun p hp => h p (by simp [hp])) n hn

theorem run_sublinePrefix :
    run {} sublinePrefix = { mode := .ground, uc := 1, words := 8, stack := [1, 1] } := by
  decide

/-- the reader shows the subline_by heading paragraph as the joined group values -/
theorem decode_sublineHeader (vals : List (Option (List Nat)))
    (h : ∀ s, some s ∈ vals → ∀ n ∈ s, readable n = true) (hne : formatGroupHeader vals ≠ []) :
    decode (sublineHeader vals) =
      { text := formatGroupHeader vals, us := uTrace (formatGroupHeader vals), words := 9, errs := [], depth := 0 } := by
  have hr : ∀ n ∈ formatGroupHeader vals, readable n = true := by
    apply joinComma_readable
    intro p hp
    simp only [List.mem_filterMap, id] at hp
    obtain ⟨v, hv, rfl⟩ := hp
    exact h p hv
  unfold sublineHeader
  simp only [hne, if_false]
  unfold decode
  rw [run_append, run_append, run_sublinePrefix]
  obtain ⟨uc', he⟩ := run_escape (formatGroupHeader vals) { mode := .ground, uc := 1, words := 8, stack := [1, 1] }
    ⟨rfl, rfl, rfl⟩ hr
  rw [he]
  simp [sublineSuffix, run, step, stepGround, isLetter, isDigit, applyCW, endWord, finish]

/-! ### from code points to `Char` -/

/-- a `Char` is a Unicode scalar value -/
theorem char_scalar (c : Char) : isScalar c.toNat = true := by
  have h := c.valid
  rw [UInt32.isValidChar, Char.toNat_val, Nat.isValidChar] at h
  simp [isScalar]
  omega

theorem map_toNat_inj (s t : List Char) (h : s.map Char.toNat = t.map Char.toNat) : s = t := by
  induction s generalizing t with
  | nil => cases t <;> simp_all
  | cons a s ih =>
    cases t with
    | nil => simp at h
    | cons b t =>
      simp only [List.map_cons, List.cons.injEq] at h
      have : a = b := Char.toNat_inj.mp h.1
      rw [this, ih t h.2]

/-- the property's domain lies inside what the round trip needs -/
theorem inDomain_readable (n : Nat) (h : inDomain n = true) : readable n = true := by
  simp only [inDomain, isControl, readable, Bool.and_eq_true, Bool.not_eq_true', Bool.or_eq_false_iff,
    bne_iff_ne, ne_eq, decide_eq_false_iff_not, Bool.and_eq_false_imp, decide_eq_true_eq] at *
  obtain ⟨⟨⟨⟨hs, hc⟩, h1⟩, h2⟩, h3⟩ := h
  refine ⟨⟨⟨⟨⟨hs, h1⟩, h2⟩, h3⟩, ?_⟩, ?_⟩ <;> omega

/-- for a `Char`, being readable is just "not one of `\ { }` CR LF" -/
theorem char_readable (c : Char) (h : c ≠ '\\' ∧ c ≠ '{' ∧ c ≠ '}' ∧ c ≠ '\n' ∧ c ≠ '\r') :
    readable c.toNat = true := by
  have hs := char_scalar c
  obtain ⟨h1, h2, h3, h4, h5⟩ := h
  have e : ∀ d : Char, c ≠ d → c.toNat ≠ d.toNat := fun d hd hn => hd (Char.toNat_inj.mp hn)
  have := e _ h1; have := e _ h2; have := e _ h3; have := e _ h4; have := e _ h5
  simp [readable, hs] at *
  simp_all

end Proofs.Escape
