import Proofs.EncodeTotalPage
/-!
Totality of the encoder model, part 5: the pages of a document (`encodePages`), the font and colour tables, the head
of the document, `encodeWith` and `encode`.
-/
namespace Proofs.EncodeTotal
open Model.Encode Model.EncodeAccepted Model.Broadcast Model.Emit Generated
open Proofs.Encode (MemV)
open Proofs.EncodeAttrs (Field GoodV)

/-! ## the pages -/

theorem encodePages_total (measure : Measure) (k : ColorCtx) {d : Doc} (ha : Accepted d)
    (hs : ShapesInQuantifier d) (hm : MeasureOk measure d) :
    (∃ x, encodePages measure k d = .ok x) ∨
    (encodePages measure k d = .error "ValueError" ∧ ¬ GroupKeysContiguous d) := by
  have hacc := accFacts ha
  obtain ⟨removed, hsh⟩ := shapeFacts hs
  obtain ⟨p, A, hprep⟩ := prepare_total hacc hsh
  obtain ⟨⟨ld, near⟩, hld⟩ := mkLDoc_total measure hprep hacc hsh hm
  have hdl : p.dispRows.length = d.rows.length := by rw [hprep.dispRows_eq, List.length_map]
  have hldlen := Proofs.EncodeAttrs.mkLDoc_length hld hdl
  rcases finalRows_total hprep hacc hsh (ld.pages.map (·.height)) with ⟨rows, hrows⟩ | ⟨herr, hnc⟩
  · left
    have F : PageFacts d p removed A rows := by
      refine ⟨hprep, hacc, hsh, ?_, ?_⟩
      · intro r hr
        have hw := Proofs.EncodeAttrs.finalRows_width hrows
          (fun r' hr' => (hprep.row_len hacc hsh r' hr').2.2.2) r hr
        have hnd : p.dispCols.length = Model.Widths.nDisplayed (keepMask d.cols.length removed) := by
          rw [hprep.dispCols_eq, Proofs.EncodeAttrs.nDisplayed_keepMask, Proofs.BroadcastAttr.dropCols_length]
        have h1 := hsh.ndPos
        have h2 := hsh.cumLen
        rw [← hprep.cum_eq] at h2
        refine ⟨?_, by omega⟩
        intro h0
        rw [h0] at hw
        simp only [List.length_nil] at hw
        omega
      · rw [Proofs.EncodeLift.finalRows_length hrows, hdl]
    have hpages : ∃ elems, ((ld.pages.zip (Model.Layout.layout ld)).mapM fun (x : Model.Layout.PageCtx × List Model.Layout.Block) =>
        renderPage k d A p rows x.1 x.2) = .ok elems := by
      apply mapM_total
      intro x hx
      obtain ⟨pg, blocks⟩ := x
      obtain ⟨hpg, hbl⟩ := Proofs.EncodeAttrs.mem_zip_map (Model.Layout.renderPage ld) ld.pages pg blocks hx
      obtain ⟨hds, hbound⟩ := Proofs.Layout.pages_bound ld pg hpg
      apply renderPage_total k F pg
      · intro hh h0
        have hl0 : ld.rows = [] := List.eq_nil_of_length_eq_zero (by rw [hldlen, h0]; rfl)
        rw [Proofs.Layout.pages_of_no_rows ld hl0] at hpg
        simp only [List.mem_singleton] at hpg
        subst hpg
        simp at hh
      · intro i hi
        rw [hbl, ← Proofs.EncodeAttrs.mem_dataIdx, Proofs.Layout.renderPage_dataIdx ld pg hbound,
          List.mem_range'_1] at hi
        rw [F.rowsLen, ← hldlen]
        omega
    obtain ⟨elems, helems⟩ := hpages
    unfold encodePages
    simp only [hprep.prep, hprep.nested, hld, ok_bind, hrows]
    refine bind_total ⟨elems, helems⟩ (fun _ _ => ⟨_, rfl⟩)
  · right
    refine ⟨?_, hnc⟩
    unfold encodePages
    simp only [hprep.prep, hprep.nested, hld, ok_bind, herr, err_bind]

/-! ## the colour table -/

theorem validateFrom_total (tbl : List ColorRow) : ∀ (cs : List String) (i : Nat),
    (∀ c ∈ cs, Model.Color.validColor tbl c = true) → ∃ rows, Model.Color.validateFrom tbl i cs = .ok rows
  | [], _, _ => ⟨[], rfl⟩
  | c :: cs, i, h => by
    have hc := h c (by simp)
    unfold Model.Color.validColor at hc
    obtain ⟨rows, hrows⟩ := validateFrom_total tbl cs (i + 1) (fun x hx => h x (by simp [hx]))
    cases hl : Model.Color.lookupRow tbl c with
    | none => rw [hl] at hc; cases hc
    | some row => exact ⟨row :: rows, by simp only [Model.Color.validateFrom, hl, hrows]⟩

theorem generateColorTable_total (tbl : List ColorRow) (used : List String)
    (h : ∀ c ∈ used, c ≠ "" → Model.Color.validColor tbl c = true) :
    ∃ s, Model.Color.generateColorTable tbl (some used) = .ok s := by
  simp only [Model.Color.generateColorTable]
  by_cases hn : (!Model.Color.needsColorTable (some used)) = true
  · rw [if_pos hn]; exact ⟨_, rfl⟩
  · rw [if_neg hn]
    obtain ⟨rows, hrows⟩ := validateFrom_total tbl (Model.Color.filtered used) 0 (by
      intro c hc
      unfold Model.Color.filtered at hc
      obtain ⟨h1, h2⟩ := List.mem_filter.mp hc
      apply h c h1
      intro h0
      subst h0
      simp [Model.Color.significant] at h2)
    have : Model.Color.tableRows tbl used = .ok (Model.Color.sortRows rows) := by
      unfold Model.Color.tableRows Model.Color.validateList
      rw [hrows]
    rw [this]
    split
    · next h => cases h
    · exact ⟨_, rfl⟩
    · exact ⟨_, rfl⟩

theorem mem_dedup {x : String} : ∀ {l : List String}, x ∈ Model.Color.dedup l → x ∈ l
  | [], h => by simp [Model.Color.dedup] at h
  | y :: ys, h => by
    simp only [Model.Color.dedup, List.mem_cons] at h
    rcases h with rfl | h
    · simp
    · exact List.mem_cons_of_mem _ (mem_dedup (List.mem_filter.mp h).1)

/-- a colour that may stand in a colour table: not empty, known to the colour service -/
def CV (c : String) : Prop := c ≠ "" → Model.Color.validColor colorTable c = true

theorem mem_valStrs {c : String} {xs : List Val} (h : c ∈ valStrs xs) : Val.str c ∈ xs := by
  unfold valStrs at h
  obtain ⟨v, hv, hc⟩ := List.mem_filterMap.mp h
  cases v <;> simp at hc
  subst hc; exact hv

theorem okColor_cv {c : String} (h : okColor (.str c) = true) : CV c := by
  intro hne
  simp only [okColor, Bool.or_eq_true, beq_iff_eq] at h
  rcases h with h | h
  · exact absurd h hne
  · exact h

theorem colors_valid {a : Attr} (h : valsOk okColor a = true) : ∀ c ∈ (toColorAttr a).colors, CV c := by
  intro c hc
  cases a with
  | null => simp [toColorAttr, Model.Color.Attr.colors] at hc
  | scalar v =>
    cases v with
    | str s =>
      simp only [toColorAttr, Model.Color.Attr.colors] at hc
      have := (List.mem_filter.mp hc).1
      simp only [List.mem_singleton] at this
      subst this
      exact okColor_cv h
    | _ => simp [toColorAttr, Model.Color.Attr.colors] at hc
  | list xs =>
    simp only [toColorAttr, Model.Color.Attr.colors] at hc
    have := mem_valStrs (List.mem_filter.mp hc).1
    exact okColor_cv (List.all_eq_true.mp h _ this)
  | tuple xs =>
    simp only [toColorAttr, Model.Color.Attr.colors] at hc
    have := mem_valStrs (List.mem_filter.mp hc).1
    exact okColor_cv (List.all_eq_true.mp h _ this)
  | nested m =>
    simp only [toColorAttr, Model.Color.Attr.colors] at hc
    have h1 := (List.mem_filter.mp hc).1
    obtain ⟨l, hl, hcl⟩ := List.mem_flatten.mp h1
    obtain ⟨row, hrow, rfl⟩ := List.mem_map.mp hl
    have := mem_valStrs hcl
    exact okColor_cv (List.all_eq_true.mp (List.all_eq_true.mp h row hrow) _ this)

def CompValid (c : Model.Color.Comp) : Prop :=
  ∀ x ∈ c.textColor.colors ++ c.bgColor.colors ++ c.borderColors.flatMap Model.Color.Attr.colors, CV x

theorem accAttr_vals {s : Spec} {a : Attr} (h : accAttr s a = true) : valsOk s.ok a = true := by
  simp only [accAttr, Bool.and_eq_true] at h
  exact h.1

theorem textComp_valid {a : TextAttrsOf Attr} (h : TextAttrsOf.zipAll accAttr textSpec a = true) :
    CompValid (textColorComp a) := by
  intro x hx
  simp only [textColorComp, List.flatMap_nil, List.append_nil, List.mem_append] at hx
  rcases hx with hx | hx
  · exact colors_valid (accAttr_vals (text_zipAll h .color)) x hx
  · exact colors_valid (accAttr_vals (text_zipAll h .bg)) x hx

theorem tblComp_valid {a : TblAttrsOf Attr} (h : TblAttrsOf.zipAll accAttr tblSpec a = true) :
    CompValid (tblColorComp a) := by
  intro x hx
  simp only [tblColorComp, List.mem_append, List.map_cons, List.map_nil, List.flatMap_cons, List.flatMap_nil,
    List.append_nil] at hx
  rcases hx with (hx | hx) | hx
  · exact colors_valid (accAttr_vals (tbl_zipAll h .color)) x hx
  · exact colors_valid (accAttr_vals (tbl_zipAll h .bg)) x hx
  · rcases hx with hx | hx | hx | hx | hx | hx
    · exact colors_valid (accAttr_vals (tbl_zipAll h .bcLeft)) x hx
    · exact colors_valid (accAttr_vals (tbl_zipAll h .bcRight)) x hx
    · exact colors_valid (accAttr_vals (tbl_zipAll h .bcTop)) x hx
    · exact colors_valid (accAttr_vals (tbl_zipAll h .bcBottom)) x hx
    · exact colors_valid (accAttr_vals (tbl_zipAll h .bcFirst)) x hx
    · exact colors_valid (accAttr_vals (tbl_zipAll h .bcLast)) x hx

theorem mem_filterMap_id {α : Type} {x : α} {l : List (Option α)} (h : x ∈ l.filterMap id) : some x ∈ l := by
  obtain ⟨o, ho, hx⟩ := List.mem_filterMap.mp h
  simp only [id] at hx
  subst hx; exact ho

/-- every colour the document collects is known to the colour service -/
theorem collect_valid {d : Doc} (hacc : AccFacts d) : ∀ c ∈ Model.Color.collect (colorDoc d), CV c := by
  intro c hc
  have hc := mem_dedup hc
  have key : ∀ (comps : List Model.Color.Comp), (∀ cm ∈ comps, CompValid cm) →
      c ∈ (comps.flatMap fun b => b.textColor.colors ++ b.bgColor.colors ++
        b.borderColors.flatMap Model.Color.Attr.colors) → CV c := by
    intro comps hcomps hmem
    obtain ⟨cm, hcm, hx⟩ := List.mem_flatMap.mp hmem
    exact hcomps cm hcm c hx
  unfold Model.Color.Doc.allColors at hc
  simp only [List.mem_append] at hc
  rcases hc with (hc | hc) | hc
  · apply key _ _ hc
    intro cm hcm
    simp only [colorDoc, List.mem_singleton] at hcm
    subst hcm
    exact tblComp_valid hacc.bodyAttrs
  · apply key _ _ hc
    intro cm hcm
    simp only [colorDoc, List.mem_append, List.mem_map] at hcm
    rcases hcm with (⟨t, ht, rfl⟩ | ⟨f, hf, rfl⟩) | ⟨t, ht, rfl⟩
    · have := mem_filterMap_id ht
      simp only [List.mem_cons, List.not_mem_nil, or_false] at this
      rcases this with h | h
      · exact textComp_valid (hacc.title t h.symm)
      · exact textComp_valid (hacc.subline t h.symm)
    · have := mem_filterMap_id hf
      simp only [List.mem_cons, List.not_mem_nil, or_false] at this
      rcases this with h | h
      · exact tblComp_valid (hacc.footnote f h.symm).1
      · exact tblComp_valid (hacc.source f h.symm).1
    · have := mem_filterMap_id ht
      simp only [List.mem_cons, List.not_mem_nil, or_false] at this
      rcases this with h | h
      · exact textComp_valid (hacc.pageHeader t h.symm)
      · exact textComp_valid (hacc.pageFooter t h.symm)
  · apply key _ _ hc
    intro cm hcm
    simp only [colorDoc, List.mem_map] at hcm
    obtain ⟨h, hh, rfl⟩ := hcm
    exact tblComp_valid (hacc.headers h (mem_filterMap_id hh)).1

theorem fontTable_total : ∃ s, Model.Color.fontTableText fontTable = .ok s := by
  unfold Model.Color.fontTableText Model.Color.fontEntries
  rw [if_neg (by decide)]
  exact ⟨_, rfl⟩

/-! ## the document -/

/-- **totality of `encodeWith`** -/
theorem encodeWith_total (measure : Measure) {d : Doc} (ha : Accepted d) (hs : ShapesInQuantifier d)
    (hm : MeasureOk measure d) :
    (∃ x, encodeWith measure d = .ok x) ∨
    (encodeWith measure d = .error "ValueError" ∧ ¬ GroupKeysContiguous d) := by
  have hacc := accFacts ha
  obtain ⟨removed, hsh⟩ := shapeFacts hs
  rcases encodePages_total measure (mkColorCtx d) ha hs hm with ⟨⟨elems, near⟩, hp⟩ | ⟨herr, hnc⟩
  · left
    obtain ⟨ft, hft⟩ := fontTable_total
    obtain ⟨ct, hct⟩ := generateColorTable_total colorTable (mkColorCtx d).used (by
      intro c hc hne
      exact collect_valid hacc c hc hne)
    obtain ⟨ph, hph⟩ := pageHF_total (mkColorCtx d) "header" hacc.pageHeader hsh.pageHeader
    obtain ⟨pf, hpf⟩ := pageHF_total (mkColorCtx d) "footer" hacc.pageFooter hsh.pageFooter
    obtain ⟨ps, hps⟩ := pageSettings_total hacc.margin
    unfold encodeWith
    simp only [hp, ok_bind, hft, hct, pure_eq_ok, hph, hpf, hps]
    exact ⟨_, rfl⟩
  · right
    refine ⟨?_, hnc⟩
    unfold encodeWith
    simp only [herr, err_bind]

/-- **totality of the encoder model** -/
theorem encode_total (measure : Measure) {d : Doc} (ha : Accepted d) (hs : ShapesInQuantifier d)
    (hm : MeasureOk measure d) :
    (∃ g, encode measure d = .ok g) ∨ (encode measure d = .error "ValueError" ∧ ¬ GroupKeysContiguous d) := by
  rcases encodeWith_total measure ha hs hm with ⟨x, hx⟩ | ⟨herr, hnc⟩
  · left
    exact ⟨x.1, by unfold encode; rw [hx]; rfl⟩
  · right
    exact ⟨by unfold encode; rw [herr]; rfl, hnc⟩

/-! ## the decidable twin of `GroupKeysContiguous` -/

open Model.GroupBy Proofs.GroupBy in
theorem groupKeysContiguous_iff (d : Doc) : groupKeysContiguous d = true ↔ GroupKeysContiguous d := by
  unfold groupKeysContiguous GroupKeysContiguous
  cases hp : prepare d with
  | error e => simp
  | ok p =>
    simp only [allLevelsContiguousB, List.all_eq_true, List.mem_range, List.length_map]
    constructor
    · intro h q hq l hl
      cases hq
      exact contiguous_of_contigB _ (h l hl)
    · intro h l hl
      exact contigB_of_contiguous _ (h p rfl l hl)

instance (d : Doc) : Decidable (GroupKeysContiguous d) := decidable_of_iff _ (groupKeysContiguous_iff d)

/-- without `group_by` there is nothing to refuse -/
theorem groupKeysContiguous_of_no_groupby {d : Doc} (h : d.body.groupByL = []) : GroupKeysContiguous d := by
  intro p _ l hl
  rw [h] at hl
  simp at hl

/-! ## `removedIdx` never fails on an accepted document -/

/-- `shapesInQuantifier` starts from `removedIdx d = .ok removed`; this is no restriction of its own: the constructors
check that `page_by` / `subline_by` name columns (`_validate_section_columns`) -/
theorem removedIdx_total {d : Doc} (ha : Accepted d) : ∃ removed, removedIdx d = .ok removed := by
  unfold Accepted accepted at ha
  simp only [Bool.and_eq_true] at ha
  obtain ⟨⟨⟨⟨⟨⟨⟨⟨⟨_, _⟩, hbody⟩, _⟩, _⟩, _⟩, _⟩, _⟩, _⟩, _⟩ := ha
  simp only [bodyAcc, Bool.and_eq_true] at hbody
  obtain ⟨⟨⟨⟨⟨⟨_, _⟩, _⟩, hpb⟩, hsb⟩, _⟩, _⟩ := hbody
  unfold removedIdx
  apply mapM_total
  intro n hn
  have hin : n ∈ d.cols := by
    simp only [removedNames, List.mem_append] at hn
    rcases hn with hn | hn
    · have := List.all_eq_true.mp hsb n (by simpa [Body.sublineByL] using hn)
      simpa using this
    · split at hn
      · have := List.all_eq_true.mp hpb n (by simpa [Body.pageByL] using hn)
        simpa using this
      · cases hn
  have hlt : d.cols.idxOf n < d.cols.length := List.idxOf_lt_length_iff.mpr hin
  exact ⟨d.cols.idxOf n, by simp only [hlt, if_true]⟩

/-! ## "raises `e`", decidably (a `DocG` has no decidable equality) -/

def raises {α : Type} (r : Except String α) (e : String) : Bool :=
  match r with
  | .error x => x == e
  | .ok _ => false

theorem raises_iff {α : Type} (r : Except String α) (e : String) : raises r e = true ↔ r = .error e := by
  cases r with
  | error x => simp [raises]
  | ok a => simp [raises]

end Proofs.EncodeTotal
