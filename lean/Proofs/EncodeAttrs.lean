import Model.Encode
import Model.CellAttr
import Proofs.Broadcast
import Proofs.BroadcastAttr
import Proofs.Encode
import Proofs.Layout
import Proofs.Borders
/-!
Helper lemmas for `Props/C07enc.lean`, `Props/C08enc.lean`, `Props/C09enc.lean`: how the whole-encoder model
(`Model/Encode.lean`) reads the body attributes for a data cell (`pageAttrs` → `encodeRow` → `encodeCell`), stated
once for a generic field selector (`Field`), and inversion lemmas for `encodeCell` / `encodeRow` / `renderBlock` /
`encodePages`.
-/
namespace Proofs.EncodeAttrs
open Model.Encode Model.Broadcast Model.Emit Model.Rtf Proofs.Encode Generated

/-! ## field selectors of `TblAttrsOf` -/

/-- the 31 attribute matrices of a table component -/
inductive Field
  | font | format | size | color | bg | just | indFirst | indLeft | indRight | space | spBefore | spAfter | hyph
  | convert | bLeft | bRight | bTop | bBottom | bFirst | bLast | bcLeft | bcRight | bcTop | bcBottom | bcFirst
  | bcLast | bWidth | cellHeight | cellJust | cellVJust | cellNrow
  deriving DecidableEq, Repr

def Field.get {α : Type} : Field → TblAttrsOf α → α
  | .font, a => a.font
  | .format, a => a.format
  | .size, a => a.size
  | .color, a => a.color
  | .bg, a => a.bg
  | .just, a => a.just
  | .indFirst, a => a.indFirst
  | .indLeft, a => a.indLeft
  | .indRight, a => a.indRight
  | .space, a => a.space
  | .spBefore, a => a.spBefore
  | .spAfter, a => a.spAfter
  | .hyph, a => a.hyph
  | .convert, a => a.convert
  | .bLeft, a => a.bLeft
  | .bRight, a => a.bRight
  | .bTop, a => a.bTop
  | .bBottom, a => a.bBottom
  | .bFirst, a => a.bFirst
  | .bLast, a => a.bLast
  | .bcLeft, a => a.bcLeft
  | .bcRight, a => a.bcRight
  | .bcTop, a => a.bcTop
  | .bcBottom, a => a.bcBottom
  | .bcFirst, a => a.bcFirst
  | .bcLast, a => a.bcLast
  | .bWidth, a => a.bWidth
  | .cellHeight, a => a.cellHeight
  | .cellJust, a => a.cellJust
  | .cellVJust, a => a.cellVJust
  | .cellNrow, a => a.cellNrow

/-- the two matrices `_apply_pagination_borders` rewrites (C07 governs them) -/
def Field.isEdge : Field → Bool
  | .bTop => true
  | .bBottom => true
  | _ => false

theorem get_map {α β : Type} (g : α → β) (A : TblAttrsOf α) (f : Field) : f.get (A.map g) = g (f.get A) := by
  cases f <;> rfl

theorem get_mapM {α β : Type} {g : α → Except String β} {a : TblAttrsOf α} {B : TblAttrsOf β}
    (h : a.mapM g = .ok B) (f : Field) : g (f.get a) = .ok (f.get B) := by
  unfold TblAttrsOf.mapM at h
  peel h as x0 h0
  unfold TextAttrsOf.mapM at h0
  peel h0 as y1 g1
  peel h0 as y2 g2
  peel h0 as y3 g3
  peel h0 as y4 g4
  peel h0 as y5 g5
  peel h0 as y6 g6
  peel h0 as y7 g7
  peel h0 as y8 g8
  peel h0 as y9 g9
  peel h0 as y10 g10
  peel h0 as y11 g11
  peel h0 as y12 g12
  peel h0 as y13 g13
  peel h0 as y14 g14
  cases pure_ok h0
  peel h as x1 h1
  peel h as x2 h2
  peel h as x3 h3
  peel h as x4 h4
  peel h as x5 h5
  peel h as x6 h6
  peel h as x7 h7
  peel h as x8 h8
  peel h as x9 h9
  peel h as x10 h10
  peel h as x11 h11
  peel h as x12 h12
  peel h as x13 h13
  peel h as x14 h14
  peel h as x15 h15
  peel h as x16 h16
  peel h as x17 h17
  cases pure_ok h
  cases f <;> assumption


/-! ## reading a matrix: `ilocV` -/

/-- a matrix on which `BroadcastValue.iloc` is total: absent (`None`), or non-empty, rectangular, ≥ 1 column -/
def GoodV (M : MatV) : Prop := ∀ m, M = some m → Proofs.Broadcast.Good m

theorem ilocV_good {m : Mat Val} (hg : Proofs.Broadcast.Good m) (r c : Nat) :
    ilocV (some m) r c = match m.iloc r c with
      | some v => .ok v
      | none => .error "ValueError" := by
  have hl := hg.length_pos
  have hc := hg.cols
  unfold ilocV
  simp only
  rw [if_neg (by simp only [Bool.or_eq_true, decide_eq_true_eq]; omega)]
  cases m.iloc r c <;> rfl

theorem ilocV_congr {m m' : Mat Val} (hg : Proofs.Broadcast.Good m) (hg' : Proofs.Broadcast.Good m') {r c r' c' : Nat}
    (h : m.iloc r c = m'.iloc r' c') : ilocV (some m) r c = ilocV (some m') r' c' := by
  rw [ilocV_good hg, ilocV_good hg', h]

/-- the expanded, column-reduced matrix is well-formed again -/
theorem expandSlice_good {α} {m : Mat α} (hg : Proofs.Broadcast.Good m) {rows cols : Nat} (removed : List Nat)
    (hrows : 0 < rows) (hk : 0 < (keptIdx cols removed).length) :
    Proofs.Broadcast.Good (m.expandSlice rows cols removed) := by
  have hlen := Proofs.BroadcastAttr.expandSlice_length m rows cols removed hg.ne
  refine ⟨?_, Proofs.BroadcastAttr.expandSlice_rect m rows cols removed hg.ne hg.rect hg.cols hrows, ?_⟩
  · intro e; rw [e] at hlen; simp at hlen; omega
  · rw [Proofs.BroadcastAttr.expandSlice_ncols m rows cols removed hg.ne hg.rect hg.cols hrows]; exact hk

/-- `cellAttr` (the C09 model of the attribute path) read through `ilocV`: the value the encoder reads at page row
`i`, displayed column `j` is the value the ORIGINAL matrix holds at table row `start + i`, original column `c` -/
theorem ilocV_path (M : MatV) (hg : GoodV M) (rows cols : Nat) (removed : List Nat) (start height i j c : Nat)
    (hpage : start + height ≤ rows) (hi : i < height) (hj : (keptIdx cols removed)[j]? = some c) :
    ilocV ((if removed.isEmpty then M else M.map fun m => m.expandSlice rows cols removed).map
      fun m => m.pageRows start height) i j = ilocV M (start + i) c := by
  cases M with
  | none => split <;> rfl
  | some m =>
    have hgm := hg m rfl
    have hjlt : j < (keptIdx cols removed).length := (List.getElem?_eq_some_iff.mp hj).1
    have e : ((if removed.isEmpty then some m else (some m).map fun m => m.expandSlice rows cols removed).map
        fun m => m.pageRows start height) =
        some ((if removed.isEmpty then m else m.expandSlice rows cols removed).pageRows start height) := by
      split <;> rfl
    rw [e]
    have hg1 : Proofs.Broadcast.Good (if removed.isEmpty then m else m.expandSlice rows cols removed) := by
      split
      · exact hgm
      · exact expandSlice_good hgm removed (by omega) (by omega)
    have hg2 := Proofs.Broadcast.pageRows_good hg1 start (show 0 < height by omega)
    apply ilocV_congr hg2 hgm
    have := Proofs.BroadcastAttr.cellAttr_eq_spec m rows cols removed start height i j hgm.ne hgm.rect hgm.cols
      hpage hi hjlt
    unfold Model.CellAttr.cellAttr Model.CellAttr.specAttr at this
    simp only [hj] at this
    exact this

/-! ## the attribute records of `prepare` and `pageAttrs` -/

theorem processed_get (A : TblAttrsOf MatV) (nrows ncols : Nat) (removed : List Nat) (f : Field) :
    f.get (processedAttrs A nrows ncols removed) =
      if removed.isEmpty then f.get A else (f.get A).map fun m => m.expandSlice nrows ncols removed := by
  unfold processedAttrs
  split
  · rfl
  · rw [get_map]

theorem pageAttrs_get (d : Doc) (bodyA : TblAttrsOf MatV) (p : Prep) (pg : Model.Layout.PageCtx) (f : Field)
    (hh : pg.height ≠ 0) (hf : f.isEdge = false) :
    f.get (pageAttrs d bodyA p pg).attrs = (f.get p.attrs).map fun m => m.pageRows pg.start pg.height := by
  unfold pageAttrs
  rw [if_neg hh]
  cases f <;> first | rfl | cases hf


/-! ## `encodeCell` / `encodeRow` as functions of the values read -/

/-- the result of one `BroadcastValue.iloc` -/
abbrev Read := Except String Val

/-- everything `_encode` can read of the attribute record at position `(r, j)` -/
def readAt (A : TblAttrsOf MatV) (r j : Nat) : TblAttrsOf Read := A.map fun M => ilocV M r j

theorem readAt_get (A : TblAttrsOf MatV) (r j : Nat) (f : Field) : f.get (readAt A r j) = ilocV (f.get A) r j :=
  get_map _ A f

/-- records with the same fields are equal -/
theorem ext_get {α : Type} {X Y : TblAttrsOf α} (h : ∀ f : Field, f.get X = f.get Y) : X = Y := by
  have h_font := h .font
  have h_format := h .format
  have h_size := h .size
  have h_color := h .color
  have h_bg := h .bg
  have h_just := h .just
  have h_indFirst := h .indFirst
  have h_indLeft := h .indLeft
  have h_indRight := h .indRight
  have h_space := h .space
  have h_spBefore := h .spBefore
  have h_spAfter := h .spAfter
  have h_hyph := h .hyph
  have h_convert := h .convert
  have h_bLeft := h .bLeft
  have h_bRight := h .bRight
  have h_bTop := h .bTop
  have h_bBottom := h .bBottom
  have h_bFirst := h .bFirst
  have h_bLast := h .bLast
  have h_bcLeft := h .bcLeft
  have h_bcRight := h .bcRight
  have h_bcTop := h .bcTop
  have h_bcBottom := h .bcBottom
  have h_bcFirst := h .bcFirst
  have h_bcLast := h .bcLast
  have h_bWidth := h .bWidth
  have h_cellHeight := h .cellHeight
  have h_cellJust := h .cellJust
  have h_cellVJust := h .cellVJust
  have h_cellNrow := h .cellNrow
  obtain ⟨⟨⟩, _⟩ := X
  obtain ⟨⟨⟩, _⟩ := Y
  simp only [Field.get] at *
  subst_vars
  rfl

/-- `textValsAt` on values already read -/
def textValsOf (R : TextAttrsOf Read) : Except String TextVals := do
  return { font := ← R.font, size := ← R.size, format := ← R.format, color := ← R.color, bg := ← R.bg,
           just := ← R.just, indFirst := ← R.indFirst, indLeft := ← R.indLeft, indRight := ← R.indRight,
           space := ← R.space, spBefore := ← R.spBefore, spAfter := ← R.spAfter, convert := ← R.convert,
           hyph := ← R.hyph }

/-- one border side: style and colour read, width shared by the four sides -/
def mkBorder (k : ColorCtx) (bw : Val) (st col : Read) : Except String BorderFmt := do
  resolveBorder k (← st) bw (← col)

/-- `encodeCell` on values already read -/
def cellOf (k : ColorCtx) (R : TblAttrsOf Read) (isLast : Bool) (text : Model.Encode.Str) (width : Option Rat) :
    Except String CellFmt := do
  let bw ← R.bWidth
  let mk := mkBorder k bw
  let right ← (if isLast then some <$> mk R.bRight R.bcRight else pure none : Except String (Option BorderFmt))
  let x ← resolveText k (← textValsOf R.toTextAttrsOf)
  let w ← (match width with
    | some w => pure w
    | none => throw "IndexError" : Except String Rat)
  let left ← mk R.bLeft R.bcLeft
  let top ← mk R.bTop R.bcTop
  let bottom ← mk R.bBottom R.bcBottom
  let vj ← resolveVJust (← R.cellVJust)
  return { left := some left, top := some top, right := right, bottom := some bottom, valign := vj,
           cellx := twip w, text := x.1, body := textNodes (convText x.2 text) }

/-- the cell `_encode` emits is a function of the values read at its position, nothing else of the matrices -/
theorem encodeCell_eq_cellOf (k : ColorCtx) (A : TblAttrsOf MatV) (r j : Nat) (isLast : Bool)
    (text : Model.Encode.Str) (width : Option Rat) :
    encodeCell k A r j isLast text width = cellOf k (readAt A r j) isLast text width := by
  cases isLast <;> cases width <;> rfl


/-! ### inversion -/

theorem mkBorder_inv {k : ColorCtx} {bw : Val} {st col : Read} {b : BorderFmt} (h : mkBorder k bw st col = .ok b) :
    ∃ s c, st = .ok s ∧ col = .ok c ∧ resolveBorder k s bw c = .ok b := by
  unfold mkBorder at h
  peel h as s hs
  peel h as c hc
  exact ⟨s, c, hs, hc, h⟩

/-- the style of a resolved border is the control word `BORDER_CODES` gives for the style string -/
theorem resolveBorder_style {k : ColorCtx} {st w c : Val} {b : BorderFmt} (h : resolveBorder k st w c = .ok b) :
    ∃ s code, st = .str s ∧ borderCodes.lookup s = some code ∧ b.style = codeWord code := by
  unfold resolveBorder at h
  peel h as s h1
  have hst : st = .str s := by
    cases st <;> simp [Val.toStr] at h1
    exact congrArg _ h1
  refine ⟨s, ?_⟩
  dsimp only at h
  simp only [pure_bind, throw_bind'] at h
  have key : ∀ (wd : Int) (col : Option Int), (match List.lookup s borderCodes with
      | some code => (pure { style := codeWord code, width := wd, color := col } : Except String BorderFmt)
      | none => throw "ValueError") = Except.ok b →
      ∃ code, st = .str s ∧ borderCodes.lookup s = some code ∧ b.style = codeWord code := by
    intro wd col h
    split at h
    · next code hc =>
      cases pure_ok h
      exact ⟨code, hst, hc, rfl⟩
    · exact (throw_ok h).elim
  split at h
  · split at h
    · exact key _ _ h
    · exact key _ _ h
    · split at h
      · cases h
      · exact key _ _ h
  · peel h as wd hw
    split at h
    · exact key _ _ h
    · exact key _ _ h
    · split at h
      · cases h
      · exact key _ _ h

/-- everything a successful `cellOf` did -/
theorem cellOf_inv {k : ColorCtx} {R : TblAttrsOf Read} {isLast : Bool} {text : Model.Encode.Str} {width : Option Rat}
    {c : CellFmt} (h : cellOf k R isLast text width = .ok c) :
    ∃ bw tv tf conv w left top bottom vjv vj right,
      R.bWidth = .ok bw ∧ textValsOf R.toTextAttrsOf = .ok tv ∧ resolveText k tv = .ok (tf, conv) ∧ width = some w ∧
      mkBorder k bw R.bLeft R.bcLeft = .ok left ∧ mkBorder k bw R.bTop R.bcTop = .ok top ∧
      mkBorder k bw R.bBottom R.bcBottom = .ok bottom ∧
      (if isLast then some <$> mkBorder k bw R.bRight R.bcRight else pure none) = .ok right ∧
      R.cellVJust = .ok vjv ∧ resolveVJust vjv = .ok vj ∧
      c = { left := some left, top := some top, right := right, bottom := some bottom, valign := vj,
            cellx := twip w, text := tf, body := textNodes (convText conv text) } := by
  unfold cellOf at h
  peel h as bw h1
  dsimp only at h
  peel h as right hr
  peel h as tv htv
  peel h as x hx
  obtain ⟨tf, conv⟩ := x
  cases width with
  | none => exact (throw_ok (bind_ok h).choose_spec.1).elim
  | some w =>
    simp only [pure_bind] at h
    peel h as left hl
    peel h as top ht
    peel h as bottom hb
    peel h as vjv hvjv
    peel h as vj hvj
    cases pure_ok h
    exact ⟨bw, tv, tf, conv, w, left, top, bottom, vjv, vj, right, h1, htv, hx, rfl, hl, ht, hb, hr, hvjv, hvj, rfl⟩


/-- everything a successful `encodeRow` did: one cell per frame cell, each by `encodeCell` at `(r, j)` with the `j`-th
cumulative width, and the two row-level attributes read at `(r, 0)` -/
theorem encodeRow_inv {k : ColorCtx} {A : TblAttrsOf MatV} {cum : List Rat} {r : Nat}
    {cells : List (Option Model.Encode.Str)} {e : Elem} (h : encodeRow k A cum r cells = .ok e) :
    cells ≠ [] ∧ ∃ cs jv just hv hh,
      cs.length = cells.length ∧
      (∀ j cell, cells[j]? = some cell → ∃ c, cs[j]? = some c ∧
        encodeCell k A r j (j + 1 == cells.length) (cell.getD []) cum[j]? = .ok c) ∧
      ilocV A.cellJust r 0 = .ok jv ∧ resolveRowJust jv = .ok just ∧
      ilocV A.cellHeight r 0 = .ok hv ∧ hv.toRat = .ok hh ∧
      e = rowElem { gaph := gaphOf hh, just := just, cells := cs } := by
  unfold encodeRow at h
  dsimp only at h
  split at h
  · peel h as x hx
    exact (throw_ok hx).elim
  · next hn =>
    peel h as cs hcs
    peel h as jv hjv
    peel h as just hjust
    peel h as hv hhv
    peel h as hh hhh
    cases pure_ok h
    have hall := mapM_ok hcs
    have hlen := all2_length hall
    simp only [List.length_zipIdx] at hlen
    refine ⟨fun e => hn (by simp [e]), cs, jv, just, hv, hh, hlen, ?_, hjv, hjust, hhv, hhh, rfl⟩
    intro i c hc
    have := all2_get hall i (c, i) (by simp [List.getElem?_zipIdx, hc])
    simpa using this

/-! ## what the output grammar shows of a row -/

/-- the `\cellx` values of a block of the output grammar (a table row), `none` for plain material -/
def blockCellx : BlockG → Option (List Int)
  | .row _ cells _ => some (cells.map (·.cellx))
  | .plain _ => none

/-- the `\cellx` vectors of the rows of an element -/
def elemCellx (e : Elem) : List (List Int) := e.filterMap blockCellx

theorem elemCellx_rowElem (r : RowFmt) : elemCellx (rowElem r) = [r.cells.map (·.cellx)] := by
  simp [elemCellx, rowElem, rowBlock, blockCellx, List.map_map, Function.comp_def]

/-- the `\cellx` values of an encoded row are the first `cells.length` cumulative widths, in twips -/
theorem encodeRow_cellx {k : ColorCtx} {A : TblAttrsOf MatV} {cum : List Rat} {r : Nat}
    {cells : List (Option Model.Encode.Str)} {e : Elem} (h : encodeRow k A cum r cells = .ok e) :
    cells.length ≤ cum.length ∧ elemCellx e = [(cum.take cells.length).map twip] := by
  obtain ⟨_, cs, jv, just, hv, hh, hlen, hcell, _, _, _, _, rfl⟩ := encodeRow_inv h
  have hw : ∀ i, i < cells.length → ∃ c w, cs[i]? = some c ∧ cum[i]? = some w ∧ c.cellx = twip w := by
    intro i hi
    obtain ⟨c, hc, henc⟩ := hcell i cells[i] (List.getElem?_eq_getElem hi)
    rw [encodeCell_eq_cellOf] at henc
    obtain ⟨_, _, _, _, w, _, _, _, _, _, _, _, _, _, hwd, _, _, _, _, _, _, rfl⟩ := cellOf_inv henc
    exact ⟨_, w, hc, hwd, rfl⟩
  refine ⟨?_, ?_⟩
  · cases hn : cells.length with
    | zero => omega
    | succ n =>
      obtain ⟨_, w, _, hw', _⟩ := hw n (by omega)
      have := (List.getElem?_eq_some_iff.mp hw').1
      omega
  · rw [elemCellx_rowElem]
    congr 1
    apply List.ext_getElem?
    intro i
    by_cases hi : i < cells.length
    · obtain ⟨c, w, hc, hw', hx⟩ := hw i hi
      simp [List.getElem?_map, hc, hx, hi, hw']
    · have h1 : cs.length ≤ i := by omega
      have h2 : ((cum.take cells.length).map twip).length ≤ i := by
        simp only [List.length_map, List.length_take]; omega
      rw [List.getElem?_eq_none (by simpa using h1), List.getElem?_eq_none h2]


/-! ## an accepted run of `encodePages` -/

theorem all2_mem_left {α β : Type} {R : α → β → Prop} {l : List α} {r : List β} (h : All2 R l r) :
    ∀ a ∈ l, ∃ b ∈ r, R a b := by
  induction h with
  | nil => intro a ha; cases ha
  | cons hab _ ih =>
    intro a ha
    rcases List.mem_cons.mp ha with rfl | ha
    · exact ⟨_, List.mem_cons_self, hab⟩
    · obtain ⟨b, hb, hr⟩ := ih a ha
      exact ⟨b, List.mem_cons_of_mem _ hb, hr⟩

theorem mapM_mem_left {ε α β : Type} {f : α → Except ε β} {l : List α} {r : List β} (h : l.mapM f = .ok r) :
    ∀ a ∈ l, ∃ b ∈ r, f a = .ok b :=
  all2_mem_left (mapM_ok h)

theorem mapM_length {ε α β : Type} {f : α → Except ε β} {l : List α} {r : List β} (h : l.mapM f = .ok r) :
    r.length = l.length := all2_length (mapM_ok h)

/-- the value `prepare` returns -/
theorem prepare_eq {d : Doc} {p : Prep} {A : TblAttrsOf MatV} {removed : List Nat} (h : prepare d = .ok p)
    (hA : d.body.attrs.mapM Attr.toNested = .ok A) (hr : removedIdx d = .ok removed) :
    p = { removed := removed, keep := keepMask d.cols.length removed,
          ncolsDisp := Model.Widths.nDisplayed (keepMask d.cols.length removed),
          dispCols := dropCols d.cols removed, dispRows := d.rows.map fun r => dropCols r removed,
          attrs := processedAttrs A d.rows.length d.cols.length removed,
          cum := Model.Widths.bodyCum (d.body.colRelWidth.getD []) (keepMask d.cols.length removed)
            d.page.colWidth } := by
  unfold prepare at h
  peel h as A' hA'
  peel h as rem' hr'
  dsimp only at h
  have h := ite_throw_ok h
  cases pure_ok h
  rw [hA] at hA'
  rw [hr] at hr'
  cases hA'
  cases hr'
  rfl

/-- number of displayed columns = number of kept original indices -/
theorem nDisplayed_keepMask (n : Nat) (removed : List Nat) :
    Model.Widths.nDisplayed (keepMask n removed) = (keptIdx n removed).length := by
  unfold Model.Widths.nDisplayed keepMask keptIdx
  rw [List.count_eq_countP, List.countP_map, List.countP_eq_length_filter]
  congr 1
  apply List.filter_congr
  intro x _
  simp

/-- the role-level document has one row per frame row -/
theorem mkLDoc_length {measure : Measure} {d : Doc} {p : Prep} {ld : Model.Layout.LDoc} {near : Nat}
    (h : mkLDoc measure d p = .ok (ld, near)) (hp : p.dispRows.length = d.rows.length) :
    ld.rows.length = d.rows.length := by
  unfold mkLDoc at h
  dsimp only at h
  peel h as rows hrows
  cases pure_ok h
  have := mapM_length hrows
  simp only [List.length_map, this, List.length_zipIdx, List.length_zip, Proofs.Layout.changes_length, hp,
    Nat.min_self]

/-- the intermediate values of an accepted run of `encodePages` -/
structure Run (measure : Measure) (k : ColorCtx) (d : Doc) where
  p : Prep
  A : TblAttrsOf MatV
  removed : List Nat
  ld : Model.Layout.LDoc
  near : Nat
  rows : List (List (Option Model.Encode.Str))
  ess : List (List Elem)
  hA : d.body.attrs.mapM Attr.toNested = .ok A
  hrem : removedIdx d = .ok removed
  hp : prepare d = .ok p
  hld : mkLDoc measure d p = .ok (ld, near)
  hrows : finalRows d p (ld.pages.map (·.height)) = .ok rows
  hess : (ld.pages.zip (Model.Layout.layout ld)).mapM
    (fun x => Model.Encode.renderPage k d A p rows x.1 x.2) = .ok ess

theorem encodePages_run {measure : Measure} {k : ColorCtx} {d : Doc} {elems : List Elem} {near : Nat}
    (h : encodePages measure k d = .ok (elems, near)) :
    ∃ R : Run measure k d, R.near = near ∧ elems = R.ess.flatten := by
  unfold encodePages at h
  peel h as p hp
  peel h as bodyA hbA
  peel h as x hx
  obtain ⟨ld, near'⟩ := x
  dsimp only at h
  peel h as rows hrows
  peel h as ess hess
  cases pure_ok h
  obtain ⟨removed, A, pf, hA, _⟩ := prepare_facts hp
  have hAA : A = bodyA := by rw [hA] at hbA; exact Except.ok.inj hbA
  subst hAA
  exact ⟨{ p := p, A := A, removed := removed, ld := ld, near := near, rows := rows, ess := ess, hA := hA,
           hrem := pf.rem, hp := hp, hld := hx, hrows := hrows, hess := hess }, rfl, rfl⟩

theorem Run.p_eq {measure : Measure} {k : ColorCtx} {d : Doc} (R : Run measure k d) :
    R.p = { removed := R.removed, keep := keepMask d.cols.length R.removed,
            ncolsDisp := Model.Widths.nDisplayed (keepMask d.cols.length R.removed),
            dispCols := dropCols d.cols R.removed, dispRows := d.rows.map fun r => dropCols r R.removed,
            attrs := processedAttrs R.A d.rows.length d.cols.length R.removed,
            cum := Model.Widths.bodyCum (d.body.colRelWidth.getD []) (keepMask d.cols.length R.removed)
              d.page.colWidth } :=
  prepare_eq R.hp R.hA R.hrem

theorem Run.ld_length {measure : Measure} {k : ColorCtx} {d : Doc} (R : Run measure k d) :
    R.ld.rows.length = d.rows.length :=
  mkLDoc_length R.hld (by rw [R.p_eq]; simp)

theorem mem_zip_map {α β : Type} (f : α → β) : ∀ (l : List α) (a : α) (b : β), (a, b) ∈ l.zip (l.map f) → a ∈ l ∧ b = f a
  | [], _, _, h => by simp at h
  | x :: l, a, b, h => by
    simp only [List.map_cons, List.zip_cons_cons, List.mem_cons, Prod.mk.injEq] at h
    rcases h with ⟨rfl, rfl⟩ | h
    · exact ⟨List.mem_cons_self, rfl⟩
    · obtain ⟨h1, h2⟩ := mem_zip_map f l a b h
      exact ⟨List.mem_cons_of_mem _ h1, h2⟩

/-- a page the encoder renders: a page of the layout together with its block list -/
def Run.Renders {measure : Measure} {k : ColorCtx} {d : Doc} (R : Run measure k d) (pg : Model.Layout.PageCtx)
    (blocks : List Model.Layout.Block) : Prop :=
  (pg, blocks) ∈ R.ld.pages.zip (Model.Layout.layout R.ld)

theorem Run.renders_iff {measure : Measure} {k : ColorCtx} {d : Doc} (R : Run measure k d)
    {pg : Model.Layout.PageCtx} {blocks : List Model.Layout.Block} (h : R.Renders pg blocks) :
    pg ∈ R.ld.pages ∧ blocks = Model.Layout.renderPage R.ld pg :=
  mem_zip_map _ _ _ _ h

/-- every block of every page is rendered by `renderBlock` with the page's `pageAttrs`, and its elements are part of
the output -/
theorem Run.block_rendered {measure : Measure} {k : ColorCtx} {d : Doc} (R : Run measure k d)
    {pg : Model.Layout.PageCtx} {blocks : List Model.Layout.Block} (h : R.Renders pg blocks)
    {b : Model.Layout.Block} (hb : b ∈ blocks) :
    ∃ es, renderBlock k d R.A R.p R.rows pg (pageAttrs d R.A R.p pg) b = .ok es ∧ ∀ e ∈ es, e ∈ R.ess.flatten := by
  obtain ⟨es, hes, hr⟩ := mapM_mem_left R.hess (pg, blocks) h
  unfold Model.Encode.renderPage at hr
  dsimp only at hr
  peel hr as ess' hess'
  cases pure_ok hr
  obtain ⟨es1, hes1, hrb⟩ := mapM_mem_left hess' b hb
  exact ⟨es1, hrb, fun e he => List.mem_flatten.mpr ⟨_, hes, List.mem_flatten.mpr ⟨es1, hes1, he⟩⟩⟩

theorem mem_dataIdx {bs : List Model.Layout.Block} {i : Nat} :
    i ∈ Proofs.Layout.dataIdx bs ↔ Model.Layout.Block.data i ∈ bs := by
  unfold Proofs.Layout.dataIdx
  rw [List.mem_filterMap]
  constructor
  · rintro ⟨b, hb, he⟩
    cases b <;> simp at he
    subst he; exact hb
  · intro h; exact ⟨_, h, rfl⟩

/-- the geometry of a rendered page and of its data blocks -/
theorem Run.page_geometry {measure : Measure} {k : ColorCtx} {d : Doc} (R : Run measure k d)
    {pg : Model.Layout.PageCtx} {blocks : List Model.Layout.Block} (h : R.Renders pg blocks) :
    pg.dataStart = pg.start ∧ pg.start + pg.height ≤ d.rows.length ∧
    ∀ i, Model.Layout.Block.data i ∈ blocks ↔ (pg.start ≤ i ∧ i < pg.start + pg.height) := by
  obtain ⟨hpg, rfl⟩ := R.renders_iff h
  obtain ⟨h1, h2⟩ := Proofs.Layout.pages_bound R.ld pg hpg
  rw [R.ld_length] at h2
  refine ⟨h1, h2, ?_⟩
  intro i
  rw [← mem_dataIdx, Proofs.Layout.renderPage_dataIdx R.ld pg (by rw [R.ld_length]; exact h2), List.mem_range'_1, h1]

/-- every data block of every page is rendered by `encodeRow` on the page's attributes, at the page-relative row
`i - pg.start`, with the body's cumulative widths -/
theorem Run.data_rendered {measure : Measure} {k : ColorCtx} {d : Doc} (R : Run measure k d)
    {pg : Model.Layout.PageCtx} {blocks : List Model.Layout.Block} (h : R.Renders pg blocks)
    {i : Nat} (hb : Model.Layout.Block.data i ∈ blocks) :
    ∃ cells e, R.rows[i]? = some cells ∧
      encodeRow k (pageAttrs d R.A R.p pg).attrs R.p.cum (i - pg.start) cells = .ok e ∧ e ∈ R.ess.flatten := by
  obtain ⟨es, hr, hes⟩ := R.block_rendered h hb
  obtain ⟨hds, _, _⟩ := R.page_geometry h
  simp only [renderBlock] at hr
  cases hc : R.rows[i]? with
  | none => rw [hc] at hr; cases hr
  | some cells =>
    rw [hc] at hr
    dsimp only at hr
    peel hr as e he
    cases pure_ok hr
    rw [hds] at he
    exact ⟨cells, e, rfl, he, hes e (by simp)⟩


/-! ## C09: the binding of every non-edge field -/

/-- shapes of a user attribute on which `BroadcastValue.iloc` is total after `_to_nested_list` -/
def shapeOk : Attr → Bool
  | .null => true
  | .scalar _ => true
  | .list xs => !xs.isEmpty
  | .tuple xs => !xs.isEmpty
  | .nested m => !m.isEmpty && decide (0 < Mat.ncols m) && m.all fun row => row.length == Mat.ncols m

theorem toNested_goodV {a : Attr} {M : MatV} (h : a.toNested = .ok M) (hs : shapeOk a = true) : GoodV M := by
  intro m hm
  subst hm
  cases a with
  | null => simp [Attr.toNested] at h
  | scalar v =>
    simp only [Attr.toNested] at h
    split at h
    · cases h
      exact ⟨by simp, by intro row hr; simp at hr; subst hr; simp [Mat.ncols], by simp [Mat.ncols]⟩
    · cases h
  | list xs =>
    simp only [Attr.toNested] at h
    split at h
    · cases h
      have : 0 < xs.length := by
        cases xs with
        | nil => simp [shapeOk] at hs
        | cons => simp
      exact ⟨by simp, by intro row hr; simp at hr; subst hr; simp [Mat.ncols], by simpa [Mat.ncols] using this⟩
    · split at h
      · next he => simp [shapeOk, he] at hs
      · cases h
  | tuple xs =>
    simp only [Attr.toNested] at h
    cases h
    cases xs with
    | nil => simp [shapeOk] at hs
    | cons x xs =>
      refine ⟨by simp, ?_, by simp [Mat.ncols]⟩
      intro row hr
      simp only [List.map_cons, List.mem_cons, List.mem_map] at hr
      rcases hr with rfl | ⟨y, _, rfl⟩ <;> simp [Mat.ncols]
  | nested mm =>
    simp only [Attr.toNested] at h
    cases h
    simp only [shapeOk, Bool.and_eq_true, decide_eq_true_eq, List.all_eq_true, beq_iff_eq] at hs
    refine ⟨?_, fun row hr => hs.2 row hr, hs.1.2⟩
    intro e; subst e; simp at hs

/-- **binding**: the value `_encode` reads for field `f` at page row `i`, displayed column `j` on the page attributes
is the value the matrix `A` (the user's attribute after `_to_nested_list`) holds at the cell's original position -/
theorem read_binding {d : Doc} {bodyA A : TblAttrsOf MatV} {p : Prep} {removed : List Nat}
    (hattrs : p.attrs = processedAttrs A d.rows.length d.cols.length removed)
    (f : Field) (hf : f.isEdge = false) (hg : GoodV (f.get A)) (pg : Model.Layout.PageCtx)
    (hpage : pg.start + pg.height ≤ d.rows.length) {i j c : Nat} (hi : i < pg.height)
    (hj : (keptIdx d.cols.length removed)[j]? = some c) :
    ilocV (f.get (pageAttrs d bodyA p pg).attrs) i j = ilocV (f.get A) (pg.start + i) c := by
  rw [pageAttrs_get d bodyA p pg f (by omega) hf, hattrs, processed_get]
  exact ilocV_path (f.get A) hg d.rows.length d.cols.length removed pg.start pg.height i j c hpage hi hj

/-! ## C07: the border input of a page -/

open Model.Borders in
/-- the input `pageAttrs` hands to `_apply_pagination_borders` -/
def fillGrid (h w : Nat) (m : MatV) : Mat String :=
  match m with
  | some (r :: rs) => matStr (some (r :: rs))
  | _ => List.replicate h (List.replicate w "")

def borderIn (d : Doc) (bodyA : TblAttrsOf MatV) (p : Prep) (pg : Model.Layout.PageCtx) : Model.Borders.BorderIn :=
  { isFirst := pg.number == 1, isLast := pg.number == pg.total, start := pg.start, height := pg.height,
    width := p.ncolsDisp, top := fillGrid pg.height p.ncolsDisp p.attrs.bTop,
    bottom := fillGrid pg.height p.ncolsDisp p.attrs.bBottom,
    bodyFirst := matStr bodyA.bFirst, bodyTopOrig := matStr bodyA.bTop, bodyLast := matStr bodyA.bLast,
    pageFirst := d.page.borderFirst, pageLast := d.page.borderLast, hasHeaders := hasHeaderRow d,
    fnTableHere := footTableHere d.footnote d.page.pageFootnote (pg.number == 1) (pg.number == pg.total),
    srcTableHere := footTableHere d.source d.page.pageSource (pg.number == 1) (pg.number == pg.total) }

theorem pageAttrs_edges (d : Doc) (bodyA : TblAttrsOf MatV) (p : Prep) (pg : Model.Layout.PageCtx)
    (hh : pg.height ≠ 0) :
    (pageAttrs d bodyA p pg).attrs.bTop = strMat (Model.Borders.applyBorders (borderIn d bodyA p pg)).top ∧
    (pageAttrs d bodyA p pg).attrs.bBottom = strMat (Model.Borders.applyBorders (borderIn d bodyA p pg)).bottom ∧
    (pageAttrs d bodyA p pg).fnOverride = (Model.Borders.applyBorders (borderIn d bodyA p pg)).fnOverride ∧
    (pageAttrs d bodyA p pg).srcOverride = (Model.Borders.applyBorders (borderIn d bodyA p pg)).srcOverride := by
  unfold pageAttrs
  rw [if_neg hh]
  exact ⟨rfl, rfl, rfl, rfl⟩

/-- the string `_apply_pagination_borders` sees of a value -/
def valStr : Val → String
  | .str s => s
  | _ => ""

theorem matStr_some (m : Mat Val) : matStr (some m) = m.map fun row => row.map valStr := by
  unfold matStr
  simp only
  congr 1

theorem ncols_map {α β : Type} (g : α → β) (m : Mat α) : Mat.ncols (m.map fun row => row.map g) = m.ncols := by
  cases m <;> simp [Mat.ncols]

theorem iloc_map {α β : Type} (g : α → β) (m : Mat α) (r c : Nat) :
    Mat.iloc (m.map fun row => row.map g) r c = (m.iloc r c).map g := by
  unfold Mat.iloc
  rw [ncols_map, List.length_map]
  split
  · rfl
  · rw [List.getElem?_map]
    cases m[r % m.length]? with
    | none => rfl
    | some row =>
      simp only [Option.map_some]
      split
      · rfl
      · rw [List.getElem?_map]

theorem good_map {α β : Type} (g : α → β) {m : Mat α} (h : Proofs.Broadcast.Good m) :
    Proofs.Broadcast.Good (m.map fun row => row.map g) := by
  refine ⟨?_, ?_, ?_⟩
  · intro e; exact h.ne (List.map_eq_nil_iff.mp e)
  · intro row hr
    obtain ⟨row', hr', rfl⟩ := List.mem_map.mp hr
    rw [ncols_map, List.length_map]
    exact h.rect row' hr'
  · rw [ncols_map]; exact h.cols

theorem good_replicate {α : Type} (x : α) {h w : Nat} (hh : 0 < h) (hw : 0 < w) :
    Proofs.Broadcast.Good (List.replicate h (List.replicate w x)) := by
  have hn : Mat.ncols (List.replicate h (List.replicate w x)) = w := by
    cases h with
    | zero => omega
    | succ h => simp [Mat.ncols, List.replicate_succ]
  refine ⟨?_, ?_, ?_⟩
  · intro e
    have := congrArg List.length e
    simp at this; omega
  · intro row hr
    rw [hn, (List.mem_replicate.mp hr).2, List.length_replicate]
  · omega

theorem iloc_replicate {α : Type} (x : α) {h w : Nat} (hh : 0 < h) (r : Nat) {c : Nat} (hc : c < w) :
    Mat.iloc (List.replicate h (List.replicate w x)) r c = some x := by
  have hg := good_replicate x hh (show 0 < w by omega)
  have hn : Mat.ncols (List.replicate h (List.replicate w x)) = w := by
    cases h with
    | zero => omega
    | succ h => simp [Mat.ncols, List.replicate_succ]
  rw [Proofs.Broadcast.iloc_eq_cell hg, hn]
  unfold Proofs.Broadcast.cell
  simp only [List.length_replicate]
  have h1 : r % h < h := Nat.mod_lt _ hh
  simp [h1, Nat.mod_eq_of_lt hc, hc]

/-- a matrix `_apply_pagination_borders` can work with: absent, empty (both replaced by a grid of `""`), or
well-formed -/
def GoodOrEmpty (M : MatV) : Prop := ∀ m, M = some m → m = [] ∨ Proofs.Broadcast.Good m

theorem goodV_goodOrEmpty {M : MatV} (h : GoodV M) : GoodOrEmpty M := fun m hm => Or.inr (h m hm)

theorem fillGrid_good {h w : Nat} {M : MatV} (hM : GoodOrEmpty M) (hh : 0 < h) (hw : 0 < w) :
    Proofs.Broadcast.Good (fillGrid h w M) := by
  unfold fillGrid
  split
  · next r rs =>
    rw [matStr_some]
    rcases hM _ rfl with h0 | hg
    · cases h0
    · exact good_map _ hg
  · exact good_replicate _ hh hw

theorem repeatList_nil {α : Type} (n : Nat) : repeatList ([] : List α) n = [] := by
  induction n with
  | zero => rfl
  | succ n ih => simp [repeatList, ih]

theorem expandSlice_nil {α : Type} (rows cols : Nat) (removed : List Nat) :
    Mat.expandSlice ([] : Mat α) rows cols removed = [] := by
  simp [Mat.expandSlice, Mat.toList, repeatList_nil]

/-- the processed matrix of a well-formed (or absent / empty) user matrix is of the same kind -/
theorem processed_goodOrEmpty {A : TblAttrsOf MatV} (f : Field) (hM : GoodOrEmpty (f.get A)) {nrows ncols : Nat}
    (removed : List Nat) (hrows : 0 < nrows) (hk : 0 < (keptIdx ncols removed).length) :
    GoodOrEmpty (f.get (processedAttrs A nrows ncols removed)) := by
  rw [processed_get]
  split
  · exact hM
  · intro m hm
    cases hfa : f.get A with
    | none => rw [hfa] at hm; cases hm
    | some m0 =>
      rw [hfa] at hm
      simp only [Option.map_some, Option.some.injEq] at hm
      subst hm
      rcases hM m0 hfa with rfl | hg
      · left; exact expandSlice_nil _ _ _
      · right; exact expandSlice_good hg removed hrows hk


theorem ilocV_strMat {M : Mat String} {i j : Nat} {s : String} (h : M.iloc i j = some s) :
    ilocV (strMat M) i j = .ok (.str s) := by
  unfold strMat ilocV
  simp only
  have hi := iloc_map Val.str M i j
  rw [h] at hi
  have hl : ¬ (M.length = 0) := by
    intro h0; unfold Mat.iloc at h; rw [if_pos h0] at h; cases h
  have hc : ¬ (M.ncols = 0) := by
    intro h0; unfold Mat.iloc at h; rw [if_neg hl] at h
    split at h
    · cases h
    · rw [if_pos h0] at h; cases h
  rw [if_neg (by simp only [ncols_map, List.length_map, Bool.or_eq_true, decide_eq_true_eq]; omega), hi]
  rfl

/-- the user's border style of the cell at its original position as `_apply_pagination_borders` sees it: the string
value (`""` for anything that is no string), `""` when the attribute is absent or empty -/
def edgeStr (M : MatV) (r c : Nat) : Option String :=
  match M with
  | some (x :: xs) => (Mat.iloc (x :: xs) r c).map valStr
  | _ => some ""

/-- the filled processed matrix holds, at (table row, displayed column), the user's style of the original position -/
theorem fill_iloc {A : TblAttrsOf MatV} (f : Field) (hM : GoodOrEmpty (f.get A)) {nrows ncols : Nat}
    (removed : List Nat) {h w r j c : Nat} (hh : 0 < h) (hr : r < nrows) (hjw : j < w)
    (hj : (keptIdx ncols removed)[j]? = some c) :
    (fillGrid h w (f.get (processedAttrs A nrows ncols removed))).iloc r j = edgeStr (f.get A) r c := by
  have hjlt : j < (keptIdx ncols removed).length := (List.getElem?_eq_some_iff.mp hj).1
  rw [processed_get]
  cases hfa : f.get A with
  | none =>
    have : (if removed.isEmpty then (none : MatV) else (none : MatV).map fun m => m.expandSlice nrows ncols removed)
        = none := by split <;> rfl
    rw [this]
    exact iloc_replicate "" hh r hjw
  | some m =>
    rcases hM m hfa with rfl | hg
    · have : (if removed.isEmpty then (some [] : MatV) else (some [] : MatV).map fun m =>
          m.expandSlice nrows ncols removed) = some [] := by
        split
        · rfl
        · simp [expandSlice_nil]
      rw [this]
      exact iloc_replicate "" hh r hjw
    · cases m with
      | nil => exact absurd rfl hg.ne
      | cons x xs =>
        show _ = (Mat.iloc (x :: xs) r c).map valStr
        by_cases hrem : removed.isEmpty = true
        · rw [if_pos hrem]
          have : removed = [] := List.isEmpty_iff.mp hrem
          subst this
          have hnil : keptIdx ncols [] = List.range ncols := by simp [keptIdx]
          rw [hnil] at hj hjlt
          rw [List.getElem?_range (by simpa using hjlt)] at hj
          cases hj
          show Mat.iloc (matStr (some (x :: xs))) r j = _
          rw [matStr_some, iloc_map]
        · rw [if_neg hrem]
          have hge := expandSlice_good hg removed (show 0 < nrows by omega)
            (show 0 < (keptIdx ncols removed).length by omega)
          simp only [Option.map_some]
          cases he : Mat.expandSlice (x :: xs) nrows ncols removed with
          | nil => exact absurd he hge.ne
          | cons y ys =>
            show Mat.iloc (matStr (some (y :: ys))) r j = _
            rw [matStr_some, iloc_map, ← he,
              Proofs.BroadcastAttr.expandSlice_iloc (x :: xs) nrows ncols removed r j c hg.ne hg.rect hg.cols hr hj]

/-- both matrices handed to `_apply_pagination_borders` are well-formed on a non-empty page with ≥ 1 column -/
theorem borderIn_good {d : Doc} {bodyA : TblAttrsOf MatV} {p : Prep} {pg : Model.Layout.PageCtx}
    (hh : 0 < pg.height) (hw : 0 < p.ncolsDisp) (ht : GoodOrEmpty p.attrs.bTop) (hb : GoodOrEmpty p.attrs.bBottom) :
    Proofs.Broadcast.Good (borderIn d bodyA p pg).top ∧ Proofs.Broadcast.Good (borderIn d bodyA p pg).bottom :=
  ⟨fillGrid_good ht hh hw, fillGrid_good hb hh hw⟩


/-! ## all fields, records with replaced edges, the run behind `encode` -/

def Field.all : List Field := [.font, .format, .size, .color, .bg, .just, .indFirst, .indLeft, .indRight, .space, .spBefore, .spAfter, .hyph, .convert, .bLeft, .bRight, .bTop, .bBottom, .bFirst, .bLast, .bcLeft, .bcRight, .bcTop, .bcBottom, .bcFirst, .bcLast, .bWidth, .cellHeight, .cellJust, .cellVJust, .cellNrow]

theorem Field.mem_all (f : Field) : f ∈ Field.all := by cases f <;> decide

/-- every non-edge body attribute has a shape on which `iloc` is total -/
def bodyShapesOk (d : Doc) : Bool := Field.all.all fun f => f.isEdge || shapeOk (f.get d.body.attrs)

theorem bodyShapesOk_field {d : Doc} (h : bodyShapesOk d = true) (f : Field) (hf : f.isEdge = false) :
    shapeOk (f.get d.body.attrs) = true := by
  have := List.all_eq_true.mp h f f.mem_all
  simpa [hf] using this

/-- the record `X` with the two edge fields replaced -/
def withEdges {α : Type} (X : TblAttrsOf α) (t b : α) : TblAttrsOf α := { X with bTop := t, bBottom := b }

theorem get_withEdges {α : Type} (X : TblAttrsOf α) (t b : α) (f : Field) :
    f.get (withEdges X t b) = match f with
      | .bTop => t
      | .bBottom => b
      | f => f.get X := by
  cases f <;> rfl

theorem encode_run {measure : Measure} {d : Doc} {g : DocG} (h : encode measure d = .ok g) :
    ∃ R : Run measure (mkColorCtx d) d,
      g.blocks = joinElems R.ess.flatten ++ [BlockG.plain [Node.nl, Node.nl, Node.nl, Node.nl]] := by
  unfold encode at h
  obtain ⟨x, hx, rfl⟩ := map_ok h
  unfold encodeWith at hx
  dsimp only at hx
  peel hx as y hy
  obtain ⟨elems, near⟩ := y
  obtain ⟨R, _, rfl⟩ := encodePages_run hy
  simp only [pure_bind, throw_bind'] at hx
  split at hx
  · split at hx
    · peel hx as ph hph
      peel hx as pf hpf
      peel hx as ps hps
      cases pure_ok hx
      exact ⟨R, rfl⟩
    · cases hx
  · cases hx


/-! ## the final frame keeps the number of displayed columns (group_by included) -/

section GroupBy
open Model.GroupBy

theorem setCol_names {f : Frame} {name : Model.GroupBy.Str} (v : Col) (h : name ∈ names f) :
    names (setCol f name v) = names f := by
  unfold setCol
  rw [if_pos h]
  simp only [names, List.map_map]
  apply List.map_congr_left
  intro q _
  simp only [Function.comp]
  split <;> rfl

theorem foldl_setCol_names {α : Type} (df : Frame) (l : List α) (nm : α → Model.GroupBy.Str) (val : Frame → α → Col)
    (hl : ∀ a ∈ l, nm a ∈ names df) (f0 : Frame) (h0 : names f0 = names df) :
    names (l.foldl (fun res a => setCol res (nm a) (val res a)) f0) = names df := by
  induction l generalizing f0 with
  | nil => exact h0
  | cons a l ih =>
    simp only [List.foldl_cons]
    apply ih (fun b hb => hl b (List.mem_cons_of_mem _ hb))
    rw [setCol_names _ (by rw [h0]; exact hl a List.mem_cons_self), h0]

theorem enhanceGroupBy_names {df s : Frame} {gb : List Model.GroupBy.Str} (h : enhanceGroupBy df gb = .ok s) :
    names s = names df ∧ ((gb = [] ∨ height df = 0) ∨ ∀ c ∈ gb, c ∈ names df) := by
  unfold enhanceGroupBy at h
  split at h
  · next h0 =>
    cases h
    exact ⟨rfl, Or.inl (by simpa using h0)⟩
  · split at h
    · cases h
    · next hall =>
      have hsub : ∀ c ∈ gb, c ∈ names df := by
        intro c hc
        have := hall
        simp only [List.any_eq_true, Bool.not_eq_true', not_exists, not_and] at this
        have := this c hc
        simpa using this
      split at h
      · cases h
      · split at h
        · cases h
          refine ⟨?_, Or.inr hsub⟩
          unfold suppressSingle
          exact setCol_names _ (hsub _ (List.mem_singleton.mpr rfl))
        · cases h
          refine ⟨?_, Or.inr hsub⟩
          unfold suppressHier
          exact foldl_setCol_names df gb.zipIdx (fun q => q.1) (fun _ q => levelValues df gb q.2 q.1)
            (fun a ha => hsub a.1 (List.fst_mem_of_mem_zipIdx ha)) df rfl

theorem restoreOne_names {orig res : Frame} {gb : List Model.GroupBy.Str} (idx : Nat)
    (hsub : ∀ c ∈ gb, c ∈ names orig) (hres : names res = names orig) :
    names (restoreOne orig gb res idx) = names orig := by
  unfold restoreOne
  split
  · exact foldl_setCol_names orig gb (fun c => c) (fun r c => (getCol r c).set idx (cellAt (getCol orig c) idx))
      hsub res hres
  · exact hres

theorem restored_names {df f : Frame} {gb : List Model.GroupBy.Str} {heights : List Nat}
    (h : restored df gb heights = .ok f) : names f = names df := by
  unfold restored at h
  split at h
  · cases h
  · next s hs =>
    cases h
    obtain ⟨hn, hcase⟩ := enhanceGroupBy_names hs
    unfold restorePageContext
    split
    · exact hn
    · rcases hcase with (h0 | h0) | hsub
      · next hne => simp [h0] at hne
      · -- empty frame: `restoreOne` never writes
        have : ∀ (l : List Nat) (r : Frame), names r = names df → names (l.foldl (restoreOne df gb) r) = names df := by
          intro l
          induction l with
          | nil => intro r hr; exact hr
          | cons a l ih =>
            intro r hr
            simp only [List.foldl_cons]
            apply ih
            unfold restoreOne
            rw [if_neg (by omega)]
            exact hr
        exact this _ _ hn
      · have : ∀ (l : List Nat) (r : Frame), names r = names df → names (l.foldl (restoreOne df gb) r) = names df := by
          intro l
          induction l with
          | nil => intro r hr; exact hr
          | cons a l ih =>
            intro r hr
            simp only [List.foldl_cons]
            exact ih _ (restoreOne_names a hsub hr)
        exact this _ _ hn

end GroupBy

/-- every row of the final frame has one cell per displayed column name -/
theorem finalRows_width {d : Doc} {p : Prep} {heights : List Nat} {rows : List (List (Option Model.Encode.Str))}
    (h : finalRows d p heights = .ok rows) (hp : ∀ r ∈ p.dispRows, r.length = p.dispCols.length) :
    ∀ r ∈ rows, r.length = p.dispCols.length := by
  unfold finalRows at h
  simp only at h
  split at h
  · cases h; exact hp
  · split at h
    · next f hf =>
      cases h
      intro r hr
      unfold ofFrame at hr
      obtain ⟨i, _, rfl⟩ := List.mem_map.mp hr
      have := congrArg List.length (restored_names hf)
      simp only [Model.GroupBy.names, List.length_map, toFrame, List.length_zipIdx] at this
      simp only [List.length_map, this]
    · cases h

/-- a rectangular frame: every row has one value per column -/
def frameRect (d : Doc) : Bool := d.rows.all fun r => r.length == d.cols.length

/-- in a run on a rectangular frame every final row has `ncolsDisp` cells, and there are as many cumulative widths
when the width vector is absent or has one entry per column -/
theorem Run.rows_width {measure : Measure} {k : ColorCtx} {d : Doc} (R : Run measure k d) (hf : frameRect d = true) :
    ∀ r ∈ R.rows, r.length = R.p.ncolsDisp := by
  have hn : R.p.ncolsDisp = R.p.dispCols.length := by
    rw [R.p_eq]
    simp only
    rw [nDisplayed_keepMask, Proofs.BroadcastAttr.dropCols_length]
  rw [hn]
  apply finalRows_width R.hrows
  intro r hr
  rw [R.p_eq] at hr ⊢
  simp only at hr ⊢
  obtain ⟨r0, hr0, rfl⟩ := List.mem_map.mp hr
  have := List.all_eq_true.mp hf r0 hr0
  rw [Proofs.BroadcastAttr.dropCols_length, Proofs.BroadcastAttr.dropCols_length, beq_iff_eq.mp this]


/-! ## C08: the `\cellx` vectors of the other row kinds -/

theorem encodeRows_single {k : ColorCtx} {A : TblAttrsOf MatV} {cw : List Rat} {cells : List (Option Model.Encode.Str)}
    {es : List Elem} (h : encodeRows k A cw 0 [cells] = .ok es) :
    ∃ e, es = [e] ∧ encodeRow k A cw 0 cells = .ok e := by
  unfold encodeRows at h
  simp only [List.zipIdx_cons, List.zipIdx_nil, List.mapM_cons, List.mapM_nil] at h
  peel h as e he
  cases pure_ok h
  exact ⟨e, rfl, he⟩

/-- the spanning heading row is one cell ending at `col_width` (8.5in when that is 0) -/
theorem spanningRow_cellx {k : ColorCtx} {d : Doc} {bodyA : TblAttrsOf MatV} {level : Nat} {text : String} {e : Elem}
    (h : spanningRow k d bodyA level text = .ok e) : elemCellx e = [Model.Widths.spanRow d.page.colWidth] := by
  unfold spanningRow at h
  dsimp only at h
  peel h as x1 h1
  peel h as x2 h2
  peel h as x3 h3
  peel h as x4 h4
  peel h as x5 h5
  peel h as x6 h6
  peel h as x7 h7
  peel h as x8 h8
  peel h as x9 h9
  peel h as x10 h10
  peel h as x11 h11
  peel h as x12 h12
  peel h as x13 h13
  peel h as x14 h14
  peel h as x hx
  peel h as vjv hvjv
  peel h as vj hvj
  peel h as jv hjv
  peel h as just hjust
  peel h as hv hhv
  peel h as hh hhh
  peel h as bl hbl
  peel h as bt hbt
  peel h as br hbr
  peel h as bb hbb
  cases pure_ok h
  rw [elemCellx_rowElem]
  rfl

/-- a footnote / source rendered as table is one row of one cell ending at the LAST boundary of its own width
vector (the table's right edge; repo fix — formerly the first boundary) -/
theorem renderFoot_cellx {k : ColorCtx} {d : Doc} {f : Foot} {o : Option String} {es : List Elem}
    (h : renderFoot k d f o = .ok es) (ht : f.asTable = true) :
    ∃ w e, f.colRelWidth = some w ∧ es = [e] ∧
      elemCellx e = [(Model.Widths.colWidths w d.page.colWidth).getLast?.toList.map twip] ∧
      1 ≤ (Model.Widths.colWidths w d.page.colWidth).length := by
  unfold renderFoot at h
  peel h as A hA
  simp only [ht, Bool.not_true, Bool.false_eq_true, if_false] at h
  cases hw : f.colRelWidth with
  | none => rw [hw] at h; exact (throw_ok h).elim
  | some w =>
    rw [hw] at h
    dsimp only at h
    have h := ite_throw_ok h
    obtain ⟨e, rfl, he⟩ := encodeRows_single h
    obtain ⟨h1, h2⟩ := encodeRow_cellx he
    simp only [List.length_cons, List.length_nil, Nat.zero_add] at h1 h2
    cases hl : (Model.Widths.colWidths w d.page.colWidth).getLast? with
    | none => rw [hl] at h1; simp at h1
    | some c =>
      rw [hl] at h2
      have hne : Model.Widths.colWidths w d.page.colWidth ≠ [] := by
        intro hnil; rw [hnil] at hl; simp at hl
      refine ⟨w, e, rfl, rfl, by rw [hl]; simpa using h2, ?_⟩
      exact Nat.pos_of_ne_zero (by simpa using hne)

/-- a rendered column header row: its cells end at the first `n` boundaries of the vector `renderHeader` chooses -/
theorem headerInner_cellx {k : ColorCtx} {d : Doc} {p : Prep} {isFirst : Bool} {idx : Nat} {hdr : Header}
    {text : List Model.Encode.Str} {es : List Elem} (h : headerInner k d p isFirst idx hdr text = .ok es) :
    ∃ e, es = [e] ∧
      text.length ≤ (Model.Widths.colWidths (headerV (hdr.colRelWidth.map fun w =>
        Model.Widths.headerDisplayed w p.keep text.length) text.length) d.page.colWidth).length ∧
      elemCellx e = [((Model.Widths.colWidths (headerV (hdr.colRelWidth.map fun w =>
        Model.Widths.headerDisplayed w p.keep text.length) text.length) d.page.colWidth).take text.length).map twip] := by
  unfold headerInner at h
  dsimp only at h
  split at h
  · simp only [throw_bind'] at h; cases h
  · peel h as A hA
    by_cases hs : Model.Widths.sumQ (headerV (Option.map (fun w => Model.Widths.headerDisplayed w p.keep text.length)
        hdr.colRelWidth) text.length) = 0
    · simp only [hs, if_true, throw_bind'] at h; cases h
    · simp only [hs, if_false] at h
      obtain ⟨e, rfl, he⟩ := encodeRows_single h
      obtain ⟨h1, h2⟩ := encodeRow_cellx he
      simp only [List.length_map] at h1 h2
      exact ⟨e, rfl, h1, h2⟩


/-- the cells of a column header: its own text, or the displayed column names under `as_colheader` -/
def headerText (d : Doc) (p : Prep) (h : Header) : Option (List Model.Encode.Str) :=
  match h.text with
  | some t => some t
  | none => if d.body.asColheader then some p.dispCols else none

theorem renderHeader_text {k : ColorCtx} {d : Doc} {p : Prep} {isFirst : Bool} {idx : Nat} {h : Header}
    {es : List Elem} (hr : renderHeader k d p isFirst idx h = .ok es) :
    (headerText d p h = none ∧ es = []) ∨
    ∃ text, headerText d p h = some text ∧ headerInner k d p isFirst idx h text = .ok es := by
  rw [renderHeader_eq] at hr
  unfold headerText
  cases ht : h.text with
  | some t =>
    rw [ht] at hr
    exact Or.inr ⟨t, rfl, hr⟩
  | none =>
    rw [ht] at hr
    cases hc : d.body.asColheader with
    | true =>
      rw [hc] at hr
      exact Or.inr ⟨p.dispCols, by simp, hr⟩
    | false =>
      rw [hc] at hr
      exact Or.inl ⟨by simp, (pure_ok hr).symm⟩

end Proofs.EncodeAttrs
