import Proofs.EncodeTotalBase
/-!
Totality of the encoder model, part 2: the resolvers of one text run / border / cell, `_encode_text` and
`TableAttributes._encode` succeed on readable attribute matrices.
-/
namespace Proofs.EncodeTotal
open Model.Encode Model.EncodeAccepted Model.Broadcast Model.Emit Generated
open Proofs.Encode (MemV)
open Proofs.EncodeAttrs (Field GoodV)

/-! ## what the resolvers need of a value (weaker than the validators: the defaults of `encode_spanning_row` pass) -/

def wInt (v : Val) : Prop := ∃ i, v.toInt = .ok i
def wRat (v : Val) : Prop := ∃ q, v.toRat = .ok q
def wBool (v : Val) : Prop := ∃ b, v.toBool = .ok b
def wFormat (v : Val) : Prop := v = .null ∨ okFormat v = true
def wOptStr (v : Val) : Prop := v = .null ∨ ∃ s, v = .str s

theorem wInt_of_okFont {v : Val} (h : okFont v = true) : wInt v := by
  cases v <;> simp [okFont] at h; exact ⟨_, rfl⟩
theorem wInt_of_okInt {v : Val} (h : okInt v = true) : wInt v := by
  cases v <;> simp [okInt] at h; exact ⟨_, rfl⟩
theorem wInt_of_okPosInt {v : Val} (h : okPosInt v = true) : wInt v := by
  cases v <;> simp [okPosInt] at h; exact ⟨_, rfl⟩
theorem wRat_of_okPosNum {v : Val} (h : okPosNum v = true) : wRat v := by
  cases v <;> simp [okPosNum] at h <;> exact ⟨_, rfl⟩
theorem wBool_of_okBool {v : Val} (h : okBool v = true) : wBool v := by
  cases v <;> simp [okBool] at h; exact ⟨_, rfl⟩
theorem wOptStr_of_okColor {v : Val} (h : okColor v = true) : wOptStr v := by
  cases v <;> simp [okColor] at h; exact Or.inr ⟨_, rfl⟩

structure TVOk (tv : TextVals) : Prop where
  font : wInt tv.font
  size : wRat tv.size
  format : wFormat tv.format
  color : wOptStr tv.color
  bg : wOptStr tv.bg
  just : okTextJust tv.just = true
  indFirst : wInt tv.indFirst
  indLeft : wInt tv.indLeft
  indRight : wInt tv.indRight
  space : wInt tv.space
  spBefore : wInt tv.spBefore
  spAfter : wInt tv.spAfter
  convert : wBool tv.convert
  hyph : wBool tv.hyph

theorem mem_insertChar {c x : Char} : ∀ {l : List Char}, x ∈ insertChar c l → x = c ∨ x ∈ l
  | [], h => by simp [insertChar] at h; exact Or.inl h
  | d :: ds, h => by
    simp only [insertChar] at h
    split at h
    · rcases List.mem_cons.mp h with rfl | h
      · exact Or.inl rfl
      · exact Or.inr h
    · split at h
      · exact Or.inr h
      · rcases List.mem_cons.mp h with rfl | h
        · exact Or.inr (by simp)
        · rcases mem_insertChar h with rfl | h
          · exact Or.inl rfl
          · exact Or.inr (by simp [h])

theorem mem_sortedSet {x : Char} : ∀ {l : List Char}, x ∈ sortedSet l → x ∈ l
  | [], h => by simp [sortedSet] at h
  | c :: cs, h => by
    simp only [sortedSet, List.foldr_cons] at h
    rcases mem_insertChar h with rfl | h
    · simp
    · exact List.mem_cons_of_mem _ (mem_sortedSet (l := cs) h)

theorem toOptStr_of_wOptStr {v : Val} (h : wOptStr v) : ∃ o, v.toOptStr = .ok o := by
  rcases h with rfl | ⟨s, rfl⟩
  · exact ⟨none, rfl⟩
  · exact ⟨some s, rfl⟩

/-- the format letters resolve -/
theorem formats_total {s : String} (h : okFormat (.str s) = true) :
    ∃ fmts, ((sortedSet s.toList).mapM fun ch =>
      match formatCodes.lookup (String.ofList [ch]) with
      | some c => (pure (codeWord c) : Except String (List Char))
      | none => throw "ValueError") = .ok fmts := by
  apply mapM_total
  intro ch hch
  have := List.all_eq_true.mp h ch (mem_sortedSet hch)
  cases hl : formatCodes.lookup (String.ofList [ch]) with
  | none => rw [hl] at this; cases this
  | some c => exact ⟨codeWord c, rfl⟩

/-- construction of one `TextContent` and its formatting succeed -/
theorem resolveText_total (k : ColorCtx) {tv : TextVals} (h : TVOk tv) : ∃ x, resolveText k tv = .ok x := by
  obtain ⟨font, h1⟩ := h.font
  obtain ⟨size, h2⟩ := h.size
  obtain ⟨color, h4⟩ := toOptStr_of_wOptStr h.color
  obtain ⟨bg, h5⟩ := toOptStr_of_wOptStr h.bg
  have h6 : ∃ s c, tv.just = .str s ∧ textJustCodes.lookup s = some c := by
    have := h.just
    cases hj : tv.just with
    | str s =>
      rw [hj] at this
      simp only [okTextJust] at this
      cases hl : textJustCodes.lookup s with
      | none => rw [hl] at this; cases this
      | some c => exact ⟨s, c, rfl, hl⟩
    | _ => rw [hj] at this; simp [okTextJust] at this
  obtain ⟨js, jc, h6, h6'⟩ := h6
  obtain ⟨fi, h7⟩ := h.indFirst
  obtain ⟨li, h8⟩ := h.indLeft
  obtain ⟨ri, h9⟩ := h.indRight
  obtain ⟨space, h10⟩ := h.space
  obtain ⟨sb, h11⟩ := h.spBefore
  obtain ⟨sa, h12⟩ := h.spAfter
  obtain ⟨conv, h13⟩ := h.convert
  obtain ⟨hyph, h14⟩ := h.hyph
  have h6s : tv.just.toStr = .ok js := by rw [h6]; rfl
  unfold resolveText
  rcases h.format with h3 | h3
  · have h3' : tv.format.toOptStr = .ok none := by rw [h3]; rfl
    simp only [h1, h2, h3', h4, h5, h6s, h7, h8, h9, h10, h11, h12, h13, h14, ok_bind, h6', pure_eq_ok]
    exact ⟨_, rfl⟩
  · cases hf : tv.format with
    | str s =>
      rw [hf] at h3
      have h3' : tv.format.toOptStr = .ok (some s) := by rw [hf]; rfl
      rw [hf] at h3'
      simp only [h1, h2, h3', h4, h5, h6s, h7, h8, h9, h10, h11, h12, h13, h14, ok_bind, h6', pure_eq_ok]
      generalize hF : List.mapM (m := Except String) _ (sortedSet s.toList) = X
      have hX : ∃ fmts, X = .ok fmts := by
        rw [← hF]
        apply mapM_total
        intro ch hch
        have := List.all_eq_true.mp h3 ch (mem_sortedSet hch)
        cases hl : formatCodes.lookup (String.ofList [ch]) with
        | none => rw [hl] at this; cases this
        | some c => exact ⟨codeWord c, rfl⟩
      obtain ⟨fmts, rfl⟩ := hX
      exact ⟨_, rfl⟩
    | _ => rw [hf] at h3; simp [okFormat] at h3

/-! ## the values of one text position -/

theorem okFormat_w {s : Spec} {v : Val} (hs : s.ok = okFormat) (h : s.ok v = true ∨ (v = .null ∧ True)) : wFormat v := by
  rcases h with h | ⟨h, _⟩
  · right; rw [← hs]; exact h
  · left; exact h

theorem textValsAt_total {a : TextAttrsOf MatV} (h : TextGood a) (r c : Nat) :
    ∃ tv, textValsAt a r c = .ok tv ∧ TVOk tv := by
  obtain ⟨v1, h1, g1⟩ := ilocV_req (h .font) rfl r c
  obtain ⟨v2, h2, g2⟩ := ilocV_req (h .size) rfl r c
  obtain ⟨v3, h3, g3⟩ := ilocV_total (h .format) r c
  obtain ⟨v4, h4, g4⟩ := ilocV_total (h .color) r c
  obtain ⟨v5, h5, g5⟩ := ilocV_total (h .bg) r c
  obtain ⟨v6, h6, g6⟩ := ilocV_req (h .just) rfl r c
  obtain ⟨v7, h7, g7⟩ := ilocV_req (h .indFirst) rfl r c
  obtain ⟨v8, h8, g8⟩ := ilocV_req (h .indLeft) rfl r c
  obtain ⟨v9, h9, g9⟩ := ilocV_req (h .indRight) rfl r c
  obtain ⟨v10, h10, g10⟩ := ilocV_req (h .space) rfl r c
  obtain ⟨v11, h11, g11⟩ := ilocV_req (h .spBefore) rfl r c
  obtain ⟨v12, h12, g12⟩ := ilocV_req (h .spAfter) rfl r c
  obtain ⟨v13, h13, g13⟩ := ilocV_req (h .convert) rfl r c
  obtain ⟨v14, h14, g14⟩ := ilocV_req (h .hyph) rfl r c
  simp only [TField.get] at h1 h2 h3 h4 h5 h6 h7 h8 h9 h10 h11 h12 h13 h14
  simp only [TField.get, textSpec] at g1 g2 g3 g4 g5 g6 g7 g8 g9 g10 g11 g12 g13 g14
  refine ⟨{ font := v1, size := v2, format := v3, color := v4, bg := v5, just := v6, indFirst := v7, indLeft := v8,
            indRight := v9, space := v10, spBefore := v11, spAfter := v12, convert := v13, hyph := v14 }, ?_, ?_⟩
  · simp only [textValsAt, h1, h2, h3, h4, h5, h6, h7, h8, h9, h10, h11, h12, h13, h14, ok_bind, pure_eq_ok]
  · exact {
      font := wInt_of_okFont g1, size := wRat_of_okPosNum g2,
      format := by rcases g3 with g | ⟨g, _⟩; exact Or.inr g; exact Or.inl g,
      color := by rcases g4 with g | ⟨g, _⟩; exact wOptStr_of_okColor g; exact Or.inl g,
      bg := by rcases g5 with g | ⟨g, _⟩; exact wOptStr_of_okColor g; exact Or.inl g,
      just := g6, indFirst := wInt_of_okInt g7, indLeft := wInt_of_okInt g8, indRight := wInt_of_okInt g9,
      space := wInt_of_okInt g10, spBefore := wInt_of_okInt g11, spAfter := wInt_of_okInt g12,
      convert := wBool_of_okBool g13, hyph := wBool_of_okBool g14 }

/-! ## `_encode_text` -/

theorem resolveLines_total (k : ColorCtx) {a : TextAttrsOf MatV} (h : TextGood a) (text : List Str) :
    ∃ ls, resolveLines k a text = .ok ls ∧ ls.length = text.length := by
  have : ∃ ls, resolveLines k a text = .ok ls := by
    unfold resolveLines
    apply mapM_total
    intro x _
    obtain ⟨tv, htv, hok⟩ := textValsAt_total h x.2 0
    obtain ⟨y, hy⟩ := resolveText_total k hok
    obtain ⟨f, conv⟩ := y
    refine ⟨(f, textNodes (convText conv x.1)), ?_⟩
    simp only [htv, hy, ok_bind, pure_eq_ok]
  obtain ⟨ls, hls⟩ := this
  refine ⟨ls, hls, ?_⟩
  have := Proofs.EncodeAttrs.mapM_length hls
  simpa using this

theorem encodeTextLine_total (k : ColorCtx) {a : TextAttrsOf MatV} (h : TextGood a) {text : List Str}
    (hne : text ≠ []) : ∃ n, encodeTextLine k a text = .ok n := by
  obtain ⟨ls, hls, hlen⟩ := resolveLines_total k h text
  unfold encodeTextLine
  simp only [hls, ok_bind]
  cases hl : ls.getLast? with
  | none =>
    rw [List.getLast?_eq_none_iff] at hl
    subst hl
    exact absurd (List.eq_nil_of_length_eq_zero hlen.symm) hne
  | some x => exact ⟨_, rfl⟩

theorem encodeTextParas_total (k : ColorCtx) {a : TextAttrsOf MatV} (h : TextGood a) (text : List Str) :
    ∃ ns, encodeTextParas k a text = .ok ns := by
  obtain ⟨ls, hls, _⟩ := resolveLines_total k h text
  unfold encodeTextParas
  simp only [hls, ok_bind, pure_eq_ok]
  exact ⟨_, rfl⟩

/-! ## borders, alignment -/

theorem lookup_of_isSome {l : List (String × String)} {s : String} (h : (l.lookup s).isSome = true) :
    ∃ c, l.lookup s = some c := by
  cases hl : l.lookup s with
  | none => rw [hl] at h; cases h
  | some c => exact ⟨c, rfl⟩

/-- `Border(style=…, width=…, color=…)` and its code-table lookup -/
theorem resolveBorder_total (k : ColorCtx) {style width color : Val} (hs : okBorder style = true)
    (hw : width = .null ∨ wInt width) (hc : wOptStr color) : ∃ b, resolveBorder k style width color = .ok b := by
  cases style with
  | str st =>
    obtain ⟨code, hcode⟩ := lookup_of_isSome (l := borderCodes) (s := st) hs
    unfold resolveBorder
    simp only [Val.toStr, ok_bind]
    rcases hc with rfl | ⟨s, rfl⟩
    · rcases hw with rfl | ⟨i, hi⟩
      · simp only [pure_eq_ok, ok_bind, hcode]; exact ⟨_, rfl⟩
      · cases width <;> simp only [pure_eq_ok, ok_bind, hcode, hi] <;> exact ⟨_, rfl⟩
    · rcases hw with rfl | ⟨i, hi⟩
      · simp only [pure_eq_ok, ok_bind, hcode]; exact ⟨_, rfl⟩
      · cases width <;> simp only [pure_eq_ok, ok_bind, hcode, hi] <;> exact ⟨_, rfl⟩
  | _ => simp [okBorder] at hs

theorem resolveVJust_total {v : Val} (h : v = .null ∨ okVJust v = true) : ∃ ws, resolveVJust v = .ok ws := by
  rcases h with rfl | h
  · exact ⟨[], rfl⟩
  · cases v with
    | str s =>
      obtain ⟨code, hcode⟩ := lookup_of_isSome (l := vertAlignCodes) (s := s) h
      exact ⟨codeWords code, by simp [resolveVJust, hcode]⟩
    | _ => simp [okVJust] at h

theorem resolveRowJust_total {v : Val} (h : okRowJust v = true) : ∃ w, resolveRowJust v = .ok w := by
  cases v with
  | str s =>
    obtain ⟨code, hcode⟩ := lookup_of_isSome (l := rowJustCodes) (s := s) h
    exact ⟨codeWord code, by simp [resolveRowJust, Val.toStr, hcode]⟩
  | _ => simp [okRowJust] at h

/-! ## `TableAttributes._encode` -/

theorem wOptStr_of_color {s : Spec} {v : Val} {M : MatV} (hs : s.ok = okColor)
    (h : s.ok v = true ∨ (v = .null ∧ M = none)) : wOptStr v := by
  rcases h with h | ⟨h, _⟩
  · rw [hs] at h; exact wOptStr_of_okColor h
  · exact Or.inl h

/-- one border of a cell of a readable table component -/
theorem mkBorder_total (k : ColorCtx) {A : TblAttrsOf MatV} (hA : TblGood A) (fs fc : Field)
    (hfs : (fs.get tblSpec).ok = okBorder ∧ (fs.get tblSpec).req = true) (hfc : (fc.get tblSpec).ok = okColor)
    {bw : Val} (hbw : bw = .null ∨ wInt bw) (r j : Nat) :
    ∃ b, (do resolveBorder k (← ilocV (fs.get A) r j) bw (← ilocV (fc.get A) r j)) = .ok b := by
  obtain ⟨st, hst, gst⟩ := ilocV_req (hA fs) hfs.2 r j
  obtain ⟨col, hcol, gcol⟩ := ilocV_total (hA fc) r j
  rw [hfs.1] at gst
  obtain ⟨b, hb⟩ := resolveBorder_total k gst hbw (wOptStr_of_color hfc gcol)
  exact ⟨b, by simp only [hst, hcol, ok_bind, hb]⟩

theorem encodeCell_total (k : ColorCtx) {A : TblAttrsOf MatV} (hA : TblGood A) (r j : Nat) (isLast : Bool)
    (text : Str) {width : Option Rat} (hw : width.isSome = true) :
    ∃ c, encodeCell k A r j isLast text width = .ok c := by
  obtain ⟨bw, hbw, gbw⟩ := ilocV_total (hA .bWidth) r j
  have hbw' : bw = .null ∨ wInt bw := by
    rcases gbw with g | ⟨g, _⟩
    · exact Or.inr (wInt_of_okPosInt g)
    · exact Or.inl g
  obtain ⟨bR, hR⟩ := mkBorder_total k hA .bRight .bcRight ⟨rfl, rfl⟩ rfl hbw' r j
  obtain ⟨bL, hL⟩ := mkBorder_total k hA .bLeft .bcLeft ⟨rfl, rfl⟩ rfl hbw' r j
  obtain ⟨bT, hT⟩ := mkBorder_total k hA .bTop .bcTop ⟨rfl, rfl⟩ rfl hbw' r j
  obtain ⟨bB, hB⟩ := mkBorder_total k hA .bBottom .bcBottom ⟨rfl, rfl⟩ rfl hbw' r j
  obtain ⟨tv, htv, hok⟩ := textValsAt_total hA.text r j
  obtain ⟨⟨tf, conv⟩, htf⟩ := resolveText_total k hok
  obtain ⟨w, hw'⟩ : ∃ w, width = some w := by
    cases width with
    | none => cases hw
    | some w => exact ⟨w, rfl⟩
  obtain ⟨vj, hvj, gvj⟩ := ilocV_total (hA .cellVJust) r j
  obtain ⟨ws, hws⟩ := resolveVJust_total (v := vj) (by
    rcases gvj with g | ⟨g, _⟩
    · exact Or.inr g
    · exact Or.inl g)
  simp only [Field.get] at hbw hR hL hT hB hvj
  unfold encodeCell
  simp only [hbw, ok_bind, htv, htf, hw', hL, hT, hB, hvj, hws, pure_eq_ok]
  cases isLast
  · simp only [Bool.false_eq_true, if_false]
    exact ⟨_, rfl⟩
  · simp only [if_true, hR, map_ok_eq, ok_bind]
    exact ⟨_, rfl⟩

theorem encodeRow_total (k : ColorCtx) {A : TblAttrsOf MatV} (hA : TblGood A) {colWidths : List Rat} (r : Nat)
    {cells : List (Option Str)} (hne : cells ≠ []) (hlen : cells.length ≤ colWidths.length) :
    ∃ e, encodeRow k A colWidths r cells = .ok e := by
  have hn : ¬ cells.length = 0 := by
    intro h0; exact hne (List.eq_nil_of_length_eq_zero h0)
  obtain ⟨cs, hcs⟩ : ∃ cs, (cells.zipIdx.mapM fun (x : Option Str × Nat) =>
      encodeCell k A r x.2 (x.2 + 1 == cells.length) (x.1.getD []) colWidths[x.2]?) = .ok cs := by
    apply mapM_total
    intro x hx
    obtain ⟨c, j⟩ := x
    have hj := (List.mem_zipIdx hx).2.1
    simp only [Nat.zero_add] at hj
    apply encodeCell_total k hA
    have : j < colWidths.length := by omega
    simp [this]
  obtain ⟨cj, hcj, gcj⟩ := ilocV_req (hA .cellJust) rfl r 0
  obtain ⟨jw, hjw⟩ := resolveRowJust_total gcj
  obtain ⟨ch, hch, gch⟩ := ilocV_req (hA .cellHeight) rfl r 0
  obtain ⟨q, hq⟩ := wRat_of_okPosNum gch
  simp only [Field.get] at hcj hch
  unfold encodeRow
  simp only [if_neg hn]
  simp only [pure_eq_ok, ok_bind, hcs, hcj, hjw, hch, hq]
  exact ⟨_, rfl⟩

theorem encodeRows_total (k : ColorCtx) {A : TblAttrsOf MatV} (hA : TblGood A) {colWidths : List Rat} (off : Nat)
    {rows : List (List (Option Str))} (h : ∀ cells ∈ rows, cells ≠ [] ∧ cells.length ≤ colWidths.length) :
    ∃ es, encodeRows k A colWidths off rows = .ok es := by
  unfold encodeRows
  apply mapM_total
  intro x hx
  obtain ⟨cells, i⟩ := x
  have hmem : cells ∈ rows := by
    have := (List.mem_zipIdx hx).2.2
    rw [this]; exact List.getElem_mem _
  exact encodeRow_total k hA (i + off) (h cells hmem).1 (h cells hmem).2

end Proofs.EncodeTotal
