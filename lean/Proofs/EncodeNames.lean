import Model.Encode
import Proofs.EncodeLift
/-!
# Renaming the columns of a document (helpers of `Props/C02encnames.lean`)

`renameDoc ρ d` replaces every column name — the frame's columns and the names given in page_by / subline_by /
group_by — by its image; `InjOn ρ names` says that `ρ` keeps the listed names apart.  The lemmas say that the
name → position step of the encoder model (`removedIdx`: `List.idxOf` of every name of `columns_to_remove`) commutes
with such a renaming.
-/
namespace Proofs.EncodeNames
open Model.Encode Model.Broadcast Proofs.EncodeLift

/-- the document with every column name replaced by its image: the frame's columns and the names given in
page_by / subline_by / group_by -/
def renameDoc (ρ : Str → Str) (d : Doc) : Doc :=
  { d with
    cols := d.cols.map ρ,
    body := { d.body with
      pageBy := d.body.pageBy.map (fun l => l.map ρ),
      sublineBy := d.body.sublineBy.map (fun l => l.map ρ),
      groupBy := d.body.groupBy.map (fun l => l.map ρ) } }

/-- `ρ` keeps the listed names apart -/
def InjOn (ρ : Str → Str) (names : List Str) : Prop := ∀ a ∈ names, ∀ b ∈ names, ρ a = ρ b → a = b

theorem InjOn.mono {ρ : Str → Str} {l l' : List Str} (h : InjOn ρ l) (hs : ∀ x ∈ l', x ∈ l) : InjOn ρ l' :=
  fun a ha b hb e => h a (hs a ha) b (hs b hb) e

/-- the position of a name among the columns is the position of its image among the images -/
theorem idxOf_rename (ρ : Str → Str) (cols : List Str) (n : Str) (h : InjOn ρ (n :: cols)) :
    (cols.map ρ).idxOf (ρ n) = cols.idxOf n := by
  induction cols with
  | nil => rfl
  | cons c cs ih =>
    have hcs : InjOn ρ (n :: cs) := h.mono (by
      intro x hx
      rcases List.mem_cons.mp hx with rfl | hx
      · exact List.mem_cons_self
      · exact List.mem_cons_of_mem _ (List.mem_cons_of_mem _ hx))
    rw [List.map_cons, List.idxOf_cons, List.idxOf_cons, ih hcs]
    by_cases hc : c = n
    · subst hc; simp
    · have hne : ρ c ≠ ρ n := fun e =>
        hc (h c (List.mem_cons_of_mem _ List.mem_cons_self) n List.mem_cons_self e)
      rw [beq_false_of_ne hne, beq_false_of_ne hc]

theorem renameDoc_removedNames (ρ : Str → Str) (d : Doc) :
    removedNames (renameDoc ρ d).body = (removedNames d.body).map ρ := by
  have hs : (renameDoc ρ d).body.sublineByL = d.body.sublineByL.map ρ := by
    unfold Body.sublineByL renameDoc
    cases d.body.sublineBy <;> rfl
  have hpl : (renameDoc ρ d).body.pageByL = d.body.pageByL.map ρ := by
    unfold Body.pageByL renameDoc
    cases d.body.pageBy <;> rfl
  have hsome : (renameDoc ρ d).body.pageBy.isSome = d.body.pageBy.isSome := by
    unfold renameDoc
    cases d.body.pageBy <;> rfl
  have hrem : (renameDoc ρ d).body.pageByRemoved = d.body.pageByRemoved := rfl
  unfold removedNames
  rw [hs, hpl, hsome, hrem, List.map_append]
  split <;> rfl

/-- the name → position step on one list of names -/
theorem mapM_idx_rename (ρ : Str → Str) (cols names : List Str) (h : InjOn ρ (cols ++ names)) :
    ((names.map ρ).mapM fun n =>
      let i := (cols.map ρ).idxOf n
      if i < cols.length then (Except.ok i : Except String Nat) else .error "ValueError") =
    (names.mapM fun n =>
      let i := cols.idxOf n
      if i < cols.length then (Except.ok i : Except String Nat) else .error "ValueError") := by
  induction names with
  | nil => rfl
  | cons n ns ih =>
    have hns : InjOn ρ (cols ++ ns) := h.mono (by
      intro x hx
      rcases List.mem_append.mp hx with hx | hx
      · exact List.mem_append_left _ hx
      · exact List.mem_append_right _ (List.mem_cons_of_mem _ hx))
    have hn : InjOn ρ (n :: cols) := h.mono (by
      intro x hx
      rcases List.mem_cons.mp hx with rfl | hx
      · exact List.mem_append_right _ List.mem_cons_self
      · exact List.mem_append_left _ hx)
    simp only [List.map_cons, List.mapM_cons, idxOf_rename ρ cols n hn]
    rw [ih hns]

theorem dropCols_map {α β} (f : α → β) (row : List α) (removed : List Nat) :
    dropCols (row.map f) removed = (dropCols row removed).map f := by
  unfold dropCols
  rw [List.zipIdx_map, List.filter_map, List.map_map, List.map_map]
  rfl

end Proofs.EncodeNames
