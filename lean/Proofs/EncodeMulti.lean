import Model.EncodeMulti
import Model.EncodeDomainMore
import Proofs.Encode
import Proofs.EncodeTables
import Proofs.EncodeDoc
/-!
Helper lemmas for `Props/C01encmore.lean`, multi-section path: the preamble is a good node list, every element of every
section is good (`Proofs.Encode.encodePages_ok` per section document, for the document-wide colour context), hence
`docOk (encodeM …)`.
-/
namespace Proofs.EncodeMulti
open Model.Rtf Model.Emit Model.Encode Model.EncodeDomain Model.EncodeMulti Model.EncodeDomainMore Generated
open Proofs.Emit Proofs.Encode Proofs.EncodeTables Proofs.EncodeDoc

/-- the preamble of the multi-section path (the same material as on the single-section path) -/
theorem preamble_ok {k : ColorCtx} {page : Page} {ph pf : Option TextComp} {head : List Node}
    (h : preamble k page ph pf = .ok head) (hph : textCompOk ph = true) (hpf : textCompOk pf = true) : NG head := by
  unfold preamble at h
  dsimp only at h
  simp only [pure_bind, throw_bind'] at h
  split at h
  · next fontTbl hfont =>
    split at h
    · next colorTbl hcolor =>
      peel h as hdr hhdr
      peel h as ftr hftr
      peel h as ps hps
      cases pure_ok h
      have h1 : NG [cw0 "ansi", Node.nl, cwi "deff" 0, cwi "deflang" 1033, Node.nl] :=
        ng_cons (ng_cw0 _ (by decide)) (ng_cons ng_nl (ng_cons (ng_cwi _ _ (by decide))
          (ng_cons (ng_cwi _ _ (by decide)) ng_nl)))
      have h3 : NG [Node.nl, Node.nl, Node.nl] := ng_nls 3
      exact ng_append (ng_append (ng_append (ng_append (ng_append (ng_append (ng_append (ng_append (ng_append
        (ng_append h1 (fontTbl_ng _ hfont)) ng_nl) (colorTbl_ng _ _ hcolor)) h3)
        (pageHF_ok hhdr (by decide) hph)) ng_nl) (pageHF_ok hftr (by decide) hpf)) ng_nl) (pageSettings_ok hps)) ng_nl
    · cases h
  · cases h

theorem encodeSections_ok {measure : Measure} {k : ColorCtx} {d : MDoc} {elems : List Elem} {near : Nat}
    (h : encodeSections measure k d = .ok (elems, near)) (hd : ∀ sd ∈ sectionDocs d, inDomain sd = true) :
    ∀ e ∈ elems, ElemOk e := by
  unfold encodeSections at h
  peel h as parts hparts
  cases pure_ok h
  intro e he
  obtain ⟨part, hpart, hep⟩ := List.mem_flatMap.mp he
  obtain ⟨sd, hsd, hr⟩ := mapM_mem hparts part hpart
  exact encodePages_ok (show encodePages measure k sd = .ok (part.1, part.2) from hr) (hd sd hsd) e hep

theorem encodeWithM_docOk {measure : Measure} {d : MDoc} {x : DocG × Nat} (h : encodeWithM measure d = .ok x)
    (hd : inDomainMulti d = true) : docOk x.1 = true := by
  simp only [inDomainMulti, Bool.and_eq_true, List.all_eq_true] at hd
  obtain ⟨⟨hsec, hph⟩, hpf⟩ := hd
  unfold encodeWithM at h
  dsimp only at h
  peel h as y hy
  peel h as head hhead
  cases pure_ok h
  apply docOk_of_parts _ _ (preamble_ok hhead hph hpf)
  exact elemOk_append (joinElems_ok _ (encodeSections_ok (show encodeSections measure _ d = .ok (y.1, y.2) from hy) hsec))
    (elemOk_of_ng (ng_nls 4))

theorem encodeM_docOk {measure : Measure} {d : MDoc} {g : DocG} (h : encodeM measure d = .ok g)
    (hd : inDomainMulti d = true) : docOk g = true := by
  unfold encodeM at h
  obtain ⟨x, hx, rfl⟩ := map_ok h
  exact encodeWithM_docOk hx hd

/-- a single frame under a nested header list: the single-section encoder on the concatenated list -/
theorem encodeWithNested1_docOk {measure : Measure} {d : Doc} {hs : List (List (Option Header))} {x : DocG × Nat}
    (h : encodeWithNested1 measure d hs = .ok x) (hd : inDomain { d with headers := hs.flatten } = true) :
    docOk x.1 = true :=
  encodeWith_docOk h hd

end Proofs.EncodeMulti
