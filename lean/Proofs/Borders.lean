import Model.Borders
import Proofs.Broadcast
/-! Helper lemmas for C07: `applyRow` and the components of `applyBorders` (core Lean only). -/
namespace Proofs.Borders
open Model.Broadcast Model.Borders Proofs.Broadcast

/-! ## applyRow -/

theorem foldUpdate {h w row : Nat} (hh : 0 < h) (hw : 0 < w) (hrow : row < h) (style : Nat → String)
    (l : List Nat) (hl : ∀ c ∈ l, c < w) (m : Mat String) (hm : Good m) :
    Good (l.foldl (fun acc c => acc.updateCell h w row c (style c)) m) ∧
    ∀ i c, i < h → c < w →
      (l.foldl (fun acc c => acc.updateCell h w row c (style c)) m).iloc i c =
        if i = row ∧ c ∈ l then some (style c) else m.iloc i c := by
  induction l generalizing m with
  | nil => simp; exact hm
  | cons c0 l ih =>
    have hc0 := hl c0 (by simp)
    have hm' := updateCell_good hm hh hw row c0 (style c0)
    obtain ⟨g, e⟩ := ih (fun c hc => hl c (by simp [hc])) _ hm'
    refine ⟨g, ?_⟩
    intro i c hi hc
    simp only [List.foldl_cons]
    rw [e i c hi hc, updateCell_iloc hm _ hrow hc0 hi hc]
    by_cases h1 : i = row <;> by_cases h2 : c ∈ l <;> by_cases h3 : c = c0 <;> simp [h1, h2, h3]

theorem applyRow_good {m : Mat String} (hm : Good m) {h w row : Nat} (hh : 0 < h) (hw : 0 < w)
    (hrow : row < h) (style : Nat → String) : Good (applyRow m h w row style) :=
  (foldUpdate hh hw hrow style (List.range w) (fun _ hc => List.mem_range.mp hc) m hm).1

theorem applyRow_iloc {m : Mat String} (hm : Good m) {h w row i c : Nat} (hrow : row < h)
    (style : Nat → String) (hi : i < h) (hc : c < w) :
    (applyRow m h w row style).iloc i c = if i = row then some (style c) else m.iloc i c := by
  have := (foldUpdate (by omega) (by omega) hrow style (List.range w)
    (fun _ hc => List.mem_range.mp hc) m hm).2 i c hi hc
  unfold applyRow
  rw [this]
  simp [List.mem_range, hc]

/-! ## the pieces of applyBorders -/

def top0 (b : BorderIn) : Mat String := b.top.pageRows b.start b.height
def bot0 (b : BorderIn) : Mat String := b.bottom.pageRows b.start b.height

def top1 (b : BorderIn) : Mat String :=
  if b.isFirst && !b.hasHeaders && b.pageFirst != ""
    then applyRow (top0 b) b.height b.width 0 (fun _ => b.pageFirst) else top0 b

def top2 (b : BorderIn) : Mat String :=
  if ((b.isFirst && b.hasHeaders) || !b.isFirst) && b.bodyFirst.length > 0
    then applyRow (top1 b) b.height b.width 0 (bodyFirstStyle b) else top1 b

theorem applyBorders_top (b : BorderIn) (h : b.height ≠ 0) : (applyBorders b).top = top2 b := by
  unfold applyBorders
  simp only [if_neg h]
  split
  · rfl
  · split
    · rfl
    · split <;> rfl

theorem applyBorders_none (b : BorderIn) (h : b.height ≠ 0) (hs : closingStyle b = none) :
    applyBorders b = { top := top2 b, bottom := bot0 b, fnOverride := none, srcOverride := none } := by
  unfold applyBorders
  simp only [if_neg h, hs]
  rfl

theorem applyBorders_data (b : BorderIn) (h : b.height ≠ 0) (s : String) (hs : closingStyle b = some s)
    (hf : b.fnTableHere = false) (hsrc : b.srcTableHere = false) :
    applyBorders b = BorderOut.mk (top2 b)
      (applyRow (bot0 b) b.height b.width (b.height - 1) (fun _ => s)) none none := by
  unfold applyBorders
  simp only [if_neg h, hs, hf, hsrc]
  rfl

theorem applyBorders_src (b : BorderIn) (h : b.height ≠ 0) (s : String) (hs : closingStyle b = some s)
    (hsrc : b.srcTableHere = true) :
    applyBorders b = { top := top2 b, bottom := bot0 b, fnOverride := none, srcOverride := some s } := by
  unfold applyBorders
  simp only [if_neg h, hs, hsrc, Bool.or_true, Bool.not_true, Bool.false_eq_true, if_false, if_true]
  rfl

theorem applyBorders_fn (b : BorderIn) (h : b.height ≠ 0) (s : String) (hs : closingStyle b = some s)
    (hf : b.fnTableHere = true) (hsrc : b.srcTableHere = false) :
    applyBorders b = { top := top2 b, bottom := bot0 b, fnOverride := some s, srcOverride := none } := by
  unfold applyBorders
  simp only [if_neg h, hs, hsrc, hf, Bool.or_false, Bool.not_true, Bool.false_eq_true, if_false]
  rfl

/-! ## the top matrix -/

theorem top0_good {b : BorderIn} (hg : Good b.top) (hh : 0 < b.height) : Good (top0 b) :=
  pageRows_good hg b.start hh

theorem bot0_good {b : BorderIn} (hg : Good b.bottom) (hh : 0 < b.height) : Good (bot0 b) :=
  pageRows_good hg b.start hh

theorem top0_iloc {b : BorderIn} (hg : Good b.top) {i : Nat} (hi : i < b.height) (c : Nat) :
    (top0 b).iloc i c = b.top.iloc (b.start + i) c := pageRows_iloc hg b.start hi c

theorem bot0_iloc {b : BorderIn} (hg : Good b.bottom) {i : Nat} (hi : i < b.height) (c : Nat) :
    (bot0 b).iloc i c = b.bottom.iloc (b.start + i) c := pageRows_iloc hg b.start hi c

theorem top1_good {b : BorderIn} (hg : Good b.top) (hh : 0 < b.height) (hw : 0 < b.width) :
    Good (top1 b) := by
  unfold top1
  split
  · exact applyRow_good (top0_good hg hh) hh hw hh _
  · exact top0_good hg hh

/-- rows below the first one are never touched in the top matrix -/
theorem top2_iloc_rest {b : BorderIn} (hg : Good b.top) {i c : Nat} (h0 : 0 < i) (hi : i < b.height)
    (hc : c < b.width) : (top2 b).iloc i c = b.top.iloc (b.start + i) c := by
  have hh : 0 < b.height := by omega
  have hw : 0 < b.width := by omega
  have h1 : (top1 b).iloc i c = b.top.iloc (b.start + i) c := by
    unfold top1
    split
    · rw [applyRow_iloc (top0_good hg hh) hh _ hi hc, if_neg (by omega), top0_iloc hg hi]
    · exact top0_iloc hg hi c
  unfold top2
  split
  · rw [applyRow_iloc (top1_good hg hh hw) hh _ hi hc, if_neg (by omega), h1]
  · exact h1

end Proofs.Borders
