import Proofs.EncodeTotalMore
/-!
Totality of the encoder models, part 7: the figure-only encoder (`Model.EncodeFigure.encodeWithF`).  An accepted
figure document of the quantifier's attribute shapes encodes — there is no refusal on this path (no group_by).
-/
namespace Proofs.EncodeTotal
open Model.Encode Model.EncodeAccepted Model.EncodeAcceptedMore Model.EncodeMulti Model.EncodeFigure Model.Broadcast
open Model.Emit Generated
open Proofs.EncodeAttrs (Field)

/-! ## `_to_nested_list` on an accepted attribute of ANY shape: it only fails on a non-empty list of `None`s -/

theorem toNested_exists {s : Spec} {a : Attr} (hn : s.ok .null = false) (ha : accAttr s a = true) :
    ∃ M, a.toNested = .ok M := by
  simp only [accAttr, Bool.and_eq_true] at ha
  obtain ⟨hv, _⟩ := ha
  cases a with
  | null => exact ⟨none, rfl⟩
  | scalar w => simp only [Attr.toNested]; split <;> exact ⟨_, rfl⟩
  | list xs =>
    simp only [Attr.toNested]
    split
    · exact ⟨_, rfl⟩
    · next hany =>
      split
      · exact ⟨_, rfl⟩
      · next hne =>
        exfalso
        cases xs with
        | nil => exact hne rfl
        | cons x xs =>
          apply hany
          simp only [List.any_cons, Bool.or_eq_true]
          left
          have hx : s.ok x = true := List.all_eq_true.mp hv x (by simp)
          cases x with
          | null => rw [hn] at hx; cases hx
          | _ => rfl
  | tuple xs => exact ⟨_, rfl⟩
  | nested mm => exact ⟨_, rfl⟩

/-- a table component rendered paragraph-style: all its attributes convert, the TEXT attributes are readable -/
theorem tblNested_textGood {a : TblAttrsOf Attr} (ha : TblAttrsOf.zipAll accAttr tblSpec a = true)
    (hs : TextAttrsOf.zipAll shpAttr textSpec a.toTextAttrsOf = true) :
    ∃ A, a.mapM Attr.toNested = .ok A ∧ TextGood A.toTextAttrsOf := by
  obtain ⟨A, hA, hget⟩ := tblMapM_total (g := Attr.toNested) (a := a)
    (fun f => toNested_exists (tblSpec_noNull f) (tbl_zipAll ha f))
  refine ⟨A, hA, ?_⟩
  intro tf
  have hspec : tf.toField.get tblSpec = tf.get textSpec := by cases tf <;> rfl
  have h1 := tbl_zipAll ha tf.toField
  have h2 := text_zipAll hs tf
  rw [hspec] at h1
  rw [← toField_get] at h2
  obtain ⟨M, hM, hg⟩ := toNested_total (textSpec_noNull tf) h1 h2
  rw [hget tf.toField] at hM
  cases hM
  rw [← toField_get]
  exact hg

/-- `encode_footnote` / `encode_source` with `as_table=False` -/
theorem renderFootPar_total (k : ColorCtx) (d : Doc) {f : Foot}
    (ha : TblAttrsOf.zipAll accAttr tblSpec f.attrs = true)
    (hs : TextAttrsOf.zipAll shpAttr textSpec f.attrs.toTextAttrsOf = true) (ht : f.asTable = false) :
    ∃ es, renderFoot k d f none = .ok es := by
  obtain ⟨A, hA, hg⟩ := tblNested_textGood ha hs
  unfold renderFoot
  simp only [hA, ok_bind, ht, Bool.not_false, if_true]
  exact bind_total (encodeTextParas_total k hg _) (fun _ _ => ⟨_, rfl⟩)

/-! ## `_get_dimension` -/

theorem getDim_total {α : Type} {l : List α} (h : l ≠ []) (i : Nat) : ∃ x, Model.Figure.getDim l i = some x := by
  unfold Model.Figure.getDim
  split
  · next hi => exact ⟨l[i], List.getElem?_eq_getElem hi⟩
  · cases hl : l.getLast? with
    | none => rw [List.getLast?_eq_none_iff] at hl; exact absurd hl h
    | some x => exact ⟨x, rfl⟩

/-! ## the facts of `acceptedF` / `shapesInQuantifierF` -/

structure AccFactsF (d : FDoc) : Prop where
  figs : d.figs.isEmpty = false
  fmts : ∀ f ∈ d.figs, (Model.Figure.fmtOfSuffix f.suffix).isSome = true
  widths : d.widths ≠ []
  heights : d.heights ≠ []
  page : pageAcc d.page = true
  pageHeader : textCompAcc d.pageHeader = true
  pageFooter : textCompAcc d.pageFooter = true
  title : textCompAcc d.title = true
  subline : textCompAcc d.subline = true
  footnote : footAccF d.footnote = true
  source : footAccF d.source = true
  body : bodyAccF d.body = true
  headers : d.headers.all headerAcc = true

theorem dimsAcc_ne {w : List Rat} (h : dimsAcc w = true) : w ≠ [] := by
  simp only [dimsAcc, Bool.and_eq_true, Bool.not_eq_true', List.isEmpty_eq_false_iff] at h
  exact h.1

theorem accFactsF {d : FDoc} (h : AcceptedF d) : AccFactsF d := by
  unfold AcceptedF acceptedF at h
  simp only [Bool.and_eq_true] at h
  obtain ⟨⟨⟨⟨⟨⟨⟨⟨⟨⟨⟨⟨⟨h1, h2⟩, h3⟩, h4⟩, _⟩, h6⟩, h7⟩, h8⟩, h9⟩, h10⟩, h11⟩, h12⟩, h13⟩, h14⟩ := h
  exact ⟨by simpa using h1, fun f hf => List.all_eq_true.mp h2 f hf, dimsAcc_ne h3, dimsAcc_ne h4, h6, h7, h8, h9, h10,
    h11, h12, h13, h14⟩

theorem footAccF_spec {o : Option Foot} (h : footAccF o = true) :
    ∀ f, o = some f → TblAttrsOf.zipAll accAttr tblSpec f.attrs = true ∧ f.asTable = false := by
  intro f hf
  subst hf
  simp only [footAccF, Bool.and_eq_true, Bool.not_eq_true'] at h
  exact ⟨(footAcc_spec h.1 f rfl).1, h.2⟩

theorem footAccF_footAcc {o : Option Foot} (h : footAccF o = true) : footAcc o = true := by
  simp only [footAccF, Bool.and_eq_true] at h
  exact h.1

/-! ## the colours -/

theorem collectF_valid {d : FDoc} (ha : AccFactsF d) : ∀ c ∈ Model.Color.collect (colorDocF d), CV c := by
  apply collect_valid_of
  intro cm hcm
  simp only [colorDocF, List.mem_append] at hcm
  rcases hcm with (hcm | hcm) | hcm
  · obtain ⟨b, hb, rfl⟩ := List.mem_map.mp hcm
    have hbody := ha.body
    cases hd : d.body with
    | none => rw [hd] at hb; cases hb
    | some b' =>
      rw [hd] at hb hbody
      simp only [Option.toList, List.mem_singleton] at hb
      subst hb
      rw [bodyColorComp_eq]
      exact tblComp_valid hbody
  · exact textColorComps_valid ha.title ha.subline (footAccF_footAcc ha.footnote) (footAccF_footAcc ha.source)
      ha.pageHeader ha.pageFooter cm hcm
  · exact headerColorComps_valid ha.headers cm hcm

/-! ## the preamble, one figure, the document -/

theorem preambleF_total (k : ColorCtx) {d : FDoc} (hk : ∀ c ∈ k.used, CV c) (ha : AccFactsF d)
    (s1 : textCompShape d.pageHeader = true) (s2 : textCompShape d.pageFooter = true) :
    ∃ ns, preambleF k d = .ok ns := by
  obtain ⟨ft, hft⟩ := fontTable_total
  obtain ⟨ct, hct⟩ := generateColorTable_total colorTable k.used (fun c hc hne => hk c hc hne)
  obtain ⟨x1, h1⟩ := pageHF_total k "header" (textCompAcc_spec ha.pageHeader) (textCompShape_spec s1)
  obtain ⟨x2, h2⟩ := pageHF_total k "footer" (textCompAcc_spec ha.pageFooter) (textCompShape_spec s2)
  obtain ⟨ps, hps⟩ := pageSettings_total (pageAcc_margin ha.page)
  unfold preambleF
  simp only [hft, hct, ok_bind, pure_eq_ok, h1, h2, hps]
  exact ⟨_, rfl⟩

theorem footShapeF_spec {o : Option Foot} (h : footShapeF o = true) :
    ∀ f, o = some f → TextAttrsOf.zipAll shpAttr textSpec f.attrs.toTextAttrsOf = true := by
  intro f hf; subst hf; exact h

/-- `let x ← if c then A else B; rest` as the compiler lays it out (join point `jp`) -/
theorem ite_bind_total {α β : Type} {c : Prop} [Decidable c] {A B : Except String α} {jp : α → Except String β}
    (hA : c → ∃ a, A = .ok a) (hB : ¬ c → ∃ a, B = .ok a) (h : ∀ a, ∃ b, jp a = .ok b) :
    ∃ b, (if c then A >>= jp else B >>= jp) = .ok b := by
  split
  · next hc => exact bind_total (hA hc) (fun a _ => h a)
  · next hc => exact bind_total (hB hc) (fun a _ => h a)

/-- the optional footnote / source of one figure page (`g` = the deep copy with `as_table = False`, or the identity) -/
theorem optFoot_bind_total {β : Type} (k : ColorCtx) (pg : Page) {o : Option Foot} (ha : footAccF o = true)
    (hs : footShapeF o = true) (g : Foot → Foot) (hg : ∀ f, (g f).attrs = f.attrs ∧ (f.asTable = false → (g f).asTable = false))
    (c : Bool) {jp : List Model.Rtf.BlockG → Except String β} (h : ∀ a, ∃ b, jp a = .ok b) :
    ∃ b, (match o with
      | some f =>
        if c = true then (joinElems <$> renderFoot k (pageOnly pg) (g f) none) >>= jp
        else pure [] >>= jp
      | none => pure [] >>= jp) = .ok b := by
  cases o with
  | none => exact bind_total ⟨_, rfl⟩ (fun a _ => h a)
  | some f =>
    dsimp only
    refine ite_bind_total (fun _ => ?_) (fun _ => ⟨_, rfl⟩) h
    obtain ⟨hacc, htab⟩ := footAccF_spec ha f rfl
    have hshape := footShapeF_spec hs f rfl
    obtain ⟨hattrs, htab'⟩ := hg f
    obtain ⟨es, hes⟩ := renderFootPar_total k (pageOnly pg) (f := g f) (by rw [hattrs]; exact hacc)
      (by rw [hattrs]; exact hshape) (htab' htab)
    rw [hes]
    exact ⟨_, rfl⟩

theorem figurePieces_total (k : ColorCtx) {d : FDoc} (ha : AccFactsF d) (hs : ShapesInQuantifierF d)
    (title : List Elem) (num i : Nat) (fmt : Model.Figure.Fmt) (bytes : List Nat) :
    ∃ x, figurePieces k d title num i fmt bytes = .ok x := by
  unfold ShapesInQuantifierF shapesInQuantifierF at hs
  simp only [Bool.and_eq_true] at hs
  obtain ⟨⟨⟨⟨⟨_, _⟩, _⟩, hsub⟩, hfn⟩, hsrc⟩ := hs
  obtain ⟨sub, hsubE⟩ := textElem_total k (textCompAcc_spec ha.subline) (textCompShape_spec hsub)
  obtain ⟨w, hw⟩ := getDim_total ha.widths i
  obtain ⟨h, hh⟩ := getDim_total ha.heights i
  obtain ⟨brk, hbrk⟩ := pageBreak_total (pageAcc_margin ha.page)
  unfold figurePieces
  dsimp only
  refine ite_bind_total (fun _ => by rw [hsubE]; exact ⟨_, rfl⟩) (fun _ => ⟨_, rfl⟩) (fun s => ?_)
  rw [hw]
  dsimp only
  refine bind_total ⟨_, rfl⟩ (fun w' _ => ?_)
  rw [hh]
  dsimp only
  refine bind_total ⟨_, rfl⟩ (fun h' _ => ?_)
  refine optFoot_bind_total k d.page ha.footnote hfn (fun f => { f with asTable := false })
    (fun f => ⟨rfl, fun _ => rfl⟩) _ (fun fn => ?_)
  refine optFoot_bind_total k d.page ha.source hsrc (fun f => f) (fun f => ⟨rfl, fun h => h⟩) _ (fun src => ?_)
  split
  · exact ⟨_, rfl⟩
  · rw [hbrk]; exact ⟨_, rfl⟩

theorem bind_total_post {ε α β : Type} {x : Except ε α} {f : α → Except ε β} {Q : β → Prop}
    (hx : ∃ a, x = .ok a) (hf : ∀ a, ∃ b, f a = .ok b ∧ Q b) : ∃ b, (x >>= f) = .ok b ∧ Q b := by
  obtain ⟨a, ha⟩ := hx
  obtain ⟨b, hb, hq⟩ := hf a
  exact ⟨b, by rw [ha]; exact hb, hq⟩

/-- **totality of the figure-only encoder model** -/
theorem encodeWithF_total {d : FDoc} (ha : AcceptedF d) (hs : ShapesInQuantifierF d) :
    ∃ g n, encodeWithF d = .ok (some g, n) := by
  have hacc := accFactsF ha
  have hs' := hs
  unfold ShapesInQuantifierF shapesInQuantifierF at hs'
  simp only [Bool.and_eq_true] at hs'
  obtain ⟨⟨⟨⟨⟨hph, hpf⟩, htitle⟩, _⟩, _⟩, _⟩ := hs'
  have key : ∃ x, encodeWithF d = .ok x ∧ x.1.isSome = true := by
    unfold encodeWithF
    simp only [hacc.figs, Bool.false_eq_true, if_false]
    refine bind_total_post ?_ (fun files => ?_)
    · apply mapM_total
      intro f hf
      have := hacc.fmts f hf
      cases hfm : Model.Figure.fmtOfSuffix f.suffix with
      | none => rw [hfm] at this; cases this
      | some fmt => exact ⟨_, rfl⟩
    refine bind_total_post (textElem_total _ (textCompAcc_spec hacc.title) (textCompShape_spec htitle)) (fun title => ?_)
    refine bind_total_post (preambleF_total _ (collectF_valid hacc) hacc hph hpf) (fun head => ?_)
    refine bind_total_post ?_ (fun pieces => ⟨_, rfl, rfl⟩)
    apply mapM_total
    intro x _
    exact figurePieces_total _ hacc hs title files.length x.2 x.1.1 x.1.2
  obtain ⟨⟨o, n⟩, hx, hsome⟩ := key
  cases o with
  | none => cases hsome
  | some g => exact ⟨g, n, hx⟩

end Proofs.EncodeTotal
