import Model.Encode
import Model.Escape
import Model.Convert
import Model.ConvertSpec
import Proofs.Escape
import Proofs.Convert
import Proofs.ConvNodes
import Proofs.LexPrint
import Proofs.Encode
import Proofs.EncodeAttrs
import Proofs.EncodeLift
import Proofs.EncodeColor
/-!
Helper lemmas for `Props/C10enc.lean` and `Props/C11enc.lean`.

Part A — every text-bearing position of the whole-encoder model: which text hole it writes (`textNodes (convText conv
t)`) and where its `convert` flag is read (`FlagAt`): table cells (`encodeCell_hole`, `encodeRow_holes`), column headers
(`headerInner_holes`), spanning headings (`spanningRow_hole`), the subline_by heading (`sublineHeading_hole`), title /
subline / page header / footer (`textElem_inv`, `pageHF_inv`, `resolveLines_holes`), footnote / source
(`renderFoot_holes`).

Part B — the bytes of a text hole: `holeBytes`, `holeBytes_eq` (= the escaper's output on the converted text),
7-bit, its own UTF-8.

Part C — the reader (`Model.Escape.decode`) on the rendering of conversion events (`decode_render`).
-/
namespace Proofs.EncodeText
open Model.Encode Model.Broadcast Model.Emit Model.Rtf Proofs.Encode Proofs.EncodeAttrs Proofs.EncodeLift
open Proofs.EncodeColor Generated

/-! ## Part A: positions -/

/-- the `convert` flag `TextContent` receives at position `(r, c)` of the attribute matrix `M`:
`BroadcastValue(value=text_convert).iloc(r, c)`, coerced by the `bool` field -/
def FlagAt (M : MatV) (r c : Nat) (conv : Bool) : Prop := ∃ v, ilocV M r c = .ok v ∧ v.toBool = .ok conv

theorem flagAt_unique {M : MatV} {r c : Nat} {a b : Bool} (ha : FlagAt M r c a) (hb : FlagAt M r c b) : a = b := by
  obtain ⟨v, h1, h2⟩ := ha
  obtain ⟨w, g1, g2⟩ := hb
  rw [h1] at g1
  cases g1
  rw [h2] at g2
  exact Except.ok.inj g2

/-- one table cell: the hole is the converted, escaped text; the flag is read at the cell's own position -/
theorem encodeCell_hole {k : ColorCtx} {A : TblAttrsOf MatV} {r j : Nat} {isLast : Bool} {text : Model.Encode.Str}
    {width : Option Rat} {cf : CellFmt} (h : encodeCell k A r j isLast text width = .ok cf) :
    ∃ conv, FlagAt A.convert r j conv ∧ cf.body = textNodes (convText conv text) := by
  obtain ⟨tv, tf, conv, w, h1, h2, _, _, _, h6⟩ := encodeCell_body h
  exact ⟨conv, ⟨tv.convert, textValsAt_convert h1, (resolveText_ok h2).2.2⟩, h6⟩

/-- one table row: one cell per value, every hole the converted display text (`""` for null) of its value -/
theorem encodeRow_holes {k : ColorCtx} {A : TblAttrsOf MatV} {cw : List Rat} {r : Nat}
    {cells : List (Option Model.Encode.Str)} {e : Elem} (h : encodeRow k A cw r cells = .ok e) :
    ∃ fmt : RowFmt, e = rowElem fmt ∧ fmt.cells.length = cells.length ∧
      ∀ j c, cells[j]? = some c → ∃ cf conv, fmt.cells[j]? = some cf ∧ FlagAt A.convert r j conv ∧
        cf.body = textNodes (convText conv (c.getD [])) := by
  obtain ⟨_, fmt, rfl, hlen, hcell⟩ := encodeRow_cells h
  refine ⟨fmt, rfl, hlen, ?_⟩
  intro j c hc
  obtain ⟨cf, hcf, henc⟩ := hcell j c hc
  obtain ⟨conv, hf, hb⟩ := encodeCell_hole henc
  exact ⟨cf, conv, hcf, hf, hb⟩

/-- a rendered column header: one row, one cell per header text, flags read at row 0 of the header's own attribute -/
theorem headerInner_holes {k : ColorCtx} {d : Doc} {p : Prep} {isFirst : Bool} {idx : Nat} {hdr : Header}
    {text : List Model.Encode.Str} {es : List Elem} (h : headerInner k d p isFirst idx hdr text = .ok es) :
    ∃ A fmt, hdr.attrs.mapM Attr.toNested = .ok A ∧ es = [rowElem fmt] ∧ fmt.cells.length = text.length ∧
      ∀ j t, text[j]? = some t → ∃ cf conv, fmt.cells[j]? = some cf ∧ FlagAt A.convert 0 j conv ∧
        cf.body = textNodes (convText conv t) := by
  unfold headerInner at h
  dsimp only at h
  split at h
  · simp only [throw_bind'] at h; cases h
  · peel h as A hA
    by_cases hs : Model.Widths.sumQ (headerV (Option.map (fun w => Model.Widths.headerDisplayed w p.keep text.length)
        hdr.colRelWidth) text.length) = 0
    · simp only [hs, if_true, throw_bind'] at h; cases h
    · simp only [hs, if_false] at h
      obtain ⟨e, rfl, he⟩ := encodeRows_single h
      obtain ⟨fmt, rfl, hlen, hcell⟩ := encodeRow_holes he
      refine ⟨A, fmt, hA, rfl, by simpa using hlen, ?_⟩
      intro j t ht
      obtain ⟨cf, conv, h1, h2, h3⟩ := hcell j (some t) (by rw [List.getElem?_map, ht]; rfl)
      refine ⟨cf, conv, h1, ?_, h3⟩
      split at h2 <;> exact h2

/-- the column whose attributes a spanning heading of level `level` reads -/
abbrev spanCol (d : Doc) (level : Nat) : Nat := Proofs.EncodeColor.spanColumn d level

/-- a spanning group heading: one row of one cell; the flag is the body's `text_convert` at row 0 of the page_by
column, `False` (the default of `encode_spanning_row`) when the body has no `text_convert` -/
theorem spanningRow_hole {k : ColorCtx} {d : Doc} {bodyA : TblAttrsOf MatV} {level : Nat} {text : String} {e : Elem}
    (h : spanningRow k d bodyA level text = .ok e) :
    ∃ fmt cf conv, e = rowElem fmt ∧ fmt.cells = [cf] ∧ cf.body = textNodes (convText conv text.toList) ∧
      ((bodyA.convert = none ∧ conv = false) ∨ (bodyA.convert ≠ none ∧ FlagAt bodyA.convert 0 (spanCol d level) conv)) := by
  unfold spanningRow at h
  dsimp only at h
  peel h as x1 h1
  peel h as x2 h2
  peel h as x3 h3
  peel h as x4 h4
  peel h as x5 h5
  peel h as x6 h6
  peel h as x7 h7
  peel h as x8 h8
  peel h as x9 h9
  peel h as x10 h10
  peel h as x11 h11
  peel h as x12 h12
  peel h as x13 h13
  peel h as x14 h14
  peel h as x hx
  peel h as vjv hvjv
  peel h as vj hvj
  peel h as jv hjv
  peel h as just hjust
  peel h as hv hhv
  peel h as hh hhh
  peel h as bl hbl
  peel h as bt hbt
  peel h as br hbr
  peel h as bb hbb
  cases pure_ok h
  obtain ⟨_, _, f3⟩ := resolveText_ok (show resolveText k _ = .ok (x.1, x.2) from hx)
  refine ⟨_, _, x.2, rfl, rfl, rfl, ?_⟩
  dsimp only at f3
  split at h13
  · next hnone =>
    cases h13
    left
    exact ⟨hnone, by simpa [Val.toBool] using f3.symm⟩
  · next m hm =>
    right
    refine ⟨?_, x13, ?_, f3⟩
    · rw [hm]; intro h0; cases h0
    · exact h13

/-- the subline_by heading: the escaper alone (`convert` off) on the joined group values -/
theorem sublineHeading_hole (t : String) :
    sublineHeading t =
      Node.grp [cw0 "pard", cw0 "hyphpar", cwi "fi" 0, cwi "li" 0, cwi "ri" 0, cw0 "ql", cwi "fs" 18,
        Node.grp (Node.cw "f".toList (some 0) true :: textNodes (convText false t.toList)), cw0 "par"] := rfl

/-- the lines of a text component: line `i` is the converted text of line `i`, flag read at `(i, 0)` -/
theorem resolveLines_holes {k : ColorCtx} {a : TextAttrsOf MatV} {text : List Model.Encode.Str}
    {ls : List (TextFmt × List Node)} (h : resolveLines k a text = .ok ls) :
    ls.length = text.length ∧ ∀ i t, text[i]? = some t → ∃ tf conv,
      ls[i]? = some (tf, textNodes (convText conv t)) ∧ FlagAt a.convert i 0 conv := by
  obtain ⟨hl, hi⟩ := resolveLines_refs h
  refine ⟨hl, ?_⟩
  intro i t ht
  obtain ⟨tf, conv, _, _, _, _, h1, _, _, _, _, _, _, _, vconv, h9, h10⟩ := hi i t ht
  exact ⟨tf, conv, h1, vconv, h9, h10⟩

/-- `_encode_text(method="line")` -/
theorem encodeTextLine_inv {k : ColorCtx} {a : TextAttrsOf MatV} {text : List Model.Encode.Str} {n : Node}
    (h : encodeTextLine k a text = .ok n) :
    ∃ ls last body, resolveLines k a text = .ok ls ∧ ls.getLast? = some (last, body) ∧ n = linesParagraph last ls := by
  unfold encodeTextLine at h
  peel h as ls hl
  split at h
  · exact (throw_ok h).elim
  · next last body hlast =>
    cases pure_ok h
    exact ⟨ls, last, body, hl, hlast, rfl⟩

/-- title / subline: nothing without text; otherwise one paragraph of the component's lines -/
theorem textElem_inv {k : ColorCtx} {c : Option TextComp} {es : List Elem} (h : textElem k c = .ok es) :
    (es = [] ∧ hasText c = false) ∨
    ∃ c' text a ls last body, c = some c' ∧ c'.text = some text ∧ text ≠ [] ∧
      c'.attrs.mapM Attr.toNested = .ok a ∧ resolveLines k a text = .ok ls ∧ ls.getLast? = some (last, body) ∧
      es = [[BlockG.plain [linesParagraph last ls]]] := by
  unfold textElem at h
  split at h
  · cases h; exact Or.inl ⟨rfl, rfl⟩
  · next c' =>
    split at h
    · next ht => cases h; exact Or.inl ⟨rfl, by simp [hasText, ht]⟩
    · next ht => cases h; exact Or.inl ⟨rfl, by simp [hasText, ht]⟩
    · next text hne htext =>
      peel h as a ha
      peel h as n hn
      cases pure_ok h
      obtain ⟨ls, last, body, h1, h2, rfl⟩ := encodeTextLine_inv hn
      refine Or.inr ⟨c', text, a, ls, last, body, rfl, htext, ?_, ha, h1, h2, rfl⟩
      exact hne

/-- `{\header …}` / `{\footer …}` -/
theorem pageHF_inv {k : ColorCtx} {word : String} {c : Option TextComp} {ns : List Node}
    (h : pageHF k word c = .ok ns) :
    (ns = [] ∧ hasText c = false) ∨
    ∃ c' text a ls last body, c = some c' ∧ c'.text = some text ∧ text ≠ [] ∧
      c'.attrs.mapM Attr.toNested = .ok a ∧ resolveLines k a text = .ok ls ∧ ls.getLast? = some (last, body) ∧
      ns = [Node.grp [cw0 word, linesParagraph last ls]] := by
  unfold pageHF at h
  split at h
  · cases h; exact Or.inl ⟨rfl, rfl⟩
  · next c' =>
    split at h
    · next ht => cases h; exact Or.inl ⟨rfl, by simp [hasText, ht]⟩
    · next ht => cases h; exact Or.inl ⟨rfl, by simp [hasText, ht]⟩
    · next text hne htext =>
      peel h as a ha
      peel h as n hn
      cases pure_ok h
      obtain ⟨ls, last, body, h1, h2, rfl⟩ := encodeTextLine_inv hn
      refine Or.inr ⟨c', text, a, ls, last, body, rfl, htext, ?_, ha, h1, h2, rfl⟩
      exact hne

/-- footnote / source: as paragraph, one paragraph holding the (joined) text; as table, one row of one cell; the flag
is read at `(0, 0)` of the component's `text_convert` -/
theorem renderFoot_holes {k : ColorCtx} {d : Doc} {f : Foot} {o : Option String} {es : List Elem}
    (h : renderFoot k d f o = .ok es) :
    ∃ A, f.attrs.mapM Attr.toNested = .ok A ∧
      (f.asTable = false →
        (f.text.getD [] = [] ∧ es = []) ∨
        (f.text.getD [] ≠ [] ∧ ∃ tf conv, FlagAt A.convert 0 0 conv ∧
          es = [[BlockG.plain [paragraph tf (textNodes (convText conv (f.text.getD [])))]]])) ∧
      (f.asTable = true → ∃ fmt cf conv, es = [rowElem fmt] ∧ fmt.cells = [cf] ∧ FlagAt A.convert 0 0 conv ∧
        cf.body = textNodes (convText conv (f.text.getD []))) := by
  unfold renderFoot at h
  peel h as A hA
  dsimp only at h
  refine ⟨A, hA, ?_, ?_⟩
  · intro hat
    simp only [hat, Bool.not_false, if_true] at h
    peel h as ps hps
    cases pure_ok h
    unfold encodeTextParas at hps
    peel hps as ls hls
    cases pure_ok hps
    obtain ⟨hlen, hi⟩ := resolveLines_holes hls
    by_cases he : (f.text.getD []) = []
    · left
      refine ⟨he, ?_⟩
      simp only [he, List.isEmpty_nil, if_true, List.length_nil] at hlen
      have : ls = [] := List.eq_nil_of_length_eq_zero hlen
      rw [this]; rfl
    · right
      refine ⟨he, ?_⟩
      have hem : (f.text.getD []).isEmpty = false := by
        cases hx : f.text.getD [] with
        | nil => exact absurd hx he
        | cons _ _ => rfl
      simp only [hem, Bool.false_eq_true, if_false] at hlen hi
      obtain ⟨tf, conv, h1, h2⟩ := hi 0 _ rfl
      have hls1 : ls = [(tf, textNodes (convText conv (f.text.getD [])))] := by
        cases ls with
        | nil => simp at h1
        | cons x xs =>
          simp only [List.getElem?_cons_zero, Option.some.injEq] at h1
          simp only [List.length_cons, List.length_nil, Nat.zero_add, Nat.add_eq_right] at hlen
          rw [h1, List.eq_nil_of_length_eq_zero hlen]
      refine ⟨tf, conv, ?_, by rw [hls1]; rfl⟩
      cases o with
      | none => exact h2
      | some s => dsimp only at h2; split at h2 <;> exact h2
  · intro hat
    simp only [hat, Bool.not_true, Bool.false_eq_true, if_false] at h
    cases hw : f.colRelWidth with
    | none => rw [hw] at h; exact (throw_ok h).elim
    | some w =>
      rw [hw] at h
      dsimp only at h
      have h := ite_throw_ok h
      obtain ⟨e, rfl, he⟩ := encodeRows_single h
      obtain ⟨fmt, rfl, hlen, hcell⟩ := encodeRow_holes he
      obtain ⟨cf, conv, h1, h2, h3⟩ := hcell 0 (some (f.text.getD [])) rfl
      have hc : fmt.cells = [cf] := by
        cases hcs : fmt.cells with
        | nil => rw [hcs] at h1; simp at h1
        | cons x xs =>
          rw [hcs] at h1 hlen
          simp only [List.getElem?_cons_zero, Option.some.injEq] at h1
          simp only [List.length_cons, List.length_nil, Nat.zero_add, Nat.add_eq_right] at hlen
          rw [h1, List.eq_nil_of_length_eq_zero hlen]
      refine ⟨fmt, cf, conv, rfl, hc, ?_, h3⟩
      cases o with
      | none => exact h2
      | some s => dsimp only at h2; split at h2 <;> exact h2

/-! ## Part B: the bytes of a text hole -/

/-- `p in s` for strings as character lists -/
def hasInfix (p : List Char) : List Char → Bool
  | [] => p.isEmpty
  | c :: t => p.isPrefixOf (c :: t) || hasInfix p t

open Model.Escape Model.Convert Proofs.Escape in
/-- the bytes a text hole prints (every character the encoder writes into a hole is 7-bit, so the character codes ARE
the bytes of the UTF-8 file) -/
def holeBytes (ns : List Node) : List Nat := (printNodes ns).map Char.toNat

/-- the code points of a text -/
def cps (t : List Char) : List Nat := t.map Char.toNat

theorem map_toNat_ofNat_ascii (l : List Nat) (h : ∀ b ∈ l, b < 128) : (l.map Char.ofNat).map Char.toNat = l := by
  rw [List.map_map]
  conv => rhs; rw [← List.map_id l]
  apply List.map_congr_left
  intro b hb
  exact Proofs.EscNodes.toNat_ofNat_ascii b (h b hb)

/-- the bytes of the hole written for text `t` under flag `conv` are the escaper's output on the converted text -/
theorem holeBytes_eq (conv : Bool) (t : List Char) :
    holeBytes (textNodes (convText conv t)) = Model.Escape.escape (cps (Model.Convert.convertCore conv t)) := by
  unfold holeBytes textNodes
  rw [Proofs.LexPrint.print_lexNodes]
  unfold convText
  exact map_toNat_ofNat_ascii _ (Proofs.Escape.escape_ascii _)

theorem print_hole (conv : Bool) (t : List Char) : printNodes (textNodes (convText conv t)) = convText conv t :=
  Proofs.LexPrint.print_lexNodes _

/-! ## Part C: the reader on rendered conversion events -/

section Reader
open Model.Escape Model.Convert Proofs.Escape

/-- what the reader shows of one conversion event: the character itself; the comparison sign and the blank rtflite
leaves after it (D15); nothing for a switch, a line break or a page field -/
def shown : Event → List Nat
  | .plain c => [c.toNat]
  | .mapped c => [c.toNat]
  | .ge => [8805, 32]
  | .le => [8804, 32]
  | _ => []

/-- formatting control words the reader meets for one event -/
def evWords : Event → Nat
  | .sup | .sub | .br | .pageNumber | .totalPage => 1
  | _ => 0

/-- the events the reader theorem covers: characters the round trip preserves (no raw `\ { }`, CR, LF) and the five
one-word switches `\super \sub \line \chpgn \totalpage`; not a verbatim (unknown) command, not the `NUMPAGES` field
group -/
def simpleEv : Event → Bool
  | .plain c => readable c.toNat
  | .mapped c => readable c.toNat
  | .verbatim _ => false
  | .pageField => false
  | _ => true

theorem escape_append (a b : List Nat) : escape (a ++ b) = escape a ++ escape b := by
  simp [escape]

theorem cps_append (a b : List Char) : cps (a ++ b) = cps a ++ cps b := by
  simp [cps]

/-- a one-word switch: the reader counts one formatting word and shows nothing -/
theorem run_word (st : St) (g : Good st) (w : List Nat) (hw : w ∈ [cps rSuper, cps rSub, cps rLine, cps rChpgn,
    cps rTotalPage]) : run st w = { st with words := st.words + 1 } := by
  obtain ⟨hm, hs, hh⟩ := g
  obtain ⟨mode, uc, skip, hi, out, us, words, errs, stack⟩ := st
  simp only at hm hs hh
  subst hm hs hh
  simp only [List.mem_cons, List.not_mem_nil, or_false] at hw
  rcases hw with rfl | rfl | rfl | rfl | rfl <;>
    simp [cps, rSuper, rSub, rLine, rChpgn, rTotalPage, Model.Escape.run, Model.Escape.step, Model.Escape.stepGround,
      Model.Escape.isLetter, Model.Escape.isDigit, Model.Escape.applyCW, Model.Escape.endWord]

theorem run_event (st : St) (g : Good st) (e : Event) (he : simpleEv e = true) :
    ∃ uc', run st (escape (cps (renderEventD15 e))) =
      { st with uc := uc', out := (shown e).reverse ++ st.out, us := (uTrace (shown e)).reverse ++ st.us,
                words := st.words + evWords e } := by
  have word : ∀ (r : List Char), cps r ∈ [cps rSuper, cps rSub, cps rLine, cps rChpgn, cps rTotalPage] →
      escape (cps r) = cps r → ∃ uc', run st (escape (cps r)) =
        { st with uc := uc', out := st.out, us := st.us, words := st.words + 1 } := by
    intro r hr he
    exact ⟨st.uc, by rw [he, run_word st g _ hr]⟩
  have chars : ∀ (l : List Nat), (∀ n ∈ l, readable n = true) → ∃ uc', run st (escape l) =
      { st with uc := uc', out := l.reverse ++ st.out, us := (uTrace l).reverse ++ st.us, words := st.words + 0 } := by
    intro l hl
    obtain ⟨uc', h⟩ := run_escape l st g hl
    exact ⟨uc', by rw [h]; rfl⟩
  cases e with
  | plain c =>
    exact chars [c.toNat] (by intro n hn; simp only [List.mem_singleton] at hn; subst hn; exact he)
  | mapped c =>
    exact chars [c.toNat] (by intro n hn; simp only [List.mem_singleton] at hn; subst hn; exact he)
  | ge => exact chars [8805, 32] (by decide)
  | le => exact chars [8804, 32] (by decide)
  | sup => exact word rSuper (by simp) (by decide)
  | sub => exact word rSub (by simp) (by decide)
  | br => exact word rLine (by simp) (by decide)
  | pageNumber => exact word rChpgn (by simp) (by decide)
  | totalPage => exact word rTotalPage (by simp) (by decide)
  | pageField => cases he
  | verbatim w => cases he

theorem run_events : ∀ (es : List Event) (st : St), Good st → (∀ e ∈ es, simpleEv e = true) →
    ∃ uc', run st (escape (cps (renderD15 es))) =
      { st with uc := uc', out := (es.flatMap shown).reverse ++ st.out,
                us := (uTrace (es.flatMap shown)).reverse ++ st.us,
                words := st.words + (es.map evWords).sum }
  | [], st, _, _ => ⟨st.uc, by simp [renderD15, cps, escape, uTrace, run_nil]⟩
  | e :: es, st, g, h => by
    obtain ⟨uc1, h1⟩ := run_event st g e (h e (by simp))
    have g1 : Good (Model.Escape.run st (escape (cps (renderEventD15 e)))) := by
      rw [h1]; exact ⟨g.mode, g.skip, g.hi⟩
    obtain ⟨uc2, h2⟩ := run_events es _ g1 (fun x hx => h x (by simp [hx]))
    refine ⟨uc2, ?_⟩
    rw [Proofs.ConvNodes.renderD15_cons, cps_append, escape_append, run_append, h2, h1]
    simp [List.reverse_append, uTrace, Nat.add_assoc]

/-- **the reader on converted text**: for events of the covered class, the reader shows exactly the events' characters,
counts one formatting word per switch, meets nothing malformed and closes every group -/
theorem decode_render (es : List Event) (h : ∀ e ∈ es, simpleEv e = true) :
    decode (escape (cps (renderD15 es))) =
      { text := es.flatMap shown, us := uTrace (es.flatMap shown), words := (es.map evWords).sum, errs := [],
        depth := 0 } := by
  have g0 : Good ({} : St) := ⟨rfl, rfl, rfl⟩
  obtain ⟨uc', hr⟩ := run_events es {} g0 h
  unfold decode
  rw [hr, finish_good _ ⟨rfl, rfl, rfl⟩]
  simp

theorem shown_readable (es : List Event) (h : ∀ e ∈ es, simpleEv e = true) :
    ∀ n ∈ es.flatMap shown, readable n = true := by
  intro n hn
  obtain ⟨e, he, hne⟩ := List.mem_flatMap.mp hn
  have hs := h e he
  cases e <;> simp only [shown, List.mem_cons, List.not_mem_nil, or_false] at hne
  · subst hne; exact hs
  · subst hne; exact hs
  · rcases hne with rfl | rfl <;> decide
  · rcases hne with rfl | rfl <;> decide

theorem intact_render (es : List Event) (h : ∀ e ∈ es, simpleEv e = true) :
    intact (es.flatMap shown) (decode (escape (cps (renderD15 es)))) = true := by
  rw [decode_render es h]
  have := uTrace_ok (es.flatMap shown) (fun n hn => readable_lt n (shown_readable es h n hn))
  simp [intact, List.all_eq_true]
  intro e he
  exact (this e he).1

end Reader

/-! ## Part D: texts without conversion-triggering characters -/

section Inert
open Model.Convert

/-- a character that starts no documented token and no command: not `^ _ > < \n \\` -/
def inertC (c : Char) : Bool := c != '^' && c != '_' && c != '>' && c != '<' && c != '\n' && c != '\\'

theorem findTok_inert (c : Char) (t : List Char) (h : inertC c = true) : findTok (c :: t) = none := by
  simp only [inertC, Bool.and_eq_true, bne_iff_ne, ne_eq] at h
  obtain ⟨⟨⟨⟨⟨h1, h2⟩, h3⟩, h4⟩, h5⟩, h6⟩ := h
  have e1 : ('^' == c) = false := by simpa using Ne.symm h1
  have e2 : ('_' == c) = false := by simpa using Ne.symm h2
  have e3 : ('>' == c) = false := by simpa using Ne.symm h3
  have e4 : ('<' == c) = false := by simpa using Ne.symm h4
  have e5 : ('\n' == c) = false := by simpa using Ne.symm h5
  have e6 : ('\\' == c) = false := by simpa using Ne.symm h6
  simp [findTok, docTokens, List.find?, List.isPrefixOf, patPageNumber, patTotalPage, patPageField,
    e1, e2, e3, e4, e5, e6]

theorem specGo_inert (tbl : List (List Char × Nat)) : ∀ (t : List Char), t.all inertC = true →
    specGo tbl 0 t = t.map Event.plain
  | [], _ => rfl
  | c :: t, h => by
    simp only [List.all_cons, Bool.and_eq_true] at h
    have hc : c ≠ '\\' := by
      have := h.1
      simp only [inertC, Bool.and_eq_true, bne_iff_ne, ne_eq] at this
      exact this.2
    rw [specGo, findTok_inert c t h.1]
    simp only [hc, if_false, List.map_cons]
    rw [specGo_inert tbl t h.2]

theorem regularGo_inert : ∀ (t : List Char), t.all inertC = true → regularGo 0 t = true
  | [], _ => rfl
  | c :: t, h => by
    simp only [List.all_cons, Bool.and_eq_true] at h
    have hc : c ≠ '\\' := by
      have := h.1
      simp only [inertC, Bool.and_eq_true, bne_iff_ne, ne_eq] at this
      exact this.2
    rw [regularGo, findTok_inert c t h.1]
    simp only [hc, if_false]
    exact regularGo_inert t h.2

theorem renderD15_plain (t : List Char) : renderD15 (t.map Event.plain) = t := by
  induction t with
  | nil => rfl
  | cons c t ih =>
    rw [List.map_cons, Proofs.ConvNodes.renderD15_cons, ih]
    rfl

end Inert

end Proofs.EncodeText
