import Model.StrWidth
/-! Helper lemmas for the value-level model of `get_string_width` (C20, `Props/C20val.lean`); core Lean only. -/
namespace Proofs.StrWidthVal
open Model.StrWidth Generated

/-! ## the documented names / numbers are exactly the generated tables -/

theorem spec_tables :
    fontPaths.map (·.1) = specFontNames ∧
    fontNumberToName = (List.range 10).map (fun k => (k + 1, specFontNames.getD k "")) := by
  decide +kernel

theorem lookup_none_of_not_mem {β : Type} (k : String) :
    ∀ (l : List (String × β)), k ∉ l.map (·.1) → l.lookup k = none := by
  intro l
  induction l with
  | nil => intro _; rfl
  | cons hd tl ih =>
    intro h
    simp only [List.map_cons, List.mem_cons, not_or] at h
    have hne : (k == hd.1) = false := by simpa using h.1
    simp [List.lookup, hne, ih h.2]

theorem lookup_some_of_mem {β : Type} (k : String) :
    ∀ (l : List (String × β)), k ∈ l.map (·.1) → ∃ v, l.lookup k = some v := by
  intro l
  induction l with
  | nil => intro h; simp at h
  | cons hd tl ih =>
    intro h
    by_cases hk : k = hd.1
    · exact ⟨hd.2, by simp [List.lookup, hk]⟩
    · have hne : (k == hd.1) = false := by simpa using hk
      simp only [List.map_cons, List.mem_cons, hk, false_or] at h
      obtain ⟨v, hv⟩ := ih h
      exact ⟨v, by simp [List.lookup, hne, hv]⟩

theorem fontPaths_none {s : String} (h : s ∉ specFontNames) : fontPaths.lookup s = none := by
  apply lookup_none_of_not_mem
  rw [spec_tables.1]
  exact h

theorem fontPaths_some {s : String} (h : s ∈ specFontNames) : ∃ p, fontPaths.lookup s = some p := by
  apply lookup_some_of_mem
  rw [spec_tables.1]
  exact h

/-- a supported font number resolves to a documented name -/
def okName (i : Int) : Bool :=
  match fontName (.num i) with
  | .ok nm => specFontNames.contains nm
  | .error _ => false

theorem fontName_supported {i : Int} (h1 : 1 ≤ i) (h10 : i ≤ 10) :
    ∃ nm, fontName (.num i) = .ok nm ∧ nm ∈ specFontNames := by
  have : i = 1 ∨ i = 2 ∨ i = 3 ∨ i = 4 ∨ i = 5 ∨ i = 6 ∨ i = 7 ∨ i = 8 ∨ i = 9 ∨ i = 10 := by omega
  have hk : okName i = true := by
    rcases this with h | h | h | h | h | h | h | h | h | h <;> subst h <;> decide +kernel
  unfold okName at hk
  cases hn : fontName (.num i) with
  | ok nm => exact ⟨nm, rfl, by simpa [hn] using hk⟩
  | error e => simp [hn] at hk

/-- every other int is refused -/
theorem fontName_unsupported {i : Int} (h : i < 1 ∨ 10 < i) : fontName (.num i) = .error .valueError := by
  unfold fontName
  by_cases h0 : i < 0
  · simp [h0]
  · simp only [h0, if_false]
    have key : ∀ k : Nat, k < 1 ∨ 10 < k → fontNumberToName.lookup k = none := by
      intro k hk
      have h10 : fontNumberToName.map (·.1) = [1, 2, 3, 4, 5, 6, 7, 8, 9, 10] := by decide +kernel
      cases hl : fontNumberToName.lookup k with
      | none => rfl
      | some v =>
        have hm : (k, v) ∈ fontNumberToName := by
          have : ∀ (l : List (Nat × String)), l.lookup k = some v → (k, v) ∈ l := by
            intro l
            induction l with
            | nil => intro h; simp [List.lookup] at h
            | cons hd tl ih =>
              intro h
              by_cases hk : k = hd.1
              · have : (k == hd.1) = true := by simpa using hk
                simp only [List.lookup, this] at h
                have : hd = (k, v) := by
                  cases hd; simp_all
                simp [this]
              · have : (k == hd.1) = false := by simpa using hk
                simp only [List.lookup, this] at h
                exact List.mem_cons_of_mem _ (ih h)
          exact this _ hl
        have : k ∈ fontNumberToName.map (·.1) := List.mem_map.mpr ⟨(k, v), hm, rfl⟩
        rw [h10] at this
        simp at this
        omega
    have : fontNumberToName.lookup i.toNat = none := key _ (by omega)
    simp [this]

/-! ## the font stage by class -/

theorem fontPathV_free {v : Val} (h : v.hashable = false) : fontPathV v = .error .typeError := by
  cases v <;> simp_all [Val.hashable, fontPathV, fontKeyV, Val.pyInt?, strKeyLookup]

theorem fontPathV_int_supported {i : Int} (h1 : 1 ≤ i) (h10 : i ≤ 10) : ∃ p, fontPathV (.int i) = .ok p := by
  obtain ⟨nm, hn, hs⟩ := fontName_supported h1 h10
  obtain ⟨p, hp⟩ := fontPaths_some hs
  exact ⟨p, by simp [fontPathV, fontKeyV, Val.pyInt?, hn, strKeyLookup, Val.hashable, Val.str?, hp]⟩

theorem fontPathV_int_unsupported {i : Int} (h : i < 1 ∨ 10 < i) : fontPathV (.int i) = .error .valueError := by
  simp [fontPathV, fontKeyV, Val.pyInt?, fontName_unsupported h]

/-- a hashable value is either accepted or refused with `ValueError` — never anything else -/
theorem fontPathV_hashable {v : Val} (h : v.hashable = true) :
    (∃ p, fontPathV v = .ok p) ∨ fontPathV v = .error .valueError := by
  have hint : ∀ i : Int, (∃ p, fontPathV (.int i) = .ok p) ∨ fontPathV (.int i) = .error .valueError := by
    intro i
    by_cases hi : 1 ≤ i ∧ i ≤ 10
    · exact Or.inl (fontPathV_int_supported hi.1 hi.2)
    · exact Or.inr (fontPathV_int_unsupported (by omega))
  have hstr : ∀ s : String, (∃ p, fontPaths.lookup s = some p) ∨ fontPaths.lookup s = none := by
    intro s
    cases fontPaths.lookup s with
    | none => exact Or.inr rfl
    | some p => exact Or.inl ⟨p, rfl⟩
  cases v with
  | int i => exact hint i
  | bool b =>
    have : fontPathV (.bool b) = fontPathV (.int (if b then 1 else 0)) := by
      simp [fontPathV, fontKeyV, Val.pyInt?]
    rw [this]; exact hint _
  | str s =>
    rcases hstr s with ⟨p, hp⟩ | hp
    · exact Or.inl ⟨p, by simp [fontPathV, fontKeyV, Val.pyInt?, strKeyLookup, Val.hashable, Val.str?, hp]⟩
    · exact Or.inr (by simp [fontPathV, fontKeyV, Val.pyInt?, strKeyLookup, Val.hashable, Val.str?, hp])
  | npStr s =>
    rcases hstr s with ⟨p, hp⟩ | hp
    · exact Or.inl ⟨p, by simp [fontPathV, fontKeyV, Val.pyInt?, strKeyLookup, Val.hashable, Val.str?, hp]⟩
    · exact Or.inr (by simp [fontPathV, fontKeyV, Val.pyInt?, strKeyLookup, Val.hashable, Val.str?, hp])
  | tuple hh =>
    simp only [Val.hashable] at h
    exact Or.inr (by simp [fontPathV, fontKeyV, Val.pyInt?, strKeyLookup, Val.hashable, Val.str?, h])
  | list => simp [Val.hashable] at h
  | ndarray => simp [Val.hashable] at h
  | _ => exact Or.inr (by simp [fontPathV, fontKeyV, Val.pyInt?, strKeyLookup, Val.hashable, Val.str?])

theorem fontPathV_supported {v : Val} (h : fontClass v = .supported) : ∃ p, fontPathV v = .ok p := by
  cases v with
  | int i =>
    by_cases hi : 1 ≤ i ∧ i ≤ 10
    · exact fontPathV_int_supported hi.1 hi.2
    · simp [fontClass, Val.hashable, hi] at h
  | str s =>
    by_cases hs : s ∈ specFontNames
    · obtain ⟨p, hp⟩ := fontPaths_some hs
      exact ⟨p, by simp [fontPathV, fontKeyV, Val.pyInt?, strKeyLookup, Val.hashable, Val.str?, hp]⟩
    · simp [fontClass, Val.hashable, hs] at h
  | tuple hh => cases hh <;> simp [fontClass, Val.hashable, Val.num?] at h
  | _ =>
    exfalso; revert h
    simp only [fontClass, Val.hashable, Val.num?]
    repeat' split
    all_goals simp

theorem fontPathV_unsupported {v : Val} (h : fontClass v = .unsupported) : fontPathV v = .error .valueError := by
  cases v with
  | int i =>
    by_cases hi : 1 ≤ i ∧ i ≤ 10
    · simp [fontClass, Val.hashable, hi] at h
    · exact fontPathV_int_unsupported (by omega)
  | bool b =>
    cases b
    · exact (by simpa [fontPathV, fontKeyV, Val.pyInt?] using fontPathV_int_unsupported (i := 0) (by omega))
    · exfalso; revert h; decide +kernel
  | str s =>
    by_cases hs : s ∈ specFontNames
    · simp [fontClass, Val.hashable, hs] at h
    · have := fontPaths_none hs
      simp [fontPathV, fontKeyV, Val.pyInt?, strKeyLookup, Val.hashable, Val.str?, this]
  | npStr s =>
    by_cases hs : s ∈ specFontNames
    · simp [fontClass, Val.hashable, hs] at h
    · have := fontPaths_none hs
      simp [fontPathV, fontKeyV, Val.pyInt?, strKeyLookup, Val.hashable, Val.str?, this]
  | tuple hh =>
    cases hh
    · simp [fontClass, Val.hashable] at h
    · simp [fontPathV, fontKeyV, Val.pyInt?, strKeyLookup, Val.hashable, Val.str?]
  | list => simp [fontClass, Val.hashable] at h
  | ndarray => simp [fontClass, Val.hashable] at h
  | _ => simp [fontPathV, fontKeyV, Val.pyInt?, strKeyLookup, Val.hashable, Val.str?]

/-! ## the unit stage by class -/

theorem convertV_free {u : Val} (h : u.hashable = false) (dpi : Val) (px : Rat) :
    convertV u dpi px = .raises .typeError := by
  simp [convertV, h]

theorem unit_str_cases (s : String) : s ∈ specUnits ↔ (s = "px" ∨ s = "in" ∨ s = "mm") := by
  simp only [specUnits, List.mem_cons, List.not_mem_nil, or_false]
  constructor
  · rintro (h | h | h) <;> simp [h]
  · rintro (h | h | h) <;> simp [h]

theorem convertV_str_unsupported {s : String} (hs : s ∉ specUnits) (u : Val) (hu : u.str? = some s)
    (hh : u.hashable = true) (dpi : Val) (px : Rat) : convertV u dpi px = .raises .valueError := by
  have := (not_congr (unit_str_cases s)).mp hs
  simp only [not_or] at this
  simp [convertV, hh, hu, this.1, this.2.1, this.2.2]

/-- an unsupported unit is a `ValueError` **whatever the dpi value is** (it is never looked at) -/
theorem convertV_unsupported {u : Val} (h : unitClass u = .unsupported) (dpi : Val) (px : Rat) :
    convertV u dpi px = .raises .valueError := by
  cases u with
  | str s =>
    by_cases hs : s ∈ specUnits
    · simp [unitClass, Val.hashable, hs] at h
    · exact convertV_str_unsupported hs _ rfl rfl dpi px
  | npStr s =>
    by_cases hs : s ∈ specUnits
    · simp [unitClass, Val.hashable, hs] at h
    · exact convertV_str_unsupported hs _ rfl rfl dpi px
  | tuple hh =>
    cases hh
    · simp [unitClass, Val.hashable] at h
    · simp [convertV, Val.hashable, Val.str?]
  | list => simp [unitClass, Val.hashable] at h
  | ndarray => simp [unitClass, Val.hashable] at h
  | _ => simp [convertV, Val.hashable, Val.str?]

theorem unitClass_str {u : Val} (h : unitClass u = .supported ∨ unitClass u = .lenient) :
    ∃ s, u.str? = some s ∧ u.hashable = true ∧ s ∈ specUnits := by
  cases u with
  | str s =>
    by_cases hs : s ∈ specUnits
    · exact ⟨s, rfl, rfl, hs⟩
    · simp [unitClass, Val.hashable, hs] at h
  | npStr s =>
    by_cases hs : s ∈ specUnits
    · exact ⟨s, rfl, rfl, hs⟩
    · simp [unitClass, Val.hashable, hs] at h
  | tuple hh => cases hh <;> simp [unitClass, Val.hashable] at h
  | _ => simp [unitClass, Val.hashable] at h

/-! ## the size, text and dpi stages inside the statement's quantifier -/

theorem numIn_num {lo hi : Rat} {v : Val} (h : numIn lo hi v = true) :
    ∃ q np, v.num? = some (q, np) ∧ lo ≤ q ∧ q ≤ hi ∧ v ≠ .nan ∧ (∀ n, v ≠ .inf n) ∧ v ≠ .ndarray ∧ v ≠ .other := by
  cases v <;> simp_all [numIn, Val.num?]

theorem sizeStage_domain {v : Val} (h : sizeInDomain v = true) : ∃ q, sizeStage v = .ok q ∧ 0 < q := by
  obtain ⟨q, np, hq, h4, h48, h1, h2, h3, _⟩ := numIn_num h
  have hpos : (0 : Rat) < q := Std.lt_of_lt_of_le (by decide +kernel) h4
  have hnot : ¬ q ≤ 0 := Rat.not_le.mpr hpos
  have hp : pillowSize q = true := by
    simp only [pillowSize, Bool.and_eq_true, decide_eq_true_eq]
    exact ⟨Rat.le_trans (by decide +kernel) h4, Rat.le_trans h48 (by decide +kernel)⟩
  refine ⟨q, ?_, hpos⟩
  cases v <;> simp_all [sizeStage, Val.num?]

theorem textStage_domain {v : Val} (h : textInDomain v = true) : ∃ s, v = .str s ∧ textStage v = .ok s.toList := by
  cases v <;> simp_all [textInDomain, textStage]

theorem dpiStage_domain {v : Val} (h : dpiInDomain v = true) : ∃ d, dpiStage v = .ok d ∧ 0 < d := by
  obtain ⟨q, np, hq, h36, h600, h1, h2, h3, h4⟩ := numIn_num h
  have hpos : (0 : Rat) < q := Std.lt_of_lt_of_le (by decide +kernel) h36
  have hne : q ≠ 0 := fun h0 => by rw [h0] at hpos; exact absurd hpos (by decide +kernel)
  have hnl : ¬ q < 0 := Rat.not_lt.mpr (Rat.le_of_lt hpos)
  have hr : floatRange q = true := by
    simp only [floatRange, floatRange.rabs', hnl, if_false, Bool.and_eq_true, decide_eq_true_eq]
    exact ⟨Rat.le_trans (by decide +kernel) h36, Rat.le_trans h600 (by decide +kernel)⟩
  refine ⟨q, ?_, hpos⟩
  cases v <;> simp_all [dpiStage, Val.num?]

/-- a supported (or accepted lenient) unit converts whenever the dpi is a number of the domain -/
theorem convertV_supported {u dpi : Val} (h : unitClass u = .supported ∨ unitClass u = .lenient)
    (hd : dpiInDomain dpi = true) (px : Rat) : ∃ w, convertV u dpi px = .ok w := by
  obtain ⟨s, hs, hh, hm⟩ := unitClass_str h
  obtain ⟨d, hdpi, hpos⟩ := dpiStage_domain hd
  have hne : d ≠ 0 := fun h0 => by rw [h0] at hpos; exact absurd hpos (by decide +kernel)
  rcases (unit_str_cases s).mp hm with h | h | h <;> subst h <;>
    simp [convertV, hh, hs, hdpi, Stage.bind, Stage.ofExcept, convert, hne]

end Proofs.StrWidthVal
