import Proofs.EncodeTotalDoc
import Model.EncodeAcceptedMore
/-!
Totality of the encoder models, part 6: the multi-section encoder (`Model.EncodeMulti.encodeM`).

* every `temp_document` of an accepted multi-section document is an accepted single-section state
  (`accepted_sectionDoc`);
* `mapM` over the sections: all succeed, or the first failure is the `ValueError` of a section whose group_by keys
  are not contiguous (`mapM_total_or` + `encodePages_total`, which holds for ANY colour context);
* the colours of the whole document are known to the colour service (`collectM_valid`), hence the preamble is total.
-/
namespace Proofs.EncodeTotal
open Model.Encode Model.EncodeAccepted Model.EncodeAcceptedMore Model.EncodeMulti Model.Broadcast Model.Emit Generated

/-! ## `mapM` with one admissible refusal -/

theorem mapM_total_or {α β : Type} {f : α → Except String β} {P : α → Prop} {e : String} : ∀ (l : List α),
    (∀ x ∈ l, (∃ y, f x = .ok y) ∨ (f x = .error e ∧ P x)) →
    (∃ r, l.mapM f = .ok r) ∨ (l.mapM f = .error e ∧ ∃ x ∈ l, P x)
  | [], _ => Or.inl ⟨[], by simp⟩
  | x :: l, h => by
    rcases h x (by simp) with ⟨y, hy⟩ | ⟨he, hp⟩
    · rcases mapM_total_or l (fun z hz => h z (by simp [hz])) with ⟨r, hr⟩ | ⟨he, z, hz, hp⟩
      · exact Or.inl ⟨y :: r, by rw [List.mapM_cons, hy, hr]; rfl⟩
      · exact Or.inr ⟨by rw [List.mapM_cons, hy, he]; rfl, z, by simp [hz], hp⟩
    · exact Or.inr ⟨by rw [List.mapM_cons, he]; rfl, x, by simp, hp⟩

/-! ## the `temp_document` of a section is an accepted single-section state -/

theorem pageAcc_section {pg : Page} (h : pageAcc pg = true) (b1 b2 : Bool) :
    pageAcc { pg with borderFirst := if b1 = true then "" else pg.borderFirst,
                      borderLast := if b2 = true then "" else pg.borderLast } = true := by
  have e : (borderCodes.lookup "").isSome = true := bs_empty
  simp only [pageAcc, Bool.and_eq_true] at h ⊢
  obtain ⟨⟨h1, h2⟩, h3⟩ := h
  refine ⟨⟨h1, ?_⟩, ?_⟩
  · cases b1
    · simpa using h2
    · simpa using e
  · cases b2
    · simpa using h3
    · simpa using e

theorem textCompAcc_dropText (c : Option TextComp) : textCompAcc (dropText c) = textCompAcc c := by
  cases c <;> rfl

theorem footAcc_dropFootText (f : Option Foot) : footAcc (dropFootText f) = footAcc f := by
  cases f <;> rfl

theorem textCompShape_dropText (c : Option TextComp) : textCompShape (dropText c) = textCompShape c := by
  cases c <;> rfl

structure AccFactsM (d : MDoc) : Prop where
  page : pageAcc d.page = true
  sections : ∀ s ∈ d.sections, sectionAcc s = true
  flat : d.flatHeaders.all headerAcc = true
  pageHeader : textCompAcc d.pageHeader = true
  pageFooter : textCompAcc d.pageFooter = true
  title : textCompAcc d.title = true
  subline : textCompAcc d.subline = true
  footnote : footAcc d.footnote = true
  source : footAcc d.source = true

theorem accFactsM {d : MDoc} (h : AcceptedM d) : AccFactsM d := by
  unfold AcceptedM acceptedM at h
  simp only [Bool.and_eq_true] at h
  obtain ⟨⟨⟨⟨⟨⟨⟨⟨h1, h2⟩, h3⟩, h4⟩, h5⟩, h6⟩, h7⟩, h8⟩, h9⟩ := h
  exact ⟨h1, fun s hs => List.all_eq_true.mp h2 s hs, h3, h4, h5, h6, h7, h8, h9⟩

/-- **every `temp_document` is accepted** (for any section count `n` and position `i` the code may hand over) -/
theorem accepted_sectionDoc {d : MDoc} (ha : AccFactsM d) (n i : Nat) {s : Section} (hs : s ∈ d.sections) :
    accepted (sectionDoc d n i s) = true := by
  have hsec := ha.sections s hs
  simp only [sectionAcc, Bool.and_eq_true] at hsec
  obtain ⟨⟨hf, hb⟩, hh⟩ := hsec
  unfold accepted
  simp only [Bool.and_eq_true]
  refine ⟨⟨⟨⟨⟨⟨⟨⟨⟨hf, ?_⟩, hb⟩, ?_⟩, ha.pageHeader⟩, ha.pageFooter⟩, ?_⟩, ?_⟩, ?_⟩, ?_⟩
  · exact pageAcc_section ha.page _ _
  · show (if d.nested = true then s.headers else if (i == 0) = true then d.flatHeaders else []).all headerAcc = true
    split
    · exact hh
    · split
      · exact ha.flat
      · rfl
  · show textCompAcc (if _ then dropText d.title else d.title) = true
    split
    · rw [textCompAcc_dropText]; exact ha.title
    · exact ha.title
  · show textCompAcc (if _ then dropText d.subline else d.subline) = true
    split
    · rw [textCompAcc_dropText]; exact ha.subline
    · exact ha.subline
  · show footAcc (if _ then dropFootText d.footnote else d.footnote) = true
    split
    · rw [footAcc_dropFootText]; exact ha.footnote
    · exact ha.footnote
  · show footAcc (if _ then dropFootText d.source else d.source) = true
    split
    · rw [footAcc_dropFootText]; exact ha.source
    · exact ha.source

theorem mem_sectionDocs {d : MDoc} {sd : Doc} (h : sd ∈ sectionDocs d) :
    ∃ i s, s ∈ d.sections ∧ sd = sectionDoc d d.sections.length i s := by
  unfold sectionDocs at h
  obtain ⟨⟨s, i⟩, hmem, rfl⟩ := List.mem_map.mp h
  exact ⟨i, s, (List.mem_zipIdx hmem).2.2 ▸ List.getElem_mem _, rfl⟩

theorem accepted_sectionDocs {d : MDoc} (ha : AcceptedM d) : ∀ sd ∈ sectionDocs d, Accepted sd := by
  intro sd hsd
  obtain ⟨i, s, hs, rfl⟩ := mem_sectionDocs hsd
  exact accepted_sectionDoc (accFactsM ha) _ i hs

/-! ## the colours of the whole document -/

/-- `collect_document_colors` over any document whose colour-carrying components are validated -/
theorem collect_valid_of (c : Model.Color.Doc) (h : ∀ cm ∈ c.bodies ++ c.texts ++ c.headers, CompValid cm) :
    ∀ x ∈ Model.Color.collect c, CV x := by
  intro x hx
  have hx := mem_dedup hx
  have key : ∀ (comps : List Model.Color.Comp), (∀ cm ∈ comps, CompValid cm) →
      x ∈ (comps.flatMap fun b => b.textColor.colors ++ b.bgColor.colors ++
        b.borderColors.flatMap Model.Color.Attr.colors) → CV x := by
    intro comps hcomps hmem
    obtain ⟨cm, hcm, hx⟩ := List.mem_flatMap.mp hmem
    exact hcomps cm hcm x hx
  unfold Model.Color.Doc.allColors at hx
  simp only [List.mem_append] at hx
  rcases hx with (hx | hx) | hx
  · exact key _ (fun cm hcm => h cm (by simp [hcm])) hx
  · exact key _ (fun cm hcm => h cm (by simp [hcm])) hx
  · exact key _ (fun cm hcm => h cm (by simp [hcm])) hx

theorem bodyColorComp_eq (a : TblAttrsOf Attr) : bodyColorComp a = tblColorComp a := rfl

theorem textColorComps_valid {title subline pageHeader pageFooter : Option TextComp} {footnote source : Option Foot}
    (h1 : textCompAcc title = true) (h2 : textCompAcc subline = true) (h3 : footAcc footnote = true)
    (h4 : footAcc source = true) (h5 : textCompAcc pageHeader = true) (h6 : textCompAcc pageFooter = true) :
    ∀ cm ∈ textColorComps title subline footnote source pageHeader pageFooter, CompValid cm := by
  intro cm hcm
  simp only [textColorComps, List.mem_append, List.mem_map] at hcm
  rcases hcm with (⟨t, ht, rfl⟩ | ⟨f, hf, rfl⟩) | ⟨t, ht, rfl⟩
  · have := mem_filterMap_id ht
    simp only [List.mem_cons, List.not_mem_nil, or_false] at this
    rcases this with h | h
    · exact textComp_valid (textCompAcc_spec h1 t h.symm)
    · exact textComp_valid (textCompAcc_spec h2 t h.symm)
  · have := mem_filterMap_id hf
    simp only [List.mem_cons, List.not_mem_nil, or_false] at this
    rw [bodyColorComp_eq]
    rcases this with h | h
    · exact tblComp_valid (footAcc_spec h3 f h.symm).1
    · exact tblComp_valid (footAcc_spec h4 f h.symm).1
  · have := mem_filterMap_id ht
    simp only [List.mem_cons, List.not_mem_nil, or_false] at this
    rcases this with h | h
    · exact textComp_valid (textCompAcc_spec h5 t h.symm)
    · exact textComp_valid (textCompAcc_spec h6 t h.symm)

theorem headerColorComps_valid {hs : List (Option Header)} (h : hs.all headerAcc = true) :
    ∀ cm ∈ headerColorComps hs, CompValid cm := by
  intro cm hcm
  simp only [headerColorComps, List.mem_map] at hcm
  obtain ⟨hd, hh, rfl⟩ := hcm
  have := List.all_eq_true.mp h (some hd) (mem_filterMap_id hh)
  simp only [headerAcc, Bool.and_eq_true] at this
  rw [bodyColorComp_eq]
  exact tblComp_valid this.1

theorem allHeaders_acc {d : MDoc} (ha : AccFactsM d) : d.allHeaders.all headerAcc = true := by
  unfold MDoc.allHeaders
  split
  · rw [List.all_eq_true]
    intro h hh
    obtain ⟨s, hs, hhs⟩ := List.mem_flatMap.mp hh
    have hsec := ha.sections s hs
    simp only [sectionAcc, Bool.and_eq_true] at hsec
    exact List.all_eq_true.mp hsec.2 h hhs
  · exact ha.flat

theorem collectM_valid {d : MDoc} (ha : AccFactsM d) : ∀ c ∈ Model.Color.collect (colorDocM d), CV c := by
  apply collect_valid_of
  intro cm hcm
  simp only [colorDocM, List.mem_append] at hcm
  rcases hcm with (hcm | hcm) | hcm
  · obtain ⟨s, hs, rfl⟩ := List.mem_map.mp hcm
    have hsec := ha.sections s hs
    simp only [sectionAcc, bodyAcc, Bool.and_eq_true] at hsec
    rw [bodyColorComp_eq]
    exact tblComp_valid hsec.1.2.1.1.1.1.1.1
  · exact textColorComps_valid ha.title ha.subline ha.footnote ha.source ha.pageHeader ha.pageFooter cm hcm
  · exact headerColorComps_valid (allHeaders_acc ha) cm hcm

/-! ## the preamble -/

theorem pageAcc_margin {pg : Page} (h : pageAcc pg = true) : pg.margin.length = 6 := by
  simp only [pageAcc, Bool.and_eq_true, decide_eq_true_eq] at h
  exact h.1.1.2

theorem preamble_total (k : ColorCtx) {page : Page} {ph pf : Option TextComp}
    (hk : ∀ c ∈ k.used, CV c) (hpage : pageAcc page = true)
    (a1 : textCompAcc ph = true) (s1 : textCompShape ph = true)
    (a2 : textCompAcc pf = true) (s2 : textCompShape pf = true) : ∃ ns, preamble k page ph pf = .ok ns := by
  obtain ⟨ft, hft⟩ := fontTable_total
  obtain ⟨ct, hct⟩ := generateColorTable_total colorTable k.used (fun c hc hne => hk c hc hne)
  obtain ⟨x1, h1⟩ := pageHF_total k "header" (textCompAcc_spec a1) (textCompShape_spec s1)
  obtain ⟨x2, h2⟩ := pageHF_total k "footer" (textCompAcc_spec a2) (textCompShape_spec s2)
  obtain ⟨ps, hps⟩ := pageSettings_total (pageAcc_margin hpage)
  unfold preamble
  simp only [hft, hct, ok_bind, pure_eq_ok, h1, h2, hps]
  exact ⟨_, rfl⟩

/-! ## the sections, the document -/

/-- the refusal the theorem allows: some section's group_by keys are not contiguous -/
def SomeSectionNotContiguous (d : MDoc) : Prop := ∃ sd ∈ sectionDocs d, ¬ GroupKeysContiguous sd

theorem encodeSections_total (measure : Measure) (k : ColorCtx) {d : MDoc} (ha : AcceptedM d)
    (hs : ShapesInQuantifierM d) (hm : MeasureOkM measure d) :
    (∃ x, encodeSections measure k d = .ok x) ∨
    (encodeSections measure k d = .error "ValueError" ∧ SomeSectionNotContiguous d) := by
  unfold ShapesInQuantifierM shapesInQuantifierM at hs
  simp only [Bool.and_eq_true] at hs
  unfold MeasureOkM measureOkM at hm
  have key := mapM_total_or (f := fun sd => encodePages measure k sd)
    (P := fun sd => ¬ GroupKeysContiguous sd) (e := "ValueError") (sectionDocs d) (by
      intro sd hsd
      exact encodePages_total measure k (accepted_sectionDocs ha sd hsd) (List.all_eq_true.mp hs.1.1 sd hsd)
        (List.all_eq_true.mp hm sd hsd))
  unfold encodeSections
  rcases key with ⟨r, hr⟩ | ⟨he, hp⟩
  · left
    simp only [hr, ok_bind, pure_eq_ok]
    exact ⟨_, rfl⟩
  · right
    refine ⟨?_, hp⟩
    simp only [he, err_bind]

/-- **totality of `encodeWithM`** -/
theorem encodeWithM_total (measure : Measure) {d : MDoc} (ha : AcceptedM d) (hs : ShapesInQuantifierM d)
    (hm : MeasureOkM measure d) :
    (∃ x, encodeWithM measure d = .ok x) ∨
    (encodeWithM measure d = .error "ValueError" ∧ SomeSectionNotContiguous d) := by
  have hacc := accFactsM ha
  have hs' := hs
  unfold ShapesInQuantifierM shapesInQuantifierM at hs'
  simp only [Bool.and_eq_true] at hs'
  rcases encodeSections_total measure (ctxOfColors (colorDocM d)) ha hs hm with ⟨⟨elems, near⟩, hx⟩ | ⟨he, hp⟩
  · left
    obtain ⟨hd, hhd⟩ := preamble_total (ctxOfColors (colorDocM d)) (page := d.page) (ph := d.pageHeader)
      (pf := d.pageFooter) (collectM_valid hacc) hacc.page hacc.pageHeader hs'.1.2 hacc.pageFooter hs'.2
    unfold encodeWithM
    simp only [hx, ok_bind, hhd, pure_eq_ok]
    exact ⟨_, rfl⟩
  · right
    refine ⟨?_, hp⟩
    unfold encodeWithM
    simp only [he, err_bind]

/-- **totality of the multi-section encoder model** -/
theorem encodeM_total (measure : Measure) {d : MDoc} (ha : AcceptedM d) (hs : ShapesInQuantifierM d)
    (hm : MeasureOkM measure d) :
    (∃ g, encodeM measure d = .ok g) ∨ (encodeM measure d = .error "ValueError" ∧ SomeSectionNotContiguous d) := by
  rcases encodeWithM_total measure ha hs hm with ⟨x, hx⟩ | ⟨he, hp⟩
  · left
    exact ⟨x.1, by unfold encodeM; rw [hx]; rfl⟩
  · right
    exact ⟨by unfold encodeM; rw [he]; rfl, hp⟩

/-- the decidable twin of "every section's keys are contiguous" -/
theorem groupKeysContiguousM_iff (d : MDoc) :
    groupKeysContiguousM d = true ↔ ¬ SomeSectionNotContiguous d := by
  unfold groupKeysContiguousM SomeSectionNotContiguous
  rw [List.all_eq_true]
  constructor
  · intro h ⟨sd, hsd, hn⟩
    exact hn ((groupKeysContiguous_iff sd).mp (h sd hsd))
  · intro h sd hsd
    by_cases hc : groupKeysContiguous sd = true
    · exact hc
    · exact absurd ⟨sd, hsd, fun hg => hc ((groupKeysContiguous_iff sd).mpr hg)⟩ h

end Proofs.EncodeTotal
