import Model.EncodeFigure
import Model.Figure
import Proofs.Encode
import Proofs.EncodeFigure
import Proofs.Figure
import Proofs.RoundDouble
/-!
# The figure-only encoder as a rendering of the abstract page loop

Helper lemmas for `Props/C16enc.lean`.  `Model.Figure.figureLoop` (the model `Props/C16.lean` is about) produces a list
of abstract `Piece`s (title, subline, picture, `\par`, footnote, source, page break); `Model.EncodeFigure.encodeWithF`
produces the blocks of the real document.  Here:

* `cfgOf`, `renderPiece`      the configuration of the abstract loop that belongs to an `FDoc`, and the blocks every
                              abstract piece stands for (the encodings of the document's own components);
* `figurePieces_render`       one loop iteration of the encoder = the rendering of `pageParts` of the abstract loop;
* `encodeWithF_render`        the blocks of the document = the rendering of `figureLoop (cfgOf d) picts` followed by the
                              closing newlines, where `picts[j] = pictOf fmt_j bytes_j (getDim widths j) (getDim heights j)`.
-/
namespace Proofs.EncodeFigureLift
open Model.Rtf Model.Emit Model.Encode Model.EncodeMulti Model.EncodeFigure Proofs.Encode Proofs.EncodeFigure
open Model.Figure (Pict Piece Cfg figureLoop loopFrom pageParts pageBody getDim fmtOfSuffix)

/-- the placement type of the abstract loop -/
def figPl : Model.Layout.Placement → Model.Figure.Placement
  | .first => .first
  | .last => .last
  | .all => .all

theorem shows_figPl (p : Model.Layout.Placement) (a b : Bool) : Model.Figure.shows (figPl p) a b = p.shows a b := by
  cases p <;> rfl

/-- the configuration of the abstract page loop for a figure document.  The title slot is always configured: the
encoder writes the (possibly empty) title and a newline on every page `page_title` selects. -/
def cfgOf (d : FDoc) : Cfg :=
  { pageTitle := figPl d.page.pageTitle, pageFootnote := figPl d.page.pageFootnote,
    pageSource := figPl d.page.pageSource, hasTitle := true, hasSubline := d.subline.isSome,
    hasFootnote := d.footnote.isSome, hasSource := d.source.isSome }

/-- the colour context of the figure document -/
def ctxF (d : FDoc) : ColorCtx := ctxOfColors (colorDocF d)

/-- the title slot: the encoded title followed by a newline -/
def titleBlocks (d : FDoc) : List BlockG :=
  (match textElem (ctxF d) d.title with
   | .ok t => t.flatten
   | .error _ => []) ++ [BlockG.plain [Node.nl]]

def sublineBlocks (d : FDoc) : List BlockG :=
  match textElem (ctxF d) d.subline with
  | .ok es => es.flatten
  | .error _ => []

/-- the footnote, always paragraph-style -/
def footnoteBlocks (d : FDoc) : List BlockG :=
  match d.footnote with
  | some f =>
    (match renderFoot (ctxF d) (pageOnly d.page) { f with asTable := false } none with
     | .ok es => joinElems es
     | .error _ => [])
  | none => []

/-- the source, with its own `as_table` -/
def sourceBlocks (d : FDoc) : List BlockG :=
  match d.source with
  | some f =>
    (match renderFoot (ctxF d) (pageOnly d.page) f none with
     | .ok es => joinElems es
     | .error _ => [])
  | none => []

/-- `generate_page_break` -/
def breakBlocks (d : FDoc) : List BlockG :=
  match pageBreak d.page with
  | .ok pb => [BlockG.plain pb]
  | .error _ => []

/-- the blocks an abstract piece stands for -/
def renderPiece (d : FDoc) : Piece → List BlockG
  | .title => titleBlocks d
  | .subline => sublineBlocks d
  | .pict p => [BlockG.plain (pictNodes d.align p)]
  | .par => [BlockG.plain [cwSp "par"]]
  | .footnote => footnoteBlocks d
  | .source => sourceBlocks d
  | .pageBreak => breakBlocks d

theorem flatMap_ite_single {α β : Type} (c : Bool) (x : α) (f : α → List β) :
    (if c = true then [x] else []).flatMap f = if c = true then f x else [] := by
  cases c <;> simp

/-- the rendering of one abstract loop iteration -/
theorem pageParts_render (d : FDoc) (num i : Nat) (p : Pict) :
    (pageParts (cfgOf d) num i p).flatMap (renderPiece d) =
      (if d.page.pageTitle.shows (i == 0) (i + 1 == num) = true then titleBlocks d else []) ++
      (if (d.subline.isSome && d.page.pageTitle.shows (i == 0) (i + 1 == num)) = true then sublineBlocks d else []) ++
      [BlockG.plain (pictNodes d.align p), BlockG.plain [cwSp "par"]] ++
      (if (d.footnote.isSome && d.page.pageFootnote.shows (i == 0) (i + 1 == num)) = true
        then footnoteBlocks d else []) ++
      (if (d.source.isSome && d.page.pageSource.shows (i == 0) (i + 1 == num)) = true then sourceBlocks d else []) ++
      (if (i + 1 == num) = true then [] else breakBlocks d) := by
  unfold pageParts pageBody cfgOf
  simp only [List.flatMap_append, shows_figPl, Bool.true_and, flatMap_ite_single]
  congr 1
  cases (i + 1 == num) <;> simp [renderPiece]

/-- **one loop iteration of the encoder is the rendering of `pageParts`** of the abstract loop, for the picture
`pictOf fmt bytes w h` at the size `getDim` selects for position `i` -/
theorem figurePieces_render {d : FDoc} {title : List Elem} {num i : Nat} {fmt : Model.Figure.Fmt}
    {bytes : List Nat} (htitle : textElem (ctxF d) d.title = .ok title) :
    Post (fun r => ∃ w h, getDim d.widths i = some w ∧ getDim d.heights i = some h ∧
        r.1 = (pageParts (cfgOf d) num i (pictOf fmt bytes w h)).flatMap (renderPiece d))
      (figurePieces (ctxF d) d title num i fmt bytes) := by
  unfold figurePieces
  extract_lets isFirst isLast titleHere t jp1
  have ht : t = if d.page.pageTitle.shows (i == 0) (i + 1 == num) = true then titleBlocks d else [] := by
    simp only [t, titleHere, isFirst, isLast, titleBlocks, htitle]
  have hjp1 : ∀ s, s = (if (d.subline.isSome && d.page.pageTitle.shows (i == 0) (i + 1 == num)) = true
        then sublineBlocks d else []) →
      Post (fun r => ∃ w h, getDim d.widths i = some w ∧ getDim d.heights i = some h ∧
        r.1 = (pageParts (cfgOf d) num i (pictOf fmt bytes w h)).flatMap (renderPiece d)) (jp1 s) := by
    intro s hs
    simp -zeta only [jp1]
    extract_lets jp2
    have hjp2 : ∀ w, getDim d.widths i = some w →
        Post (fun r => ∃ w h, getDim d.widths i = some w ∧ getDim d.heights i = some h ∧
          r.1 = (pageParts (cfgOf d) num i (pictOf fmt bytes w h)).flatMap (renderPiece d)) (jp2 w) := by
      intro w hw
      simp -zeta only [jp2]
      extract_lets jp3
      have hjp3 : ∀ h, getDim d.heights i = some h →
          Post (fun r => ∃ w h, getDim d.widths i = some w ∧ getDim d.heights i = some h ∧
            r.1 = (pageParts (cfgOf d) num i (pictOf fmt bytes w h)).flatMap (renderPiece d)) (jp3 h) := by
        intro h hh
        simp -zeta only [jp3]
        extract_lets p pic jp4
        have hjp4 : ∀ fn, fn = (if (d.footnote.isSome && d.page.pageFootnote.shows (i == 0) (i + 1 == num)) = true
              then footnoteBlocks d else []) →
            Post (fun r => ∃ w h, getDim d.widths i = some w ∧ getDim d.heights i = some h ∧
              r.1 = (pageParts (cfgOf d) num i (pictOf fmt bytes w h)).flatMap (renderPiece d)) (jp4 fn) := by
          intro fn hfn
          simp -zeta only [jp4]
          extract_lets jp5
          have hjp5 : ∀ src, src = (if (d.source.isSome && d.page.pageSource.shows (i == 0) (i + 1 == num)) = true
                then sourceBlocks d else []) →
              Post (fun r => ∃ w h, getDim d.widths i = some w ∧ getDim d.heights i = some h ∧
                r.1 = (pageParts (cfgOf d) num i (pictOf fmt bytes w h)).flatMap (renderPiece d)) (jp5 src) := by
            intro src hsrc
            simp -zeta only [jp5]
            extract_lets jp6
            have hjp6 : ∀ brk, brk = (if (i + 1 == num) = true then [] else breakBlocks d) →
                Post (fun r => ∃ w h, getDim d.widths i = some w ∧ getDim d.heights i = some h ∧
                  r.1 = (pageParts (cfgOf d) num i (pictOf fmt bytes w h)).flatMap (renderPiece d)) (jp6 brk) := by
              intro brk hbrk
              simp only [jp6]
              apply post_pure
              refine ⟨w, h, hw, hh, ?_⟩
              rw [pageParts_render, ← ht, ← hs, ← hfn, ← hsrc, ← hbrk]
            clear_value jp6
            split
            · next hl =>
              exact post_bind (post_pure (P := fun b => b = []) rfl)
                (fun a ha => by subst ha; exact hjp6 _ (by simp only [isLast] at hl; rw [if_pos hl]))
            · next hl =>
              refine post_bind (Q := fun ns => pageBreak d.page = .ok ns) (fun ns hns => hns) (fun ns hns => ?_)
              exact post_bind (post_pure (P := fun b => b = [BlockG.plain ns]) rfl)
                (fun a ha => by
                  subst ha
                  exact hjp6 _ (by simp only [isLast] at hl; rw [if_neg hl]; simp only [breakBlocks, hns]))
          clear_value jp5
          split
          · next f hf =>
            split
            · next hsh =>
              refine post_bind (Q := fun b => b = sourceBlocks d) ?_ (fun a ha => hjp5 a (by
                rw [ha, hf, if_pos]
                simp only [Option.isSome_some, Bool.true_and]
                exact hsh))
              apply post_map
              intro es hes
              simp only [sourceBlocks, hf, hes]
            · next hsh =>
              exact post_bind (post_pure (P := fun b => b = []) rfl) (fun a ha => by
                subst ha
                exact hjp5 _ (by
                  rw [if_neg]
                  simp only [hf, Option.isSome_some, Bool.true_and]
                  exact hsh))
          · next hf =>
            exact post_bind (post_pure (P := fun b => b = []) rfl) (fun a ha => by
              subst ha
              exact hjp5 _ (by rw [hf]; rfl))
        clear_value jp4
        split
        · next f hf =>
          split
          · next hsh =>
            refine post_bind (Q := fun b => b = footnoteBlocks d) ?_ (fun a ha => hjp4 a (by
              rw [ha, hf, if_pos]
              simp only [Option.isSome_some, Bool.true_and]
              exact hsh))
            apply post_map
            intro es hes
            simp only [footnoteBlocks, hf, hes]
          · next hsh =>
            exact post_bind (post_pure (P := fun b => b = []) rfl) (fun a ha => by
              subst ha
              exact hjp4 _ (by
                rw [if_neg]
                simp only [hf, Option.isSome_some, Bool.true_and]
                exact hsh))
        · next hf =>
          exact post_bind (post_pure (P := fun b => b = []) rfl) (fun a ha => by
            subst ha
            exact hjp4 _ (by rw [hf]; rfl))
      clear_value jp3
      split
      · next h hh => exact post_bind (post_pure (P := fun a => a = h) rfl) (fun a ha => by subst ha; exact hjp3 _ hh)
      · exact post_bind post_throw (Q := fun _ => False) (fun a ha => ha.elim)
    clear_value jp2
    split
    · next w hw => exact post_bind (post_pure (P := fun a => a = w) rfl) (fun a ha => by subst ha; exact hjp2 _ hw)
    · exact post_bind post_throw (Q := fun _ => False) (fun a ha => ha.elim)
  clear_value jp1
  split
  · next hc =>
    refine post_bind (Q := fun b => b = sublineBlocks d) ?_ (fun a ha => hjp1 a (by
      rw [ha, if_pos]
      exact hc))
    apply post_map
    intro es hes
    simp only [sublineBlocks, hes]
  · next hc =>
    exact post_bind (post_pure (P := fun b => b = []) rfl) (fun a ha => by
      subst ha
      exact hjp1 _ (by rw [if_neg]; exact hc))

/-! ## the whole loop -/

/-- the loop of the encoder from position `k0` on is the rendering of the abstract loop from `k0` on -/
theorem loop_render {d : FDoc} {title : List Elem} {num : Nat} (htitle : textElem (ctxF d) d.title = .ok title) :
    ∀ (files : List (Model.Figure.Fmt × List Nat)) (k0 : Nat) (pieces : List (List BlockG × Nat)),
      ((files.zipIdx k0).mapM fun (x : (Model.Figure.Fmt × List Nat) × Nat) =>
        figurePieces (ctxF d) d title num x.2 x.1.1 x.1.2) = .ok pieces →
      ∃ picts : List Pict, picts.length = files.length ∧
        (∀ j x, files[j]? = some x → ∃ w h, getDim d.widths (k0 + j) = some w ∧ getDim d.heights (k0 + j) = some h ∧
          picts[j]? = some (pictOf x.1 x.2 w h)) ∧
        pieces.flatMap (·.1) = (loopFrom (cfgOf d) num k0 picts).flatMap (renderPiece d)
  | [], k0, pieces, h => by
    simp only [List.zipIdx_nil, List.mapM_nil] at h
    cases pure_ok h
    exact ⟨[], rfl, fun j x hx => by simp at hx, rfl⟩
  | x :: files, k0, pieces, h => by
    rw [List.zipIdx_cons, List.mapM_cons] at h
    peel h as pc hpc
    peel h as rest hrest
    cases pure_ok h
    obtain ⟨w, hh, hw, hhh, hpc1⟩ := figurePieces_render (num := num) (i := k0) (fmt := x.1) (bytes := x.2) htitle pc hpc
    obtain ⟨picts, hlen, heach, hflat⟩ := loop_render htitle files (k0 + 1) rest hrest
    refine ⟨pictOf x.1 x.2 w hh :: picts, by simp [hlen], ?_, ?_⟩
    · intro j y hy
      cases j with
      | zero =>
        simp only [List.getElem?_cons_zero, Option.some.injEq] at hy
        subst hy
        exact ⟨w, hh, hw, hhh, rfl⟩
      | succ j =>
        simp only [List.getElem?_cons_succ] at hy ⊢
        obtain ⟨w', h', g1, g2, g3⟩ := heach j y hy
        exact ⟨w', h', by rw [show k0 + (j + 1) = k0 + 1 + j by omega]; exact g1,
          by rw [show k0 + (j + 1) = k0 + 1 + j by omega]; exact g2, g3⟩
    · rw [List.flatMap_cons, hpc1, hflat, loopFrom, List.flatMap_append]

/-- the pictures of a figure document: one per file, in order; picture `j` is `pictOf` of the file's format (from its
suffix) and bytes at the size `getDim` selects for position `j` -/
structure PictsOf (d : FDoc) (picts : List Pict) : Prop where
  length : picts.length = d.figs.length
  each : ∀ j f, d.figs[j]? = some f → ∃ fmt w h, fmtOfSuffix f.suffix = some fmt ∧
    getDim d.widths j = some w ∧ getDim d.heights j = some h ∧ picts[j]? = some (pictOf fmt f.bytes w h)

/-- **the document of the figure-only encoder is the rendering of the abstract loop**: preamble, then the pieces of
`figureLoop (cfgOf d) picts` rendered with the document's own components, then the closing newlines -/
theorem encodeWithF_render {d : FDoc} {g : DocG} {n : Nat} (h : encodeWithF d = .ok (some g, n)) :
    d.figs ≠ [] ∧ ∃ picts, PictsOf d picts ∧ preambleF (ctxF d) d = .ok g.head ∧
      g.blocks = (figureLoop (cfgOf d) picts).flatMap (renderPiece d) ++ [BlockG.plain [Node.nl, Node.nl]] := by
  unfold encodeWithF at h
  dsimp only at h
  split at h
  · cases pure_ok h
  · next hne =>
    peel h as files hfiles
    peel h as title htitle
    peel h as head hhead
    peel h as pieces hpieces
    cases pure_ok h
    have hall := mapM_ok hfiles
    have hflen := all2_length hall
    obtain ⟨picts, hlen, heach, hflat⟩ := loop_render (num := files.length) htitle files 0 pieces hpieces
    refine ⟨fun h0 => hne (by rw [h0]; rfl), picts, ⟨by rw [hlen, hflen], ?_⟩, hhead, ?_⟩
    · intro j f hf
      obtain ⟨x, hx, hfx⟩ := all2_get hall j f hf
      split at hfx
      · next fmt hfmt =>
        cases pure_ok hfx
        obtain ⟨w, hh, g1, g2, g3⟩ := heach j _ hx
        rw [Nat.zero_add] at g1 g2
        exact ⟨fmt, w, hh, hfmt, g1, g2, g3⟩
      · exact (throw_ok hfx).elim
    · rw [hflat, figureLoop, hlen]

/-! ## one picture -/

theorem pictOf_fmt (fmt : Model.Figure.Fmt) (bytes : List Nat) (w h : Rat) : (pictOf fmt bytes w h).fmt = fmt := by
  unfold pictOf
  dsimp only
  split <;> rfl

theorem pictOf_goals (fmt : Model.Figure.Fmt) (bytes : List Nat) (w h : Rat) :
    (pictOf fmt bytes w h).wgoal = truncFMul w 1440 ∧ (pictOf fmt bytes w h).hgoal = truncFMul h 1440 := by
  unfold pictOf
  dsimp only
  split <;> exact ⟨rfl, rfl⟩

theorem pictOf_pixels_some (fmt : Model.Figure.Fmt) (bytes : List Nat) (w h : Rat) (t : Nat × Nat)
    (ht : Model.Figure.imageDims fmt bytes = some t) :
    (pictOf fmt bytes w h).picw = t.1 ∧ (pictOf fmt bytes w h).pich = t.2 := by
  unfold pictOf
  dsimp only
  rw [ht]
  simp [Model.Figure.encodeFigure, ht]

theorem pictOf_pixels_none (fmt : Model.Figure.Fmt) (bytes : List Nat) (w h : Rat)
    (ht : Model.Figure.imageDims fmt bytes = none) :
    (pictOf fmt bytes w h).picw = truncFMul w 96 ∧ (pictOf fmt bytes w h).pich = truncFMul h 96 := by
  unfold pictOf
  dsimp only
  rw [ht]
  exact ⟨rfl, rfl⟩

/-! ## the C16 oracle on the encoder's pages -/

open Model.Figure in
theorem getDim_map {α β : Type} (f : α → β) (l : List α) (i : Nat) : getDim (l.map f) i = (getDim l i).map f := by
  unfold getDim
  rw [List.length_map]
  split
  · rw [List.getElem?_map]
  · rw [List.getLast?_map]

open Model.Figure Proofs.Figure in
/-- the page of figure `i` satisfies every clause of the oracle (the goals with the oracle's float tolerance) -/
theorem pageOk_encoder (cfg : Cfg) (n i : Nat) (sfx : List Char) (f : Fmt) (bs : List Nat)
    (tr : Option (Nat × Nat)) (w h : Rat)
    (hf : fmtOfSuffix sfx = some f) (hb : ∀ b ∈ bs, b < 256)
    (hw : 0 < w ∧ w * ((1440 : Nat) : Rat) < pow2 23) (hh : 0 < h ∧ h * ((1440 : Nat) : Rat) < pow2 23)
    (ht : ∀ t, tr = some t → HeaderStates sfx bs t) :
    pageOk cfg n i (⟨sfx, bs, tr, Model.EncodeFigure.sizeOf w, Model.EncodeFigure.sizeOf h⟩ : Want)
      (obsPage (pageBody cfg n i (pictOf f bs w h))) = true := by
  obtain ⟨c1, c2, c3, c4⟩ := counts_pageBody cfg n i (pictOf f bs w h)
  have hpay : payloadOk (⟨sfx, bs, tr, Model.EncodeFigure.sizeOf w, Model.EncodeFigure.sizeOf h⟩ : Want) (obsOfPict (pictOf f bs w h)) = true := by
    simp [payloadOk, obsOfPict, pictOf_payload, unhex_hexLines bs hb]
  have hblip : blipOk (⟨sfx, bs, tr, Model.EncodeFigure.sizeOf w, Model.EncodeFigure.sizeOf h⟩ : Want) (obsOfPict (pictOf f bs w h)) = true := by
    simp [blipOk, obsOfPict, pictOf_fmt, wantBlip_of_fmt sfx f hf]
  have hpix : pixelsOk (⟨sfx, bs, tr, Model.EncodeFigure.sizeOf w, Model.EncodeFigure.sizeOf h⟩ : Want) (obsOfPict (pictOf f bs w h)) = true := by
    cases tr with
    | none => simp [pixelsOk]
    | some t =>
      have := pictOf_pixels_some f bs w h t (imageDims_of_header sfx f bs t hf (ht t rfl))
      obtain ⟨tw, th⟩ := t
      simp [pixelsOk, obsOfPict, this.1, this.2]
  have hgoal : goalsOk (⟨sfx, bs, tr, Model.EncodeFigure.sizeOf w, Model.EncodeFigure.sizeOf h⟩ : Want) (obsOfPict (pictOf f bs w h)) = true := by
    have g := pictOf_goals f bs w h
    simp only [goalsOk, obsOfPict, g.1, g.2, Bool.and_eq_true]
    exact ⟨Proofs.RoundDouble.goalOkTol_truncFMul w hw.1 1440 (by decide) hw.2,
      Proofs.RoundDouble.goalOkTol_truncFMul h hh.1 1440 (by decide) hh.2⟩
  simp only [pageOk, pageClauses, picts_pageBody, pictClauses, c1, c2, c3, c4, hpay, hblip, hpix, hgoal]
  simp

/-- the demands of the property on a figure document, with the header truths of the files given -/
def wantsOf (d : FDoc) (truths : List (Option (Nat × Nat))) : List Model.Figure.Want :=
  Model.Figure.wantsFrom (d.widths.map Model.EncodeFigure.sizeOf) (d.heights.map Model.EncodeFigure.sizeOf) 0
    ((d.figs.zip truths).map fun x => (({ suffix := x.1.suffix, bytes := x.1.bytes } : Model.Figure.FigSrc), x.2))

open Model.Figure Proofs.Figure in
theorem pagesOk_encoder (cfg : Cfg) (n : Nat) (ws hs : List Rat)
    (hw : ∀ w ∈ ws, 0 < w ∧ w * ((1440 : Nat) : Rat) < pow2 23)
    (hh : ∀ h ∈ hs, 0 < h ∧ h * ((1440 : Nat) : Rat) < pow2 23) :
    ∀ (figs : List FigFile) (truths : List (Option (Nat × Nat))) (picts : List Pict) (i : Nat),
      truths.length = figs.length → picts.length = figs.length →
      (∀ j f, figs[j]? = some f → ∃ fmt w h, fmtOfSuffix f.suffix = some fmt ∧ getDim ws (i + j) = some w ∧
        getDim hs (i + j) = some h ∧ picts[j]? = some (pictOf fmt f.bytes w h)) →
      (∀ f ∈ figs, ∀ b ∈ f.bytes, b < 256) →
      (∀ (j : Nat) (f : FigFile) (t : Nat × Nat), figs[j]? = some f → truths[j]? = some (some t) → HeaderStates f.suffix f.bytes t) →
      pagesOkFrom cfg n i
        (wantsFrom (ws.map Model.EncodeFigure.sizeOf) (hs.map Model.EncodeFigure.sizeOf) i
          ((figs.zip truths).map fun x => (({ suffix := x.1.suffix, bytes := x.1.bytes } : FigSrc), x.2)))
        ((bodiesFrom cfg n i picts).map obsPage) = true
  | [], truths, picts, i, h1, h2, _, _, _ => by
    have : picts = [] := List.eq_nil_of_length_eq_zero (by simpa using h2)
    subst this
    simp [wantsFrom, bodiesFrom, pagesOkFrom]
  | f :: figs, [], _, _, h1, _, _, _, _ => by simp at h1
  | f :: figs, _ :: _, [], _, _, h2, _, _, _ => by simp at h2
  | f :: figs, tr :: truths, p :: picts, i, h1, h2, hp, hb, ht => by
    obtain ⟨fmt, w, h, hfmt, hgw, hgh, hpic⟩ := hp 0 f rfl
    rw [Nat.add_zero] at hgw hgh
    simp only [List.getElem?_cons_zero, Option.some.injEq] at hpic
    subst hpic
    have ih := pagesOk_encoder cfg n ws hs hw hh figs truths picts (i + 1) (by simpa using h1) (by simpa using h2)
      (fun j g hg => by
        obtain ⟨fmt', w', h', a1, a2, a3, a4⟩ := hp (j + 1) g (by simpa using hg)
        refine ⟨fmt', w', h', a1, ?_, ?_, by simpa using a4⟩
        · rw [show i + 1 + j = i + (j + 1) by omega]; exact a2
        · rw [show i + 1 + j = i + (j + 1) by omega]; exact a3)
      (fun g hg => hb g (by simp [hg]))
      (fun j g t hg htj => ht (j + 1) g t (by simpa using hg) (by simpa using htj))
    have hpage := pageOk_encoder cfg n i f.suffix fmt f.bytes tr w h hfmt (hb f (by simp))
      (hw w (getDim_mem ws i w hgw)) (hh h (getDim_mem hs i h hgh))
      (fun t htr => ht 0 f t rfl (by rw [htr]; rfl))
    simp only [List.zip_cons_cons, List.map_cons, wantsFrom, getDim_map, hgw, hgh, Option.map_some, bodiesFrom,
      pagesOkFrom, hpage, ih, Bool.and_self]

open Model.Figure Proofs.Figure in
theorem wantsFrom_length (ws hs : List Size) : ∀ (figsT : List (FigSrc × Option (Nat × Nat))) (i : Nat),
    (∀ j, j < figsT.length → (getDim ws (i + j)).isSome ∧ (getDim hs (i + j)).isSome) →
    (wantsFrom ws hs i figsT).length = figsT.length
  | [], _, _ => rfl
  | (f, tr) :: rest, i, h => by
    obtain ⟨h1, h2⟩ := h 0 (by simp)
    rw [Nat.add_zero] at h1 h2
    obtain ⟨w, hw⟩ := Option.isSome_iff_exists.mp h1
    obtain ⟨hh, hhh⟩ := Option.isSome_iff_exists.mp h2
    simp only [wantsFrom, hw, hhh, List.length_cons]
    rw [wantsFrom_length ws hs rest (i + 1) (fun j hj => by
      have := h (j + 1) (by simpa using hj)
      rw [show i + 1 + j = i + (j + 1) by omega]
      exact this)]

end Proofs.EncodeFigureLift
