import Model.Broadcast
import Model.CellAttr
/-! Helper lemmas for C09 (core Lean only): `repeatList`, `toList`, `dropCols`, `keptIdx`, `expandSlice`,
`pageRows` and `iloc`. -/
namespace Proofs.BroadcastAttr
open Model.Broadcast Model.CellAttr

/-! ## repeatList -/

theorem repeatList_length {α} (l : List α) (n : Nat) : (repeatList l n).length = n * l.length := by
  induction n with
  | zero => simp [repeatList]
  | succ n ih => simp [repeatList, ih, Nat.succ_mul, Nat.add_comm]

theorem repeatList_getElem? {α} (l : List α) (n k : Nat) (hk : k < n * l.length) :
    (repeatList l n)[k]? = l[k % l.length]? := by
  induction n generalizing k with
  | zero => simp at hk
  | succ n ih =>
    simp only [repeatList]
    by_cases h : k < l.length
    · rw [List.getElem?_append_left h, Nat.mod_eq_of_lt h]
    · have h' : l.length ≤ k := Nat.le_of_not_lt h
      rw [List.getElem?_append_right h', ih, ← Nat.mod_eq_sub_mod h']
      rw [Nat.succ_mul] at hk
      omega

/-- `⌈a / b⌉ * b ≥ a` in the form used by `toList` -/
theorem rep_ge (a b : Nat) (hb : 0 < b) : a ≤ max 1 ((a + b - 1) / b) * b := by
  have h1 : (a + b - 1) / b * b ≤ max 1 ((a + b - 1) / b) * b :=
    Nat.mul_le_mul_right b (Nat.le_max_right 1 _)
  have h2 := Nat.div_add_mod (a + b - 1) b
  have h3 := Nat.mod_lt (a + b - 1) hb
  rw [Nat.mul_comm] at h2
  omega

/-! ## iloc -/

theorem iloc_eq {α} (m : Mat α) (r c : Nat) (row : List α)
    (hrow : m[r % m.length]? = some row) (hc : 0 < m.ncols) :
    m.iloc r c = row[c % m.ncols]? := by
  unfold Mat.iloc
  have hlen : m.length ≠ 0 := by
    intro h
    have : m = [] := List.eq_nil_of_length_eq_zero h
    subst this; simp at hrow
  simp [hlen, hrow, Nat.ne_of_gt hc]

theorem length_pos_of_ne {α} (m : Mat α) (hne : m ≠ []) : 0 < m.length :=
  List.length_pos_iff.mpr hne

theorem row_exists {α} (m : Mat α) (hne : m ≠ []) (r : Nat) :
    ∃ row, m[r % m.length]? = some row ∧ row ∈ m := by
  have h := Nat.mod_lt r (length_pos_of_ne m hne)
  exact ⟨m[r % m.length], List.getElem?_eq_getElem h, List.getElem_mem h⟩

/-! ## toList -/

theorem toList_length {α} (m : Mat α) (rows cols : Nat) (hne : m ≠ []) :
    (m.toList rows cols).length = rows := by
  unfold Mat.toList
  simp only [List.length_map, List.length_take, repeatList_length]
  have := rep_ge rows m.length (length_pos_of_ne m hne)
  omega

theorem toList_getElem? {α} (m : Mat α) (rows cols r : Nat) (hne : m ≠ []) (hr : r < rows)
    (row0 : List α) (hrow : m[r % m.length]? = some row0) :
    (m.toList rows cols)[r]? =
      some ((repeatList row0 (max 1 ((cols + m.ncols - 1) / m.ncols))).take cols) := by
  unfold Mat.toList
  simp only [List.getElem?_map, List.getElem?_take, hr, if_true]
  rw [repeatList_getElem?]
  · simp [hrow]
  · simp only [List.length_map]
    have := rep_ge rows m.length (length_pos_of_ne m hne)
    omega

theorem toList_row_getElem? {α} (row0 : List α) (cols cc c : Nat) (hcc : 0 < cc)
    (hlen : row0.length = cc) (hc : c < cols) :
    ((repeatList row0 (max 1 ((cols + cc - 1) / cc))).take cols)[c]? = row0[c % cc]? := by
  simp only [List.getElem?_take, hc, if_true]
  rw [repeatList_getElem?, hlen]
  rw [hlen]
  have := rep_ge cols cc hcc
  omega

theorem toList_row_length {α} (row0 : List α) (cols cc : Nat) (hcc : 0 < cc)
    (hlen : row0.length = cc) :
    ((repeatList row0 (max 1 ((cols + cc - 1) / cc))).take cols).length = cols := by
  simp only [List.length_take, repeatList_length, hlen]
  have := rep_ge cols cc hcc
  omega

/-! ## keptIdx, dropCols -/

theorem keptIdx_pairwise (cols : Nat) (removed : List Nat) :
    (keptIdx cols removed).Pairwise (· < ·) :=
  List.Pairwise.filter _ List.pairwise_lt_range

theorem mem_keptIdx (cols : Nat) (removed : List Nat) (c : Nat) :
    c ∈ keptIdx cols removed ↔ (c < cols ∧ c ∉ removed) := by
  simp [keptIdx, List.mem_filter, List.mem_range]

theorem keptIdx_length_le (cols : Nat) (removed : List Nat) : (keptIdx cols removed).length ≤ cols := by
  have := List.length_filter_le (fun c => !removed.contains c) (List.range cols)
  simpa [keptIdx] using this

theorem dropCols_aux {α} (row : List α) (removed : List Nat) (k : Nat) :
    (((row.zipIdx k).filter fun x => !removed.contains x.2).map (·.1)).map some =
      ((List.range' k row.length).filter fun c => !removed.contains c).map (fun c => row[c - k]?) := by
  induction row generalizing k with
  | nil => simp
  | cons a t ih =>
    have htail : ((List.range' (k + 1) t.length).filter fun c => !removed.contains c).map
          (fun c => (a :: t)[c - k]?) =
        ((List.range' (k + 1) t.length).filter fun c => !removed.contains c).map
          (fun c => t[c - (k + 1)]?) := by
      apply List.map_congr_left
      intro c hc
      have hc' := (List.mem_range'_1.mp (List.mem_filter.mp hc).1).1
      have : c - k = (c - (k + 1)) + 1 := by omega
      rw [this, List.getElem?_cons_succ]
    simp only [List.zipIdx_cons, List.length_cons, List.range'_succ, List.filter_cons]
    by_cases h : removed.contains k = true
    · simp only [h, Bool.not_true, Bool.false_eq_true, if_false]
      rw [ih (k + 1), htail]
    · simp only [Bool.not_eq_true] at h
      simp only [h, Bool.not_false, if_true, List.map_cons, Nat.sub_self, List.getElem?_cons_zero]
      rw [ih (k + 1), htail]

theorem dropCols_map_some {α} (row : List α) (removed : List Nat) :
    (dropCols row removed).map some = (keptIdx row.length removed).map (fun c => row[c]?) := by
  have := dropCols_aux row removed 0
  simpa [dropCols, keptIdx, List.range_eq_range'] using this

theorem dropCols_length {α} (row : List α) (removed : List Nat) :
    (dropCols row removed).length = (keptIdx row.length removed).length := by
  have := congrArg List.length (dropCols_map_some row removed)
  simpa using this

theorem dropCols_getElem? {α} (row : List α) (removed : List Nat) (j c : Nat)
    (hj : (keptIdx row.length removed)[j]? = some c) :
    (dropCols row removed)[j]? = row[c]? := by
  have h := congrArg (fun l => l[j]?) (dropCols_map_some row removed)
  simp only [List.getElem?_map, hj, Option.map_some] at h
  cases hd : (dropCols row removed)[j]? with
  | none => simp [hd] at h
  | some v => simpa [hd] using h

/-! ## expandSlice -/

theorem toList_row_of_mem {α} (m : Mat α) (rows cols : Nat) (hne : m ≠ []) (hrect : m.Rect)
    (hc : 0 < m.ncols) (row : List α) (hrow : row ∈ m.toList rows cols) : row.length = cols := by
  obtain ⟨r, hr⟩ := List.mem_iff_getElem?.mp hrow
  have hlt : r < rows := by
    have := (List.getElem?_eq_some_iff.mp hr).1
    rwa [toList_length m rows cols hne] at this
  obtain ⟨row0, h0, hmem⟩ := row_exists m hne r
  rw [toList_getElem? m rows cols r hne hlt row0 h0] at hr
  injection hr with hr
  rw [← hr]
  exact toList_row_length row0 cols m.ncols hc (hrect row0 hmem)

theorem expandSlice_length {α} (m : Mat α) (rows cols : Nat) (removed : List Nat) (hne : m ≠ []) :
    (m.expandSlice rows cols removed).length = rows := by
  simp [Mat.expandSlice, toList_length m rows cols hne]

theorem expandSlice_row_length {α} (m : Mat α) (rows cols : Nat) (removed : List Nat) (hne : m ≠ [])
    (hrect : m.Rect) (hc : 0 < m.ncols) (row : List α) (hrow : row ∈ m.expandSlice rows cols removed) :
    row.length = (keptIdx cols removed).length := by
  simp only [Mat.expandSlice, List.mem_map] at hrow
  obtain ⟨row', hmem, rfl⟩ := hrow
  rw [dropCols_length, toList_row_of_mem m rows cols hne hrect hc row' hmem]

theorem expandSlice_ncols {α} (m : Mat α) (rows cols : Nat) (removed : List Nat) (hne : m ≠ [])
    (hrect : m.Rect) (hc : 0 < m.ncols) (hrows : 0 < rows) :
    (m.expandSlice rows cols removed).ncols = (keptIdx cols removed).length := by
  have hlen := expandSlice_length m rows cols removed hne
  cases he : m.expandSlice rows cols removed with
  | nil => rw [he] at hlen; simp at hlen; omega
  | cons row t =>
    have := expandSlice_row_length m rows cols removed hne hrect hc row (by rw [he]; simp)
    simp [Mat.ncols, this]

theorem expandSlice_rect {α} (m : Mat α) (rows cols : Nat) (removed : List Nat) (hne : m ≠ [])
    (hrect : m.Rect) (hc : 0 < m.ncols) (hrows : 0 < rows) :
    (m.expandSlice rows cols removed).Rect := by
  intro row hrow
  rw [expandSlice_ncols m rows cols removed hne hrect hc hrows]
  exact expandSlice_row_length m rows cols removed hne hrect hc row hrow

/-- the cell of the expanded, column-reduced matrix is the cell of the original position -/
theorem expandSlice_iloc {α} (m : Mat α) (rows cols : Nat) (removed : List Nat) (r j c : Nat)
    (hne : m ≠ []) (hrect : m.Rect) (hc : 0 < m.ncols) (hr : r < rows)
    (hj : (keptIdx cols removed)[j]? = some c) :
    (m.expandSlice rows cols removed).iloc r j = m.iloc r c := by
  have hrows : 0 < rows := by omega
  have hjlt : j < (keptIdx cols removed).length := (List.getElem?_eq_some_iff.mp hj).1
  have hccols : c < cols := ((mem_keptIdx cols removed c).mp (List.mem_of_getElem? hj)).1
  obtain ⟨row0, h0, hmem⟩ := row_exists m hne r
  have hnc := expandSlice_ncols m rows cols removed hne hrect hc hrows
  have hlen := expandSlice_length m rows cols removed hne
  have hrowE : (m.expandSlice rows cols removed)[r % (m.expandSlice rows cols removed).length]? =
      some (dropCols ((repeatList row0 (max 1 ((cols + m.ncols - 1) / m.ncols))).take cols) removed) := by
    rw [hlen, Nat.mod_eq_of_lt hr]
    simp only [Mat.expandSlice, List.getElem?_map, toList_getElem? m rows cols r hne hr row0 h0,
      Option.map_some]
  rw [iloc_eq _ r j _ hrowE (by omega), hnc, Nat.mod_eq_of_lt hjlt, iloc_eq m r c row0 h0 hc]
  have hl := toList_row_length row0 cols m.ncols hc (hrect row0 hmem)
  rw [dropCols_getElem? _ removed j c (by rw [hl]; exact hj)]
  exact toList_row_getElem? row0 cols m.ncols c hc (hrect row0 hmem) hccols

/-! ## pageRows -/

theorem pageRows_iloc {α} (m : Mat α) (start height i c : Nat) (hne : m ≠ []) (hrect : m.Rect)
    (hc : 0 < m.ncols) (hi : i < height) :
    (m.pageRows start height).iloc i c = m.iloc (start + i) c := by
  have hpos := length_pos_of_ne m hne
  unfold Mat.pageRows
  by_cases h1 : m.length > 1
  · simp only [h1, if_true]
    have hfm : (List.range height).filterMap (fun i => m[(start + i) % m.length]?) =
        (List.range height).map (fun i => m[(start + i) % m.length]'(Nat.mod_lt _ hpos)) := by
      rw [← List.filterMap_eq_map]
      congr 1
      funext k
      exact List.getElem?_eq_getElem (Nat.mod_lt _ hpos)
    rw [hfm]
    have hnc : Mat.ncols ((List.range height).map
        (fun i => m[(start + i) % m.length]'(Nat.mod_lt _ hpos))) = m.ncols := by
      have h0 : 0 < height := by omega
      have hh := hrect _ (List.getElem_mem (Nat.mod_lt (start + 0) hpos))
      simp only [Mat.ncols, List.head?_eq_getElem?, List.getElem?_map, List.getElem?_range h0,
        Option.map_some, Option.getD_some] at hh ⊢
      exact hh
    have hrow : ((List.range height).map
        (fun i => m[(start + i) % m.length]'(Nat.mod_lt _ hpos)))[i %
          ((List.range height).map
            (fun i => m[(start + i) % m.length]'(Nat.mod_lt _ hpos))).length]? =
        some (m[(start + i) % m.length]'(Nat.mod_lt _ hpos)) := by
      simp only [List.length_map, List.length_range, Nat.mod_eq_of_lt hi, List.getElem?_map,
        List.getElem?_range hi, Option.map_some]
    rw [iloc_eq _ i c _ hrow (by rw [hnc]; exact hc), hnc,
      iloc_eq m (start + i) c _ (List.getElem?_eq_getElem (Nat.mod_lt _ hpos)) hc]
  · simp only [h1, if_false]
    have hl : m.length = 1 := by omega
    obtain ⟨row0, h0, _⟩ := row_exists m hne i
    have h0' : m[(start + i) % m.length]? = some row0 := by
      rw [hl, Nat.mod_one] at *; exact h0
    rw [iloc_eq m i c row0 h0 hc, iloc_eq m (start + i) c row0 h0' hc]

/-! ## cellAttr -/

theorem cellAttr_eq_spec {α} (A : Mat α) (rows cols : Nat) (removed : List Nat) (start height i j : Nat)
    (hne : A ≠ []) (hrect : A.Rect) (hc : 0 < A.ncols)
    (hpage : start + height ≤ rows) (hi : i < height)
    (hj : j < (keptIdx cols removed).length) :
    cellAttr A rows cols removed start height i j = specAttr A cols removed start i j := by
  obtain ⟨c, hjc⟩ : ∃ c, (keptIdx cols removed)[j]? = some c :=
    ⟨_, List.getElem?_eq_getElem hj⟩
  unfold cellAttr specAttr
  simp only [hjc]
  by_cases hrem : removed.isEmpty = true
  · simp only [hrem, if_true]
    have : removed = [] := List.isEmpty_iff.mp hrem
    subst this
    have hnil : keptIdx cols [] = List.range cols := by simp [keptIdx]
    rw [hnil] at hjc hj
    rw [List.getElem?_range (by simpa using hj)] at hjc
    injection hjc with hjc
    subst hjc
    exact pageRows_iloc A start height i j hne hrect hc hi
  · simp only [hrem, if_false, Bool.false_eq_true]
    have hrows : 0 < rows := by omega
    have hneE : A.expandSlice rows cols removed ≠ [] := by
      intro h
      have := expandSlice_length A rows cols removed hne
      rw [h] at this; simp at this; omega
    rw [pageRows_iloc _ start height i j hneE
      (expandSlice_rect A rows cols removed hne hrect hc hrows)
      (by rw [expandSlice_ncols A rows cols removed hne hrect hc hrows]; omega) hi]
    exact expandSlice_iloc A rows cols removed (start + i) j _ hne hrect hc (by omega) hjc

end Proofs.BroadcastAttr
