import Model.World
/-! Helper lemmas for C14 (process state). Core Lean only. -/
namespace Proofs.World
open Model.World

/-! ## association lists -/

theorem aget_aset_self {α β} [DecidableEq α] (k : α) (v : β) (l : List (α × β)) :
    aget k (aset k v l) = some v := by
  induction l with
  | nil => simp [aset, aget]
  | cons p r ih =>
    obtain ⟨k', v'⟩ := p
    by_cases h : k' = k
    · simp [aset, aget, h]
    · simp [aset, aget, h, ih]

theorem aget_aset_ne {α β} [DecidableEq α] {k k' : α} (v : β) (l : List (α × β)) (hne : k' ≠ k) :
    aget k' (aset k v l) = aget k' l := by
  induction l with
  | nil =>
    have : ¬ k = k' := fun h => hne h.symm
    simp [aset, aget, this]
  | cons p r ih =>
    obtain ⟨k₁, v₁⟩ := p
    simp only [aset]
    split
    · rename_i h
      have h' : ¬ k₁ = k' := fun e => hne (e.symm.trans h)
      simp [aget, h']
    · simp only [aget, ih]

theorem aset_of_aget {α β} [DecidableEq α] {k : α} {v : β} {l : List (α × β)} (h : aget k l = some v) :
    aset k v l = l := by
  induction l with
  | nil => simp [aget] at h
  | cons p r ih =>
    obtain ⟨k', v'⟩ := p
    by_cases hk : k' = k
    · simp [aget, hk] at h
      simp [aset, hk, h]
    · simp [aget, hk] at h
      simp [aset, hk, ih h]

theorem aget_filter_self {α β} [DecidableEq α] (n : α) (l : List (α × β)) :
    aget n (l.filter (fun e => e.1 != n)) = none := by
  induction l with
  | nil => rfl
  | cons p r ih =>
    obtain ⟨k', v'⟩ := p
    by_cases hn : k' = n
    · simp [hn, ih]
    · simp [hn, aget, ih]

theorem aget_filter_ne {α β} [DecidableEq α] {k n : α} {v : β} {l : List (α × β)}
    (h : aget k (l.filter (fun e => e.1 != n)) = some v) : aget k l = some v := by
  induction l with
  | nil => simp [aget] at h
  | cons p r ih =>
    obtain ⟨k', v'⟩ := p
    by_cases hn : k' = n
    · simp only [List.filter_cons, hn, bne_self_eq_false, Bool.false_eq_true, if_false] at h
      have hk : ¬ k' = k := by
        intro e
        rw [← e, hn, aget_filter_self] at h
        cases h
      simp only [aget, hk, if_false]
      exact ih h
    · have hb : ((k', v').1 != n) = true := by simp [hn]
      simp only [List.filter_cons, hb, if_true, aget] at h ⊢
      split
      · rename_i hk; simp only [hk, if_true] at h; exact h
      · rename_i hk; simp only [hk, if_false] at h; exact ih h

/-! ## the registry -/

theorem nDefault_ne_nPageBy : nDefault ≠ nPageBy := by decide
theorem nDefault_ne_nSubline : nDefault ≠ nSubline := by decide
theorem nPageBy_ne_nSubline : nPageBy ≠ nSubline := by decide

theorem registerAll_default (r : Registry) : aget nDefault (registerAll r) = some .default := by
  unfold registerAll
  rw [aget_aset_ne _ _ nDefault_ne_nSubline, aget_aset_ne _ _ nDefault_ne_nPageBy, aget_aset_self]

theorem registerAll_pageBy (r : Registry) : aget nPageBy (registerAll r) = some .pageBy := by
  unfold registerAll
  rw [aget_aset_ne _ _ nPageBy_ne_nSubline, aget_aset_self]

theorem registerAll_subline (r : Registry) : aget nSubline (registerAll r) = some .subline := by
  unfold registerAll
  rw [aget_aset_self]

/-- registering again changes nothing: the registry is constant after the first encoder -/
theorem registerAll_idem (r : Registry) : registerAll (registerAll r) = registerAll r := by
  have h1 : aset nDefault .default (registerAll r) = registerAll r := aset_of_aget (registerAll_default r)
  have h2 : aset nPageBy .pageBy (registerAll r) = registerAll r := aset_of_aget (registerAll_pageBy r)
  have h3 : aset nSubline .subline (registerAll r) = registerAll r := aset_of_aget (registerAll_subline r)
  show aset nSubline .subline (aset nPageBy .pageBy (aset nDefault .default (registerAll r))) = registerAll r
  rw [h1, h2, h3]

theorem strategyName_cases (o : Obj) :
    strategyName o = nDefault ∨ strategyName o = nPageBy ∨ strategyName o = nSubline := by
  unfold strategyName
  split
  · exact Or.inr (Or.inr rfl)
  · split
    · exact Or.inr (Or.inl rfl)
    · exact Or.inl rfl

/-- after the three registrations the strategy of a body does not depend on what was registered before -/
theorem registerAll_lookup (r r' : Registry) (o : Obj) :
    aget (strategyName o) (registerAll r) = aget (strategyName o) (registerAll r') := by
  rcases strategyName_cases o with h | h | h <;> rw [h]
  · rw [registerAll_default, registerAll_default]
  · rw [registerAll_pageBy, registerAll_pageBy]
  · rw [registerAll_subline, registerAll_subline]

/-! ## encoding reads only: context, three registry entries, objects, frames -/

theorem encodeSec_congr {w w' : World} (d : Doc) (i : Nat) (s : FrameId × Comp)
    (hh : w.heap = w'.heap) (hf : w.frames = w'.frames)
    (hr : ∀ o, aget (strategyName o) w.registry = aget (strategyName o) w'.registry) :
    encodeSec w d i s = encodeSec w' d i s := by
  unfold encodeSec
  rw [hh, hf]
  split
  · rename_i f o _ _
    rw [hr o]
  · rfl

theorem encodeSecs_congr {w w' : World} (d : Doc) (ss : List (FrameId × Comp))
    (hh : w.heap = w'.heap) (hf : w.frames = w'.frames)
    (hr : ∀ o, aget (strategyName o) w.registry = aget (strategyName o) w'.registry) :
    ∀ i, encodeSecs w d i ss = encodeSecs w' d i ss := by
  induction ss with
  | nil => intro i; rfl
  | cons s ss ih =>
    intro i
    simp only [encodeSecs]
    rw [encodeSec_congr d i s hh hf hr, ih (i + 1)]

theorem encodeWithContext_congr (T : Table) {w w' : World} (d : Doc)
    (hs : w.seed = w'.seed)
    (hc : w.ctx = w'.ctx) (hh : w.heap = w'.heap) (hf : w.frames = w'.frames)
    (hr : ∀ o, aget (strategyName o) w.registry = aget (strategyName o) w'.registry) :
    encodeWithContext T w d = encodeWithContext T w' d := by
  unfold encodeWithContext
  rw [encodeSecs_congr d d.secs hh hf hr 0, hh, hc, hs]

/-- the outcome of `rtf_encode()` is a function of the document, the objects and the frames only (within one
process: one hash seed; across seeds see `encodeDoc_outcome_inj`) -/
theorem encodeDoc_outcome (T : Table) {w w' : World} (d : Doc)
    (hs : w.seed = w'.seed) (hh : w.heap = w'.heap) (hf : w.frames = w'.frames) :
    (encodeDoc T w d).2 = (encodeDoc T w' d).2 := by
  unfold encodeDoc
  apply encodeWithContext_congr
  · exact hs
  · simp [hh, hs]
  · exact hh
  · exact hf
  · intro o; exact registerAll_lookup _ _ o

theorem encodeDoc_world (T : Table) (w : World) (d : Doc) :
    (encodeDoc T w d).1 = { w with registry := registerAll w.registry, ctx := none } := rfl

/-! ## colours: the enumeration order of the context is irrelevant -/

theorem aget_mem {α β} [DecidableEq α] {k : α} {v : β} {l : List (α × β)} (h : aget k l = some v) :
    (k, v) ∈ l := by
  induction l with
  | nil => simp [aget] at h
  | cons p r ih =>
    obtain ⟨k', v'⟩ := p
    by_cases hk : k' = k
    · simp [aget, hk] at h; simp [hk, h]
    · simp [aget, hk] at h; exact List.mem_cons_of_mem _ (ih h)

theorem fst_eq_of_nodup_snd {α β} {l : List (α × β)} (hn : (l.map (·.2)).Nodup) {a b : α} {n : β}
    (ha : (a, n) ∈ l) (hb : (b, n) ∈ l) : a = b := by
  induction l with
  | nil => cases ha
  | cons p r ih =>
    simp only [List.map_cons, List.nodup_cons] at hn
    have hmem : ∀ x, (x, n) ∈ r → n ∈ r.map (·.2) := fun x hx => List.mem_map.mpr ⟨(x, n), hx, rfl⟩
    rcases List.mem_cons.mp ha with ha | ha <;> rcases List.mem_cons.mp hb with hb | hb
    · rw [← ha] at hb; exact (Prod.mk.inj hb).1.symm
    · rw [← ha] at hn; exact absurd (hmem b hb) hn.1
    · rw [← hb] at hn; exact absurd (hmem a ha) hn.1
    · exact ih hn.2 ha hb

theorem master_inj_of_nodup (T : Table) (h : (T.map (·.2)).Nodup) :
    ∀ a b n, master T a = some n → master T b = some n → a = b :=
  fun _ _ _ ha hb => fst_eq_of_nodup_snd h (aget_mem ha) (aget_mem hb)

def keyOf (T : Table) (c : Color) : Color × Nat := (c, (master T c).getD 0)

theorem keyed_eq (T : Table) (l : List Color) :
    keyed T l = if l.all (fun c => (master T c).isSome) then some (l.map (keyOf T)) else none := by
  induction l with
  | nil => rfl
  | cons c cs ih =>
    simp only [keyed, ih, List.all_cons, List.map_cons]
    cases hm : master T c with
    | none => simp
    | some n =>
      by_cases hall : (cs.all fun c => (master T c).isSome) = true
      · simp [hall, keyOf, hm]
      · simp [hall]

theorem all_perm {α} (p : α → Bool) {l l' : List α} (h : l.Perm l') : l.all p = l'.all p := by
  rw [Bool.eq_iff_iff, List.all_eq_true, List.all_eq_true]
  exact ⟨fun H x hx => H x (h.mem_iff.mpr hx), fun H x hx => H x (h.mem_iff.mp hx)⟩

theorem leIdx_trans (a b c : Color × Nat) : leIdx a b = true → leIdx b c = true → leIdx a c = true := by
  simp only [leIdx, decide_eq_true_eq]; omega

theorem leIdx_total (a b : Color × Nat) : (leIdx a b || leIdx b a) = true := by
  simp only [leIdx, Bool.or_eq_true, decide_eq_true_eq]; omega

theorem insertIdx_perm (a : Color × Nat) (l : List (Color × Nat)) : (insertIdx a l).Perm (a :: l) := by
  induction l with
  | nil => exact List.Perm.refl _
  | cons b r ih =>
    simp only [insertIdx]
    split
    · exact List.Perm.refl _
    · exact (List.Perm.cons b ih).trans (List.Perm.swap a b r)

theorem sortByIndex_perm (l : List (Color × Nat)) : (sortByIndex l).Perm l := by
  induction l with
  | nil => exact List.Perm.refl _
  | cons x xs ih => exact (insertIdx_perm x _).trans (List.Perm.cons x ih)

theorem insertIdx_sorted (a : Color × Nat) (l : List (Color × Nat))
    (h : l.Pairwise (fun x y => leIdx x y = true)) :
    (insertIdx a l).Pairwise (fun x y => leIdx x y = true) := by
  induction l with
  | nil => simp [insertIdx]
  | cons b r ih =>
    simp only [insertIdx]
    have hb := List.pairwise_cons.mp h
    split
    · rename_i hab
      refine List.pairwise_cons.mpr ⟨?_, h⟩
      intro y hy
      rcases List.mem_cons.mp hy with e | e
      · rw [e]; exact hab
      · exact leIdx_trans a b y hab (hb.1 y e)
    · rename_i hab
      refine List.pairwise_cons.mpr ⟨?_, ih hb.2⟩
      intro y hy
      rcases List.mem_cons.mp ((insertIdx_perm a r).mem_iff.mp hy) with e | e
      · rw [e]
        have := leIdx_total a b
        simp only [Bool.or_eq_true] at this
        rcases this with t | t
        · exact absurd t hab
        · exact t
      · exact hb.1 y e

theorem sortByIndex_sorted (l : List (Color × Nat)) :
    (sortByIndex l).Pairwise (fun x y => leIdx x y = true) := by
  induction l with
  | nil => exact List.Pairwise.nil
  | cons x xs ih => exact insertIdx_sorted x _ ih

theorem sortByIndex_perm_eq (T : Table) (l l' : List Color)
    (hinj : ∀ a b n, master T a = some n → master T b = some n → a = b)
    (hsome : ∀ c ∈ l, (master T c).isSome) (hperm : l.Perm l') :
    sortByIndex (l.map (keyOf T)) = sortByIndex (l'.map (keyOf T)) := by
  apply List.Perm.eq_of_pairwise (le := fun a b => leIdx a b = true)
  · intro a b ha hb hab hba
    have ha' : a ∈ l.map (keyOf T) := (sortByIndex_perm _).mem_iff.mp ha
    have hb' : b ∈ l'.map (keyOf T) := (sortByIndex_perm _).mem_iff.mp hb
    obtain ⟨x, hx, rfl⟩ := List.mem_map.mp ha'
    obtain ⟨y, hy, rfl⟩ := List.mem_map.mp hb'
    have hy' : y ∈ l := hperm.mem_iff.mpr hy
    have hxs := hsome x hx
    have hys := hsome y hy'
    cases hmx : master T x with
    | none => simp [hmx] at hxs
    | some n =>
      cases hmy : master T y with
      | none => simp [hmy] at hys
      | some m =>
        simp [leIdx, keyOf, hmx, hmy] at hab hba
        have : n = m := by omega
        subst this
        have := hinj x y n hmx hmy
        subst this
        rfl
  · exact sortByIndex_sorted _
  · exact sortByIndex_sorted _
  · exact (sortByIndex_perm _).trans ((hperm.map _).trans (sortByIndex_perm _).symm)

theorem keyed_sorted_perm (T : Table) (l l' : List Color)
    (hinj : ∀ a b n, master T a = some n → master T b = some n → a = b) (hperm : l.Perm l') :
    (keyed T l).map sortByIndex = (keyed T l').map sortByIndex := by
  rw [keyed_eq, keyed_eq, all_perm _ hperm]
  split
  · rename_i hall
    simp only [Option.map_some, Option.some.injEq]
    apply sortByIndex_perm_eq T l l' hinj _ hperm
    intro c hc
    have := (List.all_eq_true.mp hall) c (hperm.mem_iff.mp hc)
    exact this
  · rfl

theorem significant_perm {l l' : List Color} (h : l.Perm l') : (significant l).Perm (significant l') :=
  h.filter _

theorem isEmpty_perm {α} {l l' : List α} (h : l.Perm l') : l.isEmpty = l'.isEmpty := by
  cases l with
  | nil => rw [h.nil_eq]
  | cons a r =>
    cases l' with
    | nil => exact absurd h.symm.nil_eq (by simp)
    | cons b r' => rfl

theorem rtfColorIndex_perm (T : Table) (used used' : List Color) (c : Color)
    (hinj : ∀ a b n, master T a = some n → master T b = some n → a = b) (hperm : used.Perm used') :
    rtfColorIndex T (some used) c = rtfColorIndex T (some used') c := by
  have hs := significant_perm hperm
  have hk := keyed_sorted_perm T _ _ hinj hs
  unfold rtfColorIndex
  split
  · rfl
  · simp only [isEmpty_perm hs]
    split
    · rfl
    · cases h1 : keyed T (significant used) with
      | none =>
        rw [h1] at hk
        cases h2 : keyed T (significant used') with
        | none => rfl
        | some ks' => rw [h2] at hk; simp at hk
      | some ks =>
        rw [h1] at hk
        cases h2 : keyed T (significant used') with
        | none => rw [h2] at hk; simp at hk
        | some ks' =>
          rw [h2] at hk
          simp only [Option.map_some, Option.some.injEq] at hk
          simp only [hk]

theorem colorTable_perm (T : Table) (used used' : List Color)
    (hinj : ∀ a b n, master T a = some n → master T b = some n → a = b) (hperm : used.Perm used') :
    colorTable T used = colorTable T used' := by
  have hk := keyed_sorted_perm T _ _ hinj (significant_perm hperm)
  unfold colorTable
  have : ∀ o : Option (List (Color × Nat)),
      o.map (fun ks => (sortByIndex ks).map (·.1)) = (o.map sortByIndex).map (fun ks => ks.map (·.1)) := by
    intro o; cases o <;> rfl
  rw [this, this, hk]

/-! ## locality: a constructor call and the encode of its document read only the objects it names -/

def refs : Comp → List ObjId
  | .ref i => [i]
  | .own _ => []

theorem get_congr {h h' : Heap} {c : Comp} (hag : ∀ i ∈ refs c, aget i h = aget i h') :
    c.get h = c.get h' := by
  cases c with
  | ref i => exact hag i (by simp [refs])
  | own o => rfl

theorem mapE_congr {α β} {f g : α → Except Err β} {l : List α} (h : ∀ x ∈ l, f x = g x) :
    mapE f l = mapE g l := by
  induction l with
  | nil => rfl
  | cons x xs ih =>
    simp only [mapE]
    rw [h x (List.mem_cons_self ..), ih (fun y hy => h y (List.mem_cons_of_mem _ hy))]

theorem mapE_ok_mem {α β} {f : α → Except Err β} {l : List α} {r : List β} (h : mapE f l = .ok r) :
    ∀ y ∈ r, ∃ x ∈ l, f x = .ok y := by
  induction l generalizing r with
  | nil => simp [mapE] at h; subst h; intro y hy; cases hy
  | cons x xs ih =>
    simp only [mapE] at h
    split at h
    · cases h
    · rename_i y0 hy0
      split at h
      · cases h
      · rename_i ys hys
        cases h
        intro y hy
        rcases List.mem_cons.mp hy with e | e
        · exact ⟨x, List.mem_cons_self .., e ▸ hy0⟩
        · obtain ⟨x', hx', hf⟩ := ih hys y e
          exact ⟨x', List.mem_cons_of_mem _ hx', hf⟩

theorem resolveBody_refs (o : Obj) (i : ObjId) (n : Nat) : ∀ j ∈ refs (resolveBody o i n), j = i := by
  unfold resolveBody
  intro j hj
  split at hj
  · simp [refs] at hj
  · split at hj
    · simp [refs] at hj
    · simpa [refs] using hj
  · simpa [refs] using hj

theorem resolveSec_shape {h : Heap} {fs : Frames} {s : FrameId × ObjId} {s' : FrameId × Comp}
    (hr : resolveSec h fs s = .ok s') : s'.1 = s.1 ∧ ∀ j ∈ refs s'.2, j = s.2 := by
  unfold resolveSec at hr
  split at hr
  · cases hr
    exact ⟨rfl, resolveBody_refs _ _ _⟩
  · cases hr

theorem inheritHeader_refs (o : Obj) (c : Comp) (bw : List Width) :
    ∀ j ∈ refs (inheritHeader o c bw), j ∈ refs c := by
  unfold inheritHeader
  intro j hj
  split at hj
  · simp [refs] at hj
  · exact hj

theorem inheritRef_refs {h : Heap} {bw : List Width} {i : ObjId} {c : Comp}
    (hr : inheritRef h bw i = .ok c) : ∀ j ∈ refs c, j = i := by
  unfold inheritRef at hr
  split at hr
  · cases hr
    intro j hj
    simpa [refs] using inheritHeader_refs _ _ _ j hj
  · cases hr

theorem inheritOpt_refs {h : Heap} {bw : List Width} {oi : Option ObjId} {oc : Option Comp}
    (hr : inheritOpt h bw oi = .ok oc) : ∀ c, oc = some c → ∀ j ∈ refs c, oi = some j := by
  cases oi with
  | none => simp [inheritOpt] at hr; subst hr; intro c hc; cases hc
  | some i =>
    simp only [inheritOpt] at hr
    split at hr
    · rename_i c0 hc0
      cases hr
      intro c hc j hj
      cases hc
      rw [inheritRef_refs hc0 j hj]
    · cases hr

/-- objects named by the header argument -/
def headerIds : HeaderArg → List ObjId
  | .default => []
  | .flat hs => hs
  | .nested hss => hss.flatten.filterMap id

theorem inheritNested_refs {h : Heap} :
    ∀ {hss : List (List (Option ObjId))} {secs : List (FrameId × Comp)} {hv : List (List (Option Comp))},
      inheritNested h hss secs = .ok hv →
      ∀ c ∈ hv.flatten.filterMap id, ∀ j ∈ refs c, j ∈ hss.flatten.filterMap id := by
  intro hss
  induction hss with
  | nil =>
    intro secs hv hr
    cases secs with
    | nil => simp [inheritNested] at hr; subst hr; intro c hc; simp at hc
    | cons s ss => simp [inheritNested] at hr
  | cons hs hss ih =>
    intro secs hv hr
    cases secs with
    | nil => simp [inheritNested] at hr
    | cons s ss =>
      simp only [inheritNested] at hr
      split at hr
      · cases hr
      · rename_i bw _
        split at hr
        · cases hr
        · rename_i r hrr
          split at hr
          · cases hr
          · rename_i rs hrs
            cases hr
            intro c hc j hj
            simp only [List.flatten_cons, List.filterMap_append, List.mem_append] at hc ⊢
            rcases hc with hc | hc
            · left
              obtain ⟨oc, hoc, hid⟩ := List.mem_filterMap.mp hc
              simp only [id] at hid
              obtain ⟨oi, hoi, hf⟩ := mapE_ok_mem hrr oc hoc
              have := inheritOpt_refs hf c hid j hj
              exact List.mem_filterMap.mpr ⟨oi, hoi, this⟩
            · right
              exact ih hrs c hc j hj

theorem constructHeaders_refs {h : Heap} {k : Kind} {secs : List (FrameId × Comp)} {bw : List Width}
    {ha : HeaderArg} {hv : HeaderVal} (hr : constructHeaders h k secs bw ha = .ok hv) :
    ∀ c ∈ headerComps hv, ∀ j ∈ refs c, j ∈ headerIds ha := by
  cases ha with
  | default =>
    simp only [constructHeaders] at hr
    cases hr
    intro c hc j hj
    simp only [headerComps, List.mem_singleton] at hc
    subst hc
    have := inheritHeader_refs _ _ _ j hj
    simp [refs] at this
  | flat hs =>
    simp only [constructHeaders] at hr
    split at hr
    · cases hr
    · rename_i hvl hm
      cases hr
      intro c hc j hj
      obtain ⟨i, hi, hf⟩ := mapE_ok_mem hm c hc
      rw [inheritRef_refs hf j hj]
      exact hi
  | nested hss =>
    simp only [constructHeaders] at hr
    split at hr
    · split at hr
      · cases hr
      · rename_i hvl hm
        cases hr
        exact inheritNested_refs hm
    · cases hr

/-- all components of a document -/
def allComps (d : Doc) : List Comp := d.secs.map (·.2) ++ d.others.map .ref ++ headerComps d.headers

theorem ctorObjs_def (c : Ctor) :
    ∀ j, (j ∈ c.secs.map (·.2) ∨ j ∈ c.others ∨ j ∈ headerIds c.headers) →
      j ∈ (c.secs.map (·.2) ++ c.others ++ headerIds c.headers) := by
  intro j h
  simp only [List.mem_append]
  rcases h with h | h | h
  · exact Or.inl (Or.inl h)
  · exact Or.inl (Or.inr h)
  · exact Or.inr h

/-- Every reference held by a constructed document is one the constructor call named, and its
frames are the call's frames. -/
theorem construct_refs {h : Heap} {fs : Frames} {c : Ctor} {d : Doc} (hc : construct h fs c = .ok d) :
    (∀ comp ∈ allComps d, ∀ j ∈ refs comp, j ∈ c.secs.map (·.2) ++ c.others ++ headerIds c.headers)
    ∧ (∀ s ∈ d.secs, s.1 ∈ c.secs.map (·.1)) := by
  unfold construct at hc
  split at hc
  · cases hc
    constructor
    · intro comp hcomp j hj
      simp only [allComps, List.map_nil, List.nil_append, headerComps, List.mem_append, List.mem_map,
        List.mem_singleton] at hcomp
      rcases hcomp with ⟨i, hi, rfl⟩ | rfl
      · simp only [refs, List.mem_singleton] at hj
        subst hj
        exact ctorObjs_def c _ (Or.inr (Or.inl hi))
      · simp [refs] at hj
    · intro s hs; cases hs
  · split at hc
    · cases hc
    · cases hc
    · rename_i s0 ss hm
      split at hc
      · cases hc
      · split at hc
        · cases hc
        · rename_i hv hh
          cases hc
          have hsec : ∀ s' ∈ s0 :: ss, s'.1 ∈ c.secs.map (·.1) ∧ ∀ j ∈ refs s'.2, j ∈ c.secs.map (·.2) := by
            intro s' hs'
            obtain ⟨s, hs, hf⟩ := mapE_ok_mem hm s' hs'
            obtain ⟨h1, h2⟩ := resolveSec_shape hf
            refine ⟨h1 ▸ List.mem_map.mpr ⟨s, hs, rfl⟩, ?_⟩
            intro j hj
            rw [h2 j hj]
            exact List.mem_map.mpr ⟨s, hs, rfl⟩
          constructor
          · intro comp hcomp j hj
            simp only [allComps, List.mem_append, List.mem_map] at hcomp
            rcases hcomp with (⟨s', hs', rfl⟩ | ⟨i, hi, rfl⟩) | hcomp
            · exact ctorObjs_def c _ (Or.inl ((hsec s' hs').2 j hj))
            · simp only [refs, List.mem_singleton] at hj
              subst hj
              exact ctorObjs_def c _ (Or.inr (Or.inl hi))
            · exact ctorObjs_def c _ (Or.inr (Or.inr (constructHeaders_refs hh comp hcomp j hj)))
          · intro s hs
            exact (hsec s hs).1

/-! ### congruence of construction -/

theorem widthsOf_congr {h h' : Heap} {c : Comp} (hg : c.get h = c.get h') : widthsOf h c = widthsOf h' c := by
  unfold widthsOf; rw [hg]

theorem inheritRef_congr {h h' : Heap} (bw : List Width) {i : ObjId} (hg : aget i h = aget i h') :
    inheritRef h bw i = inheritRef h' bw i := by
  unfold inheritRef; rw [hg]

theorem inheritOpt_congr {h h' : Heap} (bw : List Width) {oi : Option ObjId}
    (hg : ∀ i, oi = some i → aget i h = aget i h') : inheritOpt h bw oi = inheritOpt h' bw oi := by
  cases oi with
  | none => rfl
  | some i => simp only [inheritOpt]; rw [inheritRef_congr bw (hg i rfl)]

theorem inheritNested_congr {h h' : Heap} :
    ∀ (hss : List (List (Option ObjId))) (secs : List (FrameId × Comp)),
      (∀ s ∈ secs, s.2.get h = s.2.get h') →
      (∀ i ∈ hss.flatten.filterMap id, aget i h = aget i h') →
      inheritNested h hss secs = inheritNested h' hss secs := by
  intro hss
  induction hss with
  | nil => intro secs _ _; cases secs <;> rfl
  | cons hs hss ih =>
    intro secs hsec hid
    cases secs with
    | nil => rfl
    | cons s ss =>
      simp only [inheritNested]
      rw [widthsOf_congr (hsec s (List.mem_cons_self ..))]
      have hm : ∀ bw, mapE (inheritOpt h bw) hs = mapE (inheritOpt h' bw) hs := by
        intro bw
        apply mapE_congr
        intro oi hoi
        apply inheritOpt_congr
        intro i hi
        apply hid
        simp only [List.flatten_cons, List.filterMap_append, List.mem_append]
        left
        exact List.mem_filterMap.mpr ⟨oi, hoi, hi⟩
      have hrec := ih ss (fun s' hs' => hsec s' (List.mem_cons_of_mem _ hs'))
        (fun i hi => hid i (by
          simp only [List.flatten_cons, List.filterMap_append, List.mem_append]
          exact Or.inr hi))
      split
      · rfl
      · rename_i bw _
        rw [hm bw, hrec]

theorem constructHeaders_congr {h h' : Heap} (k : Kind) (secs : List (FrameId × Comp)) (bw : List Width)
    (ha : HeaderArg) (hsec : ∀ s ∈ secs, s.2.get h = s.2.get h')
    (hid : ∀ i ∈ headerIds ha, aget i h = aget i h') :
    constructHeaders h k secs bw ha = constructHeaders h' k secs bw ha := by
  cases ha with
  | default => rfl
  | flat hs =>
    simp only [constructHeaders]
    have : mapE (inheritRef h bw) hs = mapE (inheritRef h' bw) hs :=
      mapE_congr (fun i hi => inheritRef_congr bw (hid i hi))
    rw [this]
  | nested hss =>
    simp only [constructHeaders]
    rw [inheritNested_congr hss secs hsec hid]

theorem construct_congr {h h' : Heap} {fs fs' : Frames} (c : Ctor)
    (hobj : ∀ i ∈ c.secs.map (·.2) ++ c.others ++ headerIds c.headers, aget i h = aget i h')
    (hfr : ∀ i ∈ c.secs.map (·.1), aget i fs = aget i fs') :
    construct h fs c = construct h' fs' c := by
  have hbody : ∀ i ∈ c.secs.map (·.2), aget i h = aget i h' := fun i hi => hobj i (by simp [hi])
  have hhdr : ∀ i ∈ headerIds c.headers, aget i h = aget i h' := fun i hi => hobj i (by simp [hi])
  have hm : mapE (resolveSec h fs) c.secs = mapE (resolveSec h' fs') c.secs := by
    apply mapE_congr
    intro s hs
    unfold resolveSec
    rw [hfr s.1 (List.mem_map.mpr ⟨s, hs, rfl⟩), hbody s.2 (List.mem_map.mpr ⟨s, hs, rfl⟩)]
  unfold construct
  rw [hm]
  split
  · rfl
  · split
    · rfl
    · rfl
    · rename_i s0 ss hms
      have hsec : ∀ s' ∈ s0 :: ss, s'.2.get h = s'.2.get h' := by
        intro s' hs'
        obtain ⟨s, hs, hf⟩ := mapE_ok_mem hms s' hs'
        obtain ⟨_, h2⟩ := resolveSec_shape hf
        apply get_congr
        intro j hj
        rw [h2 j hj]
        exact hbody s.2 (List.mem_map.mpr ⟨s, hs, rfl⟩)
      rw [widthsOf_congr (hsec s0 (List.mem_cons_self ..))]
      split
      · rfl
      · rename_i bw _
        rw [constructHeaders_congr _ _ bw c.headers hsec hhdr]

/-! ### congruence of encoding -/

theorem getAll_congr {h h' : Heap} {cs : List Comp} (hg : ∀ c ∈ cs, c.get h = c.get h') :
    getAll h cs = getAll h' cs := by
  induction cs with
  | nil => rfl
  | cons c cs ih =>
    simp only [getAll, List.filterMap_cons]
    rw [hg c (List.mem_cons_self ..)]
    have := ih (fun c' hc' => hg c' (List.mem_cons_of_mem _ hc'))
    simp only [getAll] at this
    rw [this]

theorem docObjs_congr {h h' : Heap} (d : Doc) (hg : ∀ c ∈ allComps d, c.get h = c.get h') :
    docObjs h d = docObjs h' d := by
  unfold docObjs
  rw [getAll_congr (fun c hc => hg c (by simp [allComps, hc])),
      getAll_congr (fun c hc => hg c (by simp only [allComps, List.mem_append]; exact Or.inl (Or.inr hc))),
      getAll_congr (fun c hc => hg c (by simp only [allComps, List.mem_append]; exact Or.inr hc))]

theorem secHeaders_sub (d : Doc) (i : Nat) : ∀ c ∈ secHeaders d i, c ∈ headerComps d.headers := by
  intro c hc
  unfold secHeaders at hc
  unfold headerComps
  split at hc
  · rename_i hs heq
    split at hc
    · exact hc
    · cases hc
  · rename_i hss heq
    obtain ⟨oc, hoc, hid⟩ := List.mem_filterMap.mp hc
    apply List.mem_filterMap.mpr
    refine ⟨oc, ?_, hid⟩
    apply List.mem_flatten.mpr
    refine ⟨hss.getD i [], ?_, hoc⟩
    rw [List.getD_eq_getElem?_getD] at hoc ⊢
    cases hget : hss[i]? with
    | none => rw [hget] at hoc; simp at hoc
    | some l => simp only [Option.getD_some]; exact List.mem_of_getElem? hget

theorem encodeSec_local {w w' : World} (d : Doc) (i : Nat) (s : FrameId × Comp)
    (hr : ∀ o, aget (strategyName o) w.registry = aget (strategyName o) w'.registry)
    (hs : s.2.get w.heap = s.2.get w'.heap) (hf : aget s.1 w.frames = aget s.1 w'.frames)
    (hh : ∀ c ∈ headerComps d.headers, c.get w.heap = c.get w'.heap) :
    encodeSec w d i s = encodeSec w' d i s := by
  have hhw : (secHeaders d i).map (fun c => (c.get w.heap).bind (·.widths))
      = (secHeaders d i).map (fun c => (c.get w'.heap).bind (·.widths)) := by
    apply List.map_congr_left
    intro c hc
    rw [hh c (secHeaders_sub d i c hc)]
  unfold encodeSec
  rw [hs, hf, hhw]
  split
  · rename_i f o _ _
    rw [hr o]
  · rfl

theorem encodeSecs_local {w w' : World} (d : Doc)
    (hr : ∀ o, aget (strategyName o) w.registry = aget (strategyName o) w'.registry)
    (hh : ∀ c ∈ headerComps d.headers, c.get w.heap = c.get w'.heap) :
    ∀ (ss : List (FrameId × Comp)) (i : Nat),
      (∀ s ∈ ss, s.2.get w.heap = s.2.get w'.heap ∧ aget s.1 w.frames = aget s.1 w'.frames) →
      encodeSecs w d i ss = encodeSecs w' d i ss := by
  intro ss
  induction ss with
  | nil => intro i _; rfl
  | cons s ss ih =>
    intro i hs
    simp only [encodeSecs]
    have h0 := hs s (List.mem_cons_self ..)
    rw [encodeSec_local d i s hr h0.1 h0.2 hh, ih (i + 1) (fun s' hs' => hs s' (List.mem_cons_of_mem _ hs'))]

theorem encodeWithContext_local (T : Table) {w w' : World} (d : Doc)
    (hseed : w.seed = w'.seed) (hctx : w.ctx = w'.ctx)
    (hr : ∀ o, aget (strategyName o) w.registry = aget (strategyName o) w'.registry)
    (hc : ∀ comp ∈ allComps d, comp.get w.heap = comp.get w'.heap)
    (hf : ∀ s ∈ d.secs, aget s.1 w.frames = aget s.1 w'.frames) :
    encodeWithContext T w d = encodeWithContext T w' d := by
  have hsecs : ∀ s ∈ d.secs, s.2.get w.heap = s.2.get w'.heap ∧ aget s.1 w.frames = aget s.1 w'.frames := by
    intro s hs
    refine ⟨hc s.2 ?_, hf s hs⟩
    simp only [allComps, List.mem_append, List.mem_map]
    exact Or.inl (Or.inl ⟨s, hs, rfl⟩)
  have hh : ∀ c ∈ headerComps d.headers, c.get w.heap = c.get w'.heap := by
    intro c hcm
    apply hc
    simp only [allComps, List.mem_append]
    exact Or.inr hcm
  unfold encodeWithContext collect
  rw [encodeSecs_local d hr hh d.secs 0 hsecs, docObjs_congr d hc, hctx, hseed]

theorem encodeDoc_local (T : Table) (w w' : World) (d : Doc)
    (hseed : w.seed = w'.seed)
    (hc : ∀ comp ∈ allComps d, comp.get w.heap = comp.get w'.heap)
    (hf : ∀ s ∈ d.secs, aget s.1 w.frames = aget s.1 w'.frames) :
    (encodeDoc T w d).2 = (encodeDoc T w' d).2 := by
  unfold encodeDoc
  apply encodeWithContext_local
  · exact hseed
  · simp only [collect]
    rw [docObjs_congr d hc, hseed]
  · intro o; exact registerAll_lookup _ _ o
  · exact hc
  · exact hf

theorem encodeCtor_local (T : Table) (w w' : World) (c : Ctor)
    (hseed : w.seed = w'.seed)
    (hobj : ∀ i ∈ c.secs.map (·.2) ++ c.others ++ headerIds c.headers, aget i w.heap = aget i w'.heap)
    (hfr : ∀ i ∈ c.secs.map (·.1), aget i w.frames = aget i w'.frames) :
    (encodeCtor T w c).2 = (encodeCtor T w' c).2 := by
  unfold encodeCtor
  rw [← construct_congr c hobj hfr]
  split
  · rename_i d hd
    obtain ⟨h1, h2⟩ := construct_refs hd
    apply encodeDoc_local
    · exact hseed
    · intro comp hcomp
      apply get_congr
      intro j hj
      exact hobj j (h1 comp hcomp j hj)
    · intro s hs
      exact hfr s.1 (h2 s hs)
  · rfl

/-! ## the hash seed: every enumeration of a set is a permutation of its members -/

theorem enumSet_perm (s : Nat) (xs : List Str) : (enumSet s xs).Perm (dedup xs) := by
  unfold enumSet
  have h := (sortByIndex_perm ((dedup xs).map (fun c => (c, strHash s c)))).map (·.1)
  have e : ((dedup xs).map (fun c => (c, strHash s c))).map (·.1) = dedup xs := by
    rw [List.map_map]
    exact (List.map_congr_left (fun _ _ => rfl)).trans (List.map_id _)
  rw [e] at h
  exact h

theorem enumSet_perm_seeds (s s' : Nat) (xs : List Str) : (enumSet s xs).Perm (enumSet s' xs) :=
  (enumSet_perm s xs).trans (enumSet_perm s' xs).symm

theorem collect_perm (s s' : Nat) (h : Heap) (d : Doc) : (collect s h d).Perm (collect s' h d) :=
  enumSet_perm_seeds s s' _

theorem getColorIndex_perm (T : Table) (used used' : List Color) (c : Color)
    (hinj : ∀ a b n, master T a = some n → master T b = some n → a = b) (hperm : used.Perm used') :
    getColorIndex T (some used) c = getColorIndex T (some used') c := by
  unfold getColorIndex
  rw [rtfColorIndex_perm T used used' c hinj hperm]

/-- Where the master index is injective, `_encode_with_context` gives the same outcome under two contexts that
enumerate the same colours in different orders, in processes with different hash seeds. -/
theorem encodeWithContext_perm (T : Table)
    (hinj : ∀ a b n, master T a = some n → master T b = some n → a = b) {w w' : World} (d : Doc)
    (u u' : List Color) (hcu : w.ctx = some u) (hcu' : w'.ctx = some u') (hp : u.Perm u')
    (hh : w.heap = w'.heap) (hf : w.frames = w'.frames)
    (hr : ∀ o, aget (strategyName o) w.registry = aget (strategyName o) w'.registry) :
    encodeWithContext T w d = encodeWithContext T w' d := by
  unfold encodeWithContext
  rw [encodeSecs_congr d d.secs hh hf hr 0, hh, hcu, hcu',
    colorTable_perm T _ _ hinj (collect_perm w.seed w'.seed w'.heap d)]
  have hi : ((docObjs w'.heap d).flatMap (·.used)).map (fun c => (c, getColorIndex T (some u) c))
      = ((docObjs w'.heap d).flatMap (·.used)).map (fun c => (c, getColorIndex T (some u') c)) := by
    apply List.map_congr_left
    intro c _
    rw [getColorIndex_perm T u u' c hinj hp]
  rw [hi]

/-- **The outcome of `rtf_encode()` does not depend on the process's hash seed** (nor on anything else but the
document, the objects and the frames), provided the master colour index is injective (it is: `Props.C14`). -/
theorem encodeDoc_outcome_inj (T : Table)
    (hinj : ∀ a b n, master T a = some n → master T b = some n → a = b) {w w' : World} (d : Doc)
    (hh : w.heap = w'.heap) (hf : w.frames = w'.frames) :
    (encodeDoc T w d).2 = (encodeDoc T w' d).2 := by
  unfold encodeDoc
  apply encodeWithContext_perm T hinj d (collect w.seed w.heap d) (collect w'.seed w'.heap d) rfl rfl
  · rw [hh]; exact collect_perm _ _ _ _
  · exact hh
  · exact hf
  · intro o; exact registerAll_lookup _ _ o

theorem encodeCtor_local_inj (T : Table)
    (hinj : ∀ a b n, master T a = some n → master T b = some n → a = b) (w w' : World) (c : Ctor)
    (hobj : ∀ i ∈ c.secs.map (·.2) ++ c.others ++ headerIds c.headers, aget i w.heap = aget i w'.heap)
    (hfr : ∀ i ∈ c.secs.map (·.1), aget i w.frames = aget i w'.frames) :
    (encodeCtor T w c).2 = (encodeCtor T w' c).2 := by
  have h1 := encodeCtor_local T w { w' with seed := w.seed } c rfl hobj hfr
  rw [h1]
  unfold encodeCtor
  show (match construct w'.heap w'.frames c with
    | .ok d => encodeDoc T { w' with seed := w.seed } d
    | .error e => ({ w' with seed := w.seed }, .error e)).2 = _
  cases construct w'.heap w'.frames c with
  | ok d => exact encodeDoc_outcome_inj T hinj d rfl rfl
  | error e => rfl

end Proofs.World
