import Model.Encode
import Proofs.Encode
import Proofs.EncodeText
/-!
# Segments of a page: `_encode(segment, col_widths, row_offset)`

`PageRenderer._render_body` encodes a page that shows several page_by groups SEGMENT BY SEGMENT (the rows between two
spanning headings), handing every call the number of page rows above the segment: `row_offset = prev_row`.  In the model
`encodeRows k A cw off rows` is `attrs._encode(df, col_widths, row_offset)`: row `i` of `rows` is encoded at attribute row
`i + off`.  The lemmas here say that this offset is exactly what makes segment-wise encoding equal to encoding the page
at once (which is what `renderBlock` does: data row `i` at page-relative row `i - dataStart`).
-/
namespace Proofs.EncodeSegments
open Model.Rtf Model.Emit Model.Encode Model.Broadcast Model.Layout
open Proofs.EncodeText

/-- numbering the rows from `n` and adding `off` is numbering them from `0` and adding `off + n` -/
theorem encodeRows_from (k : ColorCtx) (A : TblAttrsOf MatV) (cw : List Rat) :
    ∀ (rows : List (List (Option Str))) (off n : Nat),
      ((rows.zipIdx n).mapM fun (x : List (Option Str) × Nat) => encodeRow k A cw (x.2 + off) x.1) =
        encodeRows k A cw (off + n) rows := by
  intro rows
  induction rows with
  | nil => intro off n; simp [encodeRows]
  | cons r rs ih =>
    intro off n
    unfold encodeRows
    simp only [List.zipIdx_cons, List.mapM_cons, Nat.zero_add]
    have h1 := ih off (n + 1)
    have h2 := ih (off + n) 1
    unfold encodeRows at h1 h2
    rw [h1]
    have e : off + n + 1 = off + (n + 1) := by omega
    rw [e] at h2
    rw [h2]
    have e2 : n + off = off + n := by omega
    simp only [e2]

/-- encoding `xs ++ ys` with offset `off` = encoding `xs` with `off`, then `ys` with `off + |xs|` -/
theorem encodeRows_append (k : ColorCtx) (A : TblAttrsOf MatV) (cw : List Rat) (off : Nat)
    (xs ys : List (List (Option Str))) :
    encodeRows k A cw off (xs ++ ys) =
      (do let a ← encodeRows k A cw off xs
          let b ← encodeRows k A cw (off + xs.length) ys
          pure (a ++ b)) := by
  rw [← encodeRows_from k A cw ys off xs.length]
  unfold encodeRows
  rw [List.zipIdx_append, List.mapM_append]
  simp only [Nat.zero_add]

/-- row `i` of a frame encoded with offset `off`: one element, one cell per value, every flag read at attribute row
`off + i` and the cell's own column -/
theorem encodeRows_holes {k : ColorCtx} {A : TblAttrsOf MatV} {cw : List Rat} {off : Nat}
    {rows : List (List (Option Str))} {es : List Elem} (h : encodeRows k A cw off rows = .ok es)
    (i : Nat) (cells : List (Option Str)) (hc : rows[i]? = some cells) :
    ∃ fmt : RowFmt, es[i]? = some (rowElem fmt) ∧ fmt.cells.length = cells.length ∧
      ∀ j c, cells[j]? = some c → ∃ cf conv, fmt.cells[j]? = some cf ∧ FlagAt A.convert (off + i) j conv ∧
        cf.body = textNodes (convText conv (c.getD [])) := by
  unfold encodeRows at h
  have hall := Proofs.Encode.mapM_ok h
  obtain ⟨e, he, henc⟩ := Proofs.Encode.all2_get hall i (cells, i) (by simp [List.getElem?_zipIdx, hc])
  obtain ⟨fmt, rfl, hlen, hcell⟩ := encodeRow_holes henc
  refine ⟨fmt, he, hlen, ?_⟩
  intro j c hj
  obtain ⟨cf, conv, h1, h2, h3⟩ := hcell j c hj
  rw [Nat.add_comm] at h2
  exact ⟨cf, conv, h1, h2, h3⟩

end Proofs.EncodeSegments
