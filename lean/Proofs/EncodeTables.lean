import Model.Color
import Proofs.Color
import Proofs.EscNodes
import Proofs.LexNodes
import Proofs.AsciiString
import Proofs.Encode
import Proofs.EncodeTablesData
/-!
The two generated texts of the document head — font table and colour table — read back into nodes are good node lists
(plain, frame nodes, no `\u`), for the font table of the source tree and for EVERY list of used colours.
Facts about the generated tables are `decide +kernel` obligations.
-/
namespace Proofs.EncodeTables
open Model.Rtf Model.Emit Model.Encode Model.TextNodes Generated Proofs.Emit Proofs.Encode

theorem ng_of_goodB {ns : List Node} (h : goodB ns = true) : NG ns := by
  simp only [goodB, Bool.and_eq_true] at h
  exact ⟨h.1.1, h.1.2, uNeutral_noU _ h.2⟩

theorem ng_lex (ns : List Node) (h1 : nodesOk ns none = true) (hp : plainNodes ns = true)
    (hf : ns.all frameNode = true) (hu : noUNodes ns = true) : NG (textNodes (printNodes ns)) := by
  show NG (lexNodes (printNodes ns))
  rw [Proofs.LexNodes.lexNodes_printNodes ns h1]
  refine ⟨by rw [Proofs.LexNodes.plainNodes_norm]; exact hp, Proofs.LexNodes.frame_norm ns hf, uNeutral_noU _ ?_⟩
  rw [Proofs.LexNodes.noUNodes_norm]; exact hu

theorem fontTbl_ng (s : String) (h : Model.Color.fontTableText fontTable = .ok s) : NG (textNodes s.toList) := by
  have := fontTbl_good
  rw [h] at this
  exact ng_of_goodB this

/-! ### colour table -/

def codeNodes (row : ColorRow) : List Node :=
  [cwi "red" (row.r : Int), cwi "green" (row.g : Int), cwi "blue" (row.b : Int), Node.txt [';']]

theorem intDigits_nat (n : Nat) : intDigits (n : Int) = (digs n).map Char.ofNat := by
  have h := Proofs.EscNodes.intDigits_agree (n : Int)
  have h2 : Model.Escape.intRepr (n : Int) = digs n := by
    have : ¬ ((n : Int) < 0) := by omega
    simp [Model.Escape.intRepr, this, digs]
  rw [h2] at h
  rw [← h, Proofs.ConvNodes.map_ofNat_toNat]

theorem code_print (row : ColorRow) (h : row ∈ colorTable) : row.code.toList = printNodes (codeNodes row) := by
  rw [Proofs.AsciiString.ascii_toList' _ _ (List.all_eq_true.mp codes_bytes row h)]
  have e1 : List.map Char.ofNat [92, 114, 101, 100] = '\\' :: "red".toList := by decide
  have e2 : List.map Char.ofNat [92, 103, 114, 101, 101, 110] = '\\' :: "green".toList := by decide
  have e3 : List.map Char.ofNat [92, 98, 108, 117, 101] = '\\' :: "blue".toList := by decide
  have e4 : List.map Char.ofNat [59] = [';'] := by decide
  have e5 : (expected row).map Char.ofNat = '\\' :: "red".toList ++ (digs row.r).map Char.ofNat ++
      ('\\' :: "green".toList ++ (digs row.g).map Char.ofNat ++
        ('\\' :: "blue".toList ++ (digs row.b).map Char.ofNat ++ [';'])) := by
    unfold expected
    rw [List.map_append, List.map_append, List.map_append, List.map_append, List.map_append, List.map_append,
      e1, e2, e3, e4]
    simp only [List.append_assoc]
  rw [e5]
  simp only [codeNodes, cwi, printNodes, printNode, intDigits_nat, List.append_nil, Bool.false_eq_true, if_false]

theorem joinCodes_toList_aux (rows : List ColorRow) (acc : String) :
    (rows.foldl (fun acc row => acc ++ "\n" ++ row.code) acc).toList =
      acc.toList ++ rows.flatMap (fun r => '\n' :: r.code.toList) := by
  induction rows generalizing acc with
  | nil => simp
  | cons r rows ih =>
    rw [List.foldl_cons, ih, String.toList_append, String.toList_append, List.flatMap_cons]
    have : "\n".toList = ['\n'] := by decide
    rw [this]
    simp [List.append_assoc]

theorem joinCodes_toList (rows : List ColorRow) :
    (Model.Color.joinCodes rows).toList = rows.flatMap (fun r => '\n' :: r.code.toList) := by
  unfold Model.Color.joinCodes
  rw [joinCodes_toList_aux]
  have : "".toList = [] := by decide
  rw [this, List.nil_append]

def rowNodes' (r : ColorRow) : List Node := Node.nl :: codeNodes r

def colorBody (rows : List ColorRow) : List Node :=
  [cw0 "colortbl", Node.txt [';']] ++ (rows.flatMap rowNodes' ++ [Node.nl])

theorem colorTbl_print (rows : List ColorRow)
    (h : ∀ r ∈ rows, r.code.toList = printNodes (codeNodes r)) :
    ("{\\colortbl;" ++ Model.Color.joinCodes rows ++ "\n}").toList = printNodes [Node.grp (colorBody rows)] := by
  have e1 : "{\\colortbl;".toList = '{' :: printNodes [cw0 "colortbl", Node.txt [';']] := by decide
  have e2 : "\n}".toList = ['\n', '}'] := by decide
  have e3 : rows.flatMap (fun r => '\n' :: r.code.toList) = printNodes (rows.flatMap rowNodes') := by
    rw [Proofs.EscNodes.printNodes_flatMap]
    clear e1 e2
    induction rows with
    | nil => rfl
    | cons r rows ih =>
      rw [List.flatMap_cons, List.flatMap_cons, ih (fun x hx => h x (by simp [hx])), h r (by simp)]
      simp [rowNodes', printNodes, printNode]
  rw [String.toList_append, String.toList_append, joinCodes_toList, e1, e2, e3]
  simp only [printNodes, printNode, colorBody, printNodes_append, List.append_nil, List.cons_append, List.append_assoc,
    List.nil_append]

theorem nodesOk_rowNodes' (r : ColorRow) (after : Option Char) : nodesOk (rowNodes' r) after = true := by
  have n1 : nameOk "red".toList = true := by decide
  have n2 : nameOk "green".toList = true := by decide
  have n3 : nameOk "blue".toList = true := by decide
  have b1 : ∀ k : Int, badAfter (some k) '\\' = false := by intro k; simp only [badAfter]; decide
  have b2 : ∀ k : Int, badAfter (some k) ';' = false := by intro k; simp only [badAfter]; decide
  have nx : nextChar [Node.txt [';']] after = some ';' := by simp [nextChar, printNodes, printNode]
  have s1 : safeChar ';' = true := by decide
  have e6 : nodesOk [] after = true := by simp [nodesOk]
  simp only [rowNodes', codeNodes, cwi, nodesOk_cons, nextChar_cw, nx, nodeOk, n1, n2, n3, b1, b2, List.all_cons,
    List.all_nil, s1, Bool.not_false, Bool.or_true, Bool.and_self, e6]

theorem plain_rowNodes' (r : ColorRow) : plainNodes (rowNodes' r) = true := by
  have t1 : tableWord "red".toList = false := by decide
  have t2 : tableWord "green".toList = false := by decide
  have t3 : tableWord "blue".toList = false := by decide
  simp only [rowNodes', codeNodes, cwi, plainNodes, plainNode, t1, t2, t3, Bool.not_false, Bool.and_self]

theorem noU_rowNodes' (r : ColorRow) : noUNodes (rowNodes' r) = true := by
  have t1 : ("red".toList == "u".toList || "red".toList == "uc".toList) = false := by decide
  have t2 : ("green".toList == "u".toList || "green".toList == "uc".toList) = false := by decide
  have t3 : ("blue".toList == "u".toList || "blue".toList == "uc".toList) = false := by decide
  simp only [rowNodes', codeNodes, cwi, noUNodes, noUNode, t1, t2, t3, Bool.not_false, Bool.and_self]

theorem noUNodes_flatMap {α : Type} (l : List α) (f : α → List Node) (h : ∀ x ∈ l, noUNodes (f x) = true) :
    noUNodes (l.flatMap f) = true := by
  induction l with
  | nil => simp [noUNodes]
  | cons x l ih =>
    rw [List.flatMap_cons, noUNodes_append, h x (by simp), ih (fun y hy => h y (by simp [hy]))]
    rfl

theorem colorBody_good (rows : List ColorRow) :
    nodesOk (colorBody rows) (some '}') = true ∧ plainNodes (colorBody rows) = true ∧
      noUNodes (colorBody rows) = true := by
  refine ⟨?_, ?_, ?_⟩
  · unfold colorBody
    rw [nodesOk_append, nodesOk_append, Proofs.EscNodes.nodesOk_flatMap _ _ (fun r _ a => nodesOk_rowNodes' r a)]
    have hA : ∀ nx, nodesOk [cw0 "colortbl", Node.txt [';']] nx = true := by
      intro nx
      have n1 : nameOk "colortbl".toList = true := by decide
      have b1 : badAfter none ';' = false := by decide
      have nx' : nextChar [Node.txt [';']] nx = some ';' := by simp [nextChar, printNodes, printNode]
      have s1 : safeChar ';' = true := by decide
      have e6 : nodesOk [] nx = true := by simp [nodesOk]
      simp only [cw0, nodesOk_cons, nx', nodeOk, n1, b1, List.all_cons, List.all_nil, s1, Bool.not_false, Bool.or_true,
        Bool.and_self, e6]
    rw [hA]
    simp [nodesOk, nodeOk]
  · unfold colorBody
    rw [plainNodes_append, plainNodes_append, Proofs.EscNodes.plainNodes_flatMap _ _ (fun r _ => plain_rowNodes' r)]
    decide
  · unfold colorBody
    rw [noUNodes_append, noUNodes_append, noUNodes_flatMap _ _ (fun r _ => noU_rowNodes' r)]
    decide

theorem colorTbl_ng_gen (tbl : List ColorRow) (hc : ∀ r ∈ tbl, r.code.toList = printNodes (codeNodes r))
    (used : List String) (s : String)
    (h : Model.Color.generateColorTable tbl (some used) = .ok s) : NG (textNodes s.toList) := by
  have hempty : NG (textNodes "".toList) := by
    have : textNodes "".toList = [] := by decide
    rw [this]; exact ng_nil
  simp only [Model.Color.generateColorTable] at h
  split at h
  · cases h; exact hempty
  · split at h
    · cases h
    · cases h; exact hempty
    · next rows hne hrows =>
      cases h
      have hmem := Proofs.Color.tableRows_mem_tbl hrows
      rw [colorTbl_print rows (fun r hr => hc r (hmem r hr))]
      obtain ⟨g1, g2, g3⟩ := colorBody_good rows
      apply ng_lex
      · rw [nodesOk_top]; exact g1
      · simpa [plainNodes, plainNode] using g2
      · simpa [frameNode] using g1
      · simpa [noUNodes, noUNode] using g3

theorem colorTbl_ng (used : List String) (s : String)
    (h : Model.Color.generateColorTable colorTable (some used) = .ok s) : NG (textNodes s.toList) :=
  colorTbl_ng_gen colorTable code_print used s h

end Proofs.EncodeTables
