import Model.Widths
/-! Helper lemmas for C08 (core Lean only). -/
namespace Proofs.Widths
open Model.Widths

/-! ## rounding -/

theorem floor_le' (x : Rat) : (x.floor : Rat) ≤ x := Rat.floor_le x
theorem lt_floor_add_one' (x : Rat) : x < (x.floor : Rat) + 1 := by
  have := Rat.lt_floor_add_one x
  rwa [Rat.intCast_add] at this

/-- the rounded value is one of the two neighbouring integers and at most 1/2 away -/
theorem round_cases (x : Rat) :
    (roundHalfEven x = x.floor ∧ 2 * (x - x.floor) ≤ 1) ∨
    (roundHalfEven x = x.floor + 1 ∧ 1 ≤ 2 * (x - x.floor)) := by
  unfold roundHalfEven
  simp only
  by_cases h1 : 2 * (x - (x.floor : Rat)) < 1
  · left; simp [h1]; exact Rat.le_of_lt h1
  · by_cases h2 : 1 < 2 * (x - (x.floor : Rat))
    · right; simp [h1, h2]; exact Rat.le_of_lt h2
    · have heq : 2 * (x - (x.floor : Rat)) = 1 := by
        have a := Rat.not_lt.mp h1
        have b := Rat.not_lt.mp h2
        exact Rat.le_antisymm b a
      by_cases h3 : x.floor % 2 = 0
      · left; simp [h1, h2, h3]; rw [heq]; exact Rat.le_refl
      · right; simp [h1, h2, h3]; rw [heq]; exact Rat.le_refl

theorem round_sub_le (x : Rat) : (roundHalfEven x : Rat) - x ≤ 1 / 2 := by
  have a := floor_le' x
  have b := lt_floor_add_one' x
  rcases round_cases x with ⟨h, hd⟩ | ⟨h, hd⟩
  · rw [h]; grind
  · rw [h, Rat.intCast_add]; grind

theorem sub_round_le (x : Rat) : x - (roundHalfEven x : Rat) ≤ 1 / 2 := by
  have a := floor_le' x
  have b := lt_floor_add_one' x
  rcases round_cases x with ⟨h, hd⟩ | ⟨h, hd⟩
  · rw [h]; grind
  · rw [h, Rat.intCast_add]; grind

theorem floor_le_round (x : Rat) : x.floor ≤ roundHalfEven x := by
  rcases round_cases x with ⟨h, _⟩ | ⟨h, _⟩ <;> omega

theorem round_le_floor_add_one (x : Rat) : roundHalfEven x ≤ x.floor + 1 := by
  rcases round_cases x with ⟨h, _⟩ | ⟨h, _⟩ <;> omega

theorem round_mono {x y : Rat} (h : x ≤ y) : roundHalfEven x ≤ roundHalfEven y := by
  have hf := Rat.floor_monotone h
  rcases Int.lt_or_eq_of_le hf with hlt | heq
  · have := round_le_floor_add_one x
    have := floor_le_round y
    omega
  · -- same floor: compare the fractional parts
    unfold roundHalfEven
    simp only
    rw [heq]
    by_cases a1 : 2 * (x - (y.floor : Rat)) < 1
    · simp only [a1, if_true]
      by_cases b1 : 2 * (y - (y.floor : Rat)) < 1
      · simp [b1]
      · simp only [b1, if_false]
        split <;> (try split) <;> omega
    · have b1 : ¬ 2 * (y - (y.floor : Rat)) < 1 := by grind
      simp only [a1, b1, if_false]
      by_cases a2 : 1 < 2 * (x - (y.floor : Rat))
      · have b2 : 1 < 2 * (y - (y.floor : Rat)) := by grind
        simp [a2, b2]
      · simp only [a2, if_false]
        split <;> (try split) <;> omega

theorem round_nonneg {x : Rat} (h : 0 ≤ x) : 0 ≤ roundHalfEven x := by
  have h0 : (0 : Int) ≤ x.floor := Rat.le_floor_iff.mpr (by simpa using h)
  have := floor_le_round x
  omega

theorem round_pos {x : Rat} (h : 1 / 2 < x) : 0 < roundHalfEven x := by
  have hx : (0 : Rat) ≤ x := by grind
  have h0 : (0 : Int) ≤ x.floor := Rat.le_floor_iff.mpr (by simpa using hx)
  rcases round_cases x with ⟨hr, hd⟩ | ⟨hr, hd⟩
  · -- rounded down: floor ≥ 1 because x - floor ≤ 1/2 < x
    have : (0 : Rat) < (x.floor : Rat) := by grind
    have : (0 : Int) < x.floor := by
      have := Rat.intCast_lt_intCast (a := 0) (b := x.floor)
      simpa using this.mp (by simpa using ‹(0 : Rat) < (x.floor : Rat)›)
    omega
  · omega

/-! ## `_col_widths` is the running sum scaled by `W / Σ w` -/

theorem cumFrom_eq_map (tot W a : Rat) (ws : List Rat) (s : Rat) :
    cumFrom tot W (a + s * W / tot) ws = (prefFrom s ws).map (fun p => a + p * W / tot) := by
  induction ws generalizing s with
  | nil => simp [cumFrom, prefFrom]
  | cons w ws ih =>
    have e : a + s * W / tot + w * W / tot = a + (s + w) * W / tot := by
      simp only [Rat.div_def]; grind
    simp only [cumFrom, prefFrom, List.map_cons, e, ih]

theorem colWidths_eq_exact (w : List Rat) (W : Rat) : colWidths w W = exactPositions w W := by
  have h := cumFrom_eq_map (sumQ w) W 0 w 0
  have e0 : (0 : Rat) + 0 * W / sumQ w = 0 := by simp only [Rat.div_def]; grind
  rw [e0] at h
  unfold colWidths exactPositions
  rw [h]
  apply List.map_congr_left
  intro p _
  grind

theorem prefFrom_length (s : Rat) (ws : List Rat) : (prefFrom s ws).length = ws.length := by
  induction ws generalizing s with
  | nil => rfl
  | cons w ws ih => simp [prefFrom, ih]

theorem colWidths_length (w : List Rat) (W : Rat) : (colWidths w W).length = w.length := by
  rw [colWidths_eq_exact]; simp [exactPositions, prefFrom_length]

theorem prefFrom_getLast? (s : Rat) (ws : List Rat) (h : ws ≠ []) :
    (prefFrom s ws).getLast? = some (s + sumQ ws) := by
  induction ws generalizing s with
  | nil => exact absurd rfl h
  | cons w ws ih =>
    cases ws with
    | nil => simp [prefFrom, sumQ, Rat.add_zero]
    | cons w' ws' =>
      have := ih (s + w) (by simp)
      simp only [prefFrom] at this ⊢
      rw [List.getLast?_cons_cons, this]
      simp only [sumQ]
      congr 1
      grind

/-- the last cumulative width is exactly the table width -/
theorem colWidths_getLast? (w : List Rat) (W : Rat) (hne : w ≠ []) (hs : sumQ w ≠ 0) :
    (colWidths w W).getLast? = some W := by
  rw [colWidths_eq_exact]
  unfold exactPositions
  rw [List.getLast?_map, prefFrom_getLast? 0 w hne]
  simp only [Option.map_some]
  congr 1
  have : (0 + sumQ w) * W / sumQ w = W * sumQ w / sumQ w := by grind
  rw [this]
  exact Rat.mul_div_cancel hs

theorem prefFrom_getElem? (s : Rat) (w : List Rat) (k : Nat) (p : Rat)
    (h : (prefFrom s w)[k]? = some p) : p = s + sumQ (w.take (k + 1)) := by
  induction w generalizing s k with
  | nil => simp [prefFrom] at h
  | cons x xs ih =>
    cases k with
    | zero =>
      simp [prefFrom] at h
      simp [sumQ, Rat.add_zero, h]
    | succ k =>
      simp only [prefFrom, List.getElem?_cons_succ] at h
      have := ih (s + x) k h
      simp only [List.take_succ_cons, sumQ]
      rw [this]; grind

/-! ## positivity and monotonicity -/

def AllPos (l : List Rat) : Prop := ∀ x ∈ l, 0 < x

theorem sumQ_pos (w : List Rat) (hne : w ≠ []) (hp : AllPos w) : 0 < sumQ w := by
  induction w with
  | nil => exact absurd rfl hne
  | cons x xs ih =>
    have hx : 0 < x := hp x (by simp)
    cases xs with
    | nil => simp [sumQ, Rat.add_zero]; exact hx
    | cons y ys =>
      have := ih (by simp) (fun z hz => hp z (by simp at hz ⊢; right; exact hz))
      simp only [sumQ] at this ⊢
      grind

theorem sumQ_nonneg (w : List Rat) (hp : AllPos w) : 0 ≤ sumQ w := by
  cases w with
  | nil => simp [sumQ]
  | cons x xs => exact Rat.le_of_lt (sumQ_pos _ (by simp) hp)

theorem inc_pos {w W tot : Rat} (hw : 0 < w) (hW : 0 < W) (ht : 0 < tot) : 0 < w * W / tot := by
  rw [Rat.div_def]
  exact Rat.mul_pos (Rat.mul_pos hw hW) (Rat.inv_pos.mpr ht)

theorem cumFrom_increasing (tot W : Rat) (hW : 0 < W) (ht : 0 < tot) (ws : List Rat) (hp : AllPos ws)
    (acc : Rat) :
    (∀ c ∈ cumFrom tot W acc ws, acc < c) ∧ List.Pairwise (· < ·) (cumFrom tot W acc ws) := by
  induction ws generalizing acc with
  | nil => simp [cumFrom]
  | cons w ws ih =>
    have hw : 0 < w := hp w (by simp)
    have hinc := inc_pos hw hW ht
    have ih' := ih (fun z hz => hp z (by simp; right; exact hz)) (acc + w * W / tot)
    simp only [cumFrom]
    constructor
    · intro c hc
      rcases List.mem_cons.mp hc with rfl | hc
      · grind
      · have := ih'.1 c hc; grind
    · exact List.pairwise_cons.mpr ⟨fun c hc => ih'.1 c hc, ih'.2⟩

/-- in inches: boundaries strictly increase and are strictly positive -/
theorem colWidths_increasing (w : List Rat) (W : Rat) (hW : 0 < W) (hp : AllPos w) :
    (∀ c ∈ colWidths w W, 0 < c) ∧ List.Pairwise (· < ·) (colWidths w W) := by
  cases w with
  | nil => simp [colWidths, cumFrom]
  | cons x xs =>
    exact cumFrom_increasing _ W hW (sumQ_pos _ (by simp) hp) _ hp 0

theorem twip_mono {x y : Rat} (h : x ≤ y) : twip x ≤ twip y := by
  unfold twip
  apply round_mono
  exact Rat.mul_le_mul_of_nonneg_right h (by decide)

/-- in twips: boundaries never decrease and are never negative -/
theorem twips_monotone (w : List Rat) (W : Rat) (hW : 0 < W) (hp : AllPos w) :
    (∀ t ∈ (colWidths w W).map twip, 0 ≤ t) ∧ List.Pairwise (· ≤ ·) ((colWidths w W).map twip) := by
  have ⟨hpos, hinc⟩ := colWidths_increasing w W hW hp
  constructor
  · intro t ht
    rcases List.mem_map.mp ht with ⟨c, hc, rfl⟩
    unfold twip
    apply round_nonneg
    exact Rat.mul_nonneg (Rat.le_of_lt (hpos c hc)) (by decide)
  · rw [List.pairwise_map]
    exact hinc.imp (fun h => twip_mono (Rat.le_of_lt h))

/-! ## column removal -/

theorem slice_length (l : List Rat) (keep : List Bool) (h : l.length = keep.length) :
    (slice l keep).length = nDisplayed keep := by
  induction l generalizing keep with
  | nil => cases keep with
    | nil => simp [slice, nDisplayed]
    | cons k ks => simp at h
  | cons x xs ih => cases keep with
    | nil => simp at h
    | cons k ks =>
      have := ih ks (by simpa using h)
      cases k <;> simp [slice, nDisplayed] at this ⊢ <;> omega

theorem mem_slice {x : Rat} (l : List Rat) (keep : List Bool) (h : x ∈ slice l keep) : x ∈ l := by
  induction l generalizing keep with
  | nil => cases keep <;> simp [slice] at h
  | cons y ys ih => cases keep with
    | nil => simp [slice] at h
    | cons k ks =>
      cases k
      · simp only [slice, Bool.false_eq_true, if_false] at h
        exact List.mem_cons_of_mem _ (ih ks h)
      · simp only [slice, if_true] at h
        rcases List.mem_cons.mp h with rfl | h
        · simp
        · exact List.mem_cons_of_mem _ (ih ks h)

theorem nDisplayed_le (keep : List Bool) : nDisplayed keep ≤ keep.length := List.count_le_length

theorem nDisplayed_of_not_anyRemoved (keep : List Bool) (h : anyRemoved keep = false) :
    nDisplayed keep = keep.length := by
  induction keep with
  | nil => rfl
  | cons k ks ih =>
    simp only [anyRemoved, List.any_cons, Bool.or_eq_false_iff] at h
    have := ih (by simpa [anyRemoved] using h.2)
    cases k <;> simp_all [nDisplayed]

theorem nDisplayed_lt_of_anyRemoved (keep : List Bool) (h : anyRemoved keep = true) :
    nDisplayed keep < keep.length := by
  induction keep with
  | nil => simp [anyRemoved] at h
  | cons k ks ih =>
    have hle := nDisplayed_le ks
    cases k
    · simp [nDisplayed] at hle ⊢; omega
    · simp only [anyRemoved, List.any_cons, Bool.not_true, Bool.false_or] at h
      have := ih (by simpa [anyRemoved] using h)
      simp [nDisplayed] at this ⊢; omega

/-- the processed body vector: positive, one entry per displayed column -/
def WFw (bw : List Rat) (keep : List Bool) : Prop :=
  AllPos bw ∧ (bw.length = keep.length ∨ bw.length = nDisplayed keep)

theorem bodyProcessed_wf (bw : List Rat) (keep : List Bool) (h : WFw bw keep) :
    AllPos (bodyProcessed bw keep) ∧ (bodyProcessed bw keep).length = nDisplayed keep := by
  obtain ⟨hp, hl⟩ := h
  unfold bodyProcessed
  by_cases hr : anyRemoved keep = true
  · by_cases hlen : bw.length = keep.length
    · simp only [hr, hlen, decide_true, Bool.and_self, if_true]
      exact ⟨fun x hx => hp x (mem_slice _ _ hx), slice_length _ _ hlen⟩
    · simp only [hr, hlen, decide_false, Bool.and_false, Bool.false_eq_true, if_false]
      exact ⟨hp, by omega⟩
  · have hr' : anyRemoved keep = false := by simpa using hr
    simp only [hr', Bool.false_and, Bool.false_eq_true, if_false]
    have := nDisplayed_of_not_anyRemoved keep hr'
    exact ⟨hp, by omega⟩

/-! ## rows -/

theorem rowQ_full (cum : List Rat) (n : Nat) (h : cum.length = n) : rowQ cum n = .ok cum := by
  simp [rowQ, ← h]

/-- data rows of a well-formed section are the cumulative widths of the displayed columns' widths -/
theorem dataRowQ_eq (bw : List Rat) (keep : List Bool) (W : Rat) (h : WFw bw keep)
    (hd : 0 < nDisplayed keep) :
    dataRowQ bw keep W = .ok (colWidths (bodyProcessed bw keep) W) := by
  obtain ⟨_, hl⟩ := bodyProcessed_wf bw keep h
  have hne : (bodyProcessed bw keep).isEmpty = false := by
    cases hb : bodyProcessed bw keep with
    | nil => simp [hb] at hl; omega
    | cons _ _ => rfl
  unfold dataRowQ bodyCum
  simp only [hne, Bool.false_eq_true, if_false]
  exact rowQ_full _ _ (by rw [colWidths_length, hl])

/-- header with inherited widths = data rows, for ANY body vector and mask (errors included) -/
theorem headerRowQ_inherited (bw : List Rat) (keep : List Bool) (W : Rat) :
    headerRowQ (inheritHeader none bw) keep (nDisplayed keep) W = dataRowQ bw keep W := by
  unfold headerRowQ headerRowQWith headerDisplayed dataRowQ bodyCum bodyProcessed inheritHeader
  simp only [decide_true, Bool.and_true]
  split <;> split <;> rfl

/-- header with own widths (one per text cell) -/
theorem headerRowQ_own (hw : List Rat) (keep : List Bool) (n : Nat) (W : Rat)
    (hl : hw.length = n) (hn : 0 < n) :
    headerRowQ hw keep n W = .ok (colWidths hw W) := by
  have hd : headerDisplayed hw keep n = hw := by
    unfold headerDisplayed
    by_cases hr : anyRemoved keep = true
    · have := nDisplayed_lt_of_anyRemoved keep hr
      have : ¬ (hw.length = keep.length ∧ n = nDisplayed keep) := by omega
      by_cases h1 : hw.length = keep.length <;> by_cases h2 : n = nDisplayed keep <;> simp_all
    · have hr' : anyRemoved keep = false := by simpa using hr
      simp [hr']
  have hne : hw.isEmpty = false := by
    cases hw with
    | nil => simp at hl; omega
    | cons _ _ => rfl
  unfold headerRowQ headerRowQWith
  simp only [hd, hne, Bool.false_eq_true, if_false]
  exact rowQ_full _ _ (by rw [colWidths_length, hl])

theorem footRowQ_single (x W : Rat) (hx : x ≠ 0) : footRowQ [x] W = .ok [W] := by
  have h1 : colWidths [x] W = [W] := by
    have hs : sumQ [x] ≠ 0 := by simp [sumQ, Rat.add_zero, hx]
    have hl := colWidths_length [x] W
    have hlast := colWidths_getLast? [x] W (by simp) hs
    match hc : colWidths [x] W, hl, hlast with
    | [c], _, hlast => simp at hlast; simp [hlast]
  simp [footRowQ, rowQ, h1]

/-! ## well-formed sections -/

theorem colWidths_single (x W : Rat) (hx : x ≠ 0) : colWidths [x] W = [W] := by
  have hs : sumQ [x] ≠ 0 := by simp [sumQ, Rat.add_zero, hx]
  have hl := colWidths_length [x] W
  have hlast := colWidths_getLast? [x] W (by simp) hs
  match hc : colWidths [x] W, hl, hlast with
  | [c], _, hlast => simp at hlast; simp [hlast]

def HeaderWF (keep : List Bool) (h : Header) : Prop :=
  match h.own with
  | none => h.ncells = nDisplayed keep
  | some l => AllPos l ∧ l.length = h.ncells ∧ 0 < h.ncells

def UserWF (uw : Option (List Rat)) (ncol ndisp : Nat) : Prop :=
  match uw with
  | none => True
  | some l => AllPos l ∧ (l.length = 1 ∨ l.length = ncol ∨ l.length = ndisp)

def FootWF (o : Option (List Rat)) : Prop := ∀ fw, o = some fw → ∃ x, fw = [x] ∧ 0 < x

/-- the domain of C08: consistent shapes, positive widths, at least one displayed column -/
structure WFSection (s : Section) : Prop where
  keepLen : s.keep.length = s.ncol
  disp : 0 < nDisplayed s.keep
  Wpos : 0 < s.W
  user : UserWF s.userW s.ncol (nDisplayed s.keep)
  headers : ∀ h ∈ s.headers, HeaderWF s.keep h
  foot : FootWF s.footW
  src : FootWF s.srcW

theorem allPos_replicate (n : Nat) (x : Rat) (hx : 0 < x) : AllPos (List.replicate n x) := by
  intro y hy
  rw [List.eq_of_mem_replicate hy]; exact hx

theorem resolveBody_wf (uw : Option (List Rat)) (ncol : Nat) (keep : List Bool)
    (hk : keep.length = ncol) (hd : 0 < nDisplayed keep) (hu : UserWF uw ncol (nDisplayed keep)) :
    WFw (resolveBody uw ncol) keep := by
  have hle := nDisplayed_le keep
  cases uw with
  | none =>
    exact ⟨allPos_replicate _ _ (by decide), Or.inl (by simp [resolveBody, hk])⟩
  | some l =>
    obtain ⟨hp, hl⟩ := hu
    match l, hp, hl with
    | [], _, hl => simp at hl; omega
    | [x], hp, _ =>
      by_cases hn : ncol > 1
      · simp only [resolveBody, hn, if_true]
        exact ⟨allPos_replicate _ _ (hp x (by simp)), Or.inl (by simp [hk])⟩
      · simp only [resolveBody, hn, if_false]
        exact ⟨hp, Or.inl (by simp; omega)⟩
    | x :: y :: r, hp, hl =>
      refine ⟨hp, ?_⟩
      simp only [resolveBody]
      rcases hl with hl | hl | hl
      · simp at hl
      · left; omega
      · right; exact hl

/-- a row in inches that is the cumulative vector of some positive width list; for data rows and
inherited headers that list is the displayed columns' widths `pw` -/
def GoodQ (W : Rat) (pw : List Rat) (r : Kind × List Rat) : Prop :=
  ∃ l, AllPos l ∧ l ≠ [] ∧ r.2 = colWidths l W ∧
    ((r.1 = Kind.data ∨ ∃ j, r.1 = Kind.header j true) → l = pw)


theorem goodQ_last {W : Rat} {pw : List Rat} {r : Kind × List Rat} (h : GoodQ W pw r) :
    r.2.getLast? = some W := by
  obtain ⟨l, hp, hne, hv, _⟩ := h
  rw [hv]
  exact colWidths_getLast? l W hne (by have := sumQ_pos l hne hp; grind)

theorem headerRowsQ_ok (bw : List Rat) (keep : List Bool) (W : Rat) (hbw : WFw bw keep)
    (hd : 0 < nDisplayed keep) (hs : List Header) (hh : ∀ h ∈ hs, HeaderWF keep h) (i : Nat) :
    ∃ rows, headerRowsQ bw keep W i hs = .ok rows ∧
      (∀ r ∈ rows, GoodQ W (bodyProcessed bw keep) r) ∧ (∀ r ∈ rows, ∃ j b, r.1 = Kind.header j b) := by
  induction hs generalizing i with
  | nil => exact ⟨[], rfl, by simp, by simp⟩
  | cons h hs ih =>
    obtain ⟨rest, hrest, hgood, hkind⟩ := ih (fun x hx => hh x (by simp [hx])) (i + 1)
    have hwf := hh h (by simp)
    obtain ⟨hpp, hpl⟩ := bodyProcessed_wf bw keep hbw
    have hpne : bodyProcessed bw keep ≠ [] := by
      intro he; rw [he] at hpl; simp at hpl; omega
    unfold HeaderWF at hwf
    cases ho : h.own with
    | none =>
      rw [ho] at hwf
      have e : headerRowQ (inheritHeader h.own bw) keep h.ncells W
          = .ok (colWidths (bodyProcessed bw keep) W) := by
        rw [ho, hwf, headerRowQ_inherited, dataRowQ_eq bw keep W hbw hd]
      refine ⟨(Kind.header i true, colWidths (bodyProcessed bw keep) W) :: rest, ?_, ?_, ?_⟩
      · rw [ho] at e; simp only [headerRowsQ, ho, e, hrest]; rfl
      · intro r hr
        rcases List.mem_cons.mp hr with rfl | hr
        · exact ⟨_, hpp, hpne, rfl, fun _ => rfl⟩
        · exact hgood r hr
      · intro r hr
        rcases List.mem_cons.mp hr with rfl | hr
        · exact ⟨i, true, rfl⟩
        · exact hkind r hr
    | some l =>
      rw [ho] at hwf
      obtain ⟨hlp, hll, hn⟩ := hwf
      have e : headerRowQ (inheritHeader h.own bw) keep h.ncells W = .ok (colWidths l W) := by
        rw [ho]; exact headerRowQ_own l keep h.ncells W hll hn
      refine ⟨(Kind.header i false, colWidths l W) :: rest, ?_, ?_, ?_⟩
      · rw [ho] at e; simp only [headerRowsQ, ho, e, hrest]; rfl
      · intro r hr
        rcases List.mem_cons.mp hr with rfl | hr
        · refine ⟨l, hlp, ?_, rfl, ?_⟩
          · intro he; rw [he] at hll; simp at hll; omega
          · intro hk
            rcases hk with hk | ⟨j, hk⟩ <;> simp at hk
        · exact hgood r hr
      · intro r hr
        rcases List.mem_cons.mp hr with rfl | hr
        · exact ⟨i, false, rfl⟩
        · exact hkind r hr

theorem optRowQ_ok (k : Kind) (hk : k = Kind.foot ∨ k = Kind.source) (o : Option (List Rat)) (W : Rat)
    (pw : List Rat) (h : FootWF o) :
    ∃ rows, optRowQ k o W = .ok rows ∧ (∀ r ∈ rows, GoodQ W pw r) ∧ (∀ r ∈ rows, r.1 = k) := by
  cases o with
  | none => exact ⟨[], rfl, by simp, by simp⟩
  | some fw =>
    obtain ⟨x, rfl, hx⟩ := h fw rfl
    have hx0 : x ≠ 0 := by grind
    refine ⟨[(k, [W])], ?_, ?_, by simp⟩
    · simp only [optRowQ, footRowQ_single x W hx0]; rfl
    · intro r hr
      simp at hr; subst hr
      refine ⟨[x], ?_, by simp, (colWidths_single x W hx0).symm, ?_⟩
      · intro y hy; simp at hy; subst hy; exact hx
      · intro hk'
        rcases hk' with hk' | ⟨j, hk'⟩ <;> rcases hk with rfl | rfl <;> simp at hk'

/-! ## the oracle accepts the model's rows -/

theorem withinOne_twip (c : Rat) : withinOne (twip c) (c * 1440) = true := by
  have a := round_sub_le (c * 1440)
  have b := sub_round_le (c * 1440)
  unfold withinOne twip
  simp only [decide_eq_true_eq]
  constructor <;> grind

theorem allWithinOne_self (l : List Rat) : allWithinOne (l.map twip) l = true := by
  induction l with
  | nil => rfl
  | cons c cs ih => simp [allWithinOne, withinOne_twip, ih]

theorem edgeOk_of_last (eps W : Rat) (cx : List Int) (h : cx.getLast? = some (twip W)) :
    edgeOk eps W cx = true := by
  simp [edgeOk, h]

theorem getLast?_map_twip (v : List Rat) (W : Rat) (h : v.getLast? = some W) :
    (v.map twip).getLast? = some (twip W) := by
  rw [List.getLast?_map, h]; rfl

theorem rowViol_good (eps W : Rat) (pw : List Rat) (r : Kind × List Rat) (h : GoodQ W pw r) :
    rowViol eps W pw (some ((colWidths pw W).map twip)) r.1 (r.2.map twip) = [] := by
  have hl := getLast?_map_twip _ _ (goodQ_last h)
  obtain ⟨l, _, _, hv, hk⟩ := h
  unfold rowViol
  rw [edgeOk_of_last _ _ _ hl]
  simp only [if_true, List.nil_append]
  obtain ⟨k, v⟩ := r
  simp only at hv hk hl ⊢
  cases k with
  | data =>
    have : l = pw := hk (Or.inl rfl)
    subst this; subst hv
    simp [← colWidths_eq_exact, allWithinOne_self]
  | header j b =>
    cases b with
    | true =>
      have : l = pw := hk (Or.inr ⟨j, rfl⟩)
      subst this; subst hv
      simp
    | false => rfl
  | span => rfl
  | foot => rfl
  | source => rfl

theorem checkFrom_nil_of_all (eps W : Rat) (dispW : List Rat) (dv : Option (List Int))
    (rows : List (Kind × List Int)) (h : ∀ r ∈ rows, rowViol eps W dispW dv r.1 r.2 = []) (i : Nat) :
    checkFrom eps W dispW dv i rows = [] := by
  induction rows generalizing i with
  | nil => rfl
  | cons r rs ih =>
    obtain ⟨k, cx⟩ := r
    have h0 := h (k, cx) (by simp)
    simp only at h0
    simp only [checkFrom, h0, List.map_nil, List.nil_append]
    exact ih (fun r hr => h r (by simp [hr])) (i + 1)

def twipRows (rows : List (Kind × List Rat)) : List (Kind × List Int) :=
  rows.map fun (k, r) => (k, r.map twip)

theorem sectionRows_eq (s : Section) (rows : List (Kind × List Rat)) (h : sectionRowsQ s = .ok rows) :
    sectionRows s = .ok (twipRows rows) := by
  simp [sectionRows, h, twipRows]

theorem dataVecOf_append (hs rest : List (Kind × List Int)) (h : ∀ r ∈ hs, r.1 ≠ Kind.data) :
    dataVecOf (hs ++ rest) = dataVecOf rest := by
  unfold dataVecOf
  rw [List.find?_append]
  have : hs.find? (fun r => r.1 == Kind.data) = none := by
    apply List.find?_eq_none.mpr
    intro r hr
    simpa using h r hr
  simp [this]

/-- the rows of a well-formed section, explicitly -/
theorem sectionRowsQ_ok (s : Section) (h : WFSection s) :
    ∃ hs f g, sectionRowsQ s = .ok
        (hs ++ [(Kind.span, [s.W]),
                (Kind.data, colWidths (bodyProcessed (resolveBody s.userW s.ncol) s.keep) s.W)] ++ f ++ g) ∧
      (∀ r ∈ hs ++ f ++ g, GoodQ s.W (bodyProcessed (resolveBody s.userW s.ncol) s.keep) r) ∧
      (∀ r ∈ hs, ∃ j b, r.1 = Kind.header j b) := by
  have hbw := resolveBody_wf s.userW s.ncol s.keep h.keepLen h.disp h.user
  obtain ⟨hs, ehs, ghs, khs⟩ :=
    headerRowsQ_ok (resolveBody s.userW s.ncol) s.keep s.W hbw h.disp s.headers h.headers 0
  obtain ⟨f, ef, gf, _⟩ := optRowQ_ok Kind.foot (Or.inl rfl) s.footW s.W
    (bodyProcessed (resolveBody s.userW s.ncol) s.keep) h.foot
  obtain ⟨g, eg, gg, _⟩ := optRowQ_ok Kind.source (Or.inr rfl) s.srcW s.W
    (bodyProcessed (resolveBody s.userW s.ncol) s.keep) h.src
  have hW0 : s.W ≠ 0 := by have := h.Wpos; grind
  refine ⟨hs, f, g, ?_, ?_, khs⟩
  · simp only [sectionRowsQ, ehs, dataRowQ_eq _ _ _ hbw h.disp, ef, eg, spanRowQ, hW0, if_false]
    rfl
  · intro r hr
    simp only [List.mem_append] at hr
    rcases hr with (hr | hr) | hr
    · exact ghs r hr
    · exact gf r hr
    · exact gg r hr

end Proofs.Widths
