import Model.WorldFiles
import Proofs.Memo
/-! helper lemmas for `Props/C14files.lean` -/
namespace Proofs.WorldFiles
open Model.Memo Model.World Proofs.Memo

variable {κ : Type} [DecidableEq κ]

theorem readDoc_sound (S : Spec FileReq κ (Option Content)) (hF : Faithful S) (q : Paths) (h : Heap) (fs : Fs)
    (st : Store κ (Option Content)) (hs : Sound S st) (d : Doc) :
    Sound S (readDoc S q h fs st d).1 ∧
      (readDoc S q h fs st d).2 = ((q h d).map (fun p => ({ fs := fs, path := p } : FileReq))).map S.compute :=
  askAll_sound S hF _ st hs

theorem storeAfterF_sound (S : Spec FileReq κ (Option Content)) (hF : Faithful S) (q : Paths) (w : World) (fs : Fs)
    (st : Store κ (Option Content)) (hs : Sound S st) (o : Op) : Sound S (storeAfterF S q w fs st o) := by
  cases o <;> simp only [storeAfterF] <;> (try split) <;> (try exact hs)
  · exact (readDoc_sound S hF q _ _ _ hs _).1
  · exact (readDoc_sound S hF q _ _ _ (readDoc_sound S hF q _ _ _ hs _).1 _).1

theorem runF_sound (S : Spec FileReq κ (Option Content)) (hF : Faithful S) (q : Paths) (T : Table) (ops : List FOp) :
    ∀ fw : FWorld κ, Sound S fw.store → Sound S (runF S q T fw ops).store := by
  induction ops with
  | nil => intro fw h; exact h
  | cons o os ih =>
    intro fw h
    simp only [runF]
    apply ih
    cases o with
    | op o => exact storeAfterF_sound S hF q fw.base fw.fs fw.store h o
    | ev e => exact h

theorem runF_base (S : Spec FileReq κ (Option Content)) (q : Paths) (T : Table) (ops : List FOp) :
    ∀ fw : FWorld κ, (runF S q T fw ops).base = (run T fw.base (baseOpsF ops)).1 := by
  induction ops with
  | nil => intro fw; rfl
  | cons o os ih =>
    intro fw
    cases o with
    | op o => simp only [runF, baseOpsF, run]; rw [ih]; rfl
    | ev e => simp only [runF, baseOpsF]; rw [ih]; rfl

theorem runF_fs (S : Spec FileReq κ (Option Content)) (q : Paths) (T : Table) (ops : List FOp) :
    ∀ fw : FWorld κ, (runF S q T fw ops).fs = fw.fs.run (eventsF ops) := by
  induction ops with
  | nil => intro fw; rfl
  | cons o os ih =>
    intro fw
    cases o with
    | op o => simp only [runF, eventsF]; rw [ih]; rfl
    | ev e => simp only [runF, eventsF, Fs.run]; rw [ih]; rfl

/-- events that change no file leave every file where it is -/
theorem step_files_of_not_changes (fs : Fs) (e : FsEv) (h : e.changesFiles = false) : (fs.step e).files = fs.files := by
  cases e <;> simp_all [FsEv.changesFiles, Fs.step]

theorem run_files_of_not_changes (es : List FsEv) :
    ∀ fs : Fs, (es.all (fun e => !e.changesFiles)) = true → (fs.run es).files = fs.files := by
  induction es with
  | nil => intro fs _; rfl
  | cons e es ih =>
    intro fs h
    simp only [List.all_cons, Bool.and_eq_true, Bool.not_eq_eq_eq_not, Bool.not_true] at h
    simp only [Fs.run]
    rw [ih _ h.2, step_files_of_not_changes fs e h.1]

/-! ### a store keyed by the resolved path, while no file changes -/

/-- every entry is what its (directory, name) holds in the file table `F` -/
def SoundAt (F : List ((Nat × Nat) × Content)) (st : Store (Nat × Nat) (Option Content)) : Prop :=
  ∀ k v, find k st = some v → v = aget k F

theorem soundAt_nil (F : List ((Nat × Nat) × Content)) : SoundAt F [] := by
  intro k v h
  simp [find] at h

theorem ask_at (F : List ((Nat × Nat) × Content)) (st : Store (Nat × Nat) (Option Content)) (hs : SoundAt F st)
    (r : FileReq) (hr : r.fs.files = F) :
    SoundAt F (ask resolvedKey st r).1 ∧ (ask resolvedKey st r).2 = r.fs.read r.path := by
  unfold ask
  split
  · rename_i v h
    refine ⟨hs, ?_⟩
    have := hs _ v h
    rw [this, ← hr]
    rfl
  · refine ⟨?_, rfl⟩
    intro k v h'
    simp only [find] at h'
    by_cases hk : resolvedKey.key r = k
    · rw [if_pos hk] at h'
      cases h'
      rw [← hk, ← hr]
      rfl
    · rw [if_neg hk] at h'
      exact hs k v h'

theorem askAll_at (F : List ((Nat × Nat) × Content)) :
    ∀ (rs : List FileReq) (st : Store (Nat × Nat) (Option Content)), SoundAt F st → (∀ r ∈ rs, r.fs.files = F) →
      SoundAt F (askAll resolvedKey st rs).1 ∧ (askAll resolvedKey st rs).2 = rs.map (fun r => r.fs.read r.path) := by
  intro rs
  induction rs with
  | nil => intro st hs _; exact ⟨hs, rfl⟩
  | cons r rs ih =>
    intro st hs hr
    have ha := ask_at F st hs r (hr r (List.mem_cons_self ..))
    have hb := ih (ask resolvedKey st r).1 ha.1 (fun x hx => hr x (List.mem_cons_of_mem _ hx))
    simp only [askAll, List.map_cons]
    exact ⟨hb.1, by rw [ha.2, hb.2]⟩

theorem readDoc_at (q : Paths) (h : Heap) (fs : Fs) (st : Store (Nat × Nat) (Option Content))
    (hs : SoundAt fs.files st) (d : Doc) :
    SoundAt fs.files (readDoc resolvedKey q h fs st d).1 ∧ (readDoc resolvedKey q h fs st d).2 = (q h d).map fs.read := by
  have := askAll_at fs.files ((q h d).map (fun p => ({ fs := fs, path := p } : FileReq))) st hs (by
    intro r hr
    simp only [List.mem_map] at hr
    obtain ⟨p, _, rfl⟩ := hr
    rfl)
  refine ⟨this.1, ?_⟩
  show (askAll resolvedKey st _).2 = _
  rw [this.2, List.map_map]
  rfl

theorem storeAfterF_at (q : Paths) (w : World) (fs : Fs) (st : Store (Nat × Nat) (Option Content))
    (hs : SoundAt fs.files st) (o : Op) : SoundAt fs.files (storeAfterF resolvedKey q w fs st o) := by
  cases o <;> simp only [storeAfterF] <;> (try split) <;> (try exact hs)
  · exact (readDoc_at q _ fs st hs _).1
  · exact (readDoc_at q _ fs _ (readDoc_at q _ fs st hs _).1 _).1

theorem runF_at (q : Paths) (T : Table) (ops : List FOp) :
    ∀ fw : FWorld (Nat × Nat), SoundAt fw.fs.files fw.store → (eventsF ops).all (fun e => !e.changesFiles) = true →
      SoundAt fw.fs.files (runF resolvedKey q T fw ops).store := by
  induction ops with
  | nil => intro fw h _; exact h
  | cons o os ih =>
    intro fw h he
    simp only [runF]
    cases o with
    | op o =>
      exact ih (stepF resolvedKey q T fw (.op o)) (storeAfterF_at q fw.base fw.fs fw.store h o) he
    | ev e =>
      simp only [eventsF, List.all_cons, Bool.and_eq_true, Bool.not_eq_eq_eq_not, Bool.not_true] at he
      have hfiles : (stepF resolvedKey q T fw (.ev e)).fs.files = fw.fs.files := step_files_of_not_changes fw.fs e he.1
      have := ih (stepF resolvedKey q T fw (.ev e)) (by rw [hfiles]; exact h) (by simpa using he.2)
      rw [hfiles] at this
      exact this

end Proofs.WorldFiles
