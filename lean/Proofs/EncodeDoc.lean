import Proofs.Encode
import Proofs.EncodeTables
/-!
The whole document: `encode measure d = .ok g` and `InDomain d` give `docOk g`.
-/
namespace Proofs.EncodeDoc
open Model.Rtf Model.Emit Model.Encode Model.EncodeDomain Generated Proofs.Emit Proofs.Encode Proofs.EncodeTables

theorem ng_nls : ∀ n, NG (List.replicate n Node.nl)
  | 0 => ng_nil
  | n + 1 => ng_cons ng_nl (ng_nls n)

theorem encodeWith_docOk {measure : Measure} {d : Doc} {x : DocG × Nat} (h : encodeWith measure d = .ok x)
    (hd : inDomain d = true) : docOk x.1 = true := by
  obtain ⟨_, _, _, _, _, _, _, hph, hpf, _, _⟩ := dom_parts hd
  unfold encodeWith at h
  dsimp only at h
  peel h as y hy
  simp only [pure_bind, throw_bind'] at h
  split at h
  · next fontTbl hfont =>
    split at h
    · next colorTbl hcolor =>
      peel h as hdr hhdr
      peel h as ftr hftr
      peel h as ps hps
      cases pure_ok h
      apply docOk_of_parts
      · have h1 : NG [cw0 "ansi", Node.nl, cwi "deff" 0, cwi "deflang" 1033, Node.nl] :=
          ng_cons (ng_cw0 _ (by decide)) (ng_cons ng_nl (ng_cons (ng_cwi _ _ (by decide))
            (ng_cons (ng_cwi _ _ (by decide)) ng_nl)))
        have h3 : NG [Node.nl, Node.nl, Node.nl] := ng_nls 3
        exact ng_append (ng_append (ng_append (ng_append (ng_append (ng_append (ng_append (ng_append (ng_append
          (ng_append h1 (fontTbl_ng _ hfont)) ng_nl) (colorTbl_ng _ _ hcolor)) h3)
          (pageHF_ok hhdr (by decide) hph)) ng_nl) (pageHF_ok hftr (by decide) hpf)) ng_nl) (pageSettings_ok hps)) ng_nl
      · exact elemOk_append (joinElems_ok _ (encodePages_ok (show encodePages measure _ d = .ok (y.1, y.2) from hy) hd))
          (elemOk_of_ng (ng_nls 4))
    · cases h
  · cases h

/-- every document of the domain that the model encoder accepts satisfies the grammar's side condition -/
theorem encode_docOk {measure : Measure} {d : Doc} {g : DocG} (h : encode measure d = .ok g)
    (hd : inDomain d = true) : docOk g = true := by
  unfold encode at h
  obtain ⟨x, hx, rfl⟩ := map_ok h
  exact encodeWith_docOk hx hd

end Proofs.EncodeDoc
