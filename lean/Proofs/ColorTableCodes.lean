import Model.Color
/-!
The RTF code printed for a row (6th column of `color_table.py`) reads back as the row's own RGB columns
(3rd–5th), for every row of the generated table.  Decided by the kernel on the generated table.
-/
namespace Proofs.ColorTable
open Generated Model.Color

theorem codes_all : colorTable.all (fun row => seenRgb row == some (rowRgb row)) = true := by decide +kernel

/-- what a reader sees of the entry printed for `row` is the RGB the table records for `row` -/
theorem seenRgb_eq : ∀ row ∈ colorTable, seenRgb row = some (rowRgb row) := by
  intro row hrow
  have := List.all_eq_true.mp codes_all row hrow
  simpa using this
