import Model.Encode
import Model.EncodeDomain
import Model.EscNodes
import Proofs.Rtf
import Proofs.Emit
import Proofs.Escape
import Proofs.EscNodes
import Proofs.Convert
import Proofs.LexNodes
import Props.C11
/-!
Text holes of the whole-encoder model: for every text admissible for the flag (`Model.EncodeDomain.txtOk conv t`) the
converted, escaped text read back into nodes (`textNodes (convText conv t)`) is a valid text hole: plain, adjacency
closed before `}`, and neutral for the `\u` discipline.

Route: the emitted string is `printNodes ns` for an explicit "good" node list `ns` (piece by piece), and
`lexNodes (printNodes ns) = norm ns` (`Proofs/LexNodes.lean`) keeps the three properties.
The conversion-ON case uses C11 (`Props/C11.lean`): on `regular` texts the conversion is the rendering of the one-pass
reading `spec`.
-/
namespace Proofs.ConvNodes
open Model.Rtf Model.Emit Model.Escape Model.EscNodes Model.TextNodes Model.Convert Model.EncodeDomain Proofs.Emit

abbrev Str := List Char

/-- a text hole of an emitter -/
def HoleOk (ns : List Node) : Prop := plainNodes ns = true ∧ nodesOk ns (some '}') = true ∧ UNeutral ns

/-- node lists that may stand anywhere in a text hole -/
def Good (ns : List Node) : Prop := (∀ after, nodesOk ns after = true) ∧ plainNodes ns = true ∧ UNeutral ns

theorem good_nil : Good [] := ⟨fun _ => by simp [nodesOk], by simp [plainNodes], uNeutral_nil⟩

theorem good_append {a b : List Node} (ha : Good a) (hb : Good b) : Good (a ++ b) := by
  refine ⟨fun after => ?_, ?_, uNeutral_append _ _ ha.2.2 hb.2.2⟩
  · rw [nodesOk_append, ha.1, hb.1]; rfl
  · rw [plainNodes_append, ha.2.1, hb.2.1]; rfl

/-- the escaper on characters -/
def escStr (s : Str) : Str := (escape (s.map Char.toNat)).map Char.ofNat

theorem escStr_nil : escStr [] = [] := rfl

theorem escStr_append (a b : Str) : escStr (a ++ b) = escStr a ++ escStr b := by
  simp [escStr, escape]

theorem escStr_cons (c : Char) (t : Str) : escStr (c :: t) = escStr [c] ++ escStr t :=
  escStr_append [c] t

theorem convText_false (t : Str) : Model.Encode.convText false t = escStr t := rfl

theorem convText_true (t : Str) : Model.Encode.convText true t = escStr (convertCore true t) := rfl

/-- a good node list printing the escaped text is what `lexNodes` needs -/
theorem hole_of_good (s : Str) (ns : List Node) (hp : printNodes ns = s) (hg : Good ns) : HoleOk (lexNodes s) := by
  subst hp
  rw [Proofs.LexNodes.lexNodes_printNodes ns (hg.1 none)]
  refine ⟨?_, Proofs.LexNodes.nodesOk_norm ns _ (hg.1 _), ?_⟩
  · rw [Proofs.LexNodes.plainNodes_norm]; exact hg.2.1
  · exact uNeutral_congr _ _ (Proofs.LexNodes.toksNodes_norm ns) hg.2.2

/-! ### one character -/

def chNodes (c : Char) : List Node := if c = '\n' then [Node.nl] else escNodesCp c.toNat

theorem map_ofNat_toNat (s : Str) : (s.map Char.toNat).map Char.ofNat = s := by
  induction s with
  | nil => rfl
  | cons c s ih => simp [ih]

theorem print_escCp (n : Nat) : printNodes (escNodesCp n) = (escapeCp n).map Char.ofNat := by
  rw [← Proofs.EscNodes.print_escNodesCp n, map_ofNat_toNat]

theorem escStr_single (c : Char) : escStr [c] = (escapeCp c.toNat).map Char.ofNat := by
  simp [escStr, escape]

theorem print_chNodes (c : Char) : printNodes (chNodes c) = escStr [c] := by
  unfold chNodes
  split
  · next h => subst h; decide
  · rw [print_escCp, escStr_single]

theorem toNat_ne {c d : Char} (h : c ≠ d) : c.toNat ≠ d.toNat := by
  intro e
  apply h
  have := congrArg Char.ofNat e
  simpa using this

theorem isScalar_toNat (c : Char) : isScalar c.toNat = true := by
  have hv := c.valid
  simp only [isScalar, Bool.or_eq_true, Bool.and_eq_true, decide_eq_true_eq]
  have : c.val.toNat = c.toNat := rfl
  rcases hv with h | ⟨h1, h2⟩
  · left; rw [← this]; exact h
  · right; rw [← this]; exact ⟨h1, h2⟩

theorem good_escCp (n : Nat) (hs : isScalar n = true) (hp : plainCp n = true) : Good (escNodesCp n) := by
  refine ⟨fun after => Proofs.EscNodes.nodesOk_escNodesCp n hp after, Proofs.EscNodes.plain_escNodesCp n, ?_⟩
  have := Proofs.EscNodes.uForm_escNodes [n] (by simpa using hs)
  have e : escNodes [n] = escNodesCp n := by simp [escNodes]
  rw [e] at this
  exact uNeutral_uForm _ this

theorem good_chNodes (c : Char) (h : plainC c = true) : Good (chNodes c) := by
  unfold chNodes
  split
  · exact ⟨fun _ => by simp [nodesOk, nodeOk], by simp [plainNodes, plainNode], uNeutral_noU _ (by decide)⟩
  · next hn =>
    simp only [plainC, Bool.and_eq_true, bne_iff_ne, ne_eq] at h
    obtain ⟨⟨⟨h1, h2⟩, h3⟩, h4⟩ := h
    apply good_escCp _ (isScalar_toNat c)
    simp only [plainCp, Bool.and_eq_true, bne_iff_ne, ne_eq]
    exact ⟨⟨⟨⟨toNat_ne h1, toNat_ne h2⟩, toNat_ne h3⟩, toNat_ne hn⟩, toNat_ne h4⟩

/-! ### fixed fragments -/

def cwSp (w : List Char) : Node := Node.cw w none true

/-- `{\field{\*\fldinst NUMPAGES }}` -/
def fieldNodes : List Node :=
  [Node.grp [Node.cw "field".toList none false,
             Node.grp [Node.sym '*', Node.cw "fldinst".toList none true, Node.txt "NUMPAGES ".toList]]]

theorem good_cwSp (w : List Char) (h1 : nameOk w = true) (h2 : tableWord w = false) (h3 : uWord w = false) :
    Good [cwSp w] := by
  refine ⟨fun after => by simp [cwSp, nodesOk, nodeOk, h1], by simp [cwSp, plainNodes, plainNode, h2], ?_⟩
  apply uNeutral_noU
  simp only [uWord] at h3
  simp only [cwSp, noUNodes, noUNode, h3, Bool.not_false, Bool.and_self]

theorem good_field : Good fieldNodes := by
  refine ⟨fun after => ?_, by decide, uNeutral_noU _ (by decide)⟩
  have h : nodesOk [Node.cw "field".toList none false,
      Node.grp [Node.sym '*', Node.cw "fldinst".toList none true, Node.txt "NUMPAGES ".toList]] (some '}') = true := by
    decide
  unfold fieldNodes
  rw [nodesOk_cons, nodeOk, h]
  simp [nodesOk]

theorem good_space : Good [Node.txt [' ']] :=
  ⟨fun after => by simp [nodesOk, nodeOk, safeChar], by decide, uNeutral_noU _ (by decide)⟩

theorem print_cwSp (w : List Char) : printNodes [cwSp w] = '\\' :: (w ++ [' ']) := by
  simp [cwSp, printNodes, printNode]

theorem rawWords_facts (w : List Char) (h : w ∈ rawWords) :
    nameOk w = true ∧ tableWord w = false ∧ uWord w = false ∧ escStr ('\\' :: (w ++ [' '])) = '\\' :: (w ++ [' ']) := by
  simp only [rawWords, List.mem_cons, List.not_mem_nil, or_false] at h
  rcases h with h | h | h <;> subst h <;> decide

theorem escStr_field : escStr fieldGrpStr = fieldGrpStr := by decide

theorem print_field : printNodes fieldNodes = fieldGrpStr := by decide

/-- every admitted raw fragment is printed by a good node list and passes the escaper unchanged -/
theorem rawPieces_facts (p : Str) (h : p ∈ rawPieces) : ∃ ns, printNodes ns = escStr p ∧ Good ns := by
  simp only [rawPieces, List.mem_append, List.mem_map, List.mem_cons, List.not_mem_nil, or_false] at h
  rcases h with ⟨w, hw, rfl⟩ | rfl
  · obtain ⟨h1, h2, h3, h4⟩ := rawWords_facts w hw
    exact ⟨[cwSp w], by rw [h4, print_cwSp], good_cwSp w h1 h2 h3⟩
  · exact ⟨fieldNodes, by rw [escStr_field, print_field], good_field⟩

theorem rawPieces_ne (p : Str) (h : p ∈ rawPieces) : p ≠ [] := by
  simp only [rawPieces, List.mem_append, List.mem_map, List.mem_cons, List.not_mem_nil, or_false] at h
  rcases h with ⟨w, _, rfl⟩ | rfl
  · simp
  · decide

/-! ### conversion OFF -/

theorem rawGo_skip : ∀ (t : Str) (k : Nat), rawGo k t = rawGo 0 (t.drop k) := by
  intro t
  induction t with
  | nil => intro k; cases k <;> simp [rawGo]
  | cons c t ih =>
    intro k
    cases k with
    | zero => rfl
    | succ k => simp only [rawGo, List.drop_succ_cons]; exact ih k

theorem raw_nodes : ∀ (n : Nat) (t : Str), t.length ≤ n → rawGo 0 t = true →
    ∃ ns, printNodes ns = escStr t ∧ Good ns := by
  intro n
  induction n with
  | zero =>
    intro t ht _
    have : t = [] := List.eq_nil_of_length_eq_zero (Nat.le_zero.mp ht)
    subst this
    exact ⟨[], rfl, good_nil⟩
  | succ n ih =>
    intro t ht h
    cases t with
    | nil => exact ⟨[], rfl, good_nil⟩
    | cons c t =>
      simp only [rawGo] at h
      cases hf : rawPieces.find? (fun p => p.isPrefixOf (c :: t)) with
      | some p =>
        rw [hf] at h
        simp only at h
        have hmem := List.mem_of_find?_eq_some hf
        have hpre := List.find?_some hf
        obtain ⟨rest, hrest⟩ := Proofs.Convert.split_of_isPrefixOf hpre
        have hne := rawPieces_ne p hmem
        have hdrop : t.drop (p.length - 1) = rest := by
          obtain ⟨c', t', hct, hd⟩ := Proofs.Convert.drop_pred_tail hne rest
          rw [← hrest] at hct
          simp only [List.cons.injEq] at hct
          rw [hct.2]; exact hd
        rw [rawGo_skip, hdrop] at h
        have hlen : rest.length ≤ n := by
          have h1 : (c :: t).length = p.length + rest.length := by rw [hrest]; simp
          have h2 : 0 < p.length := List.length_pos_iff.mpr hne
          simp only [List.length_cons] at ht h1
          omega
        obtain ⟨ns1, hp1, hg1⟩ := rawPieces_facts p hmem
        obtain ⟨ns2, hp2, hg2⟩ := ih rest hlen h
        refine ⟨ns1 ++ ns2, ?_, good_append hg1 hg2⟩
        rw [printNodes_append, hp1, hp2, hrest, escStr_append]
      | none =>
        rw [hf] at h
        simp only [Bool.and_eq_true] at h
        have hlen : t.length ≤ n := by simp only [List.length_cons] at ht; omega
        obtain ⟨ns2, hp2, hg2⟩ := ih t hlen h.2
        refine ⟨chNodes c ++ ns2, ?_, good_append (good_chNodes c h.1) hg2⟩
        rw [printNodes_append, print_chNodes, hp2, ← escStr_cons]

theorem hole_raw (t : Str) (h : rawOk t = true) : HoleOk (lexNodes (escStr t)) := by
  obtain ⟨ns, hp, hg⟩ := raw_nodes t.length t (Nat.le_refl _) h
  exact hole_of_good _ ns hp hg

/-! ### conversion ON -/

theorem fixed_event_facts :
    (∃ ns, printNodes ns = escStr rSuper ∧ Good ns) ∧ (∃ ns, printNodes ns = escStr rSub ∧ Good ns) ∧
    (∃ ns, printNodes ns = escStr rLine ∧ Good ns) ∧ (∃ ns, printNodes ns = escStr rChpgn ∧ Good ns) ∧
    (∃ ns, printNodes ns = escStr rTotalPage ∧ Good ns) ∧ (∃ ns, printNodes ns = escStr rNumPages ∧ Good ns) := by
  refine ⟨⟨[cwSp "super".toList], by decide, good_cwSp _ (by decide) (by decide) (by decide)⟩,
    ⟨[cwSp "sub".toList], by decide, good_cwSp _ (by decide) (by decide) (by decide)⟩,
    ⟨[cwSp "line".toList], by decide, good_cwSp _ (by decide) (by decide) (by decide)⟩,
    ⟨[cwSp "chpgn".toList], by decide, good_cwSp _ (by decide) (by decide) (by decide)⟩,
    ⟨[cwSp "totalpage".toList], by decide, good_cwSp _ (by decide) (by decide) (by decide)⟩,
    ⟨fieldNodes ++ [Node.txt [' ']], by decide, good_append good_field good_space⟩⟩

theorem cmp_facts : (∃ ns, printNodes ns = escStr [chGe, ' '] ∧ Good ns) ∧
    (∃ ns, printNodes ns = escStr [chLe, ' '] ∧ Good ns) := by
  refine ⟨⟨chNodes chGe ++ chNodes ' ', ?_, good_append (good_chNodes _ (by decide)) (good_chNodes _ (by decide))⟩,
    ⟨chNodes chLe ++ chNodes ' ', ?_, good_append (good_chNodes _ (by decide)) (good_chNodes _ (by decide))⟩⟩
  · rw [printNodes_append, print_chNodes, print_chNodes, ← escStr_append]; rfl
  · rw [printNodes_append, print_chNodes, print_chNodes, ← escStr_append]; rfl

theorem renderD15_cons (e : Event) (es : List Event) : renderD15 (e :: es) = renderEventD15 e ++ renderD15 es := by
  simp [renderD15]

theorem ev_nodes_aux : ∀ (n : Nat) (es : List Event), es.length ≤ n → evsOk es = true →
    ∃ ns, printNodes ns = escStr (renderD15 es) ∧ Good ns := by
  intro n
  induction n with
  | zero =>
    intro es hl _
    have : es = [] := List.eq_nil_of_length_eq_zero (Nat.le_zero.mp hl)
    subst this
    exact ⟨[], rfl, good_nil⟩
  | succ n ih =>
    intro es hl h
    cases es with
    | nil => exact ⟨[], rfl, good_nil⟩
    | cons e es =>
      have hl' : es.length ≤ n := by simp only [List.length_cons] at hl; omega
      obtain ⟨f1, f2, f3, f4, f5, f6⟩ := fixed_event_facts
      obtain ⟨g1, g2⟩ := cmp_facts
      have step : ∀ (s : Str), (∃ ns, printNodes ns = escStr s ∧ Good ns) → renderEventD15 e = s → evsOk es = true →
          ∃ ns, printNodes ns = escStr (renderD15 (e :: es)) ∧ Good ns := by
        intro s ⟨ns1, hp1, hg1⟩ he hes
        obtain ⟨ns2, hp2, hg2⟩ := ih es hl' hes
        exact ⟨ns1 ++ ns2, by rw [printNodes_append, hp1, hp2, renderD15_cons, he, escStr_append], good_append hg1 hg2⟩
      cases e with
      | plain c =>
        simp only [evsOk, Bool.and_eq_true] at h
        exact step [c] ⟨chNodes c, print_chNodes c, good_chNodes c h.1⟩ rfl h.2
      | mapped c =>
        simp only [evsOk, Bool.and_eq_true] at h
        exact step [c] ⟨chNodes c, print_chNodes c, good_chNodes c h.1⟩ rfl h.2
      | sup => exact step _ f1 rfl (by simpa [evsOk] using h)
      | sub => exact step _ f2 rfl (by simpa [evsOk] using h)
      | ge => exact step _ g1 rfl (by simpa [evsOk] using h)
      | le => exact step _ g2 rfl (by simpa [evsOk] using h)
      | br => exact step _ f3 rfl (by simpa [evsOk] using h)
      | pageNumber => exact step _ f4 rfl (by simpa [evsOk] using h)
      | totalPage => exact step _ f5 rfl (by simpa [evsOk] using h)
      | pageField => exact step _ f6 rfl (by simpa [evsOk] using h)
      | verbatim w =>
        simp only [evsOk, Bool.and_eq_true] at h
        obtain ⟨hm, hes⟩ := h
        cases es with
        | nil => simp at hm
        | cons e2 es2 =>
          cases e2 with
          | plain c =>
            simp only [Bool.and_eq_true, beq_iff_eq] at hm
            obtain ⟨hc, hw⟩ := hm
            subst hc
            simp only [evsOk, Bool.and_eq_true] at hes
            cases w with
            | nil => simp [rawCmd] at hw
            | cons b m =>
              simp only [rawCmd, Bool.and_eq_true, beq_iff_eq, List.contains_eq_mem, decide_eq_true_eq] at hw
              obtain ⟨hb, hn⟩ := hw
              subst hb
              obtain ⟨h1, h2, h3, h4⟩ := rawWords_facts m hn
              have hl2 : es2.length ≤ n := by simp only [List.length_cons] at hl'; omega
              obtain ⟨ns2, hp2, hg2⟩ := ih es2 hl2 hes.2
              refine ⟨[cwSp m] ++ ns2, ?_, good_append (good_cwSp m h1 h2 h3) hg2⟩
              rw [printNodes_append, print_cwSp, hp2, renderD15_cons, renderD15_cons]
              show _ = escStr (('\\' :: m) ++ ([' '] ++ renderD15 es2))
              rw [← List.append_assoc, escStr_append]
              have : ('\\' :: m) ++ [' '] = '\\' :: (m ++ [' ']) := by simp
              rw [this, h4]
          | _ => simp at hm

theorem ev_nodes (es : List Event) (h : evsOk es = true) : ∃ ns, printNodes ns = escStr (renderD15 es) ∧ Good ns :=
  ev_nodes_aux es.length es (Nat.le_refl _) h

theorem hole_conv (t : Str) (h1 : regular t = true) (h2 : evsOk (spec t) = true) :
    HoleOk (lexNodes (escStr (convertCore true t))) := by
  rw [Props.C11.C11_conversion_upto_D15 t h1]
  obtain ⟨ns, hp, hg⟩ := ev_nodes (spec t) h2
  exact hole_of_good _ ns hp hg

/-- every admissible text gives a valid text hole -/
theorem hole_txtOk (conv : Bool) (t : Str) (h : txtOk conv t = true) :
    HoleOk (Model.Encode.textNodes (Model.Encode.convText conv t)) := by
  cases conv with
  | false => exact hole_raw t (by simpa [txtOk] using h)
  | true =>
    simp only [txtOk, if_true, Bool.and_eq_true] at h
    exact hole_conv t h.1 h.2

/-! ### texts without `\ { }` CR are admissible for both values of the flag -/

theorem rawPieces_head : ∀ p ∈ rawPieces, ∀ c, p.head? = some c → plainC c = false := by decide

theorem rawOk_of_plain : ∀ (t : Str), t.all plainC = true → rawOk t = true := by
  intro t
  induction t with
  | nil => intro _; rfl
  | cons c t ih =>
    intro h
    simp only [List.all_cons, Bool.and_eq_true] at h
    have hnone : rawPieces.find? (fun p => p.isPrefixOf (c :: t)) = none := by
      apply List.find?_eq_none.mpr
      intro p hp hpre
      obtain ⟨rest, hrest⟩ := Proofs.Convert.split_of_isPrefixOf hpre
      cases p with
      | nil => exact absurd rfl (rawPieces_ne [] hp)
      | cons a q =>
        simp only [List.cons_append, List.cons.injEq] at hrest
        have := rawPieces_head _ hp a rfl
        rw [← hrest.1, h.1] at this
        cases this
    show rawGo 0 (c :: t) = true
    simp only [rawGo, hnone, h.1, Bool.true_and]
    exact ih h.2

theorem evsOk_token {pat : Str} {e : Event} (h : (pat, e) ∈ docTokens) (es : List Event) :
    evsOk (e :: es) = evsOk es := by
  rcases Proofs.Convert.docTokens_mem h with ⟨_, rfl⟩ | ⟨_, rfl⟩ | ⟨_, rfl⟩ | ⟨_, rfl⟩ | ⟨_, rfl⟩ | ⟨_, rfl⟩ | ⟨_, rfl⟩ |
    ⟨_, rfl⟩ <;> simp [evsOk]

theorem conv_of_plain_aux : ∀ (n : Nat) (t : Str), t.length ≤ n → t.all plainC = true →
    regularGo 0 t = true ∧ evsOk (specGo latexTable 0 t) = true := by
  intro n
  induction n with
  | zero =>
    intro t hl _
    have : t = [] := List.eq_nil_of_length_eq_zero (Nat.le_zero.mp hl)
    subst this
    exact ⟨rfl, by rw [Proofs.Convert.spec_nil]; rfl⟩
  | succ n ih =>
    intro t hl h
    cases t with
    | nil => exact ⟨rfl, by rw [Proofs.Convert.spec_nil]; rfl⟩
    | cons c t =>
      cases hf : findTok (c :: t) with
      | some pe =>
        obtain ⟨pat, e⟩ := pe
        obtain ⟨hmem, rest, hrest⟩ := Proofs.Convert.findTok_some hf
        have hne := Proofs.Convert.tok_ne_nil hmem
        have hlen : rest.length ≤ n := by
          have h1 : (c :: t).length = pat.length + rest.length := by rw [hrest]; simp
          have h2 : 0 < pat.length := List.length_pos_iff.mpr hne
          simp only [List.length_cons] at hl h1
          omega
        have hrp : rest.all plainC = true := by
          rw [hrest, List.all_append, Bool.and_eq_true] at h
          exact h.2
        rw [hrest] at hf ⊢
        obtain ⟨i1, i2⟩ := ih rest hlen hrp
        rw [Proofs.Convert.regular_tok hf, Proofs.Convert.spec_tok latexTable hf, evsOk_token hmem]
        exact ⟨i1, i2⟩
      | none =>
        simp only [List.all_cons, Bool.and_eq_true] at h
        have hc : c ≠ '\\' := by
          intro e; subst e
          have := h.1
          revert this; decide
        have hlen : t.length ≤ n := by simp only [List.length_cons] at hl; omega
        obtain ⟨i1, i2⟩ := ih t hlen h.2
        rw [Proofs.Convert.regular_copy hf hc, Proofs.Convert.spec_copy latexTable hf hc]
        exact ⟨i1, by simp only [evsOk, h.1, i2, Bool.and_self]⟩

/-- a text without raw `\`, `{`, `}`, CR (LF allowed) is admissible whatever the `convert` flag is -/
theorem txtOk_of_plain (conv : Bool) (t : Str) (h : t.all plainC = true) : txtOk conv t = true := by
  cases conv with
  | false => simpa [txtOk] using rawOk_of_plain t h
  | true =>
    obtain ⟨h1, h2⟩ := conv_of_plain_aux t.length t (Nat.le_refl _) h
    simp only [txtOk, if_true, Bool.and_eq_true]
    exact ⟨h1, h2⟩

end Proofs.ConvNodes
